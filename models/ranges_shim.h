// Minimal stand-in for libstdc++-12 <ranges> views, which clang-14 cannot compile.
// Provides std::views::filter / std::views::transform with operator| and begin()/end().
#ifndef VERIF_RANGES_SHIM
#define VERIF_RANGES_SHIM
#include <iterator>
#include <functional>
#include <type_traits>
#include <utility>
#include <bits/ranges_base.h>
#include <bits/ranges_algo.h>
namespace std::ranges {
namespace shim {
template<class It, class F> struct filter_iter {
    using iterator_category = std::forward_iterator_tag; using difference_type = std::ptrdiff_t;
    using value_type = typename std::iterator_traits<It>::value_type; using reference = decltype(*std::declval<It&>()); using pointer = void;
    It cur{}, last{}; const F *f = nullptr;
    void skip() { while (cur != last && !std::invoke(*f, *cur)) ++cur; }
    reference operator*() const { return *cur; }
    filter_iter &operator++() { ++cur; skip(); return *this; }
    filter_iter operator++(int) { auto t = *this; ++*this; return t; }
    bool operator==(const filter_iter &o) const { return cur == o.cur; }
    bool operator!=(const filter_iter &o) const { return cur != o.cur; }
};
template<class It, class F> struct transform_iter {
    using iterator_category = std::forward_iterator_tag; using difference_type = std::ptrdiff_t;
    using reference = std::invoke_result_t<const F &, decltype(*std::declval<It&>())>;
    using value_type = std::remove_cvref_t<reference>; using pointer = void;
    It cur{}; const F *f = nullptr;
    reference operator*() const { return std::invoke(*f, *cur); }
    transform_iter &operator++() { ++cur; return *this; }
    transform_iter operator++(int) { auto t = *this; ++*this; return t; }
    bool operator==(const transform_iter &o) const { return cur == o.cur; }
    bool operator!=(const transform_iter &o) const { return cur != o.cur; }
};
template<class R> struct ref_holder { R *r; auto begin() const { return std::begin(*r); } auto end() const { return std::end(*r); } };
template<class R> struct own_holder { mutable R r; auto begin() const { return r.begin(); } auto end() const { return r.end(); } };
template<class R> auto hold(R &&r) { if constexpr (std::is_lvalue_reference_v<R>) return ref_holder<std::remove_reference_t<R>>{ &r }; else return own_holder<std::remove_cvref_t<R>>{ std::forward<R>(r) }; }
template<class H, class F> struct filter_view {
    H h; F f; using It = decltype(std::declval<const H &>().begin());
    auto begin() const { filter_iter<It, F> i{ h.begin(), h.end(), &f }; i.skip(); return i; }
    auto end() const { return filter_iter<It, F>{ h.end(), h.end(), &f }; }
    bool empty() const { return begin() == end(); }
};
template<class H, class F> struct transform_view {
    H h; F f; using It = decltype(std::declval<const H &>().begin());
    auto begin() const { return transform_iter<It, F>{ h.begin(), &f }; }
    auto end() const { return transform_iter<It, F>{ h.end(), &f }; }
    bool empty() const { return begin() == end(); }
};
template<class F> struct filter_adaptor { F f; };
template<class F> struct transform_adaptor { F f; };
template<class R, class F> auto operator|(R &&r, filter_adaptor<F> a) { return filter_view<decltype(hold(std::forward<R>(r))), F>{ hold(std::forward<R>(r)), std::move(a.f) }; }
template<class R, class F> auto operator|(R &&r, transform_adaptor<F> a) { return transform_view<decltype(hold(std::forward<R>(r))), F>{ hold(std::forward<R>(r)), std::move(a.f) }; }
}  // namespace shim
namespace views {
template<class F> auto filter(F f) { return shim::filter_adaptor<F>{ std::move(f) }; }
template<class F> auto transform(F f) { return shim::transform_adaptor<F>{ std::move(f) }; }
}  // namespace views
}  // namespace std::ranges
namespace std { namespace views = ranges::views; }
#endif
