// Declarations available to every C++ harness. All are C symbols provided by models/base.h or inlined by ll2c.
#pragma once
extern "C" {
void vp_assert(bool cond, const char *msg);   // becomes __CPROVER_assert(cond, "PROP: msg")
void vp_assume(bool cond);
bool vp_case_bool(unsigned i);               // i-th structural choice: constant under -DVP_CASE=<mask>, else nondeterministic
unsigned vp_case_u(unsigned shift, unsigned n);  // small enumeration choice (< n) from bits [shift..] of VP_CASE, else nondeterministic
unsigned char vp_u8(); unsigned short vp_u16(); unsigned vp_u32(); unsigned long long vp_u64(); bool vp_bool();
}
static inline int vp_int() { return (int)vp_u32(); }
template<typename T> struct VpRaw { alignas(T) char b[sizeof(T)]; T *p() { return reinterpret_cast<T *>(b); } T &operator*() { return *p(); } T *operator->() { return p(); } };
