/* libQt5Core boundary: QObject / QMetaObject (contract model, reusable by every harness that drives a QObject subclass).
   - QObject::QObject / ~QObject work on real storage {vptr, d_ptr}: d_ptr points to a block that starts with Qt's QObjectData
     layout {vptr, q_ptr, parent, children, flags, postedEvents, metaObject} (so inline QObject::parent()/isWidgetType() and
     moc's metaObject() read sensible values) followed by ghost fields (alive, deleteLater requested, QPointer block).
     Objects in raw storage that were never constructed are fine too, as long as nothing reads d_ptr.
   - QMetaObject::activate = signal emission: appended to a ghost log (sender, meta object, local signal index, argv, argv[1],
     argv[2]); nothing is dispatched (connections are not modelled: connect()/disconnect() only count).
     -DVP_ACTIVATE_HOOK=<fn>: `void fn(char *sender, char *mo, uint32_t idx, char **argv)` (a C function of another model file
     or F_<harness function>) is called on every emission, e.g. to snapshot the arguments while they are alive.
   - QObject::sender() returns what the harness set with vp_qobject_set_sender().
   - QPointer / QWeakPointer<QObject>: one ExternalRefCountData per object, strongref becomes 0 in ~QObject.
   C++ side: declarations in vp_object.h. */
#ifndef VP_SIGLOG_CAP
#define VP_SIGLOG_CAP 4
#endif
struct vp_erc { uint32_t weak; uint32_t strong; char *destroyer; };
struct vp_qobjdata { char *vptr; char *q_ptr; char *parent; char *children; uint32_t flags; uint32_t postedEvents; char *metaObject;
                     /* ghost */ uint8_t alive, delete_later; uint32_t nconnect; struct vp_erc erc; };
struct vp_sigrec { char *sender; char *mo; uint32_t idx; char **argv; char *a1; char *a2; };
static struct vp_sigrec vp_siglog[VP_SIGLOG_CAP];
static uint32_t vp_nsig, vp_nconnect, vp_ndisconnect;
static char *vp_cur_sender;
#ifdef VP_ACTIVATE_HOOK
void VP_ACTIVATE_HOOK(char *sender, char *mo, uint32_t idx, char **argv);
#endif
#define QOD(o) (*(struct vp_qobjdata**)((char*)(o) + 8))
/* ---- construction / destruction ---- */
static void vp_qobject_init(char *self, char *parent) { struct vp_qobjdata *d = malloc(sizeof(struct vp_qobjdata)); ASSUME(d != 0);
  d->vptr = 0; d->q_ptr = self; d->parent = parent; d->children = 0; d->flags = 0; d->postedEvents = 0; d->metaObject = 0;
  d->alive = 1; d->delete_later = 0; d->nconnect = 0; d->erc.weak = 1; d->erc.strong = (uint32_t)-1; d->erc.destroyer = 0; QOD(self) = d; }
void _ZN7QObjectC2EPS_(char *self, char *parent) { vp_qobject_init(self, parent); }
void _ZN7QObjectC1EPS_(char *self, char *parent) { vp_qobject_init(self, parent); }
static void vp_qobject_fini(char *self) { struct vp_qobjdata *d = QOD(self); ASSERT(d != 0 && d->alive, "QObject destroyed twice or never constructed"); d->alive = 0; d->erc.strong = 0; }
void _ZN7QObjectD2Ev(char *self) { vp_qobject_fini(self); }
void _ZN7QObjectD1Ev(char *self) { vp_qobject_fini(self); }
void _ZN7QObjectD0Ev(char *self) { vp_qobject_fini(self); free(self); }
void _ZN7QObject9setParentEPS_(char *self, char *parent) { QOD(self)->parent = parent; }
void _ZN7QObject11deleteLaterEv(char *self) { QOD(self)->delete_later = 1; }
char* _ZNK7QObject6senderEv(char *self) { return vp_cur_sender; }
/* harness side */
void vp_qobject_construct(char *self, char *parent) { vp_qobject_init(self, parent); }   /* raw storage -> constructed QObject part (vptr untouched) */
void vp_qobject_set_sender(char *s) { vp_cur_sender = s; }
uint8_t vp_qobject_alive(char *self) { return QOD(self)->alive; }
uint8_t vp_qobject_delete_later(char *self) { return QOD(self)->delete_later; }
/* ---- signals ---- */
static void vp_activate(char *sender, char *mo, uint32_t idx, char **argv) {
  ASSERT(vp_nsig < VP_SIGLOG_CAP, "QObject model: signal log full (raise VP_SIGLOG_CAP)"); ASSUME(vp_nsig < VP_SIGLOG_CAP);
  struct vp_sigrec *r = &vp_siglog[vp_nsig++]; r->sender = sender; r->mo = mo; r->idx = idx; r->argv = argv; r->a1 = 0; r->a2 = 0;
#ifdef VP_ACTIVATE_HOOK
  VP_ACTIVATE_HOOK(sender, mo, idx, argv);
#endif
}
void _ZN11QMetaObject8activateEP7QObjectPKS_iPPv(char *sender, char *mo, uint32_t idx, char *argv) { vp_activate(sender, mo, idx, (char**)argv); }
uint32_t vp_sig_count(void) { return vp_nsig; }
char* vp_sig_sender(uint32_t i) { ASSUME(i < VP_SIGLOG_CAP); return vp_siglog[i].sender; }
char* vp_sig_meta(uint32_t i) { ASSUME(i < VP_SIGLOG_CAP); return vp_siglog[i].mo; }
uint32_t vp_sig_index(uint32_t i) { ASSUME(i < VP_SIGLOG_CAP); return vp_siglog[i].idx; }
void vp_sig_reset(void) { vp_nsig = 0; }
/* ---- connections: not modelled, only counted (a harness that needs a slot to run calls it itself) ---- */
void _ZN11QMetaObject10ConnectionC1Ev(char *self) { *(char**)self = 0; }
void _ZN11QMetaObject10ConnectionC1ERKS0_(char *self, char *o) { *(char**)self = *(char**)o; }
void _ZN11QMetaObject10ConnectionD1Ev(char *self) { }
void _ZN7QObject11connectImplEPKS_PPvS1_S3_PN9QtPrivate15QSlotObjectBaseEN2Qt14ConnectionTypeEPKiPK11QMetaObject(char *ret, char *sender, char *sig, char *recv, char *slot, char *slotobj, uint32_t type, char *types, char *mo) { vp_nconnect++; *(char**)ret = slotobj; }
void _ZN7QObject7connectEPKS_PKcS1_S3_N2Qt14ConnectionTypeE(char *ret, char *sender, char *sig, char *recv, char *slot, uint32_t type) { vp_nconnect++; *(char**)ret = sender; }
uint8_t _ZN7QObject14disconnectImplEPKS_PPvS1_S3_PK11QMetaObject(char *sender, char *sig, char *recv, char *slot, char *mo) { vp_ndisconnect++; return 1; }
uint8_t _ZN7QObject10disconnectEPKS_PKcS1_S3_(char *sender, char *sig, char *recv, char *slot) { vp_ndisconnect++; return 1; }
char* _Z13qFlagLocationPKc(char *method) { return method; }
uint32_t vp_connect_count(void) { return vp_nconnect; }
uint32_t vp_disconnect_count(void) { return vp_ndisconnect; }
/* ---- qobject_cast: only the null case is decided here; anything else needs the class hierarchy (assert) ---- */
char* _ZNK11QMetaObject4castEP7QObject(char *mo, char *o) { if (!o) return 0; ASSERT(0, "QMetaObject::cast of a non-null object is not modelled"); ASSUME(0); return 0; }
char* _ZNK11QMetaObject4castEPK7QObject(char *mo, char *o) { if (!o) return 0; ASSERT(0, "QMetaObject::cast of a non-null object is not modelled"); ASSUME(0); return 0; }
/* ---- QPointer ---- */
char* _ZN15QtSharedPointer20ExternalRefCountData9getAndRefEPK7QObject(char *o) { struct vp_qobjdata *d = QOD(o); d->erc.weak++; return (char*)&d->erc; }
