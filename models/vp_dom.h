// C++ side of the DOM / QXmlStreamWriter tree model (models/qt_dom.c) and of the QString/QByteArray model (models/qt_core.c).
#pragma once
#include <QDomElement>
#include <QXmlStreamWriter>
#include <QString>
#include <QByteArray>
#include "vp_harness.h"
extern "C" {
void vp_sym_string(QString *out, int maxlen);          // fresh symbolic QString, 0..maxlen arbitrary UTF-16 code units
void vp_sym_string_nonempty(QString *out, int maxlen); // 1..maxlen units
void vp_sym_bytes(QByteArray *out, int maxlen);
void vp_sym_string_exact(QString *out, int len);      // exactly len arbitrary units; the length is a constant for symex
void vp_sym_bytes_exact(QByteArray *out, int len);        // fresh symbolic QByteArray, 0..maxlen arbitrary bytes
void vp_writer_init(void *w);                          // model QXmlStreamWriter (no device)
void vp_writer_root(void *w, QDomElement *out);        // the document element written so far (must be complete)
bool vp_dom_equal(const QDomElement *a, const QDomElement *b);   // same tree up to attribute order (sibling order significant)
bool vp_dom_same_shape(const QDomElement *a, const QDomElement *b); // same element/attribute names and structure, contents ignored
unsigned vp_dom_count(const QDomElement *a);           // number of elements in the tree
// symbolic tree construction (for parser-safety harnesses)
void vp_dom_new(QDomElement *out, const QString *tag, const QString *ns);
void vp_dom_set_attr(QDomElement *el, const QString *name, const QString *value);
void vp_dom_set_text(QDomElement *el, const QString *text);
void vp_dom_append(QDomElement *parent, const QDomElement *child);
}
struct VpWriter {
    alignas(QXmlStreamWriter) char b[sizeof(QXmlStreamWriter)];
    VpWriter() { vp_writer_init(b); }
    QXmlStreamWriter *writer() { return reinterpret_cast<QXmlStreamWriter *>(b); }
    QDomElement root() { QDomElement e; vp_writer_root(b, &e); return e; }
};
static inline QString vpSymString(int maxlen) { QString s; vp_sym_string(&s, maxlen); return s; }
static inline QString vpSymStringNonEmpty(int maxlen) { QString s; vp_sym_string_nonempty(&s, maxlen); return s; }
// string whose emptiness is the i-th structural choice (empty strings usually suppress an element/attribute)
static inline QString vpSymStringExact(int len) { QString s; vp_sym_string_exact(&s, len); return s; }
// emptiness is the i-th structural choice; a non-empty one has exactly `len` units so that isEmpty() folds
static inline QString vpSymStringCase(unsigned i, int len) { return vp_case_bool(i) ? vpSymStringExact(len) : QString(); }
static inline QByteArray vpSymBytesExact(int len) { QByteArray s; vp_sym_bytes_exact(&s, len); return s; }
static inline QByteArray vpSymBytes(int maxlen) { QByteArray s; vp_sym_bytes(&s, maxlen); return s; }
