// C++ side of qt_object.c (QObject / QMetaObject contract model)
#pragma once
#include <QObject>
extern "C" {
void vp_qobject_construct(void *self, QObject *parent);   // raw storage -> constructed QObject part (vptr untouched)
void vp_qobject_set_sender(QObject *s);                   // what QObject::sender() returns
bool vp_qobject_alive(const QObject *o);
bool vp_qobject_delete_later(const QObject *o);
unsigned vp_sig_count();                                  // number of signal emissions (QMetaObject::activate) so far
QObject *vp_sig_sender(unsigned i);
const QMetaObject *vp_sig_meta(unsigned i);
int vp_sig_index(unsigned i);                             // local signal index within vp_sig_meta(i)
void vp_sig_reset();
unsigned vp_connect_count();
unsigned vp_disconnect_count();
}
