# C16 / srv - the QXmppServer side: routing tables, handleElement, _q_clientConnected / _q_clientDisconnected (fragment merged into SPEC by the driver)
SRV_TUS = ['src/base/QXmppSasl.cpp', 'src/base/QXmppUtils.cpp', 'src/base/QXmppStreamManagement.cpp', 'src/base/QXmppStanza.cpp', 'src/base/QXmppIq.cpp',
           'src/base/QXmppBindIq.cpp', 'src/base/QXmppNonza.cpp', 'src/base/Stream.cpp', 'src/server/QXmppPasswordChecker.cpp', 'src/server/QXmppServerExtension.cpp']
SRV_MODELS = ['srv_pre.c', 'c16_pre.c', 'qt_core.c', 'qt_list.c', 'qt_dom.c', 'qt_object.c', 'srv_mid.c', 'c16_env.c', 'srv_env.c']
SRV_LB = {r'^_ZNSt6ranges14__copy_or_move': 70, r'^_ZN13QConcatenableI10QByteArrayE8appendTo': 16, r'catB': 12, r'^_ZN18QXmppServerPrivate9routeData': 5,
          r'^_ZN5QListI7QStringE13node_destruct': 7}   # QStringList of the split model: LIST_CAP = 6 slots, all valid blocks; one more round would read before the array
SQ = ('quick', 'thorough'); ST = ('thorough',)
def SI(name, entry, **kw):
    small = kw.pop('small', False)
    d = dict(name=name, entry='h_' + entry, unwind=8, timeout_s=300, mem_gb=3, object_bits=12, cdefs={'VP_ACTIVATE_HOOK': 'srv_on_signal'}, bound=''); d.update(kw)
    if small: d['cdefs'] = dict(d['cdefs'], SRV_JIDLEN=5, SRV_NCONN_LIVE=2); d['bound'] = d['bound'].replace('3 REAL QXmppIncomingClient objects (A sender, V, T)', '2 REAL QXmppIncomingClient objects (A sender, V; the third is absent)').replace('0..8 UTF-16 units', '0..5 UTF-16 units').replace('0..8 units', '0..5 units').replace('1..8 units', '1..5 units')
    return d
B_TABLES = ('routing state: 3 REAL QXmppIncomingClient objects (A sender, V, T), each with an arbitrary address of 0..8 UTF-16 units (empty = unauthenticated), '
            'each a member or not of incomingClients / incomingClientsByJid / incomingClientsByBareJid under the representation invariant; domain = 1 arbitrary unit; ')
B_EL = 'element: tag in {iq,message,presence,x}, type in {absent,get,set,result,error,subscribe,chat,unavailable}, id 0..1 unit, from = address or bare address of A, to = ARBITRARY 0..8 units (<= 2 "@"), no payload; 0..1 extension with an arbitrary verdict; S2S disabled'
TAGS = ['iq', 'message', 'presence', 'x']; TYPES = ['absent', 'get', 'set', 'result', 'error', 'subscribe', 'chat', 'unavailable']
def RC(name, entry, tag, typ, ext, **kw):
    case = tag | (typ << 2) | (ext << 5) | (kw.pop('frombare', 0) << 6)
    return SI(name, entry, small=kw.pop('small', False), cdefs={'VP_ACTIVATE_HOOK': 'srv_on_signal', 'VP_CASE': case},
              bound=B_TABLES + 'element <%s type=%s>, id 0..1 unit, from = address or bare address of A, to = ARBITRARY 0..8 units (<= 2 "@"), no payload; %s; S2S disabled; %s' % (TAGS[tag], TYPES[typ], 'one extension with an arbitrary verdict' if ext else 'no extension', kw.pop('runs')), **kw)
R_DEL = 'runs in which the stanza reaches at least one connection'; R_BNC = 'runs in which the server answers with an error iq'; R_DROP = 'runs in which nothing is delivered'
B_CONN = B_TABLES + 'event: _q_clientConnected with sender S = a live connection without routing entry whose address has a non-empty resource'
B_DISC = B_TABLES + 'event: _q_clientDisconnected with sender S = connection 0 in an arbitrary registration state (live or not, authenticated or not, owner of its address entry or replaced by another connection)'
SRV_INST = [
    # ---- quick: reduced state (2 connections, addresses <= 5 units) ----
    SI('srv_connected_s', 'srv_connected', small=True, bound=B_CONN),
    SI('srv_disconnected_s', 'srv_disconnected', small=True, bound=B_DISC),
    RC('srv_route_msg_deliver_s', 'srv_route_deliver', 1, 6, 0, small=True, runs=R_DEL),
    # ---- thorough: the other element shapes on the reduced state ----
    RC('srv_route_msg_drop_s', 'srv_route_drop', 1, 6, 0, small=True, tiers=ST, runs=R_DROP),
    RC('srv_route_msg_ext_s', 'srv_route_drop', 1, 6, 1, small=True, tiers=ST, runs=R_DROP),
    RC('srv_route_pres_bare_s', 'srv_route_deliver', 2, 5, 0, small=True, frombare=1, tiers=ST, runs=R_DEL),
    RC('srv_route_x_s', 'srv_route_deliver', 3, 0, 0, small=True, tiers=ST, runs=R_DEL),
    RC('srv_route_iqget_bounce_s', 'srv_route_bounce', 0, 1, 0, small=True, tiers=ST, mem_gb=4, runs=R_BNC),
    RC('srv_route_iqset_drop_s', 'srv_route_drop', 0, 2, 0, small=True, tiers=ST, mem_gb=4, runs=R_DROP),
    RC('srv_route_iqget_ext_s', 'srv_route_deliver', 0, 1, 1, small=True, tiers=ST, mem_gb=4, runs=R_DEL),
    SI('srv_nosender_c0', 'srv_foreign_sender', small=True, tiers=ST, cdefs={'VP_ACTIVATE_HOOK': 'srv_on_signal', 'VP_CASE': 0}, bound=B_TABLES + 'event: _q_clientDisconnected called directly (sender() null)'),
    SI('srv_nosender_c1', 'srv_foreign_sender', small=True, tiers=ST, cdefs={'VP_ACTIVATE_HOOK': 'srv_on_signal', 'VP_CASE': 1}, bound=B_TABLES + 'event: _q_clientConnected called directly (sender() null)'),
    # ---- thorough: full state (3 connections, addresses <= 8 units) ----
    SI('srv_connected', 'srv_connected', tiers=ST, bound=B_CONN),
    SI('srv_disconnected', 'srv_disconnected', tiers=ST, bound=B_DISC),
    SI('srv_add_client', 'srv_add_client', tiers=ST, bound=B_TABLES + 'event: addIncomingClient(S) for a connection S that is not yet live'),
    RC('srv_route_msg_deliver', 'srv_route_deliver', 1, 6, 0, tiers=ST, runs=R_DEL),
    RC('srv_route_msg_drop', 'srv_route_drop', 1, 6, 0, tiers=ST, runs=R_DROP),
    RC('srv_route_iqget_deliver', 'srv_route_deliver', 0, 1, 0, tiers=ST, mem_gb=5, timeout_s=400, runs=R_DEL),
    RC('srv_route_iqget_bounce', 'srv_route_bounce', 0, 1, 0, tiers=ST, mem_gb=5, timeout_s=400, runs=R_BNC),
    # ---- GENUINE DEFECTS of the unchanged tree: kept, not run (tiers=()); see the final report / OUTSIDE ----
    # (1) handleStanza answers an undeliverable iq of type error/result with another error iq (RFC 6120 8.2.3 rule 5; ping-pong over s2s)
    RC('srv_route_iqerr_bounce', 'srv_route_bounce', 0, 4, 0, tiers=(), mem_gb=5, timeout_s=400, runs=R_BNC),
    # (2) a second <bind/> on one stream leaves the old full-JID entry behind (dangling after the connection is deleted)
    SI('srv_rebind', 'srv_rebind', small=True, tiers=(), bound=B_TABLES + 'event: _q_clientConnected with sender S already registered under an OLD address (1..5 units, same bare part, different resource)'),
]
GROUPS = [
    dict(name='srv', harness='srv_h.cpp', tus=SRV_TUS, models=SRV_MODELS, ranges_shim=True, loop_bounds=SRV_LB,
         instances=SRV_INST),
]

BOUNDS = [
    'srv: single steps of the REAL QXmppServer.cpp (handleElement/handleStanza, sendElement, sendPacket, QXmppServerPrivate::routeData, _q_clientConnected, _q_clientDisconnected, addIncomingClient) from an ARBITRARY routing state: 3 REAL QXmppIncomingClient objects, address of each = arbitrary string of 0..8 UTF-16 units (reduced instances *_s: 2 connections, 0..5 units), served domain = 1 arbitrary unit other than "@", "/", "."; each connection a member or not of incomingClients, value or not of incomingClientsByJid[address], member or not of incomingClientsByBareJid[bare(address)]',
    'srv element: tag iq | message | presence | x and type absent | get | set | result | error | subscribe | chat | unavailable (one instance per combination listed; not every combination is instantiated), id 0..1 unit, from = address or bare address of the sender, to = ARBITRARY string of 0..8 (0..5) units with at most two "@" (covers empty, the domain, bare/full JID of the victim, unknown resource, foreign domain, the sender itself, junk), no child elements, no text; 0..1 server extension with an arbitrary handleStanza verdict',
    'srv tables: class-level array models, capacity 3 entries each (QSet<T*>, QHash<QString,QXmppIncomingClient*>, QHash<QString,QSet<..>>); QList capacity 6',
]
ASSUMPTIONS = [
    'srv ASSUME-GUARANTEE: handleElement is entered with an element as QXmppIncomingClient hands it over - its from is the address or the bare address of a LIVE connection with a non-empty address (established for the real QXmppIncomingClient by client_auth_route / client_unauth of this property); _q_clientConnected is entered with sender() = a live connection whose address has a non-empty resource (client_auth_bind)',
    'srv REPRESENTATION INVARIANT of the routing tables (derived from addIncomingClient / _q_clientConnected / _q_clientDisconnected, re-established by srv_connected*, srv_disconnected*, srv_add_client, srv_nosender_*): (I1) incomingClientsByJid maps a key to ONE connection, which is a member of incomingClients, has a non-empty address, and whose address equals the key; (I2) a member of incomingClientsByBareJid[b] is a member of incomingClients with a non-empty address whose bare part is b, and a bucket exists exactly while it has a member; (I3) the connection that owns a full-JID entry is listed under its bare JID.  NOT part of the invariant (real behaviour, checked): a connection that was replaced by a newer one with the same full JID stays listed under the bare JID (and keeps receiving bare-addressed stanzas) until its disconnected signal arrives.  (I1) "address equals key" is BROKEN by the real code when a stream binds a second time (known defect, instance srv_rebind)',
    'srv: connection objects are REAL QXmppIncomingClient objects in raw storage (jid(), sendData(), disconnectFromHost() are the real members); XmppSocket::sendData / disconnectFromHost are a per-socket ghost log; QMetaObject::invokeMethod(conn, "sendData", Q_ARG(QByteArray, data)) runs the real slot synchronously (receiver lives in the server thread)',
    'srv: QXmlStreamWriter(QByteArray*) is the shared writer tree model; the byte array carries the tree to the socket model (serialise -> wire never goes through text); a delivered element is compared with the handed-over element as a tree (tag, all attributes incl. from/to/id/type, children, text; the jabber:client default namespace is not re-declared)',
    'srv: QString::split("@") of jidToDomain is a right-aligned QStringList model (at most 6 pieces); no static plugins (QPluginLoader::staticInstances() is empty); QSslCertificate / QSslKey / QDateTime members are opaque; QXmppLoggable signals have no effect; private-data destructors and list deallocation of the QXmppIq objects built for the error answer are skipped (no memory-reclamation claim, as harness/C20)',
    'srv: S2S is disabled (serversForServers empty): routeData to a foreign domain returns false',
]
OUTSIDE = [
    'srv: server-to-server routing (serversForServers non-empty: outgoing connection lookup / creation, QXmppOutgoingServer, dialback, QXmppIncomingServer as a source of handleElement), TLS material, listenForClients/_q_clientConnection (QSslSocket, QTcpServer), close(), plugins loading extensions',
    'srv: payload of routed stanzas (child elements and text): elements are routed with their attributes only; the shared DOM model keeps text outside the child list, so helperToXmlAddDomElement\'s text branch is not exercised',
    'srv: iq of type result / error on the general instances: the unchanged tree answers them when they are undeliverable (defect 1, instance srv_route_iqerr_bounce, tiers=()); content of the <error/> child of the server\'s answer (condition service-unavailable / feature-not-implemented) is not compared',
    'srv: synchronous re-entry (a socket whose disconnectFromHost() emits disconnected() before _q_clientConnected returns); histories longer than one step beyond the inductive reading; more than 3 connections; addresses longer than 8 units or with more than two "@"',
]
