// C16 - the server routes only for authenticated clients and stamps their true address.
// Single inductive steps of the REAL QXmppIncomingClient (handleStanza, onPasswordReply, onDigestReply, onSasl2Authenticated,
// QXmppIncomingClientPrivate::checkCredentials), the REAL SASL server objects (QXmppSasl.cpp) and nonza parsers, from an arbitrary
// private state {jid (empty = unauthenticated), resource, domain, SASL object kind/step/user}.
#include "c16.h"
#ifndef C16_PAYLOAD
#define C16_PAYLOAD 5   // bytes of the PLAIN message
#endif

// tables of c16_env.c (vp_c16_pick)
enum { TB_TAG = 0, TB_TYPE = 1, TB_CHILD = 2, TB_CHILDNS = 3, TB_NS = 4, TB_MECH = 5, TB_OTAG = 6, TB_STAG = 7 };
enum { TAG_IQ, TAG_MESSAGE, TAG_PRESENCE, TAG_OTHER, NTAG };
enum { TY_NONE, TY_SET, TY_GET, TY_SUBSCRIBE, TY_SUBSCRIBED, TY_RESULT, TY_OTHER, NTYPE };
enum { CH_BIND, CH_SESSION, CH_OTHER, NCHILD };
enum { CNS_BIND, CNS_SESSION, CNS_OTHER, CNS_INHERIT, NCHILDNS };

static QString pick(unsigned table, unsigned idx) { QString s; vp_c16_pick(&s, table, idx); return s; }
static QDomElement mkElement(const QString &tag, const QString &ns) { QDomElement e; vp_dom_new(&e, &tag, &ns); return e; }
static void setAttr(QDomElement &e, const QString &name, const QString &v) { vp_dom_set_attr(&e, &name, &v); }

// ---- one stanza in jabber:client ------------------------------------------------------------------------------------------------
struct ClientStanza {
    unsigned tag, type, child, childNs, nchild;
    QString from, to, id, resText;
    QDomElement el;
    void build()
    {
        tag = vp_u8(); vp_assume(tag < NTAG);
        type = vp_u8(); vp_assume(type < NTYPE);
        child = vp_u8(); vp_assume(child < NCHILD);
        childNs = vp_u8(); vp_assume(childNs < NCHILDNS);
        el = mkElement(pick(TB_TAG, tag), ns_client.toString());
        from = vpSymString(4); to = vpSymString(3); id = vpSymString(1);
        setAttr(el, QStringLiteral("type"), pick(TB_TYPE, type));
        setAttr(el, QStringLiteral("from"), from);
        setAttr(el, QStringLiteral("to"), to);
        setAttr(el, QStringLiteral("id"), id);
        // first child: <bind|session|x xmlns=bind|session|other|inherited> with <resource>text</resource> inside
        QDomElement c = mkElement(pick(TB_CHILD, child), pick(TB_CHILDNS, childNs));
        QDomElement r = mkElement(QStringLiteral("resource"), QString());
        resText = vpSymString(2);
        vp_dom_set_text(&r, &resText);
        vp_dom_append(&c, &r);
        vp_dom_append(&el, &c);
        nchild = vp_u8(); vp_assume(nchild <= 1);
        vp_dom_truncate(&el, nchild);
    }
    bool isBindSet() const { return tag == TAG_IQ && type == TY_SET && nchild == 1 && child == CH_BIND && childNs == CNS_BIND; }
    bool isSessionSet() const { return tag == TAG_IQ && type == TY_SET && nchild == 1 && child == CH_SESSION && childNs == CNS_SESSION; }
};

static bool sentNothingOrClosed() { return vp_c16_sent_n() == 0 || vp_c16_ndisconnect() > 0; }

// (1) UNAUTHENTICATED connection, any jabber:client stanza: nothing is routed, no resource is bound, the connection stays
//     unauthenticated, nothing is answered (unless the stream is torn down).
extern "C" void h_client_unauth()
{
    World w(0);
    ClientStanza s; s.build();
    w.q->handleStanza(s.el);
    vp_assert(w.count(SIG_ELEMENT) == 0, "C16 no stanza of an unauthenticated connection is handed to routing (elementReceived)");
    vp_assert(w.count(SIG_CONNECTED) == 0, "C16 an unauthenticated connection is never announced as connected (resource bound)");
    vp_assert(w.d->jid.isEmpty(), "C16 a jabber:client stanza never authenticates the connection");
    vp_assert(eq(w.d->resource, w.resource0), "C16 no resource is bound before authentication");
    vp_assert(sentNothingOrClosed(), "C16 a stanza of an unauthenticated connection is not answered");
}

// (2) AUTHENTICATED connection (jid = arbitrary non-empty string), any jabber:client stanza.
//     mode: which outcome the run must end in (coverage of each outcome by the witness): 0 routed, 1 bound, 2 neither
static void client_auth(int mode)
{
    World w(1);
    ClientStanza s; s.build();
    const QString bare0 = QXmppUtils::jidToBareJid(w.jid0);
    w.q->handleStanza(s.el);
    unsigned nel = w.count(SIG_ELEMENT), nco = w.count(SIG_CONNECTED);
    vp_assert(nel <= 1 && nco <= 1 && nel + nco <= 1, "C16 one stanza is routed at most once / binds at most once");
    if (nel == 1) {
        // QDomElement is an explicitly shared handle: the element handed to routing is a handle to the received node (stamped in place)
        vp_assert(w.routed() == s.el, "C16 the element handed to routing is the received stanza");
        const QString f = s.el.attribute(QStringLiteral("from"));
        vp_assert(eq(f, w.jid0) || eq(f, bare0), "C16 a routed stanza carries the authenticated address (full or bare) as its from");
        vp_assert(s.from.isEmpty() || eq(s.from, w.jid0) || eq(s.from, bare0), "C16 a stanza claiming a foreign from is not routed");
        vp_assert(s.tag != TAG_OTHER, "C16 only iq/message/presence are handed to routing");
        vp_assert(eq(w.d->jid, w.jid0), "C16 routing a stanza does not change the authenticated address");
    }
    if (nco == 1) {
        vp_assert(s.isBindSet(), "C16 connected is announced only for a resource-binding request");
        vp_assert(!w.d->resource.isEmpty(), "C16 a bound resource is not empty");
        vp_assert(vp_c16_concat_eq(&w.d->jid, &bare0, '/', &w.d->resource), "C16 binding keeps the authenticated bare address and only sets the resource");
    }
    if (nco == 0) vp_assert(eq(w.d->jid, w.jid0) && eq(w.d->resource, w.resource0), "C16 address and resource change only by binding");
    vp_assume(mode == 0 ? nel == 1 : mode == 1 ? nco == 1 : nel + nco == 0);
}
extern "C" void h_client_auth_route() { client_auth(0); }
extern "C" void h_client_auth_bind() { client_auth(1); }
extern "C" void h_client_auth_drop() { client_auth(2); }

// ---- (3) elements outside jabber:client and the SASL namespaces: <starttls/> and anything foreign -------------------------------
extern "C" void h_other_ns()
{
    World w(2);
    unsigned tagi = vp_u8(), nsi = vp_u8(); vp_assume(tagi < 5 && nsi >= 3 && nsi < 6);   // ns: tls | jabber:server | none
    QDomElement el = mkElement(pick(TB_OTAG, tagi), pick(TB_NS, nsi));
    setAttr(el, QStringLiteral("from"), vpSymString(3)); setAttr(el, QStringLiteral("to"), vpSymString(3)); setAttr(el, QStringLiteral("type"), pick(TB_TYPE, 1));
    w.q->handleStanza(el);
    vp_assert(w.count(SIG_ELEMENT) == 0 && w.count(SIG_CONNECTED) == 0, "C16 elements outside jabber:client are never routed and never bind");
    vp_assert(eq(w.d->jid, w.jid0) && eq(w.d->resource, w.resource0), "C16 elements outside jabber:client / SASL never change address or resource");
    const bool starttls = tagi == 0 && nsi == 3;
    vp_assert(vp_c16_ntls() == (starttls ? 1u : 0u), "C16 TLS is started exactly for <starttls xmlns=tls/>");
    vp_assert(vp_c16_sent_n() == (starttls ? 1u : 0u), "C16 only <starttls/> is answered (with <proceed/>)");
}

// ---- SASL -------------------------------------------------------------------------------------------------------------------------
enum { M_PLAIN, M_DIGEST, M_ANON, M_SCRAM, M_LOWER, M_NONE, NMECH };
static QByteArray asciiBytes(int maxlen)
{
    QByteArray raw = vpSymBytes(maxlen);
    for (int i = 0; i < maxlen; i++) if (i < raw.size()) vp_assume((unsigned char)raw.at(i) < 0x80);   // UTF-8 codec is Qt's (identity on ASCII)
    return raw;
}
static void setB64Text(QDomElement &e, const QByteArray &raw) { QString t; vp_c16_b64_text(&t, &raw); vp_dom_set_text(&e, &t); }   // raw must be non-empty
static void noAuthEffect(World &w, const char *msg)
{
    vp_assert(w.count(SIG_ELEMENT) == 0 && w.count(SIG_CONNECTED) == 0 && eq(w.d->jid, w.jid0) && eq(w.d->resource, w.resource0), msg);
}
static bool failedAndClosed(unsigned failureKind) { return vp_c16_sent_n() == 1 && vp_c16_sent_kind(0) == failureKind && vp_c16_ndisconnect() == 1; }

// (4) <auth xmlns=sasl mechanism=M>base64(payload)</auth> with a non-empty payload
static void sasl_auth(bool sasl2)
{
    World w(2);
    unsigned mech = vp_case_u(0, NMECH);
    QByteArray raw = asciiBytes(C16_PAYLOAD); vp_assume(!raw.isEmpty());
    QDomElement el;
    if (!sasl2) { el = mkElement(QStringLiteral("auth"), ns_sasl.toString()); setB64Text(el, raw); }
    else {
        el = mkElement(QStringLiteral("authenticate"), ns_sasl_2.toString());
        QDomElement ir = mkElement(QStringLiteral("initial-response"), QString()); setB64Text(ir, raw); vp_dom_append(&el, &ir);
    }
    setAttr(el, QStringLiteral("mechanism"), pick(TB_MECH, mech));
    w.q->handleStanza(el);
    unsigned lvl = vp_case_u(4, 4);
    if (lvl == 1) return;
    noAuthEffect(w, "C16 an <auth/> request alone never authenticates, binds or routes");
    if (lvl == 2) return;
    const unsigned K_FAIL = sasl2 ? K_SASL2_FAILURE : K_SASL_FAILURE, K_CHAL = sasl2 ? K_SASL2_CHALLENGE : K_SASL_CHALLENGE;
    if (mech == M_PLAIN) {
        const unsigned ref = vp_c16_plain_ref(&raw, &w.checker.user, &w.checker.password);   // RFC 4616 reference parse
        if (ref & 1) {
            vp_assert(w.checker.nCheck == 1 && w.checker.nDigest == 0, "C16 PLAIN: the password checker is asked exactly once");
            if (lvl == 3) return;
            vp_assert(ref == 7 && eq(w.checker.domain, w.domain), "C16 PLAIN: the checker is asked for exactly the user, password and domain presented");
            vp_assert(w.d->saslServer && eq(w.d->saslServer->username(), w.checker.user), "C16 PLAIN: the pending exchange remembers the user the checker was asked about");
            vp_assert(vp_c16_sent_n() == 0 && vp_c16_ndisconnect() == 0, "C16 PLAIN: no answer before the checker replies");
        } else {
            vp_assert(w.checker.nCheck == 0 && w.checker.nDigest == 0, "C16 PLAIN: a malformed message is not submitted to the checker");
            vp_assert(failedAndClosed(K_FAIL), "C16 PLAIN: a malformed message is answered with <failure/> and the stream is closed");
        }
    } else if (mech == M_DIGEST) {
        vp_assert(w.checker.nCheck == 0 && w.checker.nDigest == 0, "C16 DIGEST-MD5: the first step asks nothing of the checker");
        vp_assert(vp_c16_sent_n() == 1 && vp_c16_sent_kind(0) == K_CHAL && vp_c16_ndisconnect() == 0, "C16 DIGEST-MD5: the first step sends the challenge");
    } else {
        vp_assert(w.checker.nCheck == 0 && w.checker.nDigest == 0, "C16 other mechanisms never reach the checker");
        vp_assert(failedAndClosed(K_FAIL), "C16 unknown / ANONYMOUS mechanism is answered with <failure/> and the stream is closed");
        if (mech != M_ANON) vp_assert(!w.d->saslServer, "C16 unknown mechanism leaves no SASL exchange pending");
    }
}
extern "C" void h_sasl_auth() { sasl_auth(false); }
extern "C" void h_sasl2_auth() { sasl_auth(true); }

// (5) no password checker configured: every SASL element is refused
extern "C" void h_sasl_nochecker()
{
    World w(2, false);
    unsigned nsi = vp_u8(), tagi = vp_u8(); vp_assume(nsi < 2 && tagi < 5);
    QDomElement el = mkElement(pick(TB_STAG, tagi), pick(TB_NS, nsi));
    setAttr(el, QStringLiteral("mechanism"), pick(TB_MECH, M_PLAIN));
    { QByteArray r = asciiBytes(3); vp_assume(!r.isEmpty()); setB64Text(el, r); }
    w.q->handleStanza(el);
    noAuthEffect(w, "C16 without a password checker nobody is authenticated");
    vp_assert(failedAndClosed(nsi == 0 ? K_SASL_FAILURE : K_SASL2_FAILURE), "C16 without a password checker every SASL element is answered with <failure/> and the stream is closed");
}
