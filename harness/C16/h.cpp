// C16 - the server routes only for authenticated clients and stamps their true address.
// Single inductive steps of the REAL QXmppIncomingClient (handleStanza, onPasswordReply, onDigestReply, onSasl2Authenticated,
// QXmppIncomingClientPrivate::checkCredentials), the REAL SASL server objects (QXmppSasl.cpp) and nonza parsers, from an arbitrary
// private state {jid (empty = unauthenticated), resource, domain, SASL object kind/step/user}.
#include "c16.h"
#ifndef C16_PAYLOAD
#define C16_PAYLOAD 5   // bytes of the PLAIN message
#endif

// tables of c16_env.c (vp_c16_pick)
enum { TB_TAG = 0, TB_TYPE = 1, TB_CHILD = 2, TB_CHILDNS = 3, TB_NS = 4, TB_MECH = 5, TB_OTAG = 6, TB_STAG = 7 };
enum { TAG_IQ, TAG_MESSAGE, TAG_PRESENCE, TAG_OTHER, NTAG };
enum { TY_NONE, TY_SET, TY_GET, TY_SUBSCRIBE, TY_SUBSCRIBED, TY_RESULT, TY_OTHER, NTYPE };
enum { CH_BIND, CH_SESSION, CH_OTHER, NCHILD };
enum { CNS_BIND, CNS_SESSION, CNS_OTHER, CNS_INHERIT, NCHILDNS };

static QString pick(unsigned table, unsigned idx) { QString s; vp_c16_pick(&s, table, idx); return s; }
static QDomElement mkElement(const QString &tag, const QString &ns) { QDomElement e; vp_dom_new(&e, &tag, &ns); return e; }
static void setAttr(QDomElement &e, const QString &name, const QString &v) { vp_dom_set_attr(&e, &name, &v); }

// ---- one stanza in jabber:client ------------------------------------------------------------------------------------------------
struct ClientStanza {
    unsigned tag, type, child, childNs, nchild;
    QString from, to, id, resText;
    QDomElement el;
    void build()
    {
        tag = vp_u8(); vp_assume(tag < NTAG);
        type = vp_u8(); vp_assume(type < NTYPE);
        child = vp_u8(); vp_assume(child < NCHILD);
        childNs = vp_u8(); vp_assume(childNs < NCHILDNS);
        el = mkElement(pick(TB_TAG, tag), ns_client.toString());
        from = vpSymString(4); to = vpSymString(3); id = vpSymString(1);
        setAttr(el, QStringLiteral("type"), pick(TB_TYPE, type));
        setAttr(el, QStringLiteral("from"), from);
        setAttr(el, QStringLiteral("to"), to);
        setAttr(el, QStringLiteral("id"), id);
        // first child: <bind|session|x xmlns=bind|session|other|inherited> with <resource>text</resource> inside
        QDomElement c = mkElement(pick(TB_CHILD, child), pick(TB_CHILDNS, childNs));
        QDomElement r = mkElement(QStringLiteral("resource"), QString());
        resText = vpSymString(2);
        vp_dom_set_text(&r, &resText);
        vp_dom_append(&c, &r);
        vp_dom_append(&el, &c);
        nchild = vp_u8(); vp_assume(nchild <= 1);
        vp_dom_truncate(&el, nchild);
    }
    bool isBindSet() const { return tag == TAG_IQ && type == TY_SET && nchild == 1 && child == CH_BIND && childNs == CNS_BIND; }
    bool isSessionSet() const { return tag == TAG_IQ && type == TY_SET && nchild == 1 && child == CH_SESSION && childNs == CNS_SESSION; }
};

static bool sentNothingOrClosed() { return vp_c16_sent_n() == 0 || vp_c16_ndisconnect() > 0; }

// (1) UNAUTHENTICATED connection, any jabber:client stanza: nothing is routed, no resource is bound, the connection stays
//     unauthenticated, nothing is answered (unless the stream is torn down).
extern "C" void h_client_unauth()
{
    World w(0);
    ClientStanza s; s.build();
    w.q->handleStanza(s.el);
    vp_assert(w.count(SIG_ELEMENT) == 0, "C16 no stanza of an unauthenticated connection is handed to routing (elementReceived)");
    vp_assert(w.count(SIG_CONNECTED) == 0, "C16 an unauthenticated connection is never announced as connected (resource bound)");
    vp_assert(w.d->jid.isEmpty(), "C16 a jabber:client stanza never authenticates the connection");
    vp_assert(eq(w.d->resource, w.resource0), "C16 no resource is bound before authentication");
    vp_assert(sentNothingOrClosed(), "C16 a stanza of an unauthenticated connection is not answered");
}

// (2) AUTHENTICATED connection (jid = arbitrary non-empty string), any jabber:client stanza.
//     mode: which outcome the run must end in (coverage of each outcome by the witness): 0 routed, 1 bound, 2 neither
static void client_auth(int mode)
{
    World w(1);
    ClientStanza s; s.build();
    const QString bare0 = QXmppUtils::jidToBareJid(w.jid0);
    w.q->handleStanza(s.el);
    unsigned nel = w.count(SIG_ELEMENT), nco = w.count(SIG_CONNECTED);
    vp_assert(nel <= 1 && nco <= 1 && nel + nco <= 1, "C16 one stanza is routed at most once / binds at most once");
    if (nel == 1) {
        // QDomElement is an explicitly shared handle: the element handed to routing is a handle to the received node (stamped in place)
        vp_assert(w.routed() == s.el, "C16 the element handed to routing is the received stanza");
        const QString f = s.el.attribute(QStringLiteral("from"));
        vp_assert(eq(f, w.jid0) || eq(f, bare0), "C16 a routed stanza carries the authenticated address (full or bare) as its from");
        vp_assert(s.from.isEmpty() || eq(s.from, w.jid0) || eq(s.from, bare0), "C16 a stanza claiming a foreign from is not routed");
        vp_assert(s.tag != TAG_OTHER, "C16 only iq/message/presence are handed to routing");
        vp_assert(eq(w.d->jid, w.jid0), "C16 routing a stanza does not change the authenticated address");
    }
    if (nco == 1) {
        vp_assert(s.isBindSet(), "C16 connected is announced only for a resource-binding request");
        vp_assert(!w.d->resource.isEmpty(), "C16 a bound resource is not empty");
        vp_assert(vp_c16_concat_eq(&w.d->jid, &bare0, '/', &w.d->resource), "C16 binding keeps the authenticated bare address and only sets the resource");
    }
    if (nco == 0) vp_assert(eq(w.d->jid, w.jid0) && eq(w.d->resource, w.resource0), "C16 address and resource change only by binding");
    vp_assume(mode == 0 ? nel == 1 : mode == 1 ? nco == 1 : nel + nco == 0);
}
extern "C" void h_client_auth_route() { client_auth(0); }
extern "C" void h_client_auth_bind() { client_auth(1); }
extern "C" void h_client_auth_drop() { client_auth(2); }

// ---- (3) elements outside jabber:client and the SASL namespaces: <starttls/> and anything foreign -------------------------------
extern "C" void h_other_ns()
{
    World w(2);
    unsigned tagi = vp_u8(), nsi = 3 + vp_case_u(0, 3); vp_assume(tagi < 5);   // ns: tls | jabber:server | none (one instance each)
    QDomElement el = mkElement(pick(TB_OTAG, tagi), pick(TB_NS, nsi));
    setAttr(el, QStringLiteral("from"), vpSymString(3)); setAttr(el, QStringLiteral("to"), vpSymString(3)); setAttr(el, QStringLiteral("type"), pick(TB_TYPE, 1));
    w.q->handleStanza(el);
    vp_assert(w.count(SIG_ELEMENT) == 0 && w.count(SIG_CONNECTED) == 0, "C16 elements outside jabber:client are never routed and never bind");
    vp_assert(eq(w.d->jid, w.jid0) && eq(w.d->resource, w.resource0), "C16 elements outside jabber:client / SASL never change address or resource");
    const bool starttls = tagi == 0 && nsi == 3;
    vp_assert(vp_c16_ntls() == (starttls ? 1u : 0u), "C16 TLS is started exactly for <starttls xmlns=tls/>");
    vp_assert(vp_c16_sent_n() == (starttls ? 1u : 0u), "C16 only <starttls/> is answered (with <proceed/>)");
}

// ---- SASL -------------------------------------------------------------------------------------------------------------------------
enum { M_PLAIN, M_DIGEST, M_ANON, M_SCRAM, M_LOWER, M_NONE, NMECH };
static QByteArray asciiBytes(int maxlen)
{
    QByteArray raw = vpSymBytes(maxlen);
    for (int i = 0; i < maxlen; i++) if (i < raw.size()) vp_assume((unsigned char)raw.at(i) < 0x80);   // UTF-8 codec is Qt's (identity on ASCII)
    return raw;
}
static void setB64Text(QDomElement &e, const QByteArray &raw) { QString t; vp_c16_b64_text(&t, &raw); vp_dom_set_text(&e, &t); }   // raw must be non-empty
static void noAuthEffect(World &w, const char *msg)
{
    vp_assert(w.count(SIG_ELEMENT) == 0 && w.count(SIG_CONNECTED) == 0 && eq(w.d->jid, w.jid0) && eq(w.d->resource, w.resource0), msg);
}
static bool failedAndClosed(unsigned failureKind) { return vp_c16_sent_n() == 1 && vp_c16_sent_kind(0) == failureKind && vp_c16_ndisconnect() == 1; }

// (4) <auth xmlns=sasl mechanism=M>base64(payload)</auth> with a non-empty payload
static void sasl_auth(bool sasl2)
{
    World w(2);
    unsigned mech = vp_case_u(0, NMECH);
    QByteArray raw = asciiBytes(C16_PAYLOAD); vp_assume(!raw.isEmpty());
    QDomElement el;
    if (!sasl2) { el = mkElement(QStringLiteral("auth"), ns_sasl.toString()); setB64Text(el, raw); }
    else {
        el = mkElement(QStringLiteral("authenticate"), ns_sasl_2.toString());
        QDomElement ir = mkElement(QStringLiteral("initial-response"), QString()); setB64Text(ir, raw); vp_dom_append(&el, &ir);
    }
    setAttr(el, QStringLiteral("mechanism"), pick(TB_MECH, mech));
    w.q->handleStanza(el);
    noAuthEffect(w, "C16 an <auth/> request alone never authenticates, binds or routes");
    const unsigned K_FAIL = sasl2 ? K_SASL2_FAILURE : K_SASL_FAILURE, K_CHAL = sasl2 ? K_SASL2_CHALLENGE : K_SASL_CHALLENGE;
    if (mech == M_PLAIN) {
        const unsigned ref = vp_c16_plain_ref(&raw, &w.checker.user, &w.checker.password);   // RFC 4616 reference parse
        if (ref & 1) {
            vp_assert(w.checker.nCheck == 1 && w.checker.nDigest == 0, "C16 PLAIN: the password checker is asked exactly once");
            vp_assert(ref == 7 && eq(w.checker.domain, w.domain), "C16 PLAIN: the checker is asked for exactly the user, password and domain presented");
            vp_assert(w.d->saslServer && eq(w.d->saslServer->username(), w.checker.user), "C16 PLAIN: the pending exchange remembers the user the checker was asked about");
            vp_assert(vp_c16_sent_n() == 0 && vp_c16_ndisconnect() == 0, "C16 PLAIN: no answer before the checker replies");
        } else {
            vp_assert(w.checker.nCheck == 0 && w.checker.nDigest == 0, "C16 PLAIN: a malformed message is not submitted to the checker");
            vp_assert(failedAndClosed(K_FAIL), "C16 PLAIN: a malformed message is answered with <failure/> and the stream is closed");
        }
    } else if (mech == M_DIGEST) {
        vp_assert(w.checker.nCheck == 0 && w.checker.nDigest == 0, "C16 DIGEST-MD5: the first step asks nothing of the checker");
        vp_assert(vp_c16_sent_n() == 1 && vp_c16_sent_kind(0) == K_CHAL && vp_c16_ndisconnect() == 0, "C16 DIGEST-MD5: the first step sends the challenge");
    } else {
        vp_assert(w.checker.nCheck == 0 && w.checker.nDigest == 0, "C16 other mechanisms never reach the checker");
        vp_assert(failedAndClosed(K_FAIL), "C16 unknown / ANONYMOUS mechanism is answered with <failure/> and the stream is closed");
        if (mech != M_ANON) vp_assert(!w.d->saslServer, "C16 unknown mechanism leaves no SASL exchange pending");
    }
}
extern "C" void h_sasl_auth() { sasl_auth(false); }
extern "C" void h_sasl2_auth() { sasl_auth(true); }

// (5) no password checker configured: every SASL element is refused
extern "C" void h_sasl_nochecker()
{
    World w(2, false);
    unsigned nsi = vp_u8(), tagi = vp_u8(); vp_assume(nsi < 2 && tagi < 5);
    QDomElement el = mkElement(pick(TB_STAG, tagi), pick(TB_NS, nsi));
    setAttr(el, QStringLiteral("mechanism"), pick(TB_MECH, M_PLAIN));
    { QByteArray r = asciiBytes(3); vp_assume(!r.isEmpty()); setB64Text(el, r); }
    w.q->handleStanza(el);
    noAuthEffect(w, "C16 without a password checker nobody is authenticated");
    vp_assert(failedAndClosed(nsi == 0 ? K_SASL_FAILURE : K_SASL2_FAILURE), "C16 without a password checker every SASL element is answered with <failure/> and the stream is closed");
}

// ---- pre-states with a pending SASL exchange --------------------------------------------------------------------------------------
static QString asciiString(int maxlen, bool nonEmpty = false)
{
    QString s = nonEmpty ? vpSymStringNonEmpty(maxlen) : vpSymString(maxlen);
    for (int i = 0; i < maxlen; i++) if (i < s.size()) vp_assume(s.at(i).unicode() < 0x80 && s.at(i).unicode() != 0);
    return s;
}
static QString cat3(const QString &a, char16_t ch, const QString &b) { QString r; vp_c16_concat(&r, &a, ch, &b); return r; }
// installs a SASL server object of the given mechanism (real QXmppSaslServer::create) with an arbitrary recorded user name
static QXmppSaslServer *installServer(World &w, unsigned mech, const QString &user)
{
    w.d->saslServer = QXmppSaslServer::create(pick(TB_MECH, mech), w.q);
    QXmppSaslServer *s = w.d->saslServer.get();
    s->setRealm(w.domain); s->setUsername(user);
    return s;
}
static void sasl2Pending(World &w, bool bind, const QString &tag)
{
    w.d->saslVersion = QXmppIncomingClientPrivate::Sasl2;
    w.d->sasl2AuthRequest = Sasl2::Authenticate();
    if (bind) { Bind2Request b; b.tag = tag; w.d->sasl2AuthRequest->bindRequest = b; }
}

// (6) the password checker answers a PLAIN request.  VP_CASE bit0: SASL2, bit1: with inline bind, bit2: bind tag non-empty
extern "C" void h_password_reply()
{
    World w(2);
    const bool sasl2 = vp_case_bool(0), bind = sasl2 && vp_case_bool(1);
    const QString user = asciiString(3);
    const QString tag = vp_case_bool(2) ? asciiString(2, true) : QString();
    auto *srv = static_cast<QXmppSaslServerPlain *>(installServer(w, M_PLAIN, user)); srv->m_step = 1;
    if (sasl2) sasl2Pending(w, bind, tag);
    auto *reply = new QXmppPasswordReply; vp_c16_set_class(reply, &QXmppPasswordReply::staticMetaObject);
    unsigned err = vp_u8(); vp_assume(err <= 2);
    reply->setError(QXmppPasswordReply::Error(err));
    vp_qobject_set_sender(reply);
    w.q->onPasswordReply();
    vp_assert(w.count(SIG_ELEMENT) == 0, "C16 a checker reply routes nothing");
    vp_assert(vp_qobject_delete_later(reply), "C16 the reply object is released");
    if (err == QXmppPasswordReply::NoError) {
        const QString bare = cat3(user, u'@', w.domain);
        if (!bind) {
            vp_assert(eq(w.d->jid, bare), "C16 an approved exchange authenticates exactly the user the checker was asked about");
            vp_assert(eq(w.d->resource, w.resource0) && w.count(SIG_CONNECTED) == 0, "C16 authentication alone binds no resource");
        } else {
            vp_assume(QXmppUtils::jidToBareJid(bare) == bare);   // the approved account name contains no '/' (not a valid localpart, RFC 7622)
            vp_assert(vp_c16_concat_eq(&w.d->jid, &bare, '/', &w.d->resource) && !w.d->resource.isEmpty(), "C16 inline bind: the address is the approved user plus the new resource");
            vp_assert(w.count(SIG_CONNECTED) == 1, "C16 inline bind announces the connection once");
        }
        vp_assert(vp_c16_ndisconnect() == 0 && vp_c16_sent_n() == 1 && vp_c16_sent_kind(0) == (sasl2 ? K_SASL2_SUCCESS : K_SASL_SUCCESS), "C16 success is reported to the client");
    } else {
        vp_assert(eq(w.d->jid, w.jid0) && eq(w.d->resource, w.resource0) && w.count(SIG_CONNECTED) == 0, "C16 a refused or failed check leaves the connection as it was (unauthenticated stays unauthenticated)");
        vp_assert(failedAndClosed(sasl2 ? K_SASL2_FAILURE : K_SASL_FAILURE), "C16 a refused or failed check is answered with <failure/> and the stream is closed");
    }
}
// (7) a finished() signal that does not come from a password reply has no effect
extern "C" void h_reply_foreign_sender()
{
    World w(2);
    installServer(w, M_PLAIN, asciiString(2));
    vp_qobject_set_sender(vp_bool() ? static_cast<QObject *>(w.q) : nullptr);
    if (vp_bool()) w.q->onPasswordReply(); else w.q->onDigestReply();
    noAuthEffect(w, "C16 only a password reply can complete an exchange");
    vp_assert(vp_c16_sent_n() == 0, "C16 nothing is sent for a foreign finished() signal");
}

// (8) <response/> (SASL or SASL2) in an arbitrary exchange state.  VP_CASE bits 0-2: server kind/step, bit 3: SASL2
enum { R_NONE, R_PLAIN0, R_PLAIN1, R_ANON1, R_DIGEST0, R_DIGEST1, R_DIGEST2, R_DIGEST3, NRESP };
static QByteArray exactBytes(unsigned n, bool ascii) { QByteArray b; vp_c16_bytes_exact(&b, n, ascii); return b; }
static void setDigestInput(unsigned slot, const QByteArray &v, bool present = true) { vp_c16_digest_input(slot, &v, present); }
enum { D_REALM, D_URI, D_QOP, D_USER, D_NC, D_CNONCE, D_RESPONSE, D_NONCE };
struct DigestMsg {
    QByteArray realm, uri, qop, user, nc, cnonce, response;
    void build()
    {
        // fixed lengths: every concatenation inside the digest computation then has a concrete length
        realm = exactBytes(1, true); uri = exactBytes(1, true); nc = exactBytes(1, true); cnonce = exactBytes(1, true); user = exactBytes(2, true);
        qop = vp_bool() ? QByteArray("auth") : exactBytes(4, true);
        response = exactBytes(4, false);
        setDigestInput(D_REALM, realm); setDigestInput(D_URI, uri); setDigestInput(D_QOP, qop); setDigestInput(D_USER, user);
        setDigestInput(D_NC, nc); setDigestInput(D_CNONCE, cnonce); setDigestInput(D_RESPONSE, response);
    }
};
static QByteArray md5(const QByteArray &d) { return QCryptographicHash::hash(d, QCryptographicHash::Md5); }
static QByteArray catB(std::initializer_list<QByteArray> parts) { QByteArray r; for (const auto &p : parts) r.append(p); return r; }
// RFC 2831 2.1.2.1: response-value = HEX(KD(HEX(H(A1)), nonce ":" nc ":" cnonce ":" qop ":" HEX(H(A2)))), A1 = secret ":" nonce ":" cnonce, A2 = "AUTHENTICATE:" digest-uri
static QByteArray refDigest(const QByteArray &uri, const QByteArray &secret, const QByteArray &nonce, const QByteArray &cnonce, const QByteArray &nc)
{
    QByteArray ha1 = md5(catB({ secret, ":", nonce, ":", cnonce })).toHex();
    QByteArray ha2 = md5(catB({ QByteArray("AUTHENTICATE"), ":", uri })).toHex();
    return md5(catB({ ha1, ":", nonce, ":", nc, ":", cnonce, ":auth:", ha2 })).toHex();
}
extern "C" void h_sasl_response()
{
    World w(2);
    const unsigned st = vp_case_u(0, NRESP); const bool sasl2 = vp_case_bool(3);
    const QString user = asciiString(2);
    QXmppSaslServer *srv = nullptr;
    if (st == R_PLAIN0 || st == R_PLAIN1) { srv = installServer(w, M_PLAIN, user); static_cast<QXmppSaslServerPlain *>(srv)->m_step = st == R_PLAIN0 ? 0 : 1; }
    if (st == R_ANON1) { srv = installServer(w, M_ANON, user); static_cast<QXmppSaslServerAnonymous *>(srv)->m_step = 1; }
    DigestMsg msg;
    if (st >= R_DIGEST0) {
        srv = installServer(w, M_DIGEST, user); static_cast<QXmppSaslServerDigestMd5 *>(srv)->m_step = int(st - R_DIGEST0);
        msg.build();
        if (vp_case_bool(4)) srv->setPasswordDigest(exactBytes(2, false));   // a digest may be left over from an earlier round
    }
    if (sasl2) sasl2Pending(w, false, QString());
    QByteArray raw = asciiBytes(4); vp_assume(!raw.isEmpty());
    QDomElement el = mkElement(QStringLiteral("response"), sasl2 ? ns_sasl_2.toString() : ns_sasl.toString()); setB64Text(el, raw);
    w.q->handleStanza(el);
    vp_assert(w.count(SIG_ELEMENT) == 0 && w.count(SIG_CONNECTED) == 0 && eq(w.d->resource, w.resource0), "C16 a <response/> never routes and never binds");
    if (st == R_DIGEST2) {
        // step 2 is only reached through a verified response (h_digest_reply); the final empty round completes the exchange
        vp_assert(eq(w.d->jid, cat3(user, u'@', w.domain)), "C16 DIGEST-MD5: the verified user becomes the authenticated address");
        vp_assert(vp_c16_ndisconnect() == 0 && vp_c16_sent_n() == 1 && vp_c16_sent_kind(0) == (sasl2 ? K_SASL2_SUCCESS : K_SASL_SUCCESS), "C16 DIGEST-MD5: success is reported");
    } else {
        vp_assert(eq(w.d->jid, w.jid0), "C16 a <response/> authenticates only in the final round of a verified DIGEST-MD5 exchange");
        vp_assert(vp_c16_sent_n() == 0 || vp_c16_sent_kind(0) != (sasl2 ? K_SASL2_SUCCESS : K_SASL_SUCCESS), "C16 no <success/> without authentication");
    }
    if (st == R_NONE || st == R_PLAIN1 || st == R_ANON1 || st == R_DIGEST3) vp_assert(failedAndClosed(sasl2 ? K_SASL2_FAILURE : K_SASL_FAILURE), "C16 a <response/> outside an exchange is answered with <failure/> and the stream is closed");
    if (st == R_DIGEST1 && w.checker.nDigest == 1) {
        const QString u = QString::fromUtf8(msg.user);
        vp_assert(eq(w.checker.user, u) && eq(w.checker.domain, w.domain) && eq(srv->username(), u), "C16 DIGEST-MD5: the checker is asked for the digest of exactly the user named in the response");
    }
    vp_assert(w.checker.nCheck + w.checker.nDigest <= 1, "C16 at most one request to the checker per element");
}

// (9) the password checker delivers the stored digest for a pending DIGEST-MD5 response.  VP_CASE bit0: SASL2
extern "C" void h_digest_reply()
{
    World w(2);
    const bool sasl2 = vp_case_bool(0);
    const QString user0 = asciiString(2);
    auto *srv = static_cast<QXmppSaslServerDigestMd5 *>(installServer(w, M_DIGEST, user0)); srv->m_step = 1;
    DigestMsg msg; msg.build();
    if (sasl2) sasl2Pending(w, false, QString());
    auto *reply = new QXmppPasswordReply; vp_c16_set_class(reply, &QXmppPasswordReply::staticMetaObject);
    unsigned err = vp_u8(); vp_assume(err <= 2);
    reply->setError(QXmppPasswordReply::Error(err));
    const QByteArray stored = vp_case_bool(1) ? exactBytes(2, false) : QByteArray();
    reply->setDigest(stored);
    reply->setProperty("__sasl_raw", QByteArray("x"));
    vp_qobject_set_sender(reply);
    const QByteArray nonce = srv->m_nonce;
    w.q->onDigestReply();
    noAuthEffect(w, "C16 DIGEST-MD5: the digest reply alone never authenticates, binds or routes");
    const unsigned K_FAIL = sasl2 ? K_SASL2_FAILURE : K_SASL_FAILURE, K_CHAL = sasl2 ? K_SASL2_CHALLENGE : K_SASL_CHALLENGE;
    // the reply is an ARBITRARY (error, digest) pair: a checker may deliver a digest together with an error
    if (err != QXmppPasswordReply::NoError) {
        vp_assert(srv->m_step == 1, "C16 DIGEST-MD5: the exchange never advances on a checker reply that reports an error (unknown user / lookup failure), whatever digest comes with it");
        vp_assert(failedAndClosed(K_FAIL), "C16 DIGEST-MD5: a checker error ends the exchange with <failure/> and the stream is closed");
    } else {
        const bool ok = msg.qop == QByteArray("auth") && !stored.isEmpty() && msg.response == refDigest(msg.uri, stored, nonce, msg.cnonce, msg.nc);
        vp_assert((srv->m_step == 2) == ok && (srv->m_step == 1) == !ok, "C16 DIGEST-MD5: the exchange advances iff the response equals the RFC 2831 digest over the stored secret and the server nonce");
        vp_assert(ok ? (vp_c16_sent_n() == 1 && vp_c16_sent_kind(0) == K_CHAL && vp_c16_ndisconnect() == 0) : failedAndClosed(K_FAIL), "C16 DIGEST-MD5: wrong response is answered with <failure/> and the stream is closed");
        if (ok) vp_assert(eq(srv->username(), QString::fromUtf8(msg.user)), "C16 DIGEST-MD5: the verified user is the one named in the response");
    }
}

// (10) <abort xmlns=sasl2/> and anything else in the SASL namespaces
extern "C" void h_sasl_misc()
{
    World w(2);
    unsigned nsi = vp_u8(), tagi = vp_u8(); vp_assume(nsi < 2 && tagi >= 2 && tagi < 5 && !(tagi == 3 && nsi == 1));   // abort | authenticate@sasl | success
    installServer(w, M_PLAIN, asciiString(2)); static_cast<QXmppSaslServerPlain *>(w.d->saslServer.get())->m_step = 1;
    sasl2Pending(w, false, QString());
    QDomElement el = mkElement(pick(TB_STAG, tagi), pick(TB_NS, nsi));
    w.q->handleStanza(el);
    noAuthEffect(w, "C16 <abort/> and unknown SASL elements never authenticate, bind or route");
    vp_assert(w.checker.nCheck + w.checker.nDigest == 0, "C16 <abort/> and unknown SASL elements never reach the checker");
    vp_assert(vp_c16_sent_n() == ((tagi == 2 && nsi == 1) ? 1u : 0u), "C16 only <abort xmlns=sasl2/> is answered");
    if (vp_c16_sent_n() == 1) vp_assert(vp_c16_sent_kind(0) == K_SASL2_FAILURE, "C16 <abort/> is answered with <failure/>");
}

// (11) default QXmppPasswordChecker::checkPassword on top of getPassword(): approved iff the stored password was found and is equal
struct StoreChecker final : QXmppPasswordChecker {
    QXmppPasswordReply::Error err; QString secret, askedUser, askedDomain; unsigned n = 0;
    QXmppPasswordReply::Error getPassword(const QXmppPasswordRequest &r, QString &password) override { n++; askedUser = r.username(); askedDomain = r.domain(); if (err == QXmppPasswordReply::NoError) password = secret; return err; }
    bool hasGetPassword() const override { return true; }
};
// (11b) default QXmppPasswordChecker::getDigest on top of getPassword(): digest = MD5(user:domain:password) if the lookup succeeded;
//       otherwise the error is passed on
extern "C" void h_digest_default()
{
    vpC16Warm();
    StoreChecker c; unsigned e = vp_u8(); vp_assume(e <= 2); c.err = QXmppPasswordReply::Error(e);
    c.secret = QString::fromLatin1(exactBytes(vp_case_u(0, 3), true));                 // stored password: 0..2 ASCII units (one instance per length)
    QXmppPasswordRequest req; const QString u = QString::fromLatin1(exactBytes(1, true)), dom = QString::fromLatin1(exactBytes(1, true));
    req.setUsername(u); req.setDomain(dom); req.setPassword(vpSymString(1));
    QXmppPasswordReply *reply = c.QXmppPasswordChecker::getDigest(req);
    vp_assert(c.n == 1 && eq(c.askedUser, u) && eq(c.askedDomain, dom), "C16 default getDigest looks up exactly the requested user and domain");
    vp_assert(reply->error() == c.err, "C16 default getDigest reports the outcome of the lookup");
    if (e == QXmppPasswordReply::NoError) {
        const QByteArray ref = md5(cat3(cat3(u, u':', dom), u':', c.secret).toUtf8());   // RFC 2831: H(username ":" realm ":" passwd), same oracle
        vp_assert(reply->digest() == ref, "C16 default getDigest delivers MD5(user:domain:password) of the stored password");
    }
    // NOT asserted: "no digest is delivered when the lookup failed". The property needs only that a failed lookup is REPORTED (asserted
    // above): digest_reply_* show that onDigestReply refuses every reply with an error whatever digest it carries. (Asserting it was
    // more than the property states: seed C16-1, harmless since the onDigestReply repair, was flagged by it.)
    vp_assert(!reply->isFinished(), "C16 the reply finishes later (asynchronously)");
}
extern "C" void h_checker_default()
{
    vpC16Warm();
    StoreChecker c; unsigned e = vp_u8(); vp_assume(e <= 2); c.err = QXmppPasswordReply::Error(e); c.secret = vpSymString(2);
    QXmppPasswordRequest req; const QString u = vpSymString(2), p = vpSymString(2), dom = vpSymString(1);
    req.setUsername(u); req.setPassword(p); req.setDomain(dom);
    QXmppPasswordReply *reply = c.QXmppPasswordChecker::checkPassword(req);
    vp_assert(c.n == 1 && eq(c.askedUser, u) && eq(c.askedDomain, dom), "C16 default checker looks up exactly the requested user and domain");
    vp_assert((reply->error() == QXmppPasswordReply::NoError) == (e == QXmppPasswordReply::NoError && eq(p, c.secret)), "C16 default checker approves iff the stored password exists and equals the given one");
    if (e != QXmppPasswordReply::NoError) vp_assert(reply->error() == c.err, "C16 default checker passes lookup errors on");
    vp_assert(!reply->isFinished(), "C16 the reply finishes later (asynchronously)");
}

// (12) stream (re)start: <stream:stream to=X>: right / wrong domain; a pending exchange is dropped, the authentication state is kept
extern "C" void h_stream_open()
{
    World w(2);
    if (vp_bool()) installServer(w, M_PLAIN, asciiString(2));
    QDomElement el = mkElement(QStringLiteral("stream"), QStringLiteral("http://etherx.jabber.org/streams"));
    const QString to = vpSymString(2);
    setAttr(el, QStringLiteral("to"), to);
    w.q->handleStream(el);
    noAuthEffect(w, "C16 opening a stream never authenticates, binds or routes");
    vp_assert(!w.d->saslServer, "C16 a stream restart drops the pending SASL exchange");
    const bool right = eq(to, w.domain);
    vp_assert((vp_c16_ndisconnect() == 0) == right, "C16 a stream for a foreign domain is closed, one for the served domain is not");
    vp_assert(vp_c16_nfeatures() == (right ? 1u : 0u), "C16 stream features are offered only for the served domain");
    vp_assert(w.checker.nCheck + w.checker.nDigest == 0, "C16 opening a stream asks nothing of the checker");
}

// (13) KNOWN FINDING (runs only when listed): a checker reply is applied to whatever exchange is current when it arrives, not to the
// exchange that issued the request.  Two pipelined PLAIN requests "NUL u1 NUL p1", "NUL u2 NUL p2"; the checker approves the FIRST.
struct TwoChecker final : QXmppPasswordChecker {
    unsigned n = 0; QString user[2]; QXmppPasswordReply *reply[2] = { nullptr, nullptr };
    QXmppPasswordReply *checkPassword(const QXmppPasswordRequest &r) override
    {
        auto *rp = new QXmppPasswordReply; vp_c16_set_class(rp, &QXmppPasswordReply::staticMetaObject);
        if (n < 2) { user[n] = r.username(); reply[n] = rp; } n++;
        return rp;
    }
};
static QByteArray plainMsg(const QByteArray &u, const QByteArray &p) { QByteArray m; m.append('\0'); m.append(u); m.append('\0'); m.append(p); return m; }
extern "C" void h_reply_race()
{
    World w(0);
    TwoChecker chk; w.d->passwordChecker = &chk;
    for (int k = 0; k < 2; k++) {
        QDomElement el = mkElement(QStringLiteral("auth"), ns_sasl.toString());
        setAttr(el, QStringLiteral("mechanism"), pick(TB_MECH, M_PLAIN));
        // concrete messages NUL a NUL x / NUL b NUL y: the split positions stay concrete (a demonstration, not a quantified claim)
        setB64Text(el, plainMsg(QByteArray(k == 0 ? "a" : "b"), QByteArray(k == 0 ? "x" : "y")));
        w.q->handleStanza(el);
    }
    vp_assume(chk.n == 2);
    chk.reply[0]->setError(QXmppPasswordReply::NoError);      // the checker approves (u1, p1)
    vp_qobject_set_sender(chk.reply[0]);
    w.q->onPasswordReply();
    vp_assert(w.d->jid.isEmpty() || eq(w.d->jid, cat3(chk.user[0], u'@', w.domain)), "C16 the connection is authenticated only as the user whose credentials the checker approved");
}
