// C16 - the server routes only for authenticated clients and stamps their true address.
// Single inductive steps of the REAL QXmppIncomingClient (handleStanza, onPasswordReply, onDigestReply, onSasl2Authenticated,
// QXmppIncomingClientPrivate::checkCredentials), the REAL SASL server objects (QXmppSasl.cpp) and nonza parsers, from an arbitrary
// private state {jid (empty = unauthenticated), resource, domain, SASL object kind/step/user}.
#include "c16.h"

// tables of c16_env.c (vp_c16_pick)
enum { TB_TAG = 0, TB_TYPE = 1, TB_CHILD = 2, TB_CHILDNS = 3, TB_NS = 4, TB_MECH = 5 };
enum { TAG_IQ, TAG_MESSAGE, TAG_PRESENCE, TAG_OTHER, NTAG };
enum { TY_NONE, TY_SET, TY_GET, TY_SUBSCRIBE, TY_SUBSCRIBED, TY_RESULT, TY_OTHER, NTYPE };
enum { CH_BIND, CH_SESSION, CH_OTHER, NCHILD };
enum { CNS_BIND, CNS_SESSION, CNS_OTHER, CNS_INHERIT, NCHILDNS };

static QString pick(unsigned table, unsigned idx) { QString s; vp_c16_pick(&s, table, idx); return s; }
static QDomElement mkElement(const QString &tag, const QString &ns) { QDomElement e; vp_dom_new(&e, &tag, &ns); return e; }
static void setAttr(QDomElement &e, const QString &name, const QString &v) { vp_dom_set_attr(&e, &name, &v); }

// ---- one stanza in jabber:client ------------------------------------------------------------------------------------------------
struct ClientStanza {
    unsigned tag, type, child, childNs, nchild;
    QString from, to, id, resText;
    QDomElement el;
    void build()
    {
        tag = vp_u8(); vp_assume(tag < NTAG);
        type = vp_u8(); vp_assume(type < NTYPE);
        child = vp_u8(); vp_assume(child < NCHILD);
        childNs = vp_u8(); vp_assume(childNs < NCHILDNS);
        el = mkElement(pick(TB_TAG, tag), ns_client.toString());
        from = vpSymString(4); to = vpSymString(3); id = vpSymString(1);
        setAttr(el, QStringLiteral("type"), pick(TB_TYPE, type));
        setAttr(el, QStringLiteral("from"), from);
        setAttr(el, QStringLiteral("to"), to);
        setAttr(el, QStringLiteral("id"), id);
        // first child: <bind|session|x xmlns=bind|session|other|inherited> with <resource>text</resource> inside
        QDomElement c = mkElement(pick(TB_CHILD, child), pick(TB_CHILDNS, childNs));
        QDomElement r = mkElement(QStringLiteral("resource"), QString());
        resText = vpSymString(2);
        vp_dom_set_text(&r, &resText);
        vp_dom_append(&c, &r);
        vp_dom_append(&el, &c);
        nchild = vp_u8(); vp_assume(nchild <= 1);
        vp_dom_truncate(&el, nchild);
    }
    bool isBindSet() const { return tag == TAG_IQ && type == TY_SET && nchild == 1 && child == CH_BIND && childNs == CNS_BIND; }
    bool isSessionSet() const { return tag == TAG_IQ && type == TY_SET && nchild == 1 && child == CH_SESSION && childNs == CNS_SESSION; }
};

static bool sentNothingOrClosed() { return vp_c16_sent_n() == 0 || vp_c16_ndisconnect() > 0; }

// (1) UNAUTHENTICATED connection, any jabber:client stanza: nothing is routed, no resource is bound, the connection stays
//     unauthenticated, nothing is answered (unless the stream is torn down).
extern "C" void h_client_unauth()
{
    World w(0);
    ClientStanza s; s.build();
    w.q->handleStanza(s.el);
    vp_assert(w.count(SIG_ELEMENT) == 0, "C16 no stanza of an unauthenticated connection is handed to routing (elementReceived)");
    vp_assert(w.count(SIG_CONNECTED) == 0, "C16 an unauthenticated connection is never announced as connected (resource bound)");
    vp_assert(w.d->jid.isEmpty(), "C16 a jabber:client stanza never authenticates the connection");
    vp_assert(eq(w.d->resource, w.resource0), "C16 no resource is bound before authentication");
    vp_assert(sentNothingOrClosed(), "C16 a stanza of an unauthenticated connection is not answered");
}

// (2) AUTHENTICATED connection (jid = arbitrary non-empty string), any jabber:client stanza.
//     mode: which outcome the run must end in (coverage of each outcome by the witness): 0 routed, 1 bound, 2 neither
static void client_auth(int mode)
{
    World w(1);
    ClientStanza s; s.build();
    const QString bare0 = QXmppUtils::jidToBareJid(w.jid0);
    w.q->handleStanza(s.el);
    unsigned nel = w.count(SIG_ELEMENT), nco = w.count(SIG_CONNECTED);
    vp_assert(nel <= 1 && nco <= 1 && nel + nco <= 1, "C16 one stanza is routed at most once / binds at most once");
    if (nel == 1) {
        QDomElement out = w.routed();
        const QString f = out.attribute(QStringLiteral("from"));
        vp_assert(eq(f, w.jid0) || eq(f, bare0), "C16 a routed stanza carries the authenticated address (full or bare) as its from");
        vp_assert(s.from.isEmpty() || eq(s.from, w.jid0) || eq(s.from, bare0), "C16 a stanza claiming a foreign from is not routed");
        vp_assert(s.tag != TAG_OTHER, "C16 only iq/message/presence are handed to routing");
        vp_assert(eq(w.d->jid, w.jid0), "C16 routing a stanza does not change the authenticated address");
    }
    if (nco == 1) {
        vp_assert(s.isBindSet(), "C16 connected is announced only for a resource-binding request");
        vp_assert(!w.d->resource.isEmpty(), "C16 a bound resource is not empty");
        vp_assert(vp_c16_concat_eq(&w.d->jid, &bare0, '/', &w.d->resource), "C16 binding keeps the authenticated bare address and only sets the resource");
    }
    if (nco == 0) vp_assert(eq(w.d->jid, w.jid0) && eq(w.d->resource, w.resource0), "C16 address and resource change only by binding");
    vp_assume(mode == 0 ? nel == 1 : mode == 1 ? nco == 1 : nel + nco == 0);
}
extern "C" void h_client_auth_route() { client_auth(0); }
extern "C" void h_client_auth_bind() { client_auth(1); }
extern "C" void h_client_auth_drop() { client_auth(2); }

extern "C" void h_probe_warm() { vpC16Warm(); }
extern "C" void h_probe_world() { World w(1); ClientStanza s; s.build(); }
