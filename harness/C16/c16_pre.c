/* C16: listed BEFORE qt_object.c.  qobject_cast<QXmppPasswordReply*>(sender()) needs a QMetaObject::cast that knows the class of
   the harness' reply object; the shared model only decides the null case.  The shared definitions are renamed out of the way
   (not edited) and replaced in c16_env.c. */
#define _ZNK11QMetaObject4castEP7QObject qtobject_unused_cast
#define _ZNK11QMetaObject4castEPK7QObject qtobject_unused_cast_const
#ifndef VP_SIGLOG_CAP
#define VP_SIGLOG_CAP 6
#endif
/* String-model hygiene: the shared models return Qt's static shared_null (an object of a different type than the model blocks) from
   mid()/left()/right() and from the DOM getters of a null element.  When such a result is merged with a model block under a symbolic
   condition, every later character access becomes a byte_extract over whole blocks (measured 10x).  C16 replaces these few functions
   by versions that return an EMPTY MODEL BLOCK instead (same observable value; QString::isNull() is not used by the code under test). */
#define _ZNK7QString3midEii qtcore_QString_mid
#define _ZNK7QString4leftEi qtcore_QString_left
#define _ZNK7QString5rightEi qtcore_QString_right
#define _ZNK11QDomElement7tagNameEv qtdom_tagName
#define _ZNK8QDomNode12namespaceURIEv qtdom_namespaceURI
#define _ZNK11QDomElement4textEv qtdom_text
/* detach()/data() of a model block calls reallocData(size + 1): the shared models derive the new block's loop-bound hint from the
   (symbolic) requested size, which makes every later loop over that string run to the model loop bound.  C16 keeps the old constant hint
   and asserts (model limit) that the request fits it. */
#define _ZN10QByteArray11reallocDataEj6QFlagsIN10QArrayData16AllocationOptionEE qtcore_QByteArray_reallocData
#define _ZN7QString11reallocDataEjb qtcore_QString_reallocData
