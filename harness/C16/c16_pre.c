/* C16: listed BEFORE qt_object.c.  qobject_cast<QXmppPasswordReply*>(sender()) needs a QMetaObject::cast that knows the class of
   the harness' reply object; the shared model only decides the null case.  The shared definitions are renamed out of the way
   (not edited) and replaced in c16_env.c. */
#define _ZNK11QMetaObject4castEP7QObject qtobject_unused_cast
#define _ZNK11QMetaObject4castEPK7QObject qtobject_unused_cast_const
#ifndef VP_SIGLOG_CAP
#define VP_SIGLOG_CAP 6
#endif
