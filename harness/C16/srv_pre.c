/* C16 / srv: listed BEFORE c16_env.c.  The socket model of c16_env.c keeps ONE log for the single connection of the client-step
   harness; the server-step harness has three connections and needs a log per socket.  The two definitions of c16_env.c are renamed
   out of the way (c16_env.c is not edited) and replaced in srv_env.c. */
#define _ZN5QXmpp7Private10XmppSocket8sendDataERK10QByteArray c16env_unused_socket_sendData
#define _ZN5QXmpp7Private10XmppSocket18disconnectFromHostEv c16env_unused_socket_disconnectFromHost
/* QList blocks of the shared model are allocated with an UNINITIALISED pointer array; the real routeData collects the receivers in a
   QList whose length is symbolic, and symex also explores the (infeasible) iterations beyond that length, where an uninitialised slot
   is an "unknown object" for every later dereference (GUIDE killer 4; measured: 20 s per iteration).  srv_env.c re-defines the two
   allocating functions with zero-filled arrays. */
#define _ZN9QListData11detach_growEPii qtlist_unused_detach_grow
#define _ZN9QListData6detachEi qtlist_unused_detach
