// QXmpp's operator""_s keeps its QArrayData header in a function-local static that is initialised on first use; a first use under a
// symbolic branch would leave the header (offset/size) symbolic after the merge and defeat constant propagation in the string model
// (measured: 17 s -> 160 s).  The literals on the paths of this harness that carry meaning (attribute names, mechanism names, JID
// patterns) are therefore touched once before anything symbolic happens.  Log texts are not listed (they are only passed to the
// no-op logging model).  A literal missing here costs time only.
static inline void vpC16Warm()
{
    (void)u"from"_s; (void)u"to"_s; (void)u"id"_s; (void)u"type"_s; (void)u"lang"_s; (void)u"%1@%2"_s; (void)u"%1/%2"_s;
    (void)u"mechanism"_s; (void)u"@"_s;
}
