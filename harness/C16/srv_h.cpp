// C16 / srv - the QXmppServer side of "routes only for authenticated clients, stamps the true address":
// ONE step of the REAL QXmppServer code (src/server/QXmppServer.cpp, #included: QXmppServerPrivate and handleStanza are file-local)
//   handleElement -> handleStanza -> extensions / sendElement / sendPacket -> QXmppServerPrivate::routeData,
//   _q_clientConnected, _q_clientDisconnected, addIncomingClient
// from an ARBITRARY small routing state: three REAL QXmppIncomingClient objects (A = sender, V, T) with arbitrary addresses, registered
// or not in incomingClients / incomingClientsByJid / incomingClientsByBareJid under the tables' representation invariant.
#include "c16.h"
#include "srv_containers.h"
#include "QXmppServerExtension.h"
#define private public
#define protected public
#include "server/QXmppServer.cpp"
#undef private
#undef protected
#include "QXmppQt5_autogen/ORNZQ2F6DW/moc_QXmppServer.cpp"

extern "C" {
void vp_srv_reg_conn(unsigned k, const void *obj, const void *sock);
unsigned vp_srv_nsend(unsigned k);      // socket writes on connection k (k = 3: on any other socket)
unsigned vp_srv_nraw(unsigned k);       // ... of which raw text (not a serialised element)
unsigned vp_srv_ndisc(unsigned k);      // disconnectFromHost() calls on the socket of connection k
unsigned vp_srv_send_at(unsigned k); unsigned vp_srv_disc_at(unsigned k);   // order stamps of the last write / disconnect
unsigned vp_srv_kind(unsigned k);    // class of the last element written to connection k: 0 none, 1 the handed-over stanza, 2 the server's own answer
void vp_srv_set_input(const QDomElement *el); unsigned vp_srv_nown(); void vp_srv_own_tree(QDomElement *out);
unsigned vp_srv_ninvoke_send(); unsigned vp_srv_ns2s_queue(); unsigned vp_srv_ns2s_connect();
const void *vp_srv_s2s_obj(); void vp_srv_s2s_tree(QDomElement *out);
unsigned vp_srv_nsig(unsigned which);   // clientConnected (0) / clientDisconnected (1) / other (2)
void vp_srv_sig_jid(QString *out);
bool vp_srv_bare_is(const QString *jid, const QString *x);
bool vp_srv_has_resource(const QString *jid);
bool vp_srv_has_slash(const QString *jid);
unsigned vp_srv_count_unit(const QString *s, unsigned short c);
bool vp_srv_domain_is(const QString *jid, const QString *x);
bool vp_srv_same_stanza(const QDomElement *wire, const QDomElement *el);
void vp_srv_attr(QString *out, const QDomElement *el, const QString *name);
unsigned vp_srv_nchildren(const QDomElement *el);
void vp_srv_pick(QString *out, unsigned table, unsigned idx);
unsigned vp_srv_jidlen();   // -DSRV_JIDLEN of the instance (default 8): bound of every symbolic address
unsigned vp_srv_nconn();    // -DSRV_NCONN_LIVE (default 3): connections beyond it are absent (unregistered, empty address)
// trampoline used by the invokeMethod model: the slot "sendData" of a connection object is the REAL QXmppIncomingClient::sendData
bool vp_srv_tramp_senddata(QXmppIncomingClient *c, const QByteArray *ba) { return c->sendData(*ba); }
}
static inline void srvWarm() { vpC16Warm(); (void)u"error"_s; (void)u"iq"_s; (void)u"."_s; }

enum { TAG_IQ, TAG_MESSAGE, TAG_PRESENCE, TAG_OTHER, NTAG };
enum { TY_NONE, TY_GET, TY_SET, TY_RESULT, TY_ERROR, TY_SUBSCRIBE, TY_CHAT, TY_UNAVAILABLE, NTYPE };
static QString spick(unsigned table, unsigned idx) { QString s; vp_srv_pick(&s, table, idx); return s; }
static QString attrOf(const QDomElement &e, const QString &n) { QString r; vp_srv_attr(&r, &e, &n); return r; }
static bool bareIs(const QString &jid, const QString &x) { return vp_srv_bare_is(&jid, &x); }
static bool hasResource(const QString &j) { return vp_srv_has_resource(&j); }

#ifndef SRV_JIDLEN
#define SRV_JIDLEN 8     // "abc@d/rr"
#endif
#define NCONN 3

// ---- a server extension with an arbitrary verdict --------------------------------------------------------------------------------
struct FakeExt final : QXmppServerExtension {
    unsigned calls = 0; bool verdict = false;
    bool handleStanza(const QDomElement &) override { calls++; return verdict; }
};

// ---- one connection object: the REAL QXmppIncomingClient in raw storage (as in c16.h World) ---------------------------------------
struct Conn {
    VpRaw<QXmppIncomingClient> qbuf;
    VpRaw<QTimer> timer;
    VpRaw<QSslSocket> ssl;
    QXmppIncomingClient *q;
    QXmppIncomingClientPrivate *d;
    QString jid;               // its address (empty = not authenticated)
    QString key;               // the key of its incomingClientsByJid entry (= jid under the representation invariant)
    bool inSet, inJid, inBare; // member of incomingClients / value of incomingClientsByJid[jid] / member of incomingClientsByBareJid[bare(jid)]
    void make(unsigned k, const QString &domain)
    {
        q = qbuf.p();
        vp_qobject_construct(q, nullptr);
        d = new QXmppIncomingClientPrivate(q);
        new (const_cast<std::unique_ptr<QXmppIncomingClientPrivate> *>(&q->d)) std::unique_ptr<QXmppIncomingClientPrivate>(d);
        d->idleTimer = timer.p();
        d->socket.m_socket = ssl.p();
        d->domain = domain;
        vp_c16_set_class(q, &QXmppIncomingClient::staticMetaObject);
        vp_srv_reg_conn(k, q, &d->socket);
    }
    void setJid(const QString &j) { jid = j; key = j; d->jid = j; }
};

struct SrvWorld {
    VpRaw<QXmppServer> sbuf;
    QXmppServer *srv;
    QXmppServerPrivate *sd;
    QString domain;
    Conn c[NCONN];
    FakeExt ext;
    bool haveExt;
    SrvWorld()
    {
        srvWarm();
        if (vp_c16_false()) vp_srv_tramp_senddata(nullptr, nullptr);   // keeps the trampoline in the translated program
        srv = sbuf.p();
        vp_qobject_construct(srv, nullptr);
        sd = new QXmppServerPrivate(srv);
        new (const_cast<std::unique_ptr<QXmppServerPrivate> *>(&srv->d)) std::unique_ptr<QXmppServerPrivate>(sd);
        domain = vpSymStringExact(1);
        const ushort du = domain.at(0).unicode();
        vp_assume(du != '@' && du != '/' && du != '.');     // a configured domain is a host name
        sd->domain = domain;
        sd->loaded = vp_bool();                              // static plugins looked up already or not (there are none)
        for (unsigned k = 0; k < NCONN; k++) c[k].make(k, domain);
        haveExt = false;
    }
    // arbitrary addresses and registrations under the representation invariant of the three tables
    void symbolicTables()
    {
        for (unsigned k = 0; k < NCONN; k++) {
            c[k].setJid(vpSymString(vp_srv_jidlen()));
            if (k >= vp_srv_nconn()) { c[k].setJid(QString()); c[k].inSet = c[k].inJid = c[k].inBare = false; continue; }
            c[k].inSet = vp_bool(); c[k].inJid = vp_bool(); c[k].inBare = vp_bool();
            // (I1) a routing entry exists only for a live connection (member of incomingClients) with a non-empty address;
            //      the entry's key is the connection's address
            vp_assume(!c[k].inJid || (c[k].inSet && !c[k].jid.isEmpty()));
            vp_assume(!c[k].inBare || (c[k].inSet && !c[k].jid.isEmpty()));
            // (I3) the connection that owns a full-JID entry is also listed under its bare JID
            vp_assume(!c[k].inJid || c[k].inBare);
        }
        // (I1) a key maps to ONE connection
        for (unsigned i = 0; i < NCONN; i++) for (unsigned j = i + 1; j < NCONN; j++) vp_assume(!(c[i].inJid && c[j].inJid && eq(c[i].jid, c[j].jid)));
        plant();
    }
    void plant()
    {
        for (unsigned k = 0; k < NCONN; k++) {
            sd->incomingClients.plant(k, c[k].inSet, c[k].q);
            sd->incomingClientsByJid.plant(k, c[k].inJid, c[k].key, c[k].q);
        }
        // bucket k of incomingClientsByBareJid is in use iff connection k is the first listed connection with its bare JID;
        // it then holds every listed connection with that bare JID
        for (unsigned k = 0; k < NCONN; k++) {
            const QString bare = QXmppUtils::jidToBareJid(c[k].jid);
            bool first = c[k].inBare;
            for (unsigned j = 0; j < k; j++) if (c[j].inBare && bareIs(c[j].jid, bare)) first = false;
            sd->incomingClientsByBareJid.plant(k, first, bare);
            for (unsigned j = 0; j < NCONN; j++) sd->incomingClientsByBareJid.s[k]->plant(j, j >= k && c[j].inBare && bareIs(c[j].jid, bare), c[j].q);
        }
    }
    void addExt(bool verdict) { haveExt = true; ext.verdict = verdict; sd->extensions << &ext; }
};

// ---- the element as QXmppIncomingClient hands it over (elementReceived) -----------------------------------------------------------
struct Handed {
    unsigned tag, type, nchild;
    QString from, to, id;
    QDomElement el;
    void build(const QString &fromAddr)
    {
        tag = vp_case_u(0, NTAG);       // structural: only an iq can be answered by the server (VP_CASE bits 0-1)
        type = vp_case_u(2, NTYPE);     // VP_CASE bits 2-4
        QString ns = ns_client.toString();
        vp_dom_new(&el, &(const QString &)spick(0, tag), &ns);
        from = fromAddr; to = vpSymString(vp_srv_jidlen()); id = vpSymString(1);
        QString n;
        n = QStringLiteral("type"); vp_dom_set_attr(&el, &n, &(const QString &)spick(1, type));
        n = QStringLiteral("from"); vp_dom_set_attr(&el, &n, &from);
        n = QStringLiteral("to"); vp_dom_set_attr(&el, &n, &to);
        n = QStringLiteral("id"); vp_dom_set_attr(&el, &n, &id);
    }
};

// which registered connections may receive a stanza addressed to `to` (spec-level reading of RFC 6120 10.5 as the tables encode it):
// full JID: the one connection registered under exactly that address; bare JID: every connection listed under that bare address
struct Dest {
    bool ok[NCONN];
    void compute(const SrvWorld &w, const QString &to)
    {
        const bool res = hasResource(to), slash = vp_srv_has_slash(&to);
        for (unsigned k = 0; k < NCONN; k++) {
            const Conn &c = w.c[k];
            const bool live = c.inSet && !c.jid.isEmpty();
            ok[k] = live && (res ? (c.inJid && eq(c.jid, to)) : (c.inBare && !slash && bareIs(c.jid, to)));
        }
    }
};

// (R) handleElement(element) from an arbitrary routing state
static void route(int mode)
{
    SrvWorld w;
    w.symbolicTables();
    Conn &A = w.c[0];
    // assume-guarantee precondition (established by harness/C16 client_auth_route on the REAL QXmppIncomingClient): the sender is
    // authenticated (non-empty address), the element's from is its address or its bare address
    vp_assume(A.inSet && !A.jid.isEmpty());
    vp_assume(vp_srv_count_unit(&A.jid, '@') <= 2);
    const bool fromBare = vp_case_bool(6);
    Handed h; h.build(fromBare ? QXmppUtils::jidToBareJid(A.jid) : A.jid);
    vp_assume(vp_srv_count_unit(&h.to, '@') <= 2);          // bound of the QStringList model (jidToDomain splits at '@')
    vp_srv_set_input(&h.el);
    const bool withExt = vp_case_bool(5);
    if (withExt) w.addExt(vp_bool());
    Dest dTo, dFrom;
    dTo.compute(w, h.to);
    if (h.tag == TAG_IQ) dFrom.compute(w, h.from);
    const bool toLocal = vp_srv_domain_is(&h.to, &w.domain);

    w.srv->handleElement(h.el);

    unsigned ndeliv = 0, nstanza = 0, nbounce = 0;
    for (unsigned k = 0; k < NCONN; k++) {
        const unsigned n = vp_srv_nsend(k);
        vp_assert(n <= 1, "C16 one stanza reaches a connection at most once");
        vp_assert(vp_srv_nraw(k) == 0 && vp_srv_ndisc(k) == 0, "C16 routing writes serialised stanzas only and closes nothing");
        if (n == 0) continue;
        ndeliv++;
        vp_assert(w.c[k].inSet && !w.c[k].jid.isEmpty(), "C16 nothing is delivered to an unregistered or unauthenticated connection");
        const unsigned kind = vp_srv_kind(k);
        if (kind == 1) {
            // the wire element equals the handed-over element: in particular its from is still the sender's address and its to is h.to
            nstanza++;
            vp_assert(dTo.ok[k], "C16 a stanza is delivered only to the connection registered under its full to, or to the connections of its bare to");
        } else {
            nbounce++;
            vp_assert(h.tag == TAG_IQ, "C16 only an iq is answered on behalf of a missing peer; anything else on the wire is the received stanza, from included");
            if (h.tag == TAG_IQ) vp_assert(dFrom.ok[k], "C16 the server's answer reaches only connections registered for the sender's address");
        }
    }
    if (nbounce > 0) {
        QDomElement t; vp_srv_own_tree(&t);
        vp_assert(vp_srv_nown() == 1, "C16 the server answers an iq at most once");
        vp_assert(eq(t.tagName(), QStringLiteral("iq")) && eq(attrOf(t, QStringLiteral("type")), QStringLiteral("error")), "C16 the server's own answer is an error iq");
        vp_assert(eq(attrOf(t, QStringLiteral("id")), h.id), "C16 the error answer carries the id of the request");
        vp_assert(eq(attrOf(t, QStringLiteral("to")), h.from), "C16 the error answer goes back to the sender's address");
        const QString tfrom = attrOf(t, QStringLiteral("from"));
        vp_assert(eq(tfrom, h.to) || eq(tfrom, w.domain), "C16 the error answer comes from the addressee (or the server), never from a third address");
        vp_assert(h.type != TY_RESULT && h.type != TY_ERROR, "C16 result and error iqs are never answered");
    }
    vp_assert(vp_srv_nsend(NCONN) == 0, "C16 nothing is written to a socket outside the routing tables");
    vp_assert(nstanza == 0 || nbounce == 0, "C16 a delivered iq is not also answered by the server");
    if (withExt && w.ext.verdict) vp_assert(ndeliv == 0, "C16 a stanza claimed by an extension is not routed by the default handlers");
    if (withExt) vp_assert(w.ext.calls == 1, "C16 an extension sees each stanza once");
    // completeness of routing (default handlers, local destination other than the server itself)
    if (!(withExt && w.ext.verdict) && !eq(h.to, w.domain) && toLocal) {
        for (unsigned k = 0; k < NCONN; k++)
            if (dTo.ok[k]) vp_assert(vp_srv_nsend(k) == 1 && vp_srv_kind(k) == 1, "C16 every connection registered for the destination receives the stanza");
    }
    // an iq request that reached nobody is answered: every connection registered for the sender's (local) address gets the error
    if (h.tag == TAG_IQ && h.type != TY_RESULT && h.type != TY_ERROR && !(withExt && w.ext.verdict) && nstanza == 0
        && vp_srv_domain_is(&h.from, &w.domain) && !eq(h.from, w.domain)) {
        for (unsigned k = 0; k < NCONN; k++)
            if (dFrom.ok[k]) vp_assert(vp_srv_nsend(k) == 1 && vp_srv_kind(k) == 2, "C16 an iq request that cannot be delivered is answered with an error to the sender");
    }
    vp_assert(vp_srv_ns2s_queue() == 0 && vp_srv_ns2s_connect() == 0, "C16 no server-to-server traffic while S2S is disabled");
    vp_assume(mode == 0 ? nstanza > 0 : mode == 1 ? nbounce > 0 : ndeliv == 0);
}
extern "C" void h_srv_route_deliver() { route(0); }
extern "C" void h_srv_route_bounce() { route(1); }
extern "C" void h_srv_route_drop() { route(2); }

// ---- (C) _q_clientConnected: the slot behind QXmppIncomingClient::connected (a resource was bound) -------------------------------
// rebind = false: the sender S has no routing entry yet (first binding).  rebind = true: S is already registered under an OLD
// address with the same bare part (a second <bind/> on the same stream: QXmppIncomingClient accepts it and emits connected again).
static void connected(bool rebind)
{
    SrvWorld w;
    w.symbolicTables();
    Conn &S = w.c[0];
    // assume-guarantee precondition (harness/C16 client_auth_bind on the REAL QXmppIncomingClient): connected is emitted by a live
    // connection whose address is bare/resource with a non-empty resource
    vp_assume(S.inSet && hasResource(S.jid));
    QString oldKey;
    if (!rebind) vp_assume(!S.inJid && !S.inBare);
    else {
        oldKey = vpSymString(vp_srv_jidlen());
        vp_assume(S.inJid && S.inBare && !oldKey.isEmpty() && !eq(oldKey, S.jid) && bareIs(oldKey, QXmppUtils::jidToBareJid(S.jid)));
        for (unsigned k = 1; k < NCONN; k++) vp_assume(!(w.c[k].inJid && eq(w.c[k].jid, oldKey)));   // keys are unique
        S.key = oldKey;
        w.plant();
    }
    const QString bareS = QXmppUtils::jidToBareJid(S.jid);
    bool wasListed[NCONN]; for (unsigned k = 0; k < NCONN; k++) wasListed[k] = w.c[k].inBare && bareIs(w.c[k].jid, bareS);

    vp_qobject_set_sender(S.q);
    w.srv->_q_clientConnected();

    // the connection that held the address before (if any) is told and closed; nobody else is touched
    for (unsigned k = 0; k < NCONN; k++) {
        const bool holder = k != 0 && w.c[k].inJid && eq(w.c[k].jid, S.jid);
        if (holder) {
            vp_assert(vp_srv_nsend(k) == 1 && vp_srv_nraw(k) == 1 && vp_srv_ndisc(k) == 1 && vp_srv_send_at(k) < vp_srv_disc_at(k),
                      "C16 the connection that held the address is sent the conflict error and is then disconnected");
        } else {
            vp_assert(vp_srv_nsend(k) == 0 && vp_srv_ndisc(k) == 0, "C16 binding an address touches no connection but the previous holder of exactly that address");
        }
    }
    vp_assert(vp_srv_nsend(NCONN) == 0 && vp_srv_ndisc(NCONN) == 0, "C16 nothing is written to a socket outside the routing tables");
    // tables afterwards
    vp_assert(w.sd->incomingClientsByJid.value(S.jid) == S.q, "C16 after binding, the address maps to the NEW connection only");
    const VpClientSet listS = w.sd->incomingClientsByBareJid.value(bareS);
    vp_assert(listS.contains(S.q), "C16 after binding, the connection is listed under its bare address");
    for (unsigned k = 1; k < NCONN; k++) {
        if (w.c[k].inJid && !eq(w.c[k].jid, S.jid)) vp_assert(w.sd->incomingClientsByJid.value(w.c[k].jid) == w.c[k].q, "C16 binding leaves the entries of other addresses alone");
        if (wasListed[k]) vp_assert(listS.contains(w.c[k].q), "C16 binding keeps the other connections of the same bare address listed");
        if (w.c[k].inBare && !wasListed[k]) {
            const VpClientSet listK = w.sd->incomingClientsByBareJid.value(QXmppUtils::jidToBareJid(w.c[k].jid));
            vp_assert(listK.contains(w.c[k].q) && !listS.contains(w.c[k].q), "C16 binding leaves the lists of other bare addresses alone");
        }
    }
    for (unsigned k = 0; k < NCONN; k++) vp_assert(w.sd->incomingClients.contains(w.c[k].q) == w.c[k].inSet, "C16 binding does not add or drop connections");
    vp_assert(vp_srv_nsig(0) == 1 && vp_srv_nsig(1) == 0, "C16 clientConnected is announced once");
    { QString j; vp_srv_sig_jid(&j); vp_assert(eq(j, S.jid), "C16 clientConnected announces the bound address"); }
    // representation invariant re-established: no key maps to a connection with another address
    if (rebind) vp_assert(w.sd->incomingClientsByJid.value(oldKey) != S.q, "C16 a connection that re-binds is no longer reachable under its old address (no stale routing entry)");
}
extern "C" void h_srv_connected() { connected(false); }
extern "C" void h_srv_rebind() { connected(true); }

// a slot invoked directly (sender() is null) does nothing
extern "C" void h_srv_foreign_sender()
{
    SrvWorld w;
    w.symbolicTables();
    const bool which = vp_case_bool(0);
    vp_qobject_set_sender(nullptr);
    if (which) w.srv->_q_clientConnected(); else w.srv->_q_clientDisconnected();
    for (unsigned k = 0; k < NCONN; k++) {
        vp_assert(vp_srv_nsend(k) == 0 && vp_srv_ndisc(k) == 0, "C16 a connected/disconnected slot without a client as sender touches no connection");
        vp_assert(w.sd->incomingClients.contains(w.c[k].q) == w.c[k].inSet && (w.sd->incomingClientsByJid.value(w.c[k].jid) == w.c[k].q) == w.c[k].inJid, "C16 a connected/disconnected slot without a client as sender changes no table");
    }
    vp_assert(vp_srv_nsig(0) == 0 && vp_srv_nsig(1) == 0, "C16 nothing is announced");
}

// ---- (D) _q_clientDisconnected ------------------------------------------------------------------------------------------------------
extern "C" void h_srv_disconnected()
{
    SrvWorld w;
    w.symbolicTables();
    Conn &S = w.c[0];
    const QString bareS = QXmppUtils::jidToBareJid(S.jid);
    bool wasListed[NCONN]; for (unsigned k = 0; k < NCONN; k++) wasListed[k] = w.c[k].inBare && bareIs(w.c[k].jid, bareS);

    vp_qobject_set_sender(S.q);
    w.srv->_q_clientDisconnected();

    for (unsigned k = 0; k < NCONN; k++) vp_assert(vp_srv_nsend(k) == 0 && vp_srv_ndisc(k) == 0, "C16 removing a connection writes nothing");
    // exactly that connection is removed
    vp_assert(!w.sd->incomingClients.contains(S.q), "C16 a disconnected connection is no longer a live connection");
    for (unsigned k = 1; k < NCONN; k++) {
        vp_assert(w.sd->incomingClients.contains(w.c[k].q) == w.c[k].inSet, "C16 removing a connection keeps the others");
        // in particular a connection that took over the same address keeps its entry
        if (w.c[k].inJid) vp_assert(w.sd->incomingClientsByJid.value(w.c[k].jid) == w.c[k].q, "C16 removing a connection leaves the entries of other connections alone (also one that took over the same address)");
        if (w.c[k].inBare) vp_assert(w.sd->incomingClientsByBareJid.value(QXmppUtils::jidToBareJid(w.c[k].jid)).contains(w.c[k].q), "C16 removing a connection keeps the other connections of its bare address listed");
    }
    if (S.inSet) {
        vp_assert(w.sd->incomingClientsByJid.value(S.jid) != S.q, "C16 a removed connection is no longer the target of its address");
        { const VpClientSet listS = w.sd->incomingClientsByBareJid.value(bareS); vp_assert(!listS.contains(S.q), "C16 a removed connection is no longer listed under its bare address"); }
        bool others = false; for (unsigned k = 1; k < NCONN; k++) others = others || wasListed[k];
        if (!S.jid.isEmpty()) vp_assert(w.sd->incomingClientsByBareJid.contains(bareS) == others, "C16 the list of a bare address exists exactly while a connection is listed");
        vp_assert(vp_qobject_delete_later(S.q), "C16 a removed connection object is scheduled for deletion");
        vp_assert(vp_srv_nsig(1) == (S.jid.isEmpty() ? 0u : 1u) && vp_srv_nsig(0) == 0, "C16 clientDisconnected is announced once, for authenticated connections only");
    } else {
        // not a live connection of this server (already removed): nothing happens
        vp_assert(!vp_qobject_delete_later(S.q) && vp_srv_nsig(1) == 0 && vp_srv_nsig(0) == 0, "C16 a connection that is not registered is not removed again");
    }
}

// ---- (E) addIncomingClient ----------------------------------------------------------------------------------------------------------
extern "C" void h_srv_add_client()
{
    SrvWorld w;
    w.symbolicTables();
    Conn &S = w.c[0];
    vp_assume(!S.inSet);                 // a new connection (invariant: hence no routing entry)
    FakeChecker checker; w.sd->passwordChecker = &checker;
    w.srv->addIncomingClient(S.q);
    vp_assert(w.sd->incomingClients.contains(S.q), "C16 a new connection becomes a live connection");
    vp_assert(S.d->passwordChecker == &checker, "C16 a new connection is given the server's password checker");
    vp_assert(w.sd->incomingClientsByJid.value(S.jid) != S.q && !w.sd->incomingClientsByBareJid.value(QXmppUtils::jidToBareJid(S.jid)).contains(S.q), "C16 a new connection gets no routing entry before it binds");
    for (unsigned k = 1; k < NCONN; k++) vp_assert(w.sd->incomingClients.contains(w.c[k].q) == w.c[k].inSet && (w.sd->incomingClientsByJid.value(w.c[k].jid) == w.c[k].q) == w.c[k].inJid, "C16 adding a connection changes nothing else");
    vp_assert(vp_connect_count() == 3, "C16 connected, disconnected and elementReceived of the new connection are wired to the server");
}
