// C16 - common prelude of the harnesses: the REAL QXmppIncomingClient.cpp is included (QXmppIncomingClientPrivate is file-local),
// the client object lives in raw storage whose QObject part is set up by the shared QObject model; its Private is built by
// the real constructor.  std / Qt headers come first so that the access hack only reaches qxmpp's own headers.
#pragma once
#include <memory>
#include <optional>
#include <variant>
#include <functional>
#include <any>
#include <QObject>
#include <QDomElement>
#include <QHostAddress>
#include <QSslKey>
#include <QSslSocket>
#include <QTimer>
#include <QVariant>
#include <QXmlStreamWriter>
#include <QMap>
#include <QCryptographicHash>
#include <QMessageAuthenticationCode>
#include <QPasswordDigestor>
#include <QUrlQuery>
#include <QUuid>
#include <QDateTime>
#include <QTextStream>
#include <QtEndian>
#include "vp_harness.h"
#include "vp_dom.h"
#include "vp_object.h"
#define private public
#define protected public
#include "server/QXmppIncomingClient.cpp"
#include "QXmppPasswordChecker.h"
#undef private
#undef protected
// the real moc output of the build (signal bodies, staticMetaObject, qt_metacast) - generated files stay in /repo/_build
#include "QXmppQt5_autogen/ORNZQ2F6DW/moc_QXmppIncomingClient.cpp"
#include "QXmppQt5_autogen/ORNZQ2F6DW/moc_QXmppPasswordChecker.cpp"
#include "QXmppQt5_autogen/CZ4SVKUTXB/moc_QXmppSasl_p.cpp"

#include "c16_warm.h"

extern "C" {
// socket ghost log (XmppSocket::sendData / disconnectFromHost of the client's socket)
unsigned vp_c16_sent_n();
unsigned vp_c16_sent_kind(unsigned i);
unsigned vp_c16_ndisconnect();
unsigned vp_c16_ntls();                         // startServerEncryption() calls
// signal snapshots taken at emission time (QMetaObject::activate hook)
unsigned vp_c16_nsig(unsigned which);             // emissions of elementReceived (0) / connected (1) / disconnected (2) / any other signal (3)
void vp_c16_sig_element(QDomElement *out);        // element of the last elementReceived emission (null if none)
// class registry for qobject_cast
void vp_c16_set_class(const QObject *o, const QMetaObject *mo);
// password checker log (filled by the harness' FakeChecker)
bool vp_c16_false();
void vp_c16_bytes_exact(QByteArray *out, unsigned n, bool ascii);   // exactly n symbolic bytes
void vp_c16_concat(QString *out, const QString *a, unsigned short ch, const QString *b);   // out = a + ch + b
unsigned vp_c16_nfeatures();                    // calls of the (cut) QXmppIncomingClient::sendStreamFeatures
unsigned vp_c16_orc_count(); void vp_c16_orc_input(unsigned i, QByteArray *out);   // crypto oracle log
void vp_c16_b64_text(QString *out, const QByteArray *raw);   // base64 text (abstract placeholder) of a non-empty byte string
unsigned vp_c16_plain_ref(const QByteArray *raw, const QString *user, const QString *password);   // RFC 4616 reference parse: bit0 well-formed, bit1 user matches, bit2 password matches
bool vp_c16_concat_eq(const QString *x, const QString *a, unsigned short ch, const QString *b);   // x == a + ch + b
bool vp_qstring_eq(const QString *a, const QString *b);
bool vp_bytes_eq(const QByteArray *a, const QByteArray *b);
void vp_c16_pick(QString *out, unsigned table, unsigned idx);   // fresh string whose content is entry idx of constant table `table`
void vp_dom_truncate(QDomElement *el, unsigned n);
// DIGEST-MD5 directive table returned by the (cut) QXmppSaslDigestMd5::parseMessage
void vp_c16_digest_input(unsigned slot, const QByteArray *value, bool present);
}
enum { K_OTHER = 0, K_SASL_SUCCESS = 1, K_SASL_FAILURE = 2, K_SASL_CHALLENGE = 3, K_SASL2_SUCCESS = 4, K_SASL2_FAILURE = 5, K_SASL2_CHALLENGE = 6, K_TLS_PROCEED = 7, K_NONZA = 8, K_RAW = 9 };

static inline bool eq(const QString &a, const QString &b) { return vp_qstring_eq(&a, &b); }

// ---- password checker: records what it is asked and hands out a fresh unfinished reply -----------------------------------------
struct FakeChecker final : QXmppPasswordChecker {
    unsigned nCheck = 0, nDigest = 0;
    QString user, password, domain;
    QXmppPasswordReply *last = nullptr;
    bool digestCapable = false;
    QXmppPasswordReply *mk(const QXmppPasswordRequest &r)
    {
        user = r.username(); password = r.password(); domain = r.domain();
        last = new QXmppPasswordReply; vp_c16_set_class(last, &QXmppPasswordReply::staticMetaObject);
        return last;
    }
    QXmppPasswordReply *checkPassword(const QXmppPasswordRequest &r) override { nCheck++; return mk(r); }
    QXmppPasswordReply *getDigest(const QXmppPasswordRequest &r) override { nDigest++; return mk(r); }
    bool hasGetPassword() const override { return digestCapable; }
};

// signal indices of QXmppIncomingClient (moc order: elementReceived, connected, disconnected)
enum { SIG_ELEMENT = 0, SIG_CONNECTED = 1, SIG_DISCONNECTED = 2 };

struct World {
    VpRaw<QXmppIncomingClient> qbuf;
    VpRaw<QTimer> timer;
    VpRaw<QSslSocket> ssl;
    QXmppIncomingClient *q;
    QXmppIncomingClientPrivate *d;
    FakeChecker checker;
    QString jid0, resource0, domain;
    // jidMode: 0 = empty (unauthenticated), 1 = arbitrary non-empty string of <= 4 units, 2 = arbitrary string of 0..4 units
    World(int jidMode, bool withChecker = true)
    {
        vpC16Warm();
        q = qbuf.p();
        vp_qobject_construct(q, nullptr);
        d = new QXmppIncomingClientPrivate(q);
        new (const_cast<std::unique_ptr<QXmppIncomingClientPrivate> *>(&q->d)) std::unique_ptr<QXmppIncomingClientPrivate>(d);
        d->idleTimer = timer.p();
        d->socket.m_socket = ssl.p();
        domain = vpSymString(2);
        for (int i = 0; i < 2; i++) if (i < domain.size()) vp_assume(domain.at(i).unicode() < 0x80);   // UTF-8 codec is Qt's (identity on ASCII)
        d->domain = domain;
        if (jidMode == 1) jid0 = vpSymStringNonEmpty(4);
        if (jidMode == 2) jid0 = vpSymString(4);
        d->jid = jid0;
        resource0 = vpSymString(2);
        d->resource = resource0;
        if (withChecker) d->passwordChecker = &checker;
    }
    unsigned count(int sig) const { return vp_c16_nsig(sig); }
    // the element handed to routing (last elementReceived emission)
    QDomElement routed() const { QDomElement e; vp_c16_sig_element(&e); return e; }
};
