/* C16 / srv: listed directly BEFORE c16_env.c.  c16_env.c sizes the result of QString::mid()/left()/trimmed() with qs_hint(d) of
   qt_core.c, which is 0 for an empty string and the block's constant bound otherwise: for a string of SYMBOLIC length (every bare JID
   of this harness) the bound of the new block becomes symbolic and every later loop over it runs to the model loop bound (measured:
   compare loops of 28-40 rounds on 8-unit strings).  For the code of c16_env.c the bound is taken from the block alone (constant);
   srv_env.c restores the name.  Same values, c16_env.c is not edited. */
#define qs_hint(d) ((uint32_t)QHINT16(d))
