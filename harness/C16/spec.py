# C16 - the server routes only for authenticated clients and stamps their true address
TUS = ['src/base/QXmppSasl.cpp', 'src/base/QXmppUtils.cpp', 'src/base/QXmppStreamManagement.cpp', 'src/base/QXmppStanza.cpp', 'src/base/QXmppIq.cpp',
       'src/base/QXmppBindIq.cpp', 'src/base/QXmppNonza.cpp', 'src/base/Stream.cpp', 'src/server/QXmppPasswordChecker.cpp']
MODELS = ['c16_pre.c', 'qt_core.c', 'qt_list.c', 'qt_dom.c', 'qt_object.c', 'c16_env.c']
LB = {r'^_ZNSt6ranges14__copy_or_move': 70, r'^_ZN13QConcatenableI10QByteArrayE8appendTo': 16}
def I(name, entry, **kw):
    d = dict(name=name, entry='h_' + entry, unwind=8, timeout_s=300, mem_gb=6, object_bits=12, cdefs={'VP_ACTIVATE_HOOK': 'c16_on_signal'}, bound=''); d.update(kw); return d
def C(name, entry, case, **kw): return I(name, entry, cdefs={'VP_ACTIVATE_HOOK': 'c16_on_signal', 'VP_CASE': case}, **kw)
SPEC = dict(
    property='C16',
    groups=[
        dict(name='client', harness='h.cpp', tus=TUS, models=MODELS, ranges_shim=True, loop_bounds=LB,
             instances=[I('client_unauth', 'client_unauth'), I('client_auth_route', 'client_auth_route'), I('client_auth_bind', 'client_auth_bind'), I('client_auth_drop', 'client_auth_drop'),
                        I('other_ns', 'other_ns'), I('sasl_nochecker', 'sasl_nochecker')]
                       + [I('%s_m%d' % (e, m), e, cdefs={'VP_ACTIVATE_HOOK': 'c16_on_signal', 'VP_CASE': m, 'LIST_CAP': 7}) for e in ('sasl_auth', 'sasl2_auth') for m in range(6)]
                       + [C('password_reply_c%d' % c, 'password_reply', c) for c in (0, 1, 3, 7)]
                       + [C('sasl_response_c%d' % c, 'sasl_response', c) for c in range(16)]
                       + [C('digest_reply_c%d' % c, 'digest_reply', c) for c in (0, 1)]
                       + [I('reply_foreign_sender', 'reply_foreign_sender'), I('sasl_misc', 'sasl_misc'), I('checker_default', 'checker_default')]),
    ],
    bounds=[], assumptions=[], outside=[],
)
