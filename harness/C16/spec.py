# C16 - the server routes only for authenticated clients and stamps their true address
TUS = ['src/base/QXmppSasl.cpp', 'src/base/QXmppUtils.cpp', 'src/base/QXmppStreamManagement.cpp', 'src/base/QXmppStanza.cpp', 'src/base/QXmppIq.cpp',
       'src/base/QXmppBindIq.cpp', 'src/base/QXmppNonza.cpp', 'src/base/Stream.cpp', 'src/server/QXmppPasswordChecker.cpp']
MODELS = ['c16_pre.c', 'qt_core.c', 'qt_list.c', 'qt_dom.c', 'qt_object.c', 'c16_env.c']
LB = {r'^_ZNSt6ranges14__copy_or_move': 70, r'^_ZN13QConcatenableI10QByteArrayE8appendTo': 16, r'catB': 12}
def I(name, entry, **kw):
    d = dict(name=name, entry='h_' + entry, unwind=8, timeout_s=300, mem_gb=3, object_bits=12, cdefs={'VP_ACTIVATE_HOOK': 'c16_on_signal'}, bound=''); d.update(kw); return d
def C(name, entry, case, **kw):
    cd = {'VP_ACTIVATE_HOOK': 'c16_on_signal', 'VP_CASE': case}; cd.update(kw.pop('cdefs', {})); return I(name, entry, cdefs=cd, **kw)
KF_RACE = 'reply_applied_to_current_exchange'
Q = ('quick', 'thorough'); T = ('thorough',)
MECH = ['PLAIN', 'DIGEST-MD5', 'ANONYMOUS', 'SCRAM-SHA-1 (unsupported)', 'plain (wrong case)', 'empty / absent']
RESP = ['no exchange pending', 'PLAIN step 0', 'PLAIN step 1', 'ANONYMOUS step 1', 'DIGEST-MD5 step 0', 'DIGEST-MD5 step 1', 'DIGEST-MD5 step 2', 'DIGEST-MD5 step 3']
B_STATE = 'pre-state: jid arbitrary 0..4 UTF-16 units, resource 0..2 units, domain 0..2 ASCII units; '
INSTANCES = (
    [I('client_unauth', 'client_unauth', mem_gb=2, bound='pre-state: jid EMPTY, resource/domain arbitrary; one jabber:client element: tag in {iq,message,presence,x}, type in {absent,set,get,subscribe,subscribed,result,chat}, from <= 4 / to <= 3 / id <= 1 arbitrary units, 0..1 child <bind|session|query xmlns=bind|session|roster|inherited> with <resource> text <= 2 units'),
     I('client_auth_route', 'client_auth_route', bound='pre-state: jid arbitrary NON-EMPTY 1..4 units; element as client_unauth; runs ending in a hand-over to routing'),
     I('client_auth_bind', 'client_auth_bind', bound='as client_auth_route; runs ending in a resource binding'),
     I('client_auth_drop', 'client_auth_drop', tiers=T, bound='as client_auth_route; runs in which nothing is routed or bound')]
    + [C('other_ns_c%d' % c, 'other_ns', c, mem_gb=2, tiers=(T if c == 1 else Q), bound=B_STATE + 'element tag in {starttls,auth,iq,message,proceed}, namespace %s' % n) for c, n in enumerate(['urn:ietf:params:xml:ns:xmpp-tls', 'jabber:server', 'none'])]
    + [I('sasl_nochecker', 'sasl_nochecker', mem_gb=2, bound=B_STATE + 'no password checker; element {auth,response,abort,authenticate,success} in the SASL or SASL2 namespace, payload 1..3 bytes')]
    + [C('%s_m%d' % (e, m), e, m, cdefs={'LIST_CAP': 7}, tiers=(Q if (m in (0, 1, 2, 3, 5) and e == 'sasl_auth') or m == 0 else T),
         bound=B_STATE + '%s mechanism %s, payload 1..5 arbitrary ASCII bytes (incl. NUL)' % ('<auth xmlns=sasl>' if e == 'sasl_auth' else '<authenticate xmlns=sasl2> with <initial-response>', MECH[m]))
       for e in ('sasl_auth', 'sasl2_auth') for m in range(6)]
    + [C('password_reply_c%d' % c, 'password_reply', c, tiers=(T if c == 3 else Q), bound=B_STATE + 'pending PLAIN exchange for an arbitrary user of 0..3 ASCII units, %s; reply NoError | AuthorizationError | TemporaryError' % n)
       for c, n in ((0, 'SASL'), (1, 'SASL2 without inline bind'), (3, 'SASL2 with inline bind, empty tag'), (7, 'SASL2 with inline bind, tag 1..2 units'))]
    + [C('sasl_response_c%d' % c, 'sasl_response', c, tiers=(Q if (c < 8 and c != 3) or c in (14, 21) else T),
         bound=B_STATE + '<response xmlns=%s> with 1..4 payload bytes; exchange state: %s%s; recorded user 0..2 ASCII units; DIGEST-MD5 directives of fixed lengths 1..4 bytes' % ('sasl2' if c & 8 else 'sasl', RESP[c & 7], ', digest left over from an earlier round' if c & 16 else ''))
       for c in list(range(16)) + [21, 29]]
    + [C('digest_reply_c%d' % c, 'digest_reply', c, unwind=12, mem_gb=(4 if c & 2 else 3), tiers=(Q if c != 3 else T),
         bound=B_STATE + 'pending DIGEST-MD5 exchange at step 1 (%s), directives realm/digest-uri/nc/cnonce 1 byte, username 2, qop "auth" or 4 arbitrary bytes, response 4 arbitrary bytes; reply = ARBITRARY pair (error in {NoError, AuthorizationError, TemporaryError}, digest %s); MD5 = recording oracle with 2-byte digests' % ('SASL2' if c & 1 else 'SASL', '2 arbitrary bytes' if c & 2 else 'empty'))
       for c in (0, 1, 2, 3)]
    + [I('reply_foreign_sender', 'reply_foreign_sender', mem_gb=2, bound=B_STATE + 'finished() slot invoked with sender() null or not a password reply'),
       I('sasl_misc', 'sasl_misc', mem_gb=2, bound=B_STATE + 'pending PLAIN exchange; element abort | authenticate@sasl | success in the SASL / SASL2 namespace'),
       I('stream_open', 'stream_open', mem_gb=2, loop_bounds={r'^_ZNSt6ranges14__copy_or_move': 240}, bound=B_STATE + 'pending exchange or none; <stream:stream to=X> with X 0..2 arbitrary units'),
       I('reply_race', 'reply_race', known_finding=KF_RACE, mem_gb=3, cdefs={'VP_ACTIVATE_HOOK': 'c16_on_signal', 'LIST_CAP': 7}, bound='unauthenticated connection; two pipelined <auth mechanism=PLAIN> with the concrete messages NUL a NUL x and NUL b NUL y (domain arbitrary); the checker approves the first request'),
       ] + [C('digest_default_c%d' % c, 'digest_default', c, mem_gb=2, bound='user, domain 1 ASCII unit, stored password %d ASCII units; getPassword result NoError | AuthorizationError | TemporaryError; MD5 = recording oracle' % c) for c in range(3)] + [
       I('checker_default', 'checker_default', mem_gb=2, bound='user, password, stored password <= 2 arbitrary UTF-16 units, domain <= 1; getPassword result NoError | AuthorizationError | TemporaryError')]
)
SPEC = dict(
    property='C16',
    groups=[
        dict(name='client', harness='h.cpp', tus=TUS, models=MODELS, ranges_shim=True, loop_bounds=LB,
             instances=INSTANCES),
    ],
    bounds=[
        'single inductive steps: ONE event (incoming element, stream open, or password-checker reply) applied to an ARBITRARY private state of the connection: jid = arbitrary string of 0..4 UTF-16 units (empty = unauthenticated; not even required to look like a JID), resource 0..2 units, served domain 0..2 ASCII units, SASL exchange = none | PLAIN step 0/1 | ANONYMOUS step 1 | DIGEST-MD5 step 0..3 with an arbitrary recorded user name (<= 3 ASCII units), SASL or SASL2 framing, SASL2 inline bind request absent / empty tag / tag 1..2 units',
        'jabber:client element: tag in {iq, message, presence, x}, type in {absent, set, get, subscribe, subscribed, result, chat}, from 0..4 / to 0..3 / id 0..1 arbitrary UTF-16 units, zero or one child with tag in {bind, session, query} and xmlns in {xmpp-bind, xmpp-session, jabber:iq:roster, inherited} containing <resource> with 0..2 arbitrary units',
        'SASL elements: auth / authenticate (+ initial-response) / response / abort / success in urn:ietf:params:xml:ns:xmpp-sasl and urn:xmpp:sasl:2; mechanism in {PLAIN, DIGEST-MD5, ANONYMOUS, SCRAM-SHA-1, plain, empty}; PLAIN message = 1..5 arbitrary ASCII bytes including NUL at any position (all splits: 1..6 pieces)',
        'DIGEST-MD5: directive values of fixed length (realm, digest-uri, nc, cnonce 1 byte, username 2, response 4 arbitrary bytes, qop = "auth" or 4 arbitrary bytes), stored digest empty or 2 arbitrary bytes, server nonce 2 arbitrary bytes, MD5 digests 2 symbolic bytes',
        'elements in other namespaces: tag in {starttls, auth, iq, message, proceed} x namespace in {xmpp-tls, jabber:server, none}',
        'password-checker reply error in {NoError, AuthorizationError, TemporaryError}',
        'thorough tier adds the SASL2 twins of every <response/> state, the remaining mechanism names and client_auth_drop; bounds are the same',
    ],
    assumptions=[
        'inductive reading: every instance starts from an arbitrary state, so the per-event claims hold along every event sequence; the only state invariant used is "a DIGEST-MD5 object is at step 2 only after a response was verified", which digest_reply_* establish (step 1 -> 2 iff the checker reply reports NoError AND the response equals the RFC 2831 digest over the delivered secret; the reply is an arbitrary (error, digest) pair) and no other event sets; digest_default_* show that the default getDigest reports a failed lookup as an error and otherwise delivers MD5(user:domain:stored password)',
        'QXmppIncomingClient lives in raw storage: QObject part from the shared QObject model, QXmppIncomingClientPrivate built by its real constructor; XmppSocket constructor/sendData/disconnectFromHost, QSslSocket::flush/startServerEncryption and QTimer::start/stop/singleShot are ghost logs/no-ops; every socket write succeeds or fails nondeterministically',
        'signals go through the real moc code into QMetaObject::activate (shared model): emissions are counted per signal; the element handed to routing is compared by node identity with the received one (QDomElement is an explicitly shared handle: stamping happens in place), its from attribute is read after the call',
        'QXmppLoggable: logMessage / updateCounter / setGauge have no effect; log and stream-error texts are not built (QString::arg on patterns > 8 units returns an empty string); QString::arg substitutes exactly for the short JID patterns "%1@%2" and "%1/%2"; QXmppIncomingClientPrivate::origin() (log text) and QXmppIncomingClient::sendStreamFeatures() (content of <stream:features/>) are cut, the latter is counted',
        'serializeXml<T> is cut: the bytes are not built, the written block carries the nonza type (Sasl/Sasl2 Success, Failure, Challenge, StarttlsProceed, QXmppNonza); condition codes inside <failure/> are not checked',
        'password checker = harness subclass recording (user, password, domain) of every request and handing out an unfinished QXmppPasswordReply; replies are delivered by calling the real slots with sender() set; qobject_cast through a class registry; dynamic property __sasl_raw through a one-entry-per-object table; QXmppPasswordChecker::checkPassword (default path) is checked separately against an arbitrary getPassword() outcome',
        'base64 is the abstract tagged encoding of models/qt_core.c (payload text always decodes to the harness bytes); UTF-8 codec = identity on ASCII: PLAIN payloads, user names, domain, DIGEST directive values and generated ids are ASCII',
        'QXmppUtils::generateStanzaHash/generateStanzaUuid/generateRandomBytes return arbitrary non-empty ASCII strings of 1..2 units (randomness and uniqueness are outside)',
        'DIGEST-MD5 message grammar is cut (C06 territory): QXmppSaslDigestMd5::parseMessage returns the harness-chosen directive table whatever the text, serializeMessage returns an opaque block, QMap<QByteArray,QByteArray> is a per-directive slot model; QCryptographicHash::hash is a recording oracle (fresh symbolic bytes, equal inputs => equal outputs, nothing else assumed)',
        'string-model hygiene local to this property: QString::mid/left/right, QDomElement::tagName/namespaceURI/text of a null element and default-constructed QString/QByteArray yield an empty MODEL block instead of Qt\'s static shared_null (same value; isNull() is not used by the code under test); reallocData keeps the constant length bound of a block (asserted)',
        'inline-bind instances assume the approved account name contains no "/" (not a valid localpart, RFC 7622): jidToBareJid cuts at the first "/"',
        'QXmppIq/QXmppBindIq/QXmppStanza parsing, Stream.cpp, QXmppSasl.cpp (server objects, create(), nonza fromDom), QXmppUtils.cpp (jidToBareJid, firstChildElement, isIqType, parseBase64) and QXmppPasswordChecker.cpp are REAL code',
    ],
    outside=[
        'QXmppServer routing tables (routeData, incomingClientsByJid/BareJid), presence/roster extensions, QXmppIncomingServer / s2s: which connection RECEIVES a routed stanza (anchor "routing by destination") is not encoded - C16 stops at the hand-over elementReceived(stamped element); needs class-level QHash/QSet models and QMetaObject::invokeMethod',
        'a second authenticated client as victim: covered only through the stamping claim (every routed stanza carries the sender\'s own authenticated address), not by a two-connection scenario',
        'event histories longer than one step beyond the inductive argument (except the two-request scenario of the known finding reply_applied_to_current_exchange)',
        'pipelined requests whose replies overtake each other: see known finding reply_applied_to_current_exchange (instance reply_race); <abort xmlns=sasl2/> followed by a late checker reply (onSasl2Authenticated would read the disengaged sasl2AuthRequest - observed by reading, robustness not C16); a SASL exchange continued with elements of the other SASL version',
        'content of the answers (<failure/> condition, bind result, session result, <success/> authorization-identifier, stream features), TLS (startServerEncryption is only counted), inactivity timer, socket errors',
        'DIGEST-MD5 message syntax, real MD5, SASLprep / non-ASCII credentials, account names containing "/" or "@" (an approved user name "a@d/x" yields the address "a@d/<resource>" after binding - by reading; account-name validation is left to the password checker)',
        'strings longer than the stated bounds; more than one child element in an iq',
    ],
)
