// C16 / srv: class-level models of the routing tables of QXmppServerPrivate (DESIGN 2.3 "class-level containers"), installed as
// C++ specialisations BEFORE server/QXmppServer.cpp is compiled, so the REAL server code is compiled against them unchanged.
//
//   QSet<T*>  for the four pointer sets of QXmppServerPrivate            (VpPtrSet: SRV_CAP slots {has, p})
//   QHash<QString, QXmppIncomingClient *>      incomingClientsByJid      (SRV_CAP slots {used, key, value})
//   QHash<QString, QSet<QXmppIncomingClient *>> incomingClientsByBareJid (SRV_CAP slots {used, key, set})
//   QVector<QStringView>                       the omit-namespace list of helperToXmlAddDomElement (<= 2 entries)
//
// Plain value semantics (what implicit sharing implements).  Every access is at a LITERAL slot index; a mutation under a symbolic
// condition merges values, never produces a symbolic index.  A pointer set keeps a pointer in the slot that already holds it
// ("home slot", also when the slot is not in use), so that planted pre-states keep constant pointers per slot.  Iteration is in
// slot order (Qt's order is unspecified).  Exceeding the capacity is a MODEL failure (inconclusive).
#pragma once
#include <QString>
#include <QStringView>
#include <QSet>
#include <QHash>
#include <QVector>
#include <initializer_list>
extern "C" void vp_srv_limit(bool ok);   // srv_env.c: ASSERT(ok, "capacity of a routing-table model exceeded"), ASSUME(ok)
extern "C" bool vp_qstring_eq(const QString *a, const QString *b);
#ifndef SRV_CAP
#define SRV_CAP 3
#endif

template<typename P> class VpPtrSet
{
public:
    P p[SRV_CAP];
    bool has[SRV_CAP];
    VpPtrSet() { for (int i = 0; i < SRV_CAP; i++) { p[i] = nullptr; has[i] = false; } }
    VpPtrSet(const VpPtrSet &o) { for (int i = 0; i < SRV_CAP; i++) { p[i] = o.p[i]; has[i] = o.has[i]; } }
    VpPtrSet &operator=(const VpPtrSet &o) { for (int i = 0; i < SRV_CAP; i++) { p[i] = o.p[i]; has[i] = o.has[i]; } return *this; }
    class const_iterator
    {
    public:
        const VpPtrSet *s;
        int i;
        const_iterator() : s(nullptr), i(SRV_CAP) { }
        const_iterator(const VpPtrSet *set, int idx) : s(set), i(idx) { }
        static int nextUsed(const VpPtrSet *set, int after) { int n = SRV_CAP; for (int j = SRV_CAP - 1; j >= 0; j--) { if (j > after && set->has[j]) n = j; } return n; }
        static int prevUsed(const VpPtrSet *set, int before) { int n = -1; for (int j = 0; j < SRV_CAP; j++) { if (j < before && set->has[j]) n = j; } return n; }
        P operator*() const { P r = s->p[0]; for (int j = 1; j < SRV_CAP; j++) { if (i == j) r = s->p[j]; } vp_srv_limit(i >= 0 && i < SRV_CAP); return r; }
        const_iterator &operator++() { i = nextUsed(s, i); return *this; }
        const_iterator operator++(int) { const_iterator r = *this; i = nextUsed(s, i); return r; }
        const_iterator &operator--() { i = prevUsed(s, i); return *this; }
        const_iterator operator--(int) { const_iterator r = *this; i = prevUsed(s, i); return r; }
        bool operator==(const const_iterator &o) const { return i == o.i; }
        bool operator!=(const const_iterator &o) const { return i != o.i; }
    };
    typedef const_iterator iterator;
    typedef const_iterator ConstIterator;
    typedef const_iterator Iterator;
    typedef P value_type;
    typedef P key_type;
    const_iterator begin() const { return const_iterator(this, const_iterator::nextUsed(this, -1)); }
    const_iterator end() const { return const_iterator(this, SRV_CAP); }
    const_iterator cbegin() const { return begin(); }
    const_iterator cend() const { return end(); }
    const_iterator constBegin() const { return begin(); }
    const_iterator constEnd() const { return end(); }
    bool contains(const P &v) const { bool r = false; for (int i = 0; i < SRV_CAP; i++) { bool hit = has[i] && p[i] == v; r = r || hit; } return r; }
    const_iterator insert(const P &v)
    {
        int at = SRV_CAP;
        for (int i = SRV_CAP - 1; i >= 0; i--) { if (!has[i]) at = i; }                    // first free slot ...
        for (int i = SRV_CAP - 1; i >= 0; i--) { if (p[i] == v) at = i; }                  // ... unless a slot already holds the pointer (in use or not): home slot
        vp_srv_limit(at < SRV_CAP);
        for (int i = 0; i < SRV_CAP; i++) { if (i == at) { p[i] = v; has[i] = true; } }
        return end();   // the returned position is not used by the code under test
    }
    bool remove(const P &v) { bool r = false; for (int i = 0; i < SRV_CAP; i++) { bool hit = has[i] && p[i] == v; r = r || hit; has[i] = has[i] && !hit; } return r; }
    bool isEmpty() const { bool r = true; for (int i = 0; i < SRV_CAP; i++) { r = r && !has[i]; } return r; }
    bool empty() const { return isEmpty(); }
    int size() const { int n = 0; for (int i = 0; i < SRV_CAP; i++) { n += has[i] ? 1 : 0; } return n; }
    int count() const { return size(); }
    void clear() { for (int i = 0; i < SRV_CAP; i++) has[i] = false; }
    // model internals: plant an entry at a literal slot
    void plant(int i, bool u, P v) { p[i] = v; has[i] = u; }
};

class QXmppIncomingClient;
class QXmppIncomingServer;
class QXmppOutgoingServer;
class QXmppSslServer;
template<> class QSet<QXmppIncomingClient *> : public VpPtrSet<QXmppIncomingClient *> { };
template<> class QSet<QXmppIncomingServer *> : public VpPtrSet<QXmppIncomingServer *> { };
template<> class QSet<QXmppOutgoingServer *> : public VpPtrSet<QXmppOutgoingServer *> { };
template<> class QSet<QXmppSslServer *> : public VpPtrSet<QXmppSslServer *> { };
typedef QSet<QXmppIncomingClient *> VpClientSet;

static inline bool vpKeyEq(const QString &a, const QString &b) { return vp_qstring_eq(&a, &b); }

template<> class QHash<QString, QXmppIncomingClient *>
{
public:
    bool used[SRV_CAP];
    QString k[SRV_CAP];
    QXmppIncomingClient *v[SRV_CAP];
    QHash() { for (int i = 0; i < SRV_CAP; i++) { used[i] = false; v[i] = nullptr; } }
    QXmppIncomingClient *value(const QString &key) const
    {
        QXmppIncomingClient *r = nullptr;
        for (int i = SRV_CAP - 1; i >= 0; i--) { bool hit = used[i] && vpKeyEq(k[i], key); if (hit) r = v[i]; }
        return r;
    }
    bool contains(const QString &key) const { bool r = false; for (int i = 0; i < SRV_CAP; i++) { bool hit = used[i] && vpKeyEq(k[i], key); r = r || hit; } return r; }
    void insert(const QString &key, QXmppIncomingClient *val)
    {
        bool done = false;
        for (int i = 0; i < SRV_CAP; i++) { bool hit = used[i] && vpKeyEq(k[i], key); if (hit) { v[i] = val; done = true; } }   // existing key: value replaced
        for (int i = 0; i < SRV_CAP; i++) { if (!done && !used[i]) { k[i] = key; v[i] = val; used[i] = true; done = true; } }
        vp_srv_limit(done);
    }
    int remove(const QString &key) { int r = 0; for (int i = 0; i < SRV_CAP; i++) { bool hit = used[i] && vpKeyEq(k[i], key); r += hit ? 1 : 0; used[i] = used[i] && !hit; } return r; }
    int size() const { int n = 0; for (int i = 0; i < SRV_CAP; i++) { n += used[i] ? 1 : 0; } return n; }
    bool isEmpty() const { return size() == 0; }
    void plant(int i, bool u, const QString &key, QXmppIncomingClient *val) { used[i] = u; k[i] = key; v[i] = val; }
};

template<> class QHash<QString, VpClientSet>
{
public:
    bool used[SRV_CAP];
    QString k[SRV_CAP];
    // every bucket is an object of its own: operator[] hands out a reference chosen by a symbolic slot number, and a write through a
    // pointer with a symbolic OFFSET into one enclosing object makes symex rewrite that whole object (GUIDE killer 1; measured 7 MB of
    // formula per insert); a choice among distinct objects at offset 0 stays field-sensitive
    VpClientSet *s[SRV_CAP];
    QHash() { for (int i = 0; i < SRV_CAP; i++) { used[i] = false; s[i] = new VpClientSet; } }
    const VpClientSet value(const QString &key) const
    {
        VpClientSet r;
        for (int i = SRV_CAP - 1; i >= 0; i--) { bool hit = used[i] && vpKeyEq(k[i], key); if (hit) r = *s[i]; }
        return r;
    }
    bool contains(const QString &key) const { bool r = false; for (int i = 0; i < SRV_CAP; i++) { bool hit = used[i] && vpKeyEq(k[i], key); r = r || hit; } return r; }
    VpClientSet &operator[](const QString &key)
    {
        int at = SRV_CAP;
        for (int i = SRV_CAP - 1; i >= 0; i--) { if (!used[i]) at = i; }                                     // first free slot ...
        bool fresh = true;
        for (int i = SRV_CAP - 1; i >= 0; i--) { bool hit = used[i] && vpKeyEq(k[i], key); if (hit) { at = i; fresh = false; } }   // ... unless the key exists
        vp_srv_limit(at < SRV_CAP);
        for (int i = 0; i < SRV_CAP; i++) { if (fresh && i == at) { k[i] = key; s[i]->clear(); used[i] = true; } }
        VpClientSet *r = s[0];
        for (int i = 1; i < SRV_CAP; i++) { if (at == i) r = s[i]; }
        return *r;
    }
    int remove(const QString &key) { int r = 0; for (int i = 0; i < SRV_CAP; i++) { bool hit = used[i] && vpKeyEq(k[i], key); r += hit ? 1 : 0; used[i] = used[i] && !hit; } return r; }
    int size() const { int n = 0; for (int i = 0; i < SRV_CAP; i++) { n += used[i] ? 1 : 0; } return n; }
    void plant(int i, bool u, const QString &key) { used[i] = u; k[i] = key; }
};

// the omit-namespace list of helperToXmlAddDomElement: { ns_client, ns_server } or { xmlns of the parent }
template<> class QVector<QStringView>
{
public:
    QStringView e[2];
    int n;
    QVector() : n(0) { }
    QVector(std::initializer_list<QStringView> l) : n(0) { for (const QStringView &x : l) { vp_srv_limit(n < 2); if (n < 2) e[n++] = x; } }
    bool contains(const QStringView &x) const { bool r = false; for (int i = 0; i < 2; i++) { bool hit = i < n && e[i] == x; r = r || hit; } return r; }
    int size() const { return n; }
};
