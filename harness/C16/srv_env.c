/* C16 / srv: environment of the QXmppServer step harness (srv_h.cpp).  Listed AFTER c16_env.c (reuses its helpers), needs
   srv_pre.c before c16_env.c.  One translation unit with qt_core.c, qt_list.c, qt_dom.c, qt_object.c. */
#undef qs_hint
#undef _ZN5QXmpp7Private10XmppSocket8sendDataERK10QByteArray
#undef _ZN5QXmpp7Private10XmppSocket18disconnectFromHostEv
#undef _ZN9QListData11detach_growEPii
#undef _ZN9QListData6detachEi
#ifdef HAVE_T_struct_QArrayData
void vp_srv_limit(uint8_t ok) { ASSERT(ok, "srv model: capacity of a routing-table / list model exceeded"); ASSUME(ok); }

/* ---- QXmlStreamWriter(QByteArray *): the writer tree model; the byte array "written into" becomes a tagged block that carries the
   writer, so that the tree travels with every (implicitly shared) copy of the bytes down to the socket model.  Serialise -> wire ->
   parse never goes through text (DESIGN 2.3: Qt's escaping / tokenising are trusted). ---- */
#define SRV_MAGIC 0x5E12B10Cu
struct srvblk { QAD h; uint32_t magic; uint32_t pad; struct wr *w; uint8_t data[8]; };
void _ZN16QXmlStreamWriterC1EP10QByteArray(char *self, char *buf) { vp_writer_init(self); struct srvblk *b = malloc(sizeof(struct srvblk)); ASSUME(b != 0);
  REF(&b->h) = 1; b->h.f1 = 1; b->h.f2 = 8; b->h.f3 = offsetof(struct srvblk, data); b->magic = SRV_MAGIC; b->pad = 0; b->w = WR(self); b->data[0] = '<'; b->data[1] = 0; QSD(buf) = &b->h; }
void _ZN16QXmlStreamWriterC2EP10QByteArray(char *self, char *buf) { _ZN16QXmlStreamWriterC1EP10QByteArray(self, buf); }
/* When a byte-array writer is destroyed (end of sendElement / sendPacket) its document is classified ONCE, while every pointer is still a
   constant for symex: wr.done = 1: the same stanza as the element the harness handed over (vp_srv_set_input), 2: anything else (the
   server's own answer; its root is kept for the harness).  The connections' logs keep the block, the harness asks for the class. */
static struct dnode *srv_input, *srv_own_root; static uint32_t srv_nown;
void vp_srv_set_input(char *el) { srv_input = DN(el); }
uint8_t vp_srv_same_stanza(char *wire, char *el);
static void srv_classify(char *self) { struct wr *x = WR(self); if (!x || x->done) return; struct dnode *r = x->root; if (!r) { x->done = 2; return; }
  if (srv_input && vp_srv_same_stanza((char*)&r, (char*)&srv_input)) x->done = 1; else { x->done = 2; srv_own_root = r; srv_nown++; } }
void _ZN16QXmlStreamWriterD1Ev(char *self) { srv_classify(self); }
void _ZN16QXmlStreamWriterD2Ev(char *self) { srv_classify(self); }
uint32_t vp_srv_nown(void) { return srv_nown; }
void vp_srv_own_tree(char *out) { DN(out) = srv_own_root; }
static struct wr *srv_wr_of(QAD *d) { if (d != SHARED_NULL && d->f3 == offsetof(struct srvblk, data) && ((struct srvblk*)d)->magic == SRV_MAGIC) return ((struct srvblk*)d)->w; return 0; }

/* ---- the connections' sockets: one log per registered connection (fixed slot per connection: no symbolic log index) ---- */
#define SRV_NCONN 3
static char *srv_obj[SRV_NCONN], *srv_sock[SRV_NCONN];
static uint32_t srv_nsend[SRV_NCONN], srv_nraw[SRV_NCONN], srv_ndisc[SRV_NCONN], srv_nsend_other, srv_ndisc_other, srv_order;
static uint32_t srv_send_at[SRV_NCONN], srv_disc_at[SRV_NCONN];
static struct wr *srv_wrk[SRV_NCONN];
void vp_srv_reg_conn(uint32_t k, char *obj, char *sock) { ASSUME(k < SRV_NCONN); srv_obj[k] = obj; srv_sock[k] = sock; }
uint8_t _ZN5QXmpp7Private10XmppSocket8sendDataERK10QByteArray(char *self, char *ba) { struct wr *x = srv_wr_of(QSD(ba)); struct dnode *t = 0;
  if (x) { VP_ASSERT(x->root != 0 && x->depth == 0, "C16 data handed to a connection is one complete, balanced element"); ASSUME(x->root != 0); t = x->root; }
  uint8_t hit = 0; srv_order++;
  for (uint32_t k = 0; k < SRV_NCONN; k++) { if (self == srv_sock[k]) { srv_nsend[k]++; srv_send_at[k] = srv_order; if (x) srv_wrk[k] = x; else srv_nraw[k]++; hit = 1; } }
  if (!hit) srv_nsend_other++;
  return vp_bool(); }
void _ZN5QXmpp7Private10XmppSocket18disconnectFromHostEv(char *self) { uint8_t hit = 0; srv_order++;
  for (uint32_t k = 0; k < SRV_NCONN; k++) { if (self == srv_sock[k]) { srv_ndisc[k]++; srv_disc_at[k] = srv_order; hit = 1; } }
  if (!hit) srv_ndisc_other++; }
uint32_t vp_srv_nsend(uint32_t k) { return k < SRV_NCONN ? srv_nsend[k] : srv_nsend_other; }
uint32_t vp_srv_nraw(uint32_t k) { return k < SRV_NCONN ? srv_nraw[k] : 0; }
uint32_t vp_srv_ndisc(uint32_t k) { return k < SRV_NCONN ? srv_ndisc[k] : srv_ndisc_other; }
uint32_t vp_srv_send_at(uint32_t k) { return k < SRV_NCONN ? srv_send_at[k] : 0; }
uint32_t vp_srv_disc_at(uint32_t k) { return k < SRV_NCONN ? srv_disc_at[k] : 0; }
/* class of the last element written to connection k: 0 none, 1 the handed-over stanza, 2 the server's own answer */
uint32_t vp_srv_kind(uint32_t k) { if (k >= SRV_NCONN) return 0; struct wr *x = srv_wrk[k]; return x ? x->done : 0; }

/* ---- QMetaObject::invokeMethod(obj, "member", Qt::AutoConnection, Q_ARG(QByteArray, data)): receiver lives in the caller's thread,
   so the slot runs NOW.  "sendData" on a connection object runs the REAL QXmppIncomingClient::sendData (through a harness trampoline)
   and ends in the socket model above; "queueData" / "connectToHost" go to an (opaque) outgoing server-to-server connection. ---- */
uint8_t F_vp_srv_tramp_senddata(char *obj, char *ba);
static uint8_t srv_streq(const char *a, const char *b) { for (uint32_t i = 0; i < 16; i++) { if (a[i] != b[i]) return 0; if (!a[i]) return 1; } return 0; }
static uint32_t srv_ninvoke_send, srv_ns2s_queue, srv_ns2s_connect; static char *srv_s2s_obj; static struct dnode *srv_s2s_tree;
uint8_t _ZN11QMetaObject12invokeMethodEP7QObjectPKcN2Qt14ConnectionTypeE22QGenericReturnArgument16QGenericArgumentS7_S7_S7_S7_S7_S7_S7_S7_S7_(char *obj, char *member, uint32_t type, char *rdata, char *rname, char *a0, char *a1, char *a2, char *a3, char *a4, char *a5, char *a6, char *a7, char *a8, char *a9) {
  /* x86-64 ABI as emitted by clang: the QGenericReturnArgument travels as two scalars (data, name), every QGenericArgument {data, name} by reference */
  ASSERT(type == 0, "srv model: invokeMethod with Qt::AutoConnection only");
  if (srv_streq(member, "sendData")) { srv_ninvoke_send++; char *ba = *(char**)a0; F_vp_srv_tramp_senddata(obj, ba); return 1; }
  if (srv_streq(member, "queueData")) { srv_ns2s_queue++; srv_s2s_obj = obj; char *ba = *(char**)a0; struct wr *x = srv_wr_of(QSD(ba)); srv_s2s_tree = x ? x->root : (struct dnode*)0; return 1; }
  if (srv_streq(member, "connectToHost")) { srv_ns2s_connect++; return 1; }
  ASSERT(0, "srv model: invokeMethod of an unexpected member"); return 0; }
uint32_t vp_srv_ninvoke_send(void) { return srv_ninvoke_send; }
uint32_t vp_srv_ns2s_queue(void) { return srv_ns2s_queue; }
uint32_t vp_srv_ns2s_connect(void) { return srv_ns2s_connect; }
char* vp_srv_s2s_obj(void) { return srv_s2s_obj; }
void vp_srv_s2s_tree(char *out) { DN(out) = srv_s2s_tree; }

/* ---- DOM: attribute list of an element (helperToXmlAddDomElement copies attributes one by one).  A QDomNamedNodeMap is a handle to
   the owning node; item(i) is the i-th attribute in slot order, presented as a node {tag = name, text = value}. ---- */
void _ZNK11QDomElement10attributesEv(char *ret, char *el) { DN(ret) = DN(el); }
void _ZN16QDomNamedNodeMapD1Ev(char *self) { }
void _ZN16QDomNamedNodeMapD2Ev(char *self) { }
uint32_t _ZNK16QDomNamedNodeMap6lengthEv(char *m) { struct dnode *n = DN(m); return n ? n->nattr : 0; }
void _ZNK16QDomNamedNodeMap4itemEi(char *ret, char *m, uint32_t i) { struct dnode *n = DN(m); struct dnode *a = 0; uint32_t seen = 0;
  if (n) { for (uint32_t s = 0; s < DOM_MAXATTR; s++) { if (n->has[s]) { if (seen == i) { a = dn_new(); a->tag = qad_ref(attr_names[s]); a->text = qad_ref(n->av[s]); a->parent = n; } seen++; } } }
  DN(ret) = a; }
void _ZNK8QDomNode6toAttrEv(char *ret, char *self) { DN(ret) = DN(self); }
void _ZNK8QDomAttr4nameEv(char *ret, char *self) { struct dnode *n = DN(self); QSD(ret) = n ? qad_ref(n->tag) : C16_EMPTY; }
void _ZNK8QDomAttr5valueEv(char *ret, char *self) { struct dnode *n = DN(self); QSD(ret) = n ? qad_ref(n->text) : C16_EMPTY; }

/* ---- QList blocks with zero-filled arrays (see srv_pre.c) ---- */
#ifdef HAVE_T_struct_QListData__Data
static struct ld *srv_ld_new(uint32_t n) { struct ld *t = ld_new(n); for (uint32_t k = 0; k < LIST_CAP; k++) t->array[k] = 0; return t; }
char* _ZN9QListData6detachEi(char *self, uint32_t alloc) { struct ld *x = LD(self); uint32_t n = x->end - x->begin; struct ld *t = srv_ld_new(alloc ? n : 0); LD(self) = t; return (char*)x; }
char* _ZN9QListData11detach_growEPii(char *self, char *idx, uint32_t num) { struct ld *x = LD(self); uint32_t l = x->end - x->begin; int32_t i = *(int32_t*)idx;
  if (i < 0) *(int32_t*)idx = 0; else if ((uint32_t)i > l) *(int32_t*)idx = (int32_t)l; struct ld *t = srv_ld_new(l + num); LD(self) = t; return (char*)x; }
#endif
/* ---- QString::split(sep) for a ONE-unit separator (QXmppUtils::jidToDomain: jidToBareJid(jid).split("@").last()).
   The number of pieces is symbolic.  The list block is filled RIGHT-ALIGNED (end = LIST_CAP constant, begin = LIST_CAP - pieces):
   the r-th piece from the end lives in the literal slot LIST_CAP-1-r, so last() reads a literal slot (a list with a symbolic `end`
   makes last() a read at a symbolic offset into the block, after which the piece's d-pointer may be "anything": measured 7 s per
   reference-count operation).  Pieces are found by one backward scan and copied to fresh blocks. ---- */
#ifdef HAVE_T_struct_QListData__Data
static void vpl_srv_slice16(QAD *d, QAD *a, uint32_t from, uint32_t n) { for (uint32_t i = 0; i < QHINT16(a); i++) { if (i >= n) break; C16_SD(d)[i] = QCH16(a)[from + i]; } }
/* st[r], ln[r]: start and length of the r-th piece counted from the END; returns the number of pieces */
static uint32_t vpl_srv_split_rscan(QAD *a, uint16_t sep, uint32_t *st, uint32_t *ln) { uint32_t cur = 0, n = a->f1, stop = n;
  for (uint32_t k = 0; k < QHINT16(a); k++) { if (k >= n) break; uint32_t i = n - 1 - k; if (QCH16(a)[i] == sep) { if (cur < LIST_CAP) { st[cur] = i + 1; ln[cur] = stop - (i + 1); } cur++; stop = i; } }
  if (cur < LIST_CAP) { st[cur] = 0; ln[cur] = stop; } return cur + 1; }
void _ZNK7QString5splitERKS_6QFlagsIN2Qt18SplitBehaviorFlagsEENS3_15CaseSensitivityE(char *ret, char *self, char *sepstr, uint32_t beh, uint32_t cs) { QAD *a = QSD(self), *sp = QSD(sepstr);
  ASSERT(!numS(a).isnum, "split of an abstract number string"); ASSERT(sp->f1 == 1 && beh == 0, "srv model: QString::split with a one-unit separator, KeepEmptyParts"); ASSUME(sp->f1 == 1);
  uint16_t sep = QCH16(sp)[0]; uint32_t st[LIST_CAP], ln[LIST_CAP]; for (uint32_t k = 0; k < LIST_CAP; k++) { st[k] = 0; ln[k] = 0; }
  uint32_t np = vpl_srv_split_rscan(a, sep, st, ln); ASSERT(np <= LIST_CAP, "QList capacity of the model exceeded (QString::split)"); ASSUME(np <= LIST_CAP);
  struct ld *l = ld_new(LIST_CAP); l->begin = LIST_CAP - np; l->end = LIST_CAP;
  for (uint32_t r = 0; r < LIST_CAP; r++) { QAD *p = qs_new(ln[r], QHINT16(a)); vpl_srv_slice16(p, a, st[r], ln[r]); qs_seal(p, 0); l->array[LIST_CAP - 1 - r] = (char*)p; }
  *(struct ld**)ret = l; }
/* no static plugins */
#ifdef HAVE_G__ZN9QListData11shared_nullE
void _ZN13QPluginLoader15staticInstancesEv(char *ret) { *(char**)ret = (char*)&G__ZN9QListData11shared_nullE; }
#endif
#endif

/* ---- QString::endsWith(QString) (routeData: sub-domain test) ---- */
uint8_t _ZNK7QString8endsWithERKS_N2Qt15CaseSensitivityE(char *self, char *o, uint32_t cs) { QAD *a = QSD(self), *b = QSD(o); ASSERT(cs == 1, "case-insensitive compare not modelled");
  return _ZN9QtPrivate8endsWithE11QStringViewS0_N2Qt15CaseSensitivityE(a->f1, (char*)qs_chars(a), b->f1, (char*)qs_chars(b), cs); }
/* ---- QDateTime inside QXmppStanza / QXmppIq private data: opaque, always null ---- */
void _ZN9QDateTimeC1Ev(char *self) { *(char**)self = 0; }
void _ZN9QDateTimeC1ERKS_(char *self, char *o) { *(char**)self = *(char**)o; }
void _ZN9QDateTimeD1Ev(char *self) { }
uint8_t _ZNK9QDateTime6isNullEv(char *self) { return *(char**)self == 0; }
uint8_t _ZNK9QDateTime7isValidEv(char *self) { return *(char**)self != 0; }
/* ---- private-data destructors and list deallocation of the stanza objects handleStanza builds for the error answer: skipped (no
   memory-reclamation claim; precedent harness/C20).  Reference counts of blocks reached through merged pointers do not fold, and symex
   would walk every member list of every (infeasibly) released block: measured > 200 s. ---- */
void _ZN18QXmppStanzaPrivateD2Ev(char *self) { }
void _ZN23QXmppStanzaErrorPrivateD2Ev(char *self) { }
void _ZN24QXmppE2eeMetadataPrivateD2Ev(char *self) { }
void _ZN27QXmppExtendedAddressPrivateD2Ev(char *self) { }
void _ZN5QListI12QXmppElementE7deallocEPN9QListData4DataE(char *self, char *d) { }
void _ZN5QListI20QXmppExtendedAddressE7deallocEPN9QListData4DataE(char *self, char *d) { }
void _ZN5QListI7QStringE7deallocEPN9QListData4DataE(char *self, char *d) { }
/* ---- TLS material held by QXmppServerPrivate: opaque ---- */
void _ZN15QSslCertificateC1ERK10QByteArrayN4QSsl14EncodingFormatE(char *self, char *data, uint32_t fmt) { *(char**)self = 0; }
void _ZN15QSslCertificateD1Ev(char *self) { }
void _ZN7QSslKeyC1Ev(char *self) { *(char**)self = 0; }
void _ZN7QSslKeyD1Ev(char *self) { }

/* ---- signals of the server (hook of qt_object.c): clientConnected(jid) / clientDisconnected(jid) counted, jid argument kept ---- */
#ifdef HAVE_G__ZN11QXmppServer16staticMetaObjectE
#define SRV_SERVER_MO ((char*)&G__ZN11QXmppServer16staticMetaObjectE)
#else
#define SRV_SERVER_MO ((char*)0)
#endif
static uint32_t srv_nsig_conn, srv_nsig_disc, srv_nsig_other; static QAD *srv_sig_jid;
void srv_on_signal(char *sender, char *mo, uint32_t idx, char **argv) {
  if (mo == SRV_SERVER_MO && idx == 0) { srv_nsig_conn++; srv_sig_jid = qad_ref(QSD(argv[1])); }
  else if (mo == SRV_SERVER_MO && idx == 1) { srv_nsig_disc++; srv_sig_jid = qad_ref(QSD(argv[1])); }
  else srv_nsig_other++; }
uint32_t vp_srv_nsig(uint32_t which) { return which == 0 ? srv_nsig_conn : which == 1 ? srv_nsig_disc : srv_nsig_other; }
void vp_srv_sig_jid(char *out) { QSD(out) = srv_sig_jid ? qad_ref(srv_sig_jid) : C16_EMPTY; }

/* ---- harness oracle helpers (spec-level string functions, written independently of QXmppUtils) ---- */
/* position of the first '/' (or the length) */
static uint32_t vpl_srv_slash(QAD *a) { uint32_t n = a->f1, p = n; for (uint32_t i = 0; i < QHINT16(a); i++) { if (i >= n) break; if (p == n && QCH16(a)[i] == '/') p = i; } return p; }
/* bare(jid) == x */
uint8_t vp_srv_bare_is(char *jid, char *x) { QAD *J = QSD(jid), *X = QSD(x); uint32_t p = vpl_srv_slash(J); if (X->f1 != p) return 0; uint8_t ok = 1;
  for (uint32_t i = 0; i < QHINT16(J); i++) { if (i >= p) break; if (QCH16(J)[i] != QCH16(X)[i]) ok = 0; } return ok; }
/* the address has a non-empty resource part */
uint8_t vp_srv_has_resource(char *jid) { QAD *J = QSD(jid); uint32_t p = vpl_srv_slash(J); return p + 1 < J->f1; }
/* the address contains a '/' */
uint8_t vp_srv_has_slash(char *jid) { QAD *J = QSD(jid); return vpl_srv_slash(J) < J->f1; }
/* number of occurrences of a unit */
uint32_t vp_srv_count_unit(char *s, uint16_t c) { QAD *S = QSD(s); uint32_t n = 0; for (uint32_t i = 0; i < QHINT16(S); i++) { if (i >= S->f1) break; if (QCH16(S)[i] == c) n++; } return n; }
/* domain part by the RFC 6122 reading: after the LAST '@' of the part before the first '/' (whole part if there is no '@') equals x */
uint8_t vp_srv_domain_is(char *jid, char *x) { QAD *J = QSD(jid), *X = QSD(x); uint32_t p = vpl_srv_slash(J), s = 0;
  for (uint32_t i = 0; i < QHINT16(J); i++) { if (i >= p) break; if (QCH16(J)[i] == '@') s = i + 1; }
  if (X->f1 != p - s) return 0; uint8_t ok = 1; for (uint32_t i = 0; i < QHINT16(X); i++) { if (i >= X->f1) break; if (QCH16(J)[s + i] != QCH16(X)[i]) ok = 0; } return ok; }
/* delivered tree vs. the element handed over by the connection: same tag, same attribute set with the same values, same number of
   children (deep compare of the children), same text; the root's own namespace is the stream's default namespace (jabber:client) and
   is not re-declared on the wire.  Attribute values are compared in the slots of the element's own attributes only (the attribute
   counts are equal), children only when there are any: keeps the oracle linear in the size of the element. */
uint8_t vp_srv_same_stanza(char *wire, char *el) { struct dnode *w = DN(wire), *e = DN(el); if (!w) return 0; if (!e) return 0;
  if (w->nattr != e->nattr || w->nch != e->nch || w->ns->f1 != 0) return 0;
  if (!d_eq(w->tag, e->tag) || !d_eq(w->text, e->text)) return 0;
  for (uint32_t i = 0; i < DOM_MAXATTR; i++) { if (!e->has[i]) continue; if (!w->has[i]) return 0; if (!d_eq(w->av[i], e->av[i])) return 0; }
  for (uint32_t i = 0; i < DOM_MAXCH; i++) { if (i >= e->nch) break; if (!tree_eq_walk(w->ch[i], e->ch[i], 1)) return 0; }
  return 1; }
/* attribute of a delivered tree */
void vp_srv_attr(char *out, char *el, char *name) { struct dnode *n = DN(el); int i = dn_attr(n, QSD(name)); QSD(out) = i >= 0 ? qad_ref(n->av[i]) : C16_EMPTY; }
uint32_t vp_srv_nchildren(char *el) { struct dnode *n = DN(el); return n ? n->nch : 0; }
#ifndef SRV_JIDLEN
#define SRV_JIDLEN 8
#endif
#ifndef SRV_NCONN_LIVE
#define SRV_NCONN_LIVE 3
#endif
uint32_t vp_srv_jidlen(void) { return SRV_JIDLEN; }
uint32_t vp_srv_nconn(void) { return SRV_NCONN_LIVE; }
/* constant tables (fresh block per call, content selected by a possibly symbolic index) */
#define SRV_NAMELEN 12
static const uint8_t srv_tab[2][8][SRV_NAMELEN + 1] = {
  { "iq", "message", "presence", "x" },
  { "", "get", "set", "result", "error", "subscribe", "chat", "unavailable" } };
static const uint8_t srv_tablen[2] = { 8, 11 };
void vp_srv_pick(char *out, uint32_t table, uint32_t idx) { ASSUME(table < 2); ASSUME(idx < 8);
  uint32_t n = 0; for (uint32_t i = 0; i < SRV_NAMELEN; i++) { if (i >= srv_tablen[table]) break; if (srv_tab[table][idx][i]) n = i + 1; }
  QAD *d = qs_new(n, srv_tablen[table]); for (uint32_t i = 0; i < SRV_NAMELEN; i++) { if (i >= srv_tablen[table]) break; C16_SD(d)[i] = srv_tab[table][idx][i]; } QSD(out) = d; }
#endif
