/* C16 environment: what QXmppIncomingClient.cpp / the SASL server objects touch outside the translated qxmpp sources.
   Needs c16_pre.c, qt_core.c, qt_list.c, qt_dom.c, qt_object.c before it (one translation unit). */
#undef _ZNK11QMetaObject4castEP7QObject
#undef _ZNK11QMetaObject4castEPK7QObject
#ifdef HAVE_T_struct_QArrayData
#define QSD(p) (*(QAD**)(p))
#define C16_SD(d) (((struct qs*)(d))->data)
#define C16_BD(d) (((struct qb*)(d))->data)
uint8_t vp_c16_false(void) { return 0; }

/* ---- qobject_cast: class registry filled by the harness (object, most derived meta object) ---- */
#define C16_NCLS 4
static char *c16_cls_obj[C16_NCLS]; static char *c16_cls_mo[C16_NCLS]; static uint32_t c16_ncls;
void vp_c16_set_class(char *o, char *mo) { ASSERT(c16_ncls < C16_NCLS, "C16 env: class registry full"); c16_cls_obj[c16_ncls] = o; c16_cls_mo[c16_ncls] = mo; c16_ncls++; }
static char *c16_cast(char *mo, char *o) { if (!o) return 0; for (uint32_t i = 0; i < C16_NCLS; i++) { if (i >= c16_ncls) break; if (c16_cls_obj[i] == o) return c16_cls_mo[i] == mo ? o : 0; } return 0; }
char* _ZNK11QMetaObject4castEP7QObject(char *mo, char *o) { return c16_cast(mo, o); }
char* _ZNK11QMetaObject4castEPK7QObject(char *mo, char *o) { return c16_cast(mo, o); }

/* ---- QXmppLoggable: QObject part only; log / metrics signals have no observable effect ---- */
void _ZN13QXmppLoggableC2EP7QObject(char *self, char *parent) { vp_qobject_init(self, parent); }
void _ZN13QXmppLoggableC1EP7QObject(char *self, char *parent) { vp_qobject_init(self, parent); }
void _ZN13QXmppLoggable10logMessageEN11QXmppLogger11MessageTypeERK7QString(char *self, uint32_t type, char *msg) { }
void _ZN13QXmppLoggable13updateCounterERK7QStringx(char *self, char *name, uint64_t v) { }
void _ZN13QXmppLoggable8setGaugeERK7QStringd(char *self, char *name, double v) { }

/* ---- the client's socket: writes and disconnects are a ghost log ---- */
struct c16_sock { char *vptr; char *d_ptr; char *sdi_vptr; QAD *dataBuffer; QAD *undecoded; uint64_t directTls; char *m_socket; QAD *streamOpen; };
static void c16_sock_init(char *self, char *parent) { vp_qobject_init(self, parent); struct c16_sock *s = (struct c16_sock*)self; s->sdi_vptr = 0; s->dataBuffer = SHARED_NULL; s->undecoded = SHARED_NULL; s->directTls = 0; s->m_socket = 0; s->streamOpen = SHARED_NULL; }
void _ZN5QXmpp7Private10XmppSocketC1EP7QObject(char *self, char *parent) { c16_sock_init(self, parent); }
void _ZN5QXmpp7Private10XmppSocketC2EP7QObject(char *self, char *parent) { c16_sock_init(self, parent); }
#define C16_SENT_CAP 6
#define C16_MAGIC 0xC16B10C5u
struct c16blk { QAD h; uint32_t magic; uint32_t kind; uint8_t data[8]; };
static QAD *c16_blk(uint32_t kind) { struct c16blk *b = malloc(sizeof(struct c16blk)); ASSUME(b != 0); REF(&b->h) = 1; b->h.f1 = 1; b->h.f2 = 8; b->h.f3 = offsetof(struct c16blk, data); b->magic = C16_MAGIC; b->kind = kind; b->data[0] = '<'; b->data[1] = 0; return &b->h; }
static uint32_t c16_sent_n, c16_sent_kind[C16_SENT_CAP], c16_ndisc, c16_ntls;
uint8_t _ZN5QXmpp7Private10XmppSocket8sendDataERK10QByteArray(char *self, char *ba) { QAD *d = QSD(ba); ASSERT(c16_sent_n < C16_SENT_CAP, "C16 env: socket log capacity"); ASSUME(c16_sent_n < C16_SENT_CAP);
  uint32_t kind = 9; if (d != SHARED_NULL && d->f3 == offsetof(struct c16blk, data) && ((struct c16blk*)d)->magic == C16_MAGIC) kind = ((struct c16blk*)d)->kind;
  c16_sent_kind[c16_sent_n++] = kind; return vp_bool(); }
void _ZN5QXmpp7Private10XmppSocket18disconnectFromHostEv(char *self) { c16_ndisc++; }
uint32_t vp_c16_sent_n(void) { return c16_sent_n; }
uint32_t vp_c16_sent_kind(uint32_t i) { return i < C16_SENT_CAP ? c16_sent_kind[i] : 0; }
uint32_t vp_c16_ndisconnect(void) { return c16_ndisc; }
uint32_t vp_c16_ntls(void) { return c16_ntls; }
/* TLS upgrade of the underlying QSslSocket: counted only */
uint8_t _ZN10QSslSocket5flushEv(char *self) { return 1; }
void _ZN10QSslSocket21startServerEncryptionEv(char *self) { c16_ntls++; }
/* inactivity timer: no behaviour */
void _ZN6QTimer5startEv(char *self) { }
void _ZN6QTimer4stopEv(char *self) { }

/* ---- serializeXml: the bytes written are not inspected, only classified by the type that was serialized ---- */
void _ZN5QXmpp7Private12serializeXmlEPKvPFvS2_P16QXmlStreamWriterE(char *ret, char *packet, char *fn) { QSD(ret) = c16_blk(0); }

/* ---- signal snapshots (hook of qt_object.c): first word of argv[1] at emission time (for elementReceived: the DOM node) ---- */
static char *c16_sig_a1[VP_SIGLOG_CAP]; static uint32_t c16_nsig;
void c16_on_signal(char *sender, char *mo, uint32_t idx, char **argv) { ASSERT(c16_nsig < VP_SIGLOG_CAP, "C16 env: signal snapshot log full"); ASSUME(c16_nsig < VP_SIGLOG_CAP); c16_sig_a1[c16_nsig++] = argv ? *(char**)argv[1] : 0; }
uint32_t vp_c16_nsig(void) { return c16_nsig; }
void vp_c16_sig_element(uint32_t i, char *out) { ASSUME(i < VP_SIGLOG_CAP); DN(out) = (struct dnode*)c16_sig_a1[i]; }

/* ---- cuts inside QXmppIncomingClient.cpp: log text only / stream features content ---- */
void _ZNK26QXmppIncomingClientPrivate6originEv(char *ret, char *self) { QSD(ret) = SHARED_NULL; }

/* ---- constant tables: a FRESH block per call whose content is selected by a (possibly symbolic) index ---- */
#define C16_NAMELEN 36
#define C16_NTAB 6
static const uint8_t c16_tab[C16_NTAB][8][C16_NAMELEN + 1] = {
  { "iq", "message", "presence", "x" },
  { "", "set", "get", "subscribe", "subscribed", "result", "chat" },
  { "bind", "session", "query" },
  { "urn:ietf:params:xml:ns:xmpp-bind", "urn:ietf:params:xml:ns:xmpp-session", "jabber:iq:roster", "" },
  { "urn:ietf:params:xml:ns:xmpp-sasl", "urn:xmpp:sasl:2", "jabber:client", "urn:ietf:params:xml:ns:xmpp-tls", "jabber:server", "" },
  { "PLAIN", "DIGEST-MD5", "ANONYMOUS", "SCRAM-SHA-1", "plain", "" } };
static const uint8_t c16_tablen[C16_NTAB] = { 8, 10, 7, 35, 32, 11 };   /* longest entry per table = hint of the fresh block */
void vp_c16_pick(char *out, uint32_t table, uint32_t idx) { ASSERT(table < C16_NTAB, "C16 env: table"); ASSUME(table < C16_NTAB); ASSUME(idx < 8);
  uint32_t n = 0; for (uint32_t i = 0; i < C16_NAMELEN; i++) { if (i >= c16_tablen[table]) break; if (c16_tab[table][idx][i]) n = i + 1; }
  QAD *d = qs_new(n, c16_tablen[table]); for (uint32_t i = 0; i < C16_NAMELEN; i++) { if (i >= c16_tablen[table]) break; C16_SD(d)[i] = c16_tab[table][idx][i]; } QSD(out) = d; }
void vp_dom_truncate(char *el, uint32_t n) { struct dnode *d = DN(el); ASSUME(n <= d->nch); for (uint32_t i = d->nch; i < DOM_MAXCH; i++) d->ch[i] = 0; d->nch = n; }
void vp_c16_digest_input(uint32_t slot, char *value, uint8_t present) { }
#endif
