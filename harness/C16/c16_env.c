/* C16 environment: what QXmppIncomingClient.cpp / the SASL server objects touch outside the translated qxmpp sources.
   Needs c16_pre.c, qt_core.c, qt_list.c, qt_dom.c, qt_object.c before it (one translation unit). */
#undef _ZNK11QMetaObject4castEP7QObject
#undef _ZNK11QMetaObject4castEPK7QObject
#ifdef HAVE_T_struct_QArrayData
#define QSD(p) (*(QAD**)(p))
#define C16_SD(d) (((struct qs*)(d))->data)
#define C16_BD(d) (((struct qb*)(d))->data)
uint8_t vp_c16_false(void) { return 0; }

/* ---- qobject_cast: class registry filled by the harness (object, most derived meta object) ---- */
#define C16_NCLS 4
static char *c16_cls_obj[C16_NCLS]; static char *c16_cls_mo[C16_NCLS]; static uint32_t c16_ncls;
void vp_c16_set_class(char *o, char *mo) { ASSERT(c16_ncls < C16_NCLS, "C16 env: class registry full"); c16_cls_obj[c16_ncls] = o; c16_cls_mo[c16_ncls] = mo; c16_ncls++; }
static char *c16_cast(char *mo, char *o) { if (!o) return 0; for (uint32_t i = 0; i < C16_NCLS; i++) { if (i >= c16_ncls) break; if (c16_cls_obj[i] == o) return c16_cls_mo[i] == mo ? o : 0; } return 0; }
char* _ZNK11QMetaObject4castEP7QObject(char *mo, char *o) { return c16_cast(mo, o); }
char* _ZNK11QMetaObject4castEPK7QObject(char *mo, char *o) { return c16_cast(mo, o); }

/* ---- QXmppLoggable: QObject part only; log / metrics signals have no observable effect ---- */
void _ZN13QXmppLoggableC2EP7QObject(char *self, char *parent) { vp_qobject_init(self, parent); }
void _ZN13QXmppLoggableC1EP7QObject(char *self, char *parent) { vp_qobject_init(self, parent); }
void _ZN13QXmppLoggable10logMessageEN11QXmppLogger11MessageTypeERK7QString(char *self, uint32_t type, char *msg) { }
void _ZN13QXmppLoggable13updateCounterERK7QStringx(char *self, char *name, uint64_t v) { }
void _ZN13QXmppLoggable8setGaugeERK7QStringd(char *self, char *name, double v) { }

/* ---- the client's socket: writes and disconnects are a ghost log ---- */
struct c16_sock { char *vptr; char *d_ptr; char *sdi_vptr; QAD *dataBuffer; QAD *undecoded; uint64_t directTls; char *m_socket; QAD *streamOpen; };
static void c16_sock_init(char *self, char *parent) { vp_qobject_init(self, parent); struct c16_sock *s = (struct c16_sock*)self; s->sdi_vptr = 0; s->dataBuffer = SHARED_NULL; s->undecoded = SHARED_NULL; s->directTls = 0; s->m_socket = 0; s->streamOpen = SHARED_NULL; }
void _ZN5QXmpp7Private10XmppSocketC1EP7QObject(char *self, char *parent) { c16_sock_init(self, parent); }
void _ZN5QXmpp7Private10XmppSocketC2EP7QObject(char *self, char *parent) { c16_sock_init(self, parent); }
#define C16_SENT_CAP 6
#define C16_MAGIC 0xC16B10C5u
struct c16blk { QAD h; uint32_t magic; uint32_t kind; uint8_t data[8]; };
static QAD *c16_blk(uint32_t kind) { struct c16blk *b = malloc(sizeof(struct c16blk)); ASSUME(b != 0); REF(&b->h) = 1; b->h.f1 = 1; b->h.f2 = 8; b->h.f3 = offsetof(struct c16blk, data); b->magic = C16_MAGIC; b->kind = kind; b->data[0] = '<'; b->data[1] = 0; return &b->h; }
static uint32_t c16_sent_n, c16_sent_kind[C16_SENT_CAP], c16_ndisc, c16_ntls;
uint8_t _ZN5QXmpp7Private10XmppSocket8sendDataERK10QByteArray(char *self, char *ba) { QAD *d = QSD(ba); ASSERT(c16_sent_n < C16_SENT_CAP, "C16 env: socket log capacity"); ASSUME(c16_sent_n < C16_SENT_CAP);
  uint32_t kind = 9; if (d != SHARED_NULL && d->f3 == offsetof(struct c16blk, data) && ((struct c16blk*)d)->magic == C16_MAGIC) kind = ((struct c16blk*)d)->kind;
  c16_sent_kind[c16_sent_n++] = kind; return vp_bool(); }
void _ZN5QXmpp7Private10XmppSocket18disconnectFromHostEv(char *self) { c16_ndisc++; }
uint32_t vp_c16_sent_n(void) { return c16_sent_n; }
uint32_t vp_c16_sent_kind(uint32_t i) { return i < C16_SENT_CAP ? c16_sent_kind[i] : 0; }
uint32_t vp_c16_ndisconnect(void) { return c16_ndisc; }
uint32_t vp_c16_ntls(void) { return c16_ntls; }
/* TLS upgrade of the underlying QSslSocket: counted only */
uint8_t _ZN10QSslSocket5flushEv(char *self) { return 1; }
void _ZN10QSslSocket21startServerEncryptionEv(char *self) { c16_ntls++; }
/* inactivity timer: no behaviour */
void _ZN6QTimer5startEv(char *self) { }
void _ZN6QTimer4stopEv(char *self) { }

/* ---- serializeXml: the bytes written are not inspected, only classified by the type that was serialized ---- */
void _ZN5QXmpp7Private12serializeXmlEPKvPFvS2_P16QXmlStreamWriterE(char *ret, char *packet, char *fn) { QSD(ret) = c16_blk(0); }

/* ---- signal snapshots (hook of qt_object.c): first word of argv[1] at emission time (for elementReceived: the DOM node) ---- */
static char *c16_sig_a1[VP_SIGLOG_CAP]; static uint32_t c16_nsig;
void c16_on_signal(char *sender, char *mo, uint32_t idx, char **argv) { ASSERT(c16_nsig < VP_SIGLOG_CAP, "C16 env: signal snapshot log full"); ASSUME(c16_nsig < VP_SIGLOG_CAP); c16_sig_a1[c16_nsig++] = argv ? *(char**)argv[1] : 0; }
uint32_t vp_c16_nsig(void) { return c16_nsig; }
void vp_c16_sig_element(uint32_t i, char *out) { ASSUME(i < VP_SIGLOG_CAP); DN(out) = (struct dnode*)c16_sig_a1[i]; }

/* ---- cuts inside QXmppIncomingClient.cpp: log text only / stream features content ---- */
void _ZNK26QXmppIncomingClientPrivate6originEv(char *ret, char *self) { QSD(ret) = SHARED_NULL; }


/* ---- QString helpers missing in models/qt_core.c ---- */
/* arg(): "%N" placeholders are substituted for short patterns (the JID builders "%1@%2", "%1/%2"); longer patterns are log texts
   and are returned unformatted (logging is outside the property, DESIGN 2.5) */
#define C16_ARGPAT 8
void _ZN9QtPrivate12argToQStringE11QStringViewmPPKNS_7ArgBaseE(char *ret, uint64_t psize, char *pat, uint64_t nargs, char *args) { const uint16_t *p = (const uint16_t*)pat;
  if (psize > C16_ARGPAT) { QSD(ret) = qs_from(p, (uint32_t)psize); return; }
  uint32_t total = 0; for (uint32_t a = 0; a < 2; a++) { if (a >= nargs) break; char *ab = ((char**)args)[a]; const uint16_t *ad = *(const uint16_t**)(ab + 16); uint64_t an = *(uint64_t*)(ab + 8); total += hint16(ad, an); }
  ASSERT(nargs <= 2, "QString::arg model: at most two arguments"); QAD *d = qs_new(0, total + C16_ARGPAT); uint32_t j = 0;
  for (uint32_t i = 0; i < C16_ARGPAT; i++) { if (i >= psize) break;
    if (p[i] == '%' && i + 1 < psize && p[i + 1] >= '1' && p[i + 1] <= '9' && (uint64_t)(p[i + 1] - '1') < nargs) { char *ab = ((char**)args)[p[i + 1] - '1']; uint64_t an = *(uint64_t*)(ab + 8); const uint16_t *ad = *(const uint16_t**)(ab + 16);
      ASSERT(!num16(ad, an).isnum, "QString::arg model: abstract number argument"); ASSERT(j + an <= QS_CAP, "QString capacity of the model exceeded (arg)");
      for (uint32_t k = 0; k < H16(ad, an); k++) { if (k >= an) break; C16_SD(d)[j + k] = ad[k]; } j += (uint32_t)an; i++; }
    else { ASSERT(j < QS_CAP, "QString capacity of the model exceeded (arg)"); C16_SD(d)[j++] = p[i]; } }
  d->f1 = j; QSD(ret) = d; }
void _ZNK7QString3argERKS_i5QChar(char *ret, char *self, char *a, uint32_t w, uint16_t fill) { QSD(ret) = qad_ref(QSD(self)); }
void _ZNK7QString3argExii5QChar(char *ret, char *self, uint64_t a, uint32_t w, uint32_t base, uint16_t fill) { QSD(ret) = qad_ref(QSD(self)); }
static uint8_t c16_isspace(uint16_t c) { return c == ' ' || (c >= 9 && c <= 13) || c == 0x85 || c == 0xA0 || c == 0x1680 || (c >= 0x2000 && c <= 0x200A) || c == 0x2028 || c == 0x2029 || c == 0x202F || c == 0x205F || c == 0x3000; }
static uint32_t vpl_c16_trim_b(QAD *a) { uint32_t b = 0; for (uint32_t i = 0; i < QHINT16(a); i++) { if (i >= a->f1) break; if (b == i && c16_isspace(QCH16(a)[i])) b = i + 1; } return b; }
static uint32_t vpl_c16_trim_e(QAD *a, uint32_t b) { uint32_t n = a->f1, e = n; for (uint32_t i = 0; i < QHINT16(a); i++) { if (i >= n) break; uint32_t k = n - 1 - i; if (e == k + 1 && k >= b && c16_isspace(QCH16(a)[k])) e = k; } return e; }
void _ZN7QString14trimmed_helperERS_(char *ret, char *self) { QAD *a = QSD(self); ASSERT(!numS(a).isnum, "trimmed() of an abstract number string"); uint32_t b = vpl_c16_trim_b(a), e = vpl_c16_trim_e(a, b);
  if (b == 0 && e == a->f1) { QSD(ret) = qad_ref(a); return; } uint32_t l = e > b ? e - b : 0; QAD *d = qs_new(l, qs_hint(a)); vpl_copy16(d, 0, qs_chars(a) + b, l, qs_hint(a)); qs_seal(d, 0); QSD(ret) = d; }
void _ZNK7QString14trimmed_helperERKS_(char *ret, char *self) { _ZN7QString14trimmed_helperERS_(ret, self); }

/* ---- dynamic property "__sasl_raw" of the password reply: QVariant holding a QByteArray; one property per object ---- */
struct c16_var { QAD *ba; uint32_t type; uint32_t pad; };
void _ZN8QVariantC1ERK10QByteArray(char *self, char *ba) { struct c16_var *v = (struct c16_var*)self; v->ba = qad_ref(QSD(ba)); v->type = 12; v->pad = 0; }
void _ZN8QVariantD1Ev(char *self) { }
void _ZNK8QVariant11toByteArrayEv(char *ret, char *self) { struct c16_var *v = (struct c16_var*)self; QSD(ret) = v->type == 12 ? qad_ref(v->ba) : qb_new(0, 0); }
#define C16_NPROP 3
static char *c16_prop_obj[C16_NPROP]; static QAD *c16_prop_val[C16_NPROP]; static uint32_t c16_nprop;
uint8_t _ZN7QObject11setPropertyEPKcRK8QVariant(char *self, char *name, char *var) { ASSERT(c16_nprop < C16_NPROP, "C16 env: property table full"); ASSUME(c16_nprop < C16_NPROP); struct c16_var *v = (struct c16_var*)var;
  ASSERT(v->type == 12 && name[0] == '_' && name[2] == 's', "C16 env: only the byte-array property __sasl_raw is modelled"); c16_prop_obj[c16_nprop] = self; c16_prop_val[c16_nprop] = v->ba; c16_nprop++; return 0; }
void _ZNK7QObject8propertyEPKc(char *ret, char *self, char *name) { struct c16_var *v = (struct c16_var*)ret; v->ba = SHARED_NULL; v->type = 0; v->pad = 0;
  for (uint32_t i = 0; i < C16_NPROP; i++) { if (i >= c16_nprop) break; if (c16_prop_obj[i] == self) { v->ba = c16_prop_val[i]; v->type = 12; } } }


/* ---- random identifiers: arbitrary non-empty strings (<= 2 units); randomness / uniqueness is outside the property ---- */
void _ZN10QXmppUtils18generateStanzaHashEi(char *ret, uint32_t len) { sym16(ret, 1, 2); }
void _ZN10QXmppUtils18generateStanzaUuidEv(char *ret) { sym16(ret, 1, 2); }
/* x == a ++ [ch] ++ b  (harness oracle helper; avoids QStringBuilder/memcpy in the harness) */
uint8_t vp_c16_concat_eq(char *x, char *a, uint16_t ch, char *b) { QAD *X = QSD(x), *A = QSD(a), *B = QSD(b); uint32_t la = A->f1, lb = B->f1; if (X->f1 != la + 1 + lb) return 0; uint8_t ok = 1;
  for (uint32_t i = 0; i < QHINT16(X); i++) { if (i >= X->f1) break; uint16_t c = QCH16(X)[i]; uint16_t e = i < la ? QCH16(A)[i] : i == la ? ch : QCH16(B)[i - la - 1]; if (c != e) ok = 0; } return ok; }

/* ---- constant tables: a FRESH block per call whose content is selected by a (possibly symbolic) index ---- */
#define C16_NAMELEN 36
#define C16_NTAB 6
static const uint8_t c16_tab[C16_NTAB][8][C16_NAMELEN + 1] = {
  { "iq", "message", "presence", "x" },
  { "", "set", "get", "subscribe", "subscribed", "result", "chat" },
  { "bind", "session", "query" },
  { "urn:ietf:params:xml:ns:xmpp-bind", "urn:ietf:params:xml:ns:xmpp-session", "jabber:iq:roster", "" },
  { "urn:ietf:params:xml:ns:xmpp-sasl", "urn:xmpp:sasl:2", "jabber:client", "urn:ietf:params:xml:ns:xmpp-tls", "jabber:server", "" },
  { "PLAIN", "DIGEST-MD5", "ANONYMOUS", "SCRAM-SHA-1", "plain", "" } };
static const uint8_t c16_tablen[C16_NTAB] = { 8, 10, 7, 35, 32, 11 };   /* longest entry per table = hint of the fresh block */
void vp_c16_pick(char *out, uint32_t table, uint32_t idx) { ASSERT(table < C16_NTAB, "C16 env: table"); ASSUME(table < C16_NTAB); ASSUME(idx < 8);
  uint32_t n = 0; for (uint32_t i = 0; i < C16_NAMELEN; i++) { if (i >= c16_tablen[table]) break; if (c16_tab[table][idx][i]) n = i + 1; }
  QAD *d = qs_new(n, c16_tablen[table]); for (uint32_t i = 0; i < C16_NAMELEN; i++) { if (i >= c16_tablen[table]) break; C16_SD(d)[i] = c16_tab[table][idx][i]; } QSD(out) = d; }
void vp_dom_truncate(char *el, uint32_t n) { struct dnode *d = DN(el); ASSUME(n <= d->nch); for (uint32_t i = d->nch; i < DOM_MAXCH; i++) d->ch[i] = 0; d->nch = n; }
void vp_c16_digest_input(uint32_t slot, char *value, uint8_t present) { }
#endif
