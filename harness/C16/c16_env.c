/* C16 environment: what QXmppIncomingClient.cpp / the SASL server objects touch outside the translated qxmpp sources.
   Needs c16_pre.c, qt_core.c, qt_list.c, qt_dom.c, qt_object.c before it (one translation unit). */
#undef _ZNK11QMetaObject4castEP7QObject
#undef _ZNK11QMetaObject4castEPK7QObject
#undef _ZNK7QString3midEii
#undef _ZN10QByteArray11reallocDataEj6QFlagsIN10QArrayData16AllocationOptionEE
#undef _ZN7QString11reallocDataEjb
#undef _ZNK7QString4leftEi
#undef _ZNK7QString5rightEi
#undef _ZNK11QDomElement7tagNameEv
#undef _ZNK8QDomNode12namespaceURIEv
#undef _ZNK11QDomElement4textEv
#ifdef HAVE_T_struct_QArrayData
#define QSD(p) (*(QAD**)(p))
#define C16_SD(d) (((struct qs*)(d))->data)
#define C16_BD(d) (((struct qb*)(d))->data)
uint8_t vp_c16_false(void) { return 0; }

/* ---- qobject_cast: class registry filled by the harness (object, most derived meta object) ---- */
#define C16_NCLS 4
static char *c16_cls_obj[C16_NCLS]; static char *c16_cls_mo[C16_NCLS]; static uint32_t c16_ncls;
void vp_c16_set_class(char *o, char *mo) { ASSERT(c16_ncls < C16_NCLS, "C16 env: class registry full"); c16_cls_obj[c16_ncls] = o; c16_cls_mo[c16_ncls] = mo; c16_ncls++; }
static char *c16_cast(char *mo, char *o) { if (!o) return 0; for (uint32_t i = 0; i < C16_NCLS; i++) { if (i >= c16_ncls) break; if (c16_cls_obj[i] == o) return c16_cls_mo[i] == mo ? o : 0; } return 0; }
char* _ZNK11QMetaObject4castEP7QObject(char *mo, char *o) { return c16_cast(mo, o); }
char* _ZNK11QMetaObject4castEPK7QObject(char *mo, char *o) { return c16_cast(mo, o); }

/* ---- QXmppLoggable: QObject part only; log / metrics signals have no observable effect ---- */
void _ZN13QXmppLoggableC2EP7QObject(char *self, char *parent) { vp_qobject_init(self, parent); }
void _ZN13QXmppLoggableC1EP7QObject(char *self, char *parent) { vp_qobject_init(self, parent); }
void _ZN13QXmppLoggable10logMessageEN11QXmppLogger11MessageTypeERK7QString(char *self, uint32_t type, char *msg) { }
void _ZN13QXmppLoggable13updateCounterERK7QStringx(char *self, char *name, uint64_t v) { }
void _ZN13QXmppLoggable8setGaugeERK7QStringd(char *self, char *name, double v) { }

/* ---- the client's socket: writes and disconnects are a ghost log ---- */
struct c16_sock { char *vptr; char *d_ptr; char *sdi_vptr; QAD *dataBuffer; QAD *undecoded; uint64_t directTls; char *m_socket; QAD *streamOpen; };
static void c16_sock_init(char *self, char *parent) { vp_qobject_init(self, parent); struct c16_sock *s = (struct c16_sock*)self; s->sdi_vptr = 0; s->dataBuffer = SHARED_NULL; s->undecoded = SHARED_NULL; s->directTls = 0; s->m_socket = 0; s->streamOpen = SHARED_NULL; }
void _ZN5QXmpp7Private10XmppSocketC1EP7QObject(char *self, char *parent) { c16_sock_init(self, parent); }
void _ZN5QXmpp7Private10XmppSocketC2EP7QObject(char *self, char *parent) { c16_sock_init(self, parent); }
#define C16_SENT_CAP 6
#define C16_MAGIC 0xC16B10C5u
struct c16blk { QAD h; uint32_t magic; uint32_t kind; uint8_t data[8]; };
static QAD *c16_blk(uint32_t kind) { struct c16blk *b = malloc(sizeof(struct c16blk)); ASSUME(b != 0); REF(&b->h) = 1; b->h.f1 = 1; b->h.f2 = 8; b->h.f3 = offsetof(struct c16blk, data); b->magic = C16_MAGIC; b->kind = kind; b->data[0] = '<'; b->data[1] = 0; return &b->h; }
static uint32_t c16_sent_n, c16_sent_kind[C16_SENT_CAP], c16_ndisc, c16_ntls;
uint8_t _ZN5QXmpp7Private10XmppSocket8sendDataERK10QByteArray(char *self, char *ba) { QAD *d = QSD(ba); ASSERT(c16_sent_n < C16_SENT_CAP, "C16 env: socket log capacity"); ASSUME(c16_sent_n < C16_SENT_CAP);
  uint32_t kind = 9; if (d != SHARED_NULL && d->f3 == offsetof(struct c16blk, data) && ((struct c16blk*)d)->magic == C16_MAGIC) kind = ((struct c16blk*)d)->kind;
  c16_sent_kind[c16_sent_n++] = kind; return vp_bool(); }
void _ZN5QXmpp7Private10XmppSocket18disconnectFromHostEv(char *self) { c16_ndisc++; }
uint32_t vp_c16_sent_n(void) { return c16_sent_n; }
uint32_t vp_c16_sent_kind(uint32_t i) { return i < C16_SENT_CAP ? c16_sent_kind[i] : 0; }
uint32_t vp_c16_ndisconnect(void) { return c16_ndisc; }
uint32_t vp_c16_ntls(void) { return c16_ntls; }
/* TLS upgrade of the underlying QSslSocket: counted only */
uint8_t _ZN10QSslSocket5flushEv(char *self) { return 1; }
void _ZN10QSslSocket21startServerEncryptionEv(char *self) { c16_ntls++; }
/* inactivity timer: no behaviour */
void _ZN6QTimer5startEv(char *self) { }
void _ZN6QTimer4stopEv(char *self) { }
static uint32_t c16_nsingleshot;
void _ZN6QTimer14singleShotImplEiN2Qt9TimerTypeEPK7QObjectPN9QtPrivate15QSlotObjectBaseE(uint32_t ms, uint32_t type, char *recv, char *slot) { c16_nsingleshot++; }

/* ---- serializeXml: the bytes written are not inspected, only classified by the type that was serialized ---- */
void _ZN5QXmpp7Private12serializeXmlEPKvPFvS2_P16QXmlStreamWriterE(char *ret, char *packet, char *fn) { QSD(ret) = c16_blk(0); }
/* inline template instantiations serializeXml<T>(const T&): overridden, the block carries the kind of nonza (c16.h: K_*) */
void _ZN5QXmpp7Private12serializeXmlINS0_4Sasl7SuccessEEE10QByteArrayRKT_(char *ret, char *p) { QSD(ret) = c16_blk(1); }
void _ZN5QXmpp7Private12serializeXmlINS0_4Sasl7FailureEEE10QByteArrayRKT_(char *ret, char *p) { QSD(ret) = c16_blk(2); }
void _ZN5QXmpp7Private12serializeXmlINS0_4Sasl9ChallengeEEE10QByteArrayRKT_(char *ret, char *p) { QSD(ret) = c16_blk(3); }
void _ZN5QXmpp7Private12serializeXmlINS0_5Sasl27SuccessEEE10QByteArrayRKT_(char *ret, char *p) { QSD(ret) = c16_blk(4); }
void _ZN5QXmpp7Private12serializeXmlINS0_5Sasl27FailureEEE10QByteArrayRKT_(char *ret, char *p) { QSD(ret) = c16_blk(5); }
void _ZN5QXmpp7Private12serializeXmlINS0_5Sasl29ChallengeEEE10QByteArrayRKT_(char *ret, char *p) { QSD(ret) = c16_blk(6); }
void _ZN5QXmpp7Private12serializeXmlINS0_15StarttlsProceedEEE10QByteArrayRKT_(char *ret, char *p) { QSD(ret) = c16_blk(7); }
void _ZN5QXmpp7Private12serializeXmlI10QXmppNonzaEE10QByteArrayRKT_(char *ret, char *p) { QSD(ret) = c16_blk(8); }

/* ---- signals of the client (hook of qt_object.c): counted per signal in fixed slots (no symbolic log index); for
   elementReceived the DOM node of the argument is kept (the QDomElement itself is a local of handleStanza) ---- */
static uint32_t c16_nsig_el, c16_nsig_conn, c16_nsig_disc, c16_nsig_other; static struct dnode *c16_el_node;
#ifdef HAVE_G__ZN19QXmppIncomingClient16staticMetaObjectE
#define C16_CLIENT_MO ((char*)&G__ZN19QXmppIncomingClient16staticMetaObjectE)
#else
#define C16_CLIENT_MO ((char*)0)
#endif
void c16_on_signal(char *sender, char *mo, uint32_t idx, char **argv) {
  if (mo == C16_CLIENT_MO && idx == 0) { c16_nsig_el++; c16_el_node = DN(argv[1]); }
  else if (mo == C16_CLIENT_MO && idx == 1) c16_nsig_conn++;
  else if (mo == C16_CLIENT_MO && idx == 2) c16_nsig_disc++;
  else c16_nsig_other++; }
uint32_t vp_c16_nsig(uint32_t which) { return which == 0 ? c16_nsig_el : which == 1 ? c16_nsig_conn : which == 2 ? c16_nsig_disc : c16_nsig_other; }
void vp_c16_sig_element(char *out) { DN(out) = c16_el_node; }

/* ---- cuts inside QXmppIncomingClient.cpp: log text only / stream features content ---- */
void _ZNK26QXmppIncomingClientPrivate6originEv(char *ret, char *self) { QSD(ret) = SHARED_NULL; }
static uint32_t c16_nfeatures;
void _ZN19QXmppIncomingClient18sendStreamFeaturesEv(char *self) { c16_nfeatures++; }
uint32_t vp_c16_nfeatures(void) { return c16_nfeatures; }



/* ---- empty model block used instead of shared_null where a result is merged with model blocks (see c16_pre.c) ---- */
static struct qs c16_empty_blk = { { {{{{ (uint32_t)-1 }}}}, 0, 0, QS_OFF }, 0, 0, 0, 1, 1, 0, 0, 0, { 0 } };
#define C16_EMPTY (&c16_empty_blk.h)
/* default-constructed QString / QByteArray (inline QTypedArrayData<T>::sharedNull(), overridden): an empty MODEL block of the right
   type, so that "still default-constructed or assigned a model string" merges stay field-sensitive (same value: size 0, static ref count) */
static struct qb c16_empty_bytes = { { {{{{ (uint32_t)-1 }}}}, 0, 0, QB_OFF }, 0, 0, 0, 0, 0, { 0 } };
char* _ZN15QTypedArrayDataItE10sharedNullEv(void) { return (char*)&c16_empty_blk.h; }
char* _ZN15QTypedArrayDataIcE10sharedNullEv(void) { return (char*)&c16_empty_bytes.h; }
void _ZNK7QString3midEii(char *ret, char *self, uint32_t pos, uint32_t n) { QAD *d = QSD(self); int32_t p = (int32_t)pos, len = (int32_t)n; int nul; mid_calc((int32_t)d->f1, &p, &len, &nul);
  if (nul) { QSD(ret) = C16_EMPTY; return; } if (p == 0 && len == (int32_t)d->f1) { QSD(ret) = qad_ref(d); return; } ASSERT(!numS(d).isnum, "mid() of an abstract number string");
  QAD *r = qs_new((uint32_t)len, qs_hint(d)); vpl_copy16(r, 0, qs_chars(d) + p, (uint32_t)len, qs_hint(d)); qs_seal(r, 0); QSD(ret) = r; }
void _ZNK7QString4leftEi(char *ret, char *self, uint32_t n) { _ZNK7QString3midEii(ret, self, 0, (int32_t)n < 0 ? (uint32_t)-1 : n); }
void _ZNK7QString5rightEi(char *ret, char *self, uint32_t n) { QAD *d = QSD(self); if (n >= d->f1) { QSD(ret) = qad_ref(d); return; } _ZNK7QString3midEii(ret, self, d->f1 - n, n); }
void _ZNK11QDomElement7tagNameEv(char *ret, char *el) { struct dnode *n = DN(el); QSD(ret) = n ? qad_ref(n->tag) : C16_EMPTY; }
void _ZNK8QDomNode12namespaceURIEv(char *ret, char *el) { struct dnode *n = DN(el); QSD(ret) = n ? qad_ref(n->ns) : C16_EMPTY; }
void _ZNK11QDomElement4textEv(char *ret, char *el) { struct dnode *n = DN(el); QSD(ret) = n ? qad_ref(n->text) : C16_EMPTY; }


/* detach of a model block: same content, SAME constant hint (see c16_pre.c) */
void _ZN10QByteArray11reallocDataEj6QFlagsIN10QArrayData16AllocationOptionEE(char *self, uint32_t alloc, uint32_t opt) { QAD *o = QSD(self); ASSERT(alloc <= QB_CAP + 1, "QByteArray capacity of the model exceeded");
  ASSERT(alloc <= qb_hint(o) + 1, "C16 model: QByteArray grown in place beyond its constant length bound"); ASSUME(alloc <= qb_hint(o) + 1);
  if (REF(o) == 1 && VP_BLK_DYN(o)) return;
  ASSERT(!numB(o).isnum, "detach of an abstract number string"); QAD *d = qb_new(o->f1, qb_hint(o)); vpl_copy8(d, 0, qb_bytes(o), o->f1, qb_hint(o)); C16_BD(d)[o->f1] = 0; ((struct qb*)d)->b64 = QTAG8(o); qad_deref(o); QSD(self) = d; }
void _ZN7QString11reallocDataEjb(char *self, uint32_t alloc, uint8_t grow) { QAD *d = QSD(self); ASSERT(alloc <= QS_CAP + 1, "QString capacity of the model exceeded");
  ASSERT(alloc <= qs_hint(d) + 1, "C16 model: QString grown in place beyond its constant length bound"); ASSUME(alloc <= qs_hint(d) + 1);
  if (REF(d) == 1 && VP_BLK_DYN(d)) { ((struct qs*)d)->exact = 0; ((struct qs*)d)->lit = 0; return; }
  ASSERT(!numS(d).isnum, "detach of an abstract number string"); QAD *nd = qs_new(d->f1, qs_hint(d)); vpl_copy16(nd, 0, qs_chars(d), d->f1, qs_hint(d)); qad_deref(d); QSD(self) = nd; }

/* ---- QString helpers missing in models/qt_core.c ---- */
/* arg(): "%N" placeholders are substituted for short patterns (the JID builders "%1@%2", "%1/%2"); longer patterns are log texts
   and are returned unformatted (logging is outside the property, DESIGN 2.5) */
#define C16_ARGPAT 8
void _ZN9QtPrivate12argToQStringE11QStringViewmPPKNS_7ArgBaseE(char *ret, uint64_t psize, char *pat, uint64_t nargs, char *args) { const uint16_t *p = (const uint16_t*)pat;
  if (psize > C16_ARGPAT) { QSD(ret) = C16_EMPTY; return; }   /* log text: not built */
  uint32_t total = 0; for (uint32_t a = 0; a < 2; a++) { if (a >= nargs) break; char *ab = ((char**)args)[a]; const uint16_t *ad = *(const uint16_t**)(ab + 16); uint64_t an = *(uint64_t*)(ab + 8); total += hint16(ad, an); }
  ASSERT(nargs <= 2, "QString::arg model: at most two arguments"); QAD *d = qs_new(0, total + C16_ARGPAT); uint32_t j = 0;
  for (uint32_t i = 0; i < C16_ARGPAT; i++) { if (i >= psize) break;
    if (p[i] == '%' && i + 1 < psize && p[i + 1] >= '1' && p[i + 1] <= '9' && (uint64_t)(p[i + 1] - '1') < nargs) { char *ab = ((char**)args)[p[i + 1] - '1']; uint64_t an = *(uint64_t*)(ab + 8); const uint16_t *ad = *(const uint16_t**)(ab + 16);
      ASSERT(!num16(ad, an).isnum, "QString::arg model: abstract number argument"); ASSERT(j + an <= QS_CAP, "QString capacity of the model exceeded (arg)");
      for (uint32_t k = 0; k < H16(ad, an); k++) { if (k >= an) break; C16_SD(d)[j + k] = ad[k]; } j += (uint32_t)an; i++; }
    else { ASSERT(j < QS_CAP, "QString capacity of the model exceeded (arg)"); C16_SD(d)[j++] = p[i]; } }
  d->f1 = j; QSD(ret) = d; }
void _ZNK7QString3argERKS_i5QChar(char *ret, char *self, char *a, uint32_t w, uint16_t fill) { ASSERT(QSD(self)->f1 > C16_ARGPAT, "QString::arg(QString) model: only log / stream-error texts (long patterns) are expected"); QSD(ret) = C16_EMPTY; }
void _ZNK7QString3argExii5QChar(char *ret, char *self, uint64_t a, uint32_t w, uint32_t base, uint16_t fill) { QSD(ret) = qad_ref(QSD(self)); }
static uint8_t c16_isspace(uint16_t c) { return c == ' ' || (c >= 9 && c <= 13) || c == 0x85 || c == 0xA0 || c == 0x1680 || (c >= 0x2000 && c <= 0x200A) || c == 0x2028 || c == 0x2029 || c == 0x202F || c == 0x205F || c == 0x3000; }
static uint32_t vpl_c16_trim_b(QAD *a) { uint32_t b = 0; for (uint32_t i = 0; i < QHINT16(a); i++) { if (i >= a->f1) break; if (b == i && c16_isspace(QCH16(a)[i])) b = i + 1; } return b; }
static uint32_t vpl_c16_trim_e(QAD *a, uint32_t b) { uint32_t n = a->f1, e = n; for (uint32_t i = 0; i < QHINT16(a); i++) { if (i >= n) break; uint32_t k = n - 1 - i; if (e == k + 1 && k >= b && c16_isspace(QCH16(a)[k])) e = k; } return e; }
void _ZN7QString14trimmed_helperERS_(char *ret, char *self) { QAD *a = QSD(self); ASSERT(!numS(a).isnum, "trimmed() of an abstract number string"); uint32_t b = vpl_c16_trim_b(a), e = vpl_c16_trim_e(a, b);
  if (b == 0 && e == a->f1) { QSD(ret) = qad_ref(a); return; } uint32_t l = e > b ? e - b : 0; QAD *d = qs_new(l, qs_hint(a)); vpl_copy16(d, 0, qs_chars(a) + b, l, qs_hint(a)); qs_seal(d, 0); QSD(ret) = d; }
void _ZN7QString23toLatin1_helper_inplaceERS_(char *ret, char *self) { _ZN7QString15toLatin1_helperERKS_(ret, self); }
void _ZNK7QString14trimmed_helperERKS_(char *ret, char *self) { _ZN7QString14trimmed_helperERS_(ret, self); }

/* ---- dynamic property "__sasl_raw" of the password reply: QVariant holding a QByteArray; one property per object ---- */
struct c16_var { QAD *ba; uint32_t type; uint32_t pad; };
void _ZN8QVariantC1ERK10QByteArray(char *self, char *ba) { struct c16_var *v = (struct c16_var*)self; v->ba = qad_ref(QSD(ba)); v->type = 12; v->pad = 0; }
void _ZN8QVariantD1Ev(char *self) { }
void _ZNK8QVariant11toByteArrayEv(char *ret, char *self) { struct c16_var *v = (struct c16_var*)self; QSD(ret) = v->type == 12 ? qad_ref(v->ba) : qb_new(0, 0); }
#define C16_NPROP 3
static char *c16_prop_obj[C16_NPROP]; static QAD *c16_prop_val[C16_NPROP]; static uint32_t c16_nprop;
uint8_t _ZN7QObject11setPropertyEPKcRK8QVariant(char *self, char *name, char *var) { ASSERT(c16_nprop < C16_NPROP, "C16 env: property table full"); ASSUME(c16_nprop < C16_NPROP); struct c16_var *v = (struct c16_var*)var;
  ASSERT(v->type == 12 && name[0] == '_' && name[2] == 's', "C16 env: only the byte-array property __sasl_raw is modelled"); c16_prop_obj[c16_nprop] = self; c16_prop_val[c16_nprop] = v->ba; c16_nprop++; return 0; }
void _ZNK7QObject8propertyEPKc(char *ret, char *self, char *name) { struct c16_var *v = (struct c16_var*)ret; v->ba = SHARED_NULL; v->type = 0; v->pad = 0;
  for (uint32_t i = 0; i < C16_NPROP; i++) { if (i >= c16_nprop) break; if (c16_prop_obj[i] == self) { v->ba = c16_prop_val[i]; v->type = 12; } } }


/* ---- random identifiers: arbitrary non-empty ASCII strings (1..2 units); randomness / uniqueness is outside the property ---- */
static void c16_id(char *ret) { sym16(ret, 1, 2); QAD *d = QSD(ret); ASSUME(C16_SD(d)[0] >= 1 && C16_SD(d)[0] < 0x80 && (d->f1 < 2 || (C16_SD(d)[1] >= 1 && C16_SD(d)[1] < 0x80))); }
void _ZN10QXmppUtils18generateStanzaHashEi(char *ret, uint32_t len) { c16_id(ret); }
void _ZN10QXmppUtils18generateStanzaUuidEv(char *ret) { c16_id(ret); }
/* x == a ++ [ch] ++ b  (harness oracle helper; avoids QStringBuilder/memcpy in the harness) */
uint8_t vp_c16_concat_eq(char *x, char *a, uint16_t ch, char *b) { QAD *X = QSD(x), *A = QSD(a), *B = QSD(b); uint32_t la = A->f1, lb = B->f1; if (X->f1 != la + 1 + lb) return 0; uint8_t ok = 1;
  for (uint32_t i = 0; i < QHINT16(X); i++) { if (i >= X->f1) break; uint16_t c = QCH16(X)[i]; uint16_t e = i < la ? QCH16(A)[i] : i == la ? ch : QCH16(B)[i - la - 1]; if (c != e) ok = 0; } return ok; }


/* ---- QByteArray::split (PLAIN payload "authzid NUL user NUL password"): boundaries found by one scan, pieces copied to fresh blocks ---- */
#ifdef HAVE_T_struct_QListData__Data
#define C16_MAXP LIST_CAP
static uint32_t vpl_c16_split_scan(QAD *a, uint8_t sep, uint32_t *st, uint32_t *ln) { uint32_t cur = 0, start = 0, n = a->f1;
  for (uint32_t i = 0; i < QHINT8(a); i++) { if (i >= n) break; if (qb_bytes(a)[i] == sep) { if (cur < C16_MAXP) { st[cur] = start; ln[cur] = i - start; } cur++; start = i + 1; } }
  if (cur < C16_MAXP) { st[cur] = start; ln[cur] = n - start; } return cur + 1; }
static void vpl_c16_slice8(QAD *d, QAD *a, uint32_t from, uint32_t n) { for (uint32_t i = 0; i < QHINT8(a); i++) { if (i >= n) break; C16_BD(d)[i] = qb_bytes(a)[from + i]; } }
void _ZNK10QByteArray5splitEc(char *ret, char *self, uint8_t sep) { QAD *a = QSD(self); ASSERT(!numB(a).isnum && !QTAG8(a), "split of an abstract number / base64 placeholder");
  uint32_t st[C16_MAXP], ln[C16_MAXP]; for (uint32_t k = 0; k < C16_MAXP; k++) { st[k] = 0; ln[k] = 0; }
  uint32_t np = vpl_c16_split_scan(a, sep, st, ln); ASSERT(np <= C16_MAXP, "QList capacity of the model exceeded (split)"); ASSUME(np <= C16_MAXP);
  struct ld *l = ld_new(np);
  for (uint32_t k = 0; k < C16_MAXP; k++) { if (k >= np) { l->array[k] = 0; continue; } QAD *p = qb_new(ln[k], qb_hint(a)); vpl_c16_slice8(p, a, st[k], ln[k]); C16_BD(p)[ln[k]] = 0; l->array[k] = (char*)p; }
  *(struct ld**)ret = l; }
#endif

/* ---- crypto: recording oracle (DESIGN 2.3).  A digest is C16_DIGLEN fresh symbolic bytes, functionally consistent: same
   (algorithm, input) => same bytes.  Nothing else is assumed about MD5. ---- */
#ifndef C16_DIGLEN
#define C16_DIGLEN 2
#endif
#define C16_ORC_CAP 12
struct c16_orc { uint32_t alg; QAD *a; uint8_t out[C16_DIGLEN]; };
static struct c16_orc c16_log[C16_ORC_CAP]; static uint32_t c16_orc_n;
void _ZN18QCryptographicHash4hashERK10QByteArrayNS_9AlgorithmE(char *ret, char *data, uint32_t alg) { QAD *a = QSD(data);
  ASSERT(c16_orc_n < C16_ORC_CAP, "crypto oracle log capacity"); ASSUME(c16_orc_n < C16_ORC_CAP);
  uint8_t val[C16_DIGLEN]; for (uint32_t j = 0; j < C16_DIGLEN; j++) val[j] = vp_u8();
  uint8_t found = 0;
  for (uint32_t k = 0; k < C16_ORC_CAP; k++) { if (k >= c16_orc_n) break; struct c16_orc *e = &c16_log[k]; if (!found && e->alg == alg && qb_eq(e->a, a)) { found = 1; for (uint32_t j = 0; j < C16_DIGLEN; j++) val[j] = e->out[j]; } }
  struct c16_orc *n = &c16_log[c16_orc_n++]; n->alg = alg; n->a = qad_ref(a);
  QAD *d = qb_new(C16_DIGLEN, C16_DIGLEN); for (uint32_t j = 0; j < C16_DIGLEN; j++) { n->out[j] = val[j]; C16_BD(d)[j] = val[j]; } C16_BD(d)[C16_DIGLEN] = 0; QSD(ret) = d; }
uint32_t vp_c16_orc_count(void) { return c16_orc_n; }
void vp_c16_orc_input(uint32_t i, char *out) { ASSUME(i < C16_ORC_CAP); QSD(out) = qad_ref(c16_log[i].a); }
/* lower-case hex */
void _ZNK10QByteArray5toHexEv(char *ret, char *self) { QAD *a = QSD(self); uint32_t n = a->f1, h = qb_hint(a); ASSERT(2 * n <= QB_CAP, "QByteArray capacity of the model exceeded (toHex)"); QAD *d = qb_new(2 * n, 2 * h);
  for (uint32_t i = 0; i < QB_CAP / 2; i++) { if (i >= n || i >= h) break; uint8_t b = qb_bytes(a)[i], hi = b >> 4, lo = b & 15; C16_BD(d)[2 * i] = (uint8_t)(hi < 10 ? '0' + hi : 'a' + hi - 10); C16_BD(d)[2 * i + 1] = (uint8_t)(lo < 10 ? '0' + lo : 'a' + lo - 10); }
  C16_BD(d)[2 * n] = 0; QSD(ret) = d; }
/* nonce: arbitrary bytes */
void _ZN10QXmppUtils19generateRandomBytesEi(char *ret, uint32_t len) { QAD *d = qb_new(2, 2); C16_BD(d)[0] = vp_u8(); C16_BD(d)[1] = vp_u8(); C16_BD(d)[2] = 0; QSD(ret) = d; }

/* ---- DIGEST-MD5 message grammar (QXmppSaslDigestMd5::parseMessage / serializeMessage) is CUT: it belongs to C06.  parseMessage
   returns the directive table chosen by the harness (arbitrary values for the directives the server reads), whatever the text;
   serializeMessage returns an opaque block.  QMap<QByteArray,QByteArray> is a class-level model with one slot per directive. ---- */
#define C16_NDIR 9
static const char *const c16_dirname[C16_NDIR] = { "realm", "digest-uri", "qop", "username", "nc", "cnonce", "response", "nonce", "" };
static const uint8_t c16_dirlen[C16_NDIR] = { 5, 10, 3, 8, 2, 6, 8, 5, 0 };
struct c16_dmap { QAD *v[C16_NDIR]; uint8_t has[C16_NDIR]; };
static struct c16_dmap c16_dinput;
static uint8_t c16_dinput_init;
static void c16_dmap_clear(struct c16_dmap *m) { for (uint32_t i = 0; i < C16_NDIR; i++) { m->v[i] = qb_new(0, 0); m->has[i] = 0; } }
void vp_c16_digest_input(uint32_t slot, char *value, uint8_t present) { if (!c16_dinput_init) { c16_dmap_clear(&c16_dinput); c16_dinput_init = 1; } ASSERT(slot < C16_NDIR - 1, "C16 env: directive slot"); c16_dinput.v[slot] = qad_ref(QSD(value)); c16_dinput.has[slot] = present; }
static uint32_t c16_dslot(QAD *key) { for (uint32_t s = 0; s < C16_NDIR - 1; s++) { if (key->f1 == c16_dirlen[s] && vpl_cmp8(qb_bytes(key), (const uint8_t*)c16_dirname[s], c16_dirlen[s], key->f1, c16_dirlen[s]) == 0) return s; } return C16_NDIR - 1; }
#define DMAP(self) (*(struct c16_dmap**)(self))
static struct c16_dmap *c16_dmap_new(void) { struct c16_dmap *m = malloc(sizeof(struct c16_dmap)); ASSUME(m != 0); c16_dmap_clear(m); return m; }
void _ZN4QMapI10QByteArrayS0_EC2Ev(char *self) { DMAP(self) = c16_dmap_new(); }
void _ZN4QMapI10QByteArrayS0_EC1Ev(char *self) { DMAP(self) = c16_dmap_new(); }
void _ZN4QMapI10QByteArrayS0_ED2Ev(char *self) { }
void _ZN4QMapI10QByteArrayS0_ED1Ev(char *self) { }
char* _ZN4QMapI10QByteArrayS0_EixERKS0_(char *self, char *key) { struct c16_dmap *m = DMAP(self); uint32_t s = c16_dslot(QSD(key)); m->has[s] = 1; return (char*)&m->v[s]; }
void _ZNK4QMapI10QByteArrayS0_E5valueERKS0_S3_(char *ret, char *self, char *key, char *def) { struct c16_dmap *m = DMAP(self); uint32_t s = c16_dslot(QSD(key));
  ASSERT(s < C16_NDIR - 1, "QMap<QByteArray,QByteArray> model: unknown directive read"); QSD(ret) = m->has[s] ? qad_ref(m->v[s]) : qad_ref(QSD(def)); }
void _ZN18QXmppSaslDigestMd512parseMessageERK10QByteArray(char *ret, char *ba) { if (!c16_dinput_init) { c16_dmap_clear(&c16_dinput); c16_dinput_init = 1; } struct c16_dmap *m = c16_dmap_new(); *m = c16_dinput; DMAP(ret) = m; }
void _ZN18QXmppSaslDigestMd516serializeMessageERK4QMapI10QByteArrayS1_E(char *ret, char *map) { QAD *d = qb_new(1, 1); C16_BD(d)[0] = '#'; C16_BD(d)[1] = 0; QSD(ret) = d; }


/* ---- harness oracle helper: reference parse of a PLAIN message  [authzid] NUL authcid NUL passwd  (RFC 4616), typed reads only.
   returns bit0 = exactly two NULs, bit1 = user equals the bytes between them, bit2 = password equals the bytes after the second ---- */
uint32_t vp_c16_plain_ref(char *raw, char *user, char *password) { QAD *r = QSD(raw), *u = QSD(user), *pw = QSD(password); uint32_t n = r->f1, nul = 0, p1 = 0, p2 = 0;
  for (uint32_t i = 0; i < QHINT8(r); i++) { if (i >= n) break; if (C16_BD(r)[i] == 0) { if (nul == 0) p1 = i; else if (nul == 1) p2 = i; nul++; } }
  if (nul != 2) return 0;
  uint32_t res = 1; uint8_t uok = u->f1 == p2 - p1 - 1, pok = pw->f1 == n - p2 - 1;
  for (uint32_t i = 0; i < QHINT8(r); i++) { if (i >= n) break; if (i > p1 && i < p2 && uok && C16_SD(u)[i - p1 - 1] != C16_BD(r)[i]) uok = 0; if (i > p2 && pok && C16_SD(pw)[i - p2 - 1] != C16_BD(r)[i]) pok = 0; }
  if (uok) res |= 2; if (pok) res |= 4; return res; }


/* base64 text of a NON-EMPTY byte string as the abstract placeholder of qt_core.c, built without a branch on the (symbolic) length */
void vp_c16_b64_text(char *out, char *raw) { QAD *r = QSD(raw); ASSUME(r->f1 > 0); QAD *d = qs_new(1, 1); C16_SD(d)[0] = '@'; ((struct qs*)d)->b64 = qad_ref(r); QSD(out) = d; }


/* out = a ++ [ch] ++ b as a fresh block (harness oracle helper) */
void vp_c16_concat(char *out, char *a, uint16_t ch, char *b) { QAD *A = QSD(a), *B = QSD(b); uint32_t la = A->f1, lb = B->f1; ASSERT(la + 1 + lb <= QS_CAP, "QString capacity of the model exceeded (concat)");
  QAD *d = qs_new(la + 1 + lb, qs_hint(A) + 1 + qs_hint(B));
  for (uint32_t i = 0; i < QHINT16(A); i++) { if (i >= la) break; C16_SD(d)[i] = QCH16(A)[i]; } C16_SD(d)[la] = ch;
  for (uint32_t i = 0; i < QHINT16(B); i++) { if (i >= lb) break; C16_SD(d)[la + 1 + i] = QCH16(B)[i]; } QSD(out) = d; }


/* exactly n symbolic bytes (concrete length keeps every later offset concrete); ascii: all < 0x80 and != 0 */
void vp_c16_bytes_exact(char *out, uint32_t n, uint8_t ascii) { ASSERT(n <= 8, "symbolic bytes bound"); QAD *d = qb_new(n, n); for (uint32_t i = 0; i < 8; i++) { if (i >= n) break; uint8_t c = vp_u8(); if (ascii) ASSUME(c < 0x80 && c != 0); C16_BD(d)[i] = c; } C16_BD(d)[n] = 0; QSD(out) = d; }


/* QStringBuilder pieces: QConcatenable<QString>::appendTo is a memcpy of a.size() units (cbmc library memcpy with a symbolic size is
   a performance killer): same copy as a bounded loop */
void _ZN13QConcatenableI7QStringE8appendToERKS0_RP5QChar(char *a, char *out) { QAD *d = QSD(a); uint16_t *o = *(uint16_t**)out; uint32_t n = d->f1;
  for (uint32_t i = 0; i < QHINT16(d); i++) { if (i >= n) break; o[i] = QCH16(d)[i]; } *(uint16_t**)out = o + n; }

/* ---- constant tables: a FRESH block per call whose content is selected by a (possibly symbolic) index ---- */
#define C16_NAMELEN 36
#define C16_NTAB 8
static const uint8_t c16_tab[C16_NTAB][8][C16_NAMELEN + 1] = {
  { "iq", "message", "presence", "x" },
  { "", "set", "get", "subscribe", "subscribed", "result", "chat" },
  { "bind", "session", "query" },
  { "urn:ietf:params:xml:ns:xmpp-bind", "urn:ietf:params:xml:ns:xmpp-session", "jabber:iq:roster", "" },
  { "urn:ietf:params:xml:ns:xmpp-sasl", "urn:xmpp:sasl:2", "jabber:client", "urn:ietf:params:xml:ns:xmpp-tls", "jabber:server", "" },
  { "PLAIN", "DIGEST-MD5", "ANONYMOUS", "SCRAM-SHA-1", "plain", "" },
  { "starttls", "auth", "iq", "message", "proceed" },
  { "auth", "response", "abort", "authenticate", "success" } };
static const uint8_t c16_tablen[C16_NTAB] = { 8, 10, 7, 35, 32, 11, 8, 12 };   /* longest entry per table = hint of the fresh block */
void vp_c16_pick(char *out, uint32_t table, uint32_t idx) { ASSERT(table < C16_NTAB, "C16 env: table"); ASSUME(table < C16_NTAB); ASSUME(idx < 8);
  uint32_t n = 0; for (uint32_t i = 0; i < C16_NAMELEN; i++) { if (i >= c16_tablen[table]) break; if (c16_tab[table][idx][i]) n = i + 1; }
  QAD *d = qs_new(n, c16_tablen[table]); for (uint32_t i = 0; i < C16_NAMELEN; i++) { if (i >= c16_tablen[table]) break; C16_SD(d)[i] = c16_tab[table][idx][i]; } QSD(out) = d; }
void vp_dom_truncate(char *el, uint32_t n) { struct dnode *d = DN(el); ASSUME(n <= d->nch); for (uint32_t i = d->nch; i < DOM_MAXCH; i++) d->ch[i] = 0; d->nch = n; }
#endif
