/* C14 raw-pointer safety (spec_raw.py): listed BEFORE qt_core.c (after stun_pre.c).  The members of the shared model that consume a raw
   `const char *` are renamed away here and re-defined in raw_models.c as: LOGICAL bounds check of the source range (property-level
   "C14 safety: ..." assertion, see bytes_models.c) + call of the shared model. */
#define _ZN10QByteArrayC1EPKci vpcore_QByteArrayC1EPKci
#define _ZN10QByteArrayaSEPKc vpcore_QByteArray_assign_cstr
#define _ZN10QByteArray6appendEPKc vpcore_QByteArray_append_cstr
#define _ZN10QByteArray6appendEPKci vpcore_QByteArray_append_raw
#define qstrcmp vpcore_qstrcmp
#define _Z7qstrcmpRK10QByteArrayPKc vpcore_qstrcmp_ba_cstr
#define bcmp vpcore_bcmp
#define memcmp vpcore_memcmp
#define _ZN7QString17fromLatin1_helperEPKci vpcore_QString_fromLatin1_helper
