// C14 (1) CRC-32 and (2) HMAC structure: the REAL QXmppUtils::generateCrc32 / generateHmac (file-static, reached through the
// public generateHmacSha1 / generateHmacMd5 wrappers; the .cpp is included).  The hash function is an uninterpreted, functionally
// consistent oracle (hash_models.c): equal digests <=> the real code hashed exactly the byte strings RFC 2104 prescribes.
#include "base/QXmppUtils.cpp"
#include "vp_harness.h"
extern "C" {
unsigned vp_cfg0(); unsigned vp_cfg1(); unsigned vp_cfg2(); unsigned vp_cfg3();
void vp_fresh_bytes(QByteArray *out, unsigned minlen, unsigned maxlen);
unsigned char vp_byte_at(const QByteArray *ba, unsigned i);
bool vp_bytes_same(const QByteArray *a, const QByteArray *b);
void vp_hmac_rfc2104(QByteArray *out, int alg, const QByteArray *key, const QByteArray *text);
}
static QByteArray freshBytes(unsigned minlen, unsigned maxlen) { QByteArray b; vp_fresh_bytes(&b, minlen, maxlen); return b; }
static quint32 crcBitwise(quint32 crc, unsigned char byte)      // reflected CRC-32, polynomial 0xEDB88320 (ISO 3309 / RFC 5389 section 15.5)
{
    crc ^= byte;
    for (int k = 0; k < 8; k++) crc = (crc & 1) ? ((crc >> 1) ^ 0xEDB88320u) : (crc >> 1);
    return crc;
}
// every table entry, symbolic index
extern "C" void h_crc_table()
{
    const unsigned i = vp_u8();
    vp_assert(crctable[i] == crcBitwise(0, (unsigned char)i), "C14 CRC table entry = 8 bitwise steps of the reflected polynomial 0xEDB88320");
}
// cfg0 = maximal buffer length
extern "C" void h_crc_bytes()
{
    const unsigned nmax = vp_cfg0();
    const QByteArray b = freshBytes(0, nmax);
    quint32 crc = 0xffffffffu;
    for (unsigned i = 0; i < nmax; i++) if (i < unsigned(b.size())) crc = crcBitwise(crc, vp_byte_at(&b, i));
    vp_assert(QXmppUtils::generateCrc32(b) == (crc ^ 0xffffffffu), "C14 generateCrc32 = bitwise reflected CRC-32 (init and final xor 0xffffffff)");
}
// cfg0..cfg1 = key length range, cfg2 = 1: MD5 wrapper, cfg3 = maximal text length
extern "C" void h_hmac()
{
    const QByteArray key = freshBytes(vp_cfg0(), vp_cfg1());
    const QByteArray text = freshBytes(0, vp_cfg3());
    const bool md5 = vp_cfg2() != 0;
#if defined(KF_hmac_long_key) && !defined(VP_DEMONSTRATE_KF)
    if (key.size() > 64) return;       // known finding hmac_long_key: keys longer than the block size are not hashed first (excluded here,
#endif                                 // demonstrated by the kf_* instances of the group built with VP_DEMONSTRATE_KF)
    const QByteArray got = md5 ? QXmppUtils::generateHmacMd5(key, text) : QXmppUtils::generateHmacSha1(key, text);
    QByteArray expected; vp_hmac_rfc2104(&expected, md5 ? int(QCryptographicHash::Md5) : int(QCryptographicHash::Sha1), &key, &text);
    vp_assert(got.size() == (md5 ? 16 : 20), "C14 HMAC has the digest size of the hash");
    vp_assert(vp_bytes_same(&got, &expected), "C14 HMAC = H((K0 ^ opad) || H((K0 ^ ipad) || text)), K0 = key zero-padded to 64 bytes or H(key) if longer (RFC 2104)");
}
