/* C14/C15 local models, part 1 (listed AFTER qt_core.c; stun_pre.c must be listed before qt_core.c):
   - QByteArray members with "virtual size": the block records the requested size but owns QB_CAP bytes of storage; every
     model that touches bytes clamps to what the source really holds, and asserts that it stays inside the storage
   - qstrnlen (inline in qbytearray.h) with a hint-bounded loop
   - logging / formatting: identity or no-op
   - harness helpers: vp_cfg*, vp_fresh_bytes, vp_set_byte, vp_byte_at
   Uses only these names of qt_core.c: QAD, struct qb, QB_CAP, QB_OFF, REF, qad_ref, qad_deref, BD, umin, VP_IS_QB, VP_BLK_DYN,
   VP_REG_BLK, qb_eq, and (native replay only) the block registry vp_blks / vp_nblk. */
#ifdef HAVE_T_struct_QArrayData
#undef _ZN10QByteArrayC1Eic
#undef _ZN10QByteArray6resizeEi
#undef _ZN10QByteArray11reallocDataEj6QFlagsIN10QArrayData16AllocationOptionEE
#undef _ZN10QByteArray6appendEc
#undef _ZN7QString13toUtf8_helperERKS_
#undef _ZN7QString15fromUtf8_helperEPKci
#define XHINT(d) ((d)->f3 == QB_OFF ? ((struct qb*)(d))->hint : (d)->f1)          /* evaluated inside loop conditions */
#define XBYTES(d) ((d)->f3 == QB_OFF ? (const uint8_t*)BD(d) : (const uint8_t*)((const char*)(d) + (d)->f3))
/* ================= C14 safety: LOGICAL bounds of raw pointers into byte arrays =================
   Model blocks own QB_CAP + 1 bytes whatever their logical size (h.f1) is, and model code is exempt from cbmc's pointer instrumentation:
   a model that is handed a raw `const char *` (QByteArray(const char*, int), fromRawData, append/insert/replace(const char*, ..), memcpy,
   qstrncmp, readRawData/writeRawData, fromUtf8, ...) must therefore check the range [p, p + n) itself, against the LOGICAL size of the byte
   array the pointer points into.  Reads may touch data()[size] (the terminating NUL Qt guarantees), writes may not.
   cbmc: the containing block is found from the pointer: __CPROVER_POINTER_OFFSET(p) folds, `p - offset` is the block base whose header
   holds the logical size; a block is recognised by being a dynamic object of sizeof(struct qb) whose header says offset == QB_OFF.  The
   frequent case "p is the first byte of a block" is decided by the offset alone (VP_IS_QB; this also covers shared_null, whose data
   pointer has offset QB_OFF and whose size is 0).  A pointer that is not inside a model block (stack buffer, string literal, static
   QByteArrayLiteral data) is checked against its C object with __CPROVER_r_ok / __CPROVER_w_ok.
   native replay (gcc): the registry of live blocks of qt_core.c (vp_blks[1]: every qb_new / qbv_new / qbv_copy registers its block) maps
   the address back to the header, so that the same PROPERTY assertion fails natively on the solver's inputs; other pointers are skipped.
   VP_SAFE(c, text): property-level assertion "C14 safety: text", then the path is cut (ASSUME) so that no follow-up MODEL limit of the
   same run turns the verdict into "inconclusive". */
#define VP_QBH(p) ((struct qb*)((char*)(p) - QB_OFF))
#ifdef __CPROVER__
#define VP_RAW_OFF(p) ((uint64_t)__CPROVER_POINTER_OFFSET(p))
#define VP_RAW_HDR(p) ((struct qb*)((char*)(p) - __CPROVER_POINTER_OFFSET(p)))
#define VP_RAW_INBLK(p) (__CPROVER_DYNAMIC_OBJECT(p) && __CPROVER_OBJECT_SIZE(p) == sizeof(struct qb) && VP_RAW_OFF(p) >= QB_OFF && VP_RAW_HDR(p)->h.f3 == QB_OFF)
#define VP_RAW_LOGI(p, n, slack) (VP_RAW_OFF(p) - QB_OFF + (uint64_t)(n) <= (uint64_t)VP_RAW_HDR(p)->h.f1 + (slack))
#define VP_RAW_R_OK(p, n) ((uint64_t)(n) == 0 || (VP_IS_QB(p) ? (uint64_t)(n) <= (uint64_t)VP_QBH(p)->h.f1 + 1 : VP_RAW_INBLK(p) ? VP_RAW_LOGI(p, n, 1) : __CPROVER_r_ok((const char*)(p), (uint64_t)(n))))
#define VP_RAW_W_OK(p, n) ((uint64_t)(n) == 0 || (VP_IS_QB(p) ? (uint64_t)(n) <= (uint64_t)VP_QBH(p)->h.f1 : VP_RAW_INBLK(p) ? VP_RAW_LOGI(p, n, 0) : __CPROVER_w_ok((char*)(p), (uint64_t)(n))))
/* offset of p inside the data of its block / the block (valid only when VP_RAW_INBLK(p) or VP_IS_QB(p)) */
#define VP_RAW_IDX(p) ((uint32_t)(VP_RAW_OFF(p) - QB_OFF))
#define VP_RAW_BLK(p) ((QAD*)VP_RAW_HDR(p))
#else
static const struct qb *vp_raw_find(const void *p) { const char *c = (const char*)p;
  for (unsigned i = vp_nblk[1]; i-- > 0;) { const char *b = (const char*)vp_blks[1][i]; if (c >= b + QB_OFF && c < b + sizeof(struct qb)) return (const struct qb*)b; } return 0; }
static int vp_raw_ok(const void *p, uint64_t n, uint64_t slack) { if (!n) return 1; const struct qb *b = vp_raw_find(p); if (!b) return 1;
  return (uint64_t)((const char*)p - (const char*)b) - QB_OFF + n <= (uint64_t)b->h.f1 + slack; }
#define VP_RAW_INBLK(p) (vp_raw_find(p) != 0)
#define VP_RAW_R_OK(p, n) vp_raw_ok((p), (uint64_t)(n), 1)
#define VP_RAW_W_OK(p, n) vp_raw_ok((p), (uint64_t)(n), 0)
#define VP_RAW_IDX(p) ((uint32_t)((const char*)(p) - (const char*)vp_raw_find(p) - QB_OFF))
#define VP_RAW_BLK(p) ((QAD*)vp_raw_find(p))
#endif
#define VP_SAFE(c, m) do { VP_ASSERT(c, "C14 safety: " m); ASSUME(c); } while (0)
static struct qb vp_qb_zero;   /* all-zero template: blocks are initialised by one struct assignment (constants, no loop) */
static QAD *qbv_new(uint32_t len, uint32_t hint) { struct qb *s = malloc(sizeof(struct qb)); ASSUME(s != 0); *s = vp_qb_zero;
  REF(&s->h) = 1; s->h.f1 = len; s->h.f2 = QB_CAP + 1; s->h.f3 = QB_OFF; s->hint = umin(hint, QB_CAP); VP_REG_BLK(s, 1); return &s->h; }
static int qbv_private(QAD *d) { return REF(d) == 1 && d->f3 == QB_OFF; }
static void vpl_x_copy(QAD *d, QAD *o, uint32_t n) { for (uint32_t i = 0; i < XHINT(o) && i < QB_CAP; i++) { if (i >= n) break; BD(d)[i] = XBYTES(o)[i]; } }
/* copy of a block with a new size: model blocks are copied by ONE struct assignment (no per-byte loop, no per-byte pointer checks) */
static QAD *qbv_copy(QAD *o, uint32_t newlen) { uint32_t h = XHINT(o);
  if (o->f3 == QB_OFF) { struct qb *s = malloc(sizeof(struct qb)); ASSUME(s != 0); *s = *(struct qb*)o; REF(&s->h) = 1; s->h.f1 = newlen; s->h.f2 = QB_CAP + 1; s->isnum = 0; s->b64 = 0;
    if (s->hint < newlen) s->hint = umin(newlen, QB_CAP); VP_REG_BLK(s, 1); return &s->h; }
  QAD *d = qbv_new(newlen, newlen > h ? newlen : h); vpl_x_copy(d, o, umin(o->f1, newlen)); return d; }
/* equality without early exit (no guard growth) */
static int vpl_x_eq(QAD *a, QAD *b) { if (a->f1 != b->f1) return 0; uint8_t same = 1;
  for (uint32_t i = 0; i < XHINT(a) && i < XHINT(b) && i < QB_CAP; i++) { if (i >= a->f1) break; same &= (uint8_t)(XBYTES(a)[i] == XBYTES(b)[i]); } return same; }
static void vpl_x_fill(QAD *d, uint8_t c, uint32_t n) { for (uint32_t i = 0; i < QB_CAP; i++) { if (i >= n) break; BD(d)[i] = c; } }
void _ZN10QByteArrayC1Eic(char *self, uint32_t n, uint8_t c) { if ((int32_t)n <= 0) { *(QAD**)self = qbv_new(0, 0); return; }
  QAD *d = qbv_new(n, n); if (c != 0) { ASSERT(n <= QB_CAP, "QByteArray(n, c != 0) above the model capacity"); vpl_x_fill(d, c, n); } *(QAD**)self = d; }
void _ZN10QByteArray6resizeEi(char *self, uint32_t n) { QAD *o = *(QAD**)self; if ((int32_t)n < 0) n = 0;
  if (qbv_private(o)) { o->f1 = n; struct qb *q = (struct qb*)o; if (q->hint < n) q->hint = umin(n, QB_CAP); if (n <= QB_CAP) BD(o)[n] = 0; return; }
  QAD *d = qbv_copy(o, n); qad_deref(o); *(QAD**)self = d; }
void _ZN10QByteArray11reallocDataEj6QFlagsIN10QArrayData16AllocationOptionEE(char *self, uint32_t alloc, uint32_t opt) { QAD *o = *(QAD**)self;
  if (qbv_private(o)) { struct qb *q = (struct qb*)o; if (q->hint + 1 < alloc) q->hint = umin(alloc, QB_CAP); return; }
  QAD *d = qbv_copy(o, o->f1); struct qb *q = (struct qb*)d; if (q->hint + 1 < alloc) q->hint = umin(alloc, QB_CAP); qad_deref(o); *(QAD**)self = d; }
/* append(char): in place when the block is private (the shared model allocates a fresh block per call) */
char* _ZN10QByteArray6appendEc(char *self, uint8_t c) { QAD *o = *(QAD**)self;
  if (!qbv_private(o)) { QAD *d = qbv_copy(o, o->f1); qad_deref(o); *(QAD**)self = d; o = d; }
  uint32_t n = o->f1; ASSERT(n < QB_CAP, "QByteArray capacity of the model exceeded"); BD(o)[n] = c; BD(o)[n + 1] = 0; o->f1 = n + 1; struct qb *q = (struct qb*)o; if (q->hint < n + 1) q->hint = n + 1; return self; }
#define PHINT(p, n) (VP_IS_QB(p) ? ((struct qb*)((char*)(p) - QB_OFF))->hint : (uint32_t)(n))
static uint32_t vpl_x_strnlen(const uint8_t *p, uint32_t maxlen) { uint32_t n = 0; for (; n < PHINT(p, maxlen) && n < QB_CAP; n++) { if (n >= maxlen) break; if (!p[n]) break; } return n; }
/* qstrnlen(s, maxlen) touches the bytes up to and including the first NUL, at most maxlen */
uint32_t _Z8qstrnlenPKcj(char *s, uint32_t maxlen) { if (!s) return 0; uint32_t r = vpl_x_strnlen((uint8_t*)s, maxlen);
  VP_SAFE(VP_RAW_R_OK(s, r < maxlen ? r + 1 : maxlen), "qstrnlen reads inside the byte array its argument points into");
  return r; }
/* ---- UTF-8 <-> UTF-16 with byte length != unit length, as a per-instance case split (cdef VP_U8PAT) ----
   The shared model is the identity on ASCII (length preserving).  With -DVP_U8PAT=<decimal digits, least significant = unit 0> every
   string of the instance has the SHAPE given by the digits: digit 1 (or 0) = unit in U+0001..U+007F (1 byte), 2 = unit in U+00C0..U+00FF
   (2 bytes, lead byte C3: "e-acute" is in there), 3 = unit in U+2000..U+2FFF (3 bytes, lead byte E2: the euro sign is in there).  Within a
   shape all units are symbolic; the byte length of every string is a constant of the instance (lengths are structure).  The codec
   below is the real UTF-8 mapping restricted to these shapes; text outside the shape is a MODEL failure (inconclusive), never accepted. */
#ifdef VP_U8PAT
static uint32_t u8cls(uint32_t i) { uint64_t p = VP_U8PAT; for (uint32_t k = 0; k < 8; k++) { if (k >= i) break; p /= 10; } uint32_t c = (uint32_t)(p % 10); return c < 2 ? 1 : c; }
#define QS_UNIT(d, i) ((d)->f3 == QS_OFF ? SD(d)[i] : ((const uint16_t*)((const char*)(d) + (d)->f3))[i])
void _ZN7QString13toUtf8_helperERKS_(char *ret, char *self) { QAD *s = *(QAD**)self; uint32_t n = s->f1; ASSERT(n <= 8, "toUtf8 (shape model): at most 8 units");
  uint32_t total = 0; for (uint32_t i = 0; i < 8; i++) { if (i >= n) break; total += u8cls(i); }
  QAD *d = qbv_new(total, total); uint32_t k = 0;
  for (uint32_t i = 0; i < 8; i++) { if (i >= n) break; uint16_t u = QS_UNIT(s, i); uint32_t c = u8cls(i);
    if (c == 1) { ASSERT(u >= 1 && u < 0x80, "toUtf8 (shape model): unit outside its shape class 1"); BD(d)[k] = (uint8_t)u; k += 1; }
    else if (c == 2) { ASSERT((u >> 6) == 3, "toUtf8 (shape model): unit outside its shape class 2"); BD(d)[k] = 0xC3; BD(d)[k + 1] = (uint8_t)(0x80 | (u & 0x3f)); k += 2; }
    else { ASSERT((u >> 12) == 2, "toUtf8 (shape model): unit outside its shape class 3"); BD(d)[k] = 0xE2; BD(d)[k + 1] = (uint8_t)(0x80 | ((u >> 6) & 0x3f)); BD(d)[k + 2] = (uint8_t)(0x80 | (u & 0x3f)); k += 3; } }
  *(QAD**)ret = d; }
void _ZN7QString15fromUtf8_helperEPKci(char *ret, char *p, uint32_t n) { if (!p) { *(QAD**)ret = SHARED_NULL; return; } const uint8_t *b = (const uint8_t*)p; ASSERT((int32_t)n >= 0, "fromUtf8 (shape model): explicit length");
  VP_SAFE(VP_RAW_R_OK(p, n), "QString::fromUtf8(const char*, int) reads inside the byte array its argument points into");
  QAD *d = qs_new(0, 8); uint32_t k = 0, cnt = 0;       /* k, the byte position of unit j, is a constant: the widths come from the shape */
  for (uint32_t j = 0; j < 8; j++) { uint32_t c = u8cls(j); if (k >= n) break; ASSERT(k + c <= n, "fromUtf8 (shape model): truncated sequence");
    if (c == 1) { ASSERT(b[k] < 0x80, "fromUtf8 (shape model): byte outside its shape class 1"); SD(d)[j] = b[k]; }
    else if (c == 2) { ASSERT(b[k] == 0xC3 && (b[k + 1] & 0xC0) == 0x80, "fromUtf8 (shape model): bytes outside their shape class 2"); SD(d)[j] = (uint16_t)(0x00C0 | (b[k + 1] & 0x3f)); }
    else { ASSERT(b[k] == 0xE2 && (b[k + 1] & 0xC0) == 0x80 && (b[k + 2] & 0xC0) == 0x80, "fromUtf8 (shape model): bytes outside their shape class 3"); SD(d)[j] = (uint16_t)(0x2000 | ((b[k + 1] & 0x3f) << 6) | (b[k + 2] & 0x3f)); }
    k += c; cnt = j + 1; }
  ASSERT(k >= n, "fromUtf8 (shape model): more than 8 units"); d->f1 = cnt; *(QAD**)ret = d; }
/* harness: a fresh string of exactly len units of the instance's shape */
void vp_fresh_text(char *out, uint32_t len) { ASSERT(len <= 8, "vp_fresh_text bound"); QAD *d = qs_new(len, len);
  for (uint32_t i = 0; i < len; i++) { uint32_t c = u8cls(i); uint16_t x = vp_u16();
    if (c == 1) { ASSUME(x >= 1 && x < 0x80); SD(d)[i] = x; } else if (c == 2) { SD(d)[i] = (uint16_t)(0x00C0 | (x & 0x3f)); } else { SD(d)[i] = (uint16_t)(0x2000 | (x & 0x0fff)); } }
  *(QAD**)out = d; }
uint32_t vp_text_bytes(uint32_t len) { uint32_t t = 0; for (uint32_t i = 0; i < 8; i++) { if (i >= len) break; t += u8cls(i); } return t; }
#else
void vpcore_QString_toUtf8_helper(char *ret, char *self); void vpcore_QString_fromUtf8_helper(char *ret, char *p, uint32_t n);
void _ZN7QString13toUtf8_helperERKS_(char *ret, char *self) { vpcore_QString_toUtf8_helper(ret, self); }
void _ZN7QString15fromUtf8_helperEPKci(char *ret, char *p, uint32_t n) {
  if (p && (int32_t)n >= 0) VP_SAFE(VP_RAW_R_OK(p, n), "QString::fromUtf8(const char*, int) reads inside the byte array its argument points into");
  vpcore_QString_fromUtf8_helper(ret, p, n); }
void vp_fresh_text(char *out, uint32_t len) { ASSERT(len <= 8, "vp_fresh_text bound"); QAD *d = qs_new(len, len);
  for (uint32_t i = 0; i < len; i++) { uint8_t c = vp_u8(); ASSUME(c >= 1 && c < 0x80); SD(d)[i] = c; } *(QAD**)out = d; }
uint32_t vp_text_bytes(uint32_t len) { return len; }
#endif
/* ---- logging / formatting ---- */
void _ZNK7QString3argERKS_i5QChar(char *ret, char *self, char *a, uint32_t w, uint16_t fill) { *(QAD**)ret = qad_ref(*(QAD**)self); }
void _ZNK14QMessageLogger7warningEPKcz(char *self, char *fmt, ...) { }
/* ---- harness helpers ---- */
#ifndef VP_CFG0
#define VP_CFG0 0
#endif
#ifndef VP_CFG1
#define VP_CFG1 0
#endif
#ifndef VP_CFG2
#define VP_CFG2 0
#endif
#ifndef VP_CFG3
#define VP_CFG3 0
#endif
uint32_t vp_never(void) { return 0; }
uint32_t vp_cfg0(void) { return VP_CFG0; }   /* per-instance constants (cdefs) visible to the C++ harness */
uint32_t vp_cfg1(void) { return VP_CFG1; }
uint32_t vp_cfg2(void) { return VP_CFG2; }
uint32_t vp_cfg3(void) { return VP_CFG3; }
/* fresh symbolic byte array of length minlen..maxlen (maxlen a constant of the harness) */
void vp_fresh_bytes(char *out, uint32_t minlen, uint32_t maxlen) { uint32_t len = maxlen; ASSERT(maxlen <= QB_CAP, "vp_fresh_bytes bound");
  if (minlen != maxlen) { len = vp_u32(); ASSUME(len >= minlen && len <= maxlen); }
  QAD *d = qbv_new(len, maxlen);
  for (uint32_t i = 0; i < maxlen; i++) BD(d)[i] = vp_u8();
  if (minlen != maxlen) BD(d)[len] = 0; *(QAD**)out = d; }
/* exactly len UTF-16 units in 0x01..0x7f (ASCII without NUL) */
void vp_fresh_ascii(char *out, uint32_t len) { ASSERT(len <= 8, "vp_fresh_ascii bound"); QAD *d = qs_new(len, len);
  for (uint32_t i = 0; i < len; i++) { uint8_t c = vp_u8(); ASSUME(c >= 1 && c < 0x80); SD(d)[i] = c; } *(QAD**)out = d; }
void vp_set_byte(char *ba, uint32_t i, uint8_t v) { QAD *d = *(QAD**)ba; ASSERT(i < d->f1 && i < QB_CAP && qbv_private(d), "vp_set_byte"); BD(d)[i] = v; }
uint8_t vp_byte_at(char *ba, uint32_t i) { QAD *d = *(QAD**)ba; if (i >= d->f1 || i >= QB_CAP) return 0; return XBYTES(d)[i]; }
uint8_t vp_bytes_same(char *a, char *b) { return qb_eq(*(QAD**)a, *(QAD**)b); }
#endif
