/* C14/C15 local models, part 2 (after bytes_models.c): QDataStream over a QByteArray, QHostAddress, QSet<quint16>,
   and the cuts at QXmppUtils::generateHmacSha1 / generateCrc32 (uninterpreted, functionally consistent oracles; the
   functions themselves are checked against RFC 2104 / the bitwise CRC-32 in the `utils` group). */
#ifdef HAVE_T_struct_QArrayData
/* ================= QDataStream (big endian) over QBuffer semantics =================
   Layout of the real class is kept so that the inline QDataStream::device() works; `dev` points to a fake QIODevice whose
   hand-made vtable has QIODevice::seek (slot 17) = vp_buf_seek (group option cand).  Reads past the end yield 0 and move to
   the end (QDataStream::operator>> contract); readRawData/skipRawData consume min(len, available). */
#ifdef HAVE_T_class_QDataStream
struct vdev { char *vptr; char *qobject_d; QAD *rbuf; char *target; uint32_t pos; };
uint8_t vp_buf_seek(char *dev, uint64_t pos);
static char *vdev_vtable[24] = { 0, 0, 0, 0, 0, 0, 0, 0, 0, 0, 0, 0, 0, 0, 0, 0, 0, (char*)&vp_buf_seek, 0, 0, 0, 0, 0, 0 };
#define DS(self) ((struct T_class_QDataStream*)(self))
#define DEV(self) ((struct vdev*)DS(self)->f1)
static struct vdev *vdev_new(char *self) { struct vdev *v = malloc(sizeof(struct vdev)); ASSUME(v != 0); v->vptr = (char*)vdev_vtable; v->qobject_d = 0; v->rbuf = 0; v->target = 0; v->pos = 0;
  struct T_class_QDataStream *s = DS(self); s->f0.f0 = 0; s->f1 = (char*)v; s->f2 = 1; s->f3 = 0; s->f4 = 0; s->f5 = 19; s->f6 = 0; return v; }
void _ZN11QDataStreamC1ERK10QByteArray(char *self, char *ba) { struct vdev *v = vdev_new(self); v->rbuf = qad_ref(*(QAD**)ba); }
void _ZN11QDataStreamC1EP10QByteArray6QFlagsIN9QIODevice12OpenModeFlagEE(char *self, char *ba, uint32_t mode) { struct vdev *v = vdev_new(self); ASSERT(mode == 2, "QDataStream(QByteArray*, mode): only WriteOnly is modelled"); v->target = ba; }
void _ZN11QDataStreamD1Ev(char *self) { }
uint8_t vp_buf_seek(char *dev, uint64_t pos) { struct vdev *v = (struct vdev*)dev; QAD *d = v->target ? *(QAD**)v->target : v->rbuf; ASSERT(pos <= d->f1, "QBuffer::seek beyond the end is not modelled"); v->pos = (uint32_t)pos; return 1; }
/* ---- reading ---- */
static uint32_t ds_avail(struct vdev *v) { ASSERT(v->rbuf != 0, "read from a write-only QDataStream"); return v->pos <= v->rbuf->f1 ? v->rbuf->f1 - v->pos : 0; }
static uint32_t ds_get(struct vdev *v) { uint32_t p = v->pos; ASSERT(p < QB_CAP, "stream read outside the block storage"); v->pos = p + 1; return XBYTES(v->rbuf)[p]; }
static void ds_toend(struct vdev *v) { v->pos = v->rbuf->f1; }
char* _ZN11QDataStreamrsERa(char *self, char *out) { struct vdev *v = DEV(self); if (ds_avail(v) < 1) { *(uint8_t*)out = 0; ds_toend(v); return self; } *(uint8_t*)out = (uint8_t)ds_get(v); return self; }
char* _ZN11QDataStreamrsERs(char *self, char *out) { struct vdev *v = DEV(self); if (ds_avail(v) < 2) { *(uint16_t*)out = 0; ds_toend(v); return self; } uint32_t a = ds_get(v), b = ds_get(v); *(uint16_t*)out = (uint16_t)((a << 8) | b); return self; }
char* _ZN11QDataStreamrsERi(char *self, char *out) { struct vdev *v = DEV(self); if (ds_avail(v) < 4) { *(uint32_t*)out = 0; ds_toend(v); return self; } uint32_t a = ds_get(v), b = ds_get(v), c = ds_get(v), d = ds_get(v); *(uint32_t*)out = (a << 24) | (b << 16) | (c << 8) | d; return self; }
/* copy n bytes src block [from..) -> destination; the destination is written through the typed member when it is a model block */
static void vpl_ds_read_blk(QAD *dst, QAD *src, uint32_t from, uint32_t n) { for (uint32_t i = 0; i + from < XHINT(src) && i < QB_CAP; i++) { if (i >= n) break; BD(dst)[i] = XBYTES(src)[from + i]; } }
static void vpl_ds_read_raw(uint8_t *dst, QAD *src, uint32_t from, uint32_t n) { for (uint32_t i = 0; i + from < XHINT(src) && i < QB_CAP; i++) { if (i >= n) break; dst[i] = XBYTES(src)[from + i]; } }
/* memory-safety contract of readRawData(dst, len): dst has room for len bytes.  Checked as a PROPERTY (not a model limit).
   dst at the first byte of a byte array: len <= its LOGICAL size; dst inside a byte array: up to its logical end (VP_RAW_W_OK, bytes_models.c);
   any other destination: its C object (__CPROVER_w_ok). */
uint32_t _ZN11QDataStream11readRawDataEPci(char *self, char *dst, uint32_t len) { struct vdev *v = DEV(self); if ((int32_t)len < 0) return (uint32_t)-1;
  uint32_t av = ds_avail(v), n = len < av ? len : av;
  if (VP_IS_QB(dst)) { QAD *db = (QAD*)(dst - QB_OFF);
    VP_ASSERT(len <= db->f1, "C14 safety: QDataStream::readRawData destination (byte array) has room for the requested length");
    if (n > 0) { ASSERT(v->pos + n <= QB_CAP, "stream read outside the block storage"); vpl_ds_read_blk(db, v->rbuf, v->pos, n); } }
  else if (len != 0 && VP_RAW_INBLK(dst)) {
    VP_SAFE(VP_RAW_W_OK(dst, len), "QDataStream::readRawData destination (inside a byte array) has room for the requested length");
    if (n > 0) { ASSERT(v->pos + n <= QB_CAP, "stream read outside the block storage"); vpl_ds_read_raw((uint8_t*)dst, v->rbuf, v->pos, n); } }
  else {
#ifdef __CPROVER__
    VP_ASSERT(len == 0 || __CPROVER_w_ok(dst, len), "C14 safety: QDataStream::readRawData destination has room for the requested length");
#endif
    if (n > 0) { ASSERT(v->pos + n <= QB_CAP, "stream read outside the block storage"); vpl_ds_read_raw((uint8_t*)dst, v->rbuf, v->pos, n); } }
  v->pos += n; return n; }
uint32_t _ZN11QDataStream11skipRawDataEi(char *self, uint32_t len) { struct vdev *v = DEV(self); if ((int32_t)len < 0) return (uint32_t)-1; uint32_t av = ds_avail(v), n = len < av ? len : av; v->pos += n; return n; }
/* ---- writing (in place through the typed member; the target is detached first when shared) ---- */
static QAD *ds_wblk(struct vdev *v, uint32_t n) { ASSERT(v->target != 0, "write to a read-only QDataStream"); QAD *d = *(QAD**)v->target;
  if (!qbv_private(d)) { QAD *nd = qbv_copy(d, d->f1); qad_deref(d); *(QAD**)v->target = nd; d = nd; }
  uint32_t p = v->pos, e = p + n; ASSERT(p <= d->f1, "QBuffer write beyond the end"); ASSERT(e <= QB_CAP, "QByteArray capacity of the model exceeded");
  if (e > d->f1) { d->f1 = e; BD(d)[e] = 0; } struct qb *q = (struct qb*)d; if (q->hint < e) q->hint = e; v->pos = e; return d; }
char* _ZN11QDataStreamlsEa(char *self, uint8_t x) { struct vdev *v = DEV(self); uint32_t p = v->pos; QAD *d = ds_wblk(v, 1); BD(d)[p] = x; return self; }
char* _ZN11QDataStreamlsEs(char *self, uint16_t x) { struct vdev *v = DEV(self); uint32_t p = v->pos; QAD *d = ds_wblk(v, 2); BD(d)[p] = (uint8_t)(x >> 8); BD(d)[p + 1] = (uint8_t)x; return self; }
char* _ZN11QDataStreamlsEi(char *self, uint32_t x) { struct vdev *v = DEV(self); uint32_t p = v->pos; QAD *d = ds_wblk(v, 4); BD(d)[p] = (uint8_t)(x >> 24); BD(d)[p + 1] = (uint8_t)(x >> 16); BD(d)[p + 2] = (uint8_t)(x >> 8); BD(d)[p + 3] = (uint8_t)x; return self; }
static void vpl_ds_write(QAD *d, uint32_t p, const uint8_t *src, uint32_t n) { for (uint32_t i = 0; i < PHINT(src, n) && i < QB_CAP; i++) { if (i >= n) break; BD(d)[p + i] = src[i]; } }
/* memory-safety contract of writeRawData(src, len): len bytes are readable at src (logical size of the byte array src points into) */
uint32_t _ZN11QDataStream12writeRawDataEPKci(char *self, char *src, uint32_t len) { if ((int32_t)len < 0) return (uint32_t)-1; if (len == 0) return 0;
  VP_SAFE(VP_RAW_R_OK(src, len), "QDataStream::writeRawData source holds the requested number of bytes");
  struct vdev *v = DEV(self); uint32_t p = v->pos; QAD *d = ds_wblk(v, len); vpl_ds_write(d, p, (uint8_t*)src, len); return len; }
#endif

/* ================= QHostAddress: { protocol, IPv4 word, IPv6 bytes } behind the d pointer ================= */
#ifdef HAVE_T_class_QHostAddress
struct vha { uint32_t proto; uint32_t v4; uint8_t v6[16]; };   /* proto: 0 IPv4, 1 IPv6, 0xffffffff unknown (null) */
#define HA(self) (*(struct vha**)(self))
static struct vha *ha_new(char *self, uint32_t proto) { struct vha *h = malloc(sizeof(struct vha)); ASSUME(h != 0); h->proto = proto; h->v4 = 0; for (int i = 0; i < 16; i++) h->v6[i] = 0; HA(self) = h; return h; }
void _ZN12QHostAddressC1Ev(char *self) { ha_new(self, (uint32_t)-1); }
void _ZN12QHostAddressC1Ej(char *self, uint32_t a) { ha_new(self, 0)->v4 = a; }
void _ZN12QHostAddressC1ERK12QIPv6Address(char *self, char *a) { struct vha *h = ha_new(self, 1); for (int i = 0; i < 16; i++) h->v6[i] = ((uint8_t*)a)[i]; }
void _ZN12QHostAddressC1ERKS_(char *self, char *o) { struct vha *s = HA(o); struct vha *h = ha_new(self, s->proto); *h = *s; }
char* _ZN12QHostAddressaSERKS_(char *self, char *o) { struct vha *s = HA(o); struct vha *h = ha_new(self, s->proto); *h = *s; return self; }
void _ZN12QHostAddressD1Ev(char *self) { }
uint32_t _ZNK12QHostAddress8protocolEv(char *self) { return HA(self)->proto; }
uint8_t _ZNK12QHostAddress6isNullEv(char *self) { return HA(self)->proto == (uint32_t)-1; }
uint32_t _ZNK12QHostAddress13toIPv4AddressEv(char *self) { struct vha *h = HA(self); ASSERT(h->proto != 1, "toIPv4Address of an IPv6 address (v4-mapped conversion) not modelled"); return h->proto == 0 ? h->v4 : 0; }
#ifdef HAVE_T_class_QIPv6Address
// MODEL: _ZNK12QHostAddress13toIPv6AddressEv   (returns Q_IPV6ADDR in registers: {i64,i64})
struct L_1f71b25bad _ZNK12QHostAddress13toIPv6AddressEv(char *self) { struct vha *h = HA(self); ASSERT(h->proto == 1, "toIPv6Address of a non-IPv6 address not modelled");
  struct L_1f71b25bad r; uint8_t *p = (uint8_t*)&r; for (int i = 0; i < 16; i++) p[i] = h->v6[i]; return r; }
#endif
uint8_t _ZNK12QHostAddresseqERKS_(char *a, char *b) { struct vha *x = HA(a), *y = HA(b); if (x->proto != y->proto) return 0; if (x->proto == 0) return x->v4 == y->v4;
  if (x->proto == 1) { for (int i = 0; i < 16; i++) if (x->v6[i] != y->v6[i]) return 0; } return 1; }
/* harness helpers: symbolic address of a given family, and observers that do not go through the real API */
void vp_sym_addr4(char *out) { HA(out)->proto = 0; HA(out)->v4 = vp_u32(); }
void vp_sym_addr6(char *out) { struct vha *h = HA(out); h->proto = 1; h->v4 = 0; for (int i = 0; i < 16; i++) h->v6[i] = vp_u8(); }
#endif

/* ================= QSet<quint16> (attribute presence): class-level model, fixed slot per attribute type ================= */
#ifdef HAVE_T_class_QSet
struct vset { uint8_t has[16]; };
static int set_slot(uint16_t k) { switch (k) { case 0x0003: return 0; case 0x000c: return 1; case 0x000d: return 2; case 0x0013: return 3; case 0x0014: return 4; case 0x0015: return 5;
  case 0x0019: return 6; case 0x0022: return 7; case 0x0024: return 8; case 0x8022: return 9; case 0x0006: return 10; case 0x0018: return 11; default: ASSERT(0, "QSet<quint16> model: unexpected attribute type"); return 15; } }
#define VSET(self) (*(struct vset**)(self))
void _ZN4QSetItEC2Ev(char *self) { struct vset *s = malloc(sizeof(struct vset)); ASSUME(s != 0); for (int i = 0; i < 16; i++) s->has[i] = 0; VSET(self) = s; }
void _ZN4QSetItED2Ev(char *self) { }
char* _ZN4QSetItElsERKt(char *self, char *k) { VSET(self)->has[set_slot(*(uint16_t*)k)] = 1; return self; }
uint8_t _ZNK4QSetItE8containsERKt(char *self, char *k) { return VSET(self)->has[set_slot(*(uint16_t*)k)]; }
#endif

/* ================= cuts: HMAC-SHA1 and CRC-32 as uninterpreted, functionally consistent functions =================
   Every call is recorded in its own slot (the call counter stays a constant whenever the calls are not under symbolic guards);
   the result is a fresh symbolic digest unless an earlier recorded call had the same input: then it is that call's digest. */
#ifndef VP_ORC_CAP
#define VP_ORC_CAP 4
#endif
struct orc { QAD *key, *text; uint8_t dig[20]; };
#define ORC_EMPTY { (QAD*)&vp_qb_zero, (QAD*)&vp_qb_zero, { 0 } }
static struct orc hm_log[VP_ORC_CAP] = { ORC_EMPTY, ORC_EMPTY, ORC_EMPTY, ORC_EMPTY }, cr_log[VP_ORC_CAP] = { ORC_EMPTY, ORC_EMPTY, ORC_EMPTY, ORC_EMPTY };
static uint32_t hm_n, cr_n;
uint32_t G_vp_hmac_calls = 0;
uint32_t G_vp_crc_calls = 0;
static void orc_call(struct orc *log, uint32_t *pn, QAD *k, QAD *t, uint32_t dl, uint8_t *out) { uint32_t n = *pn; ASSERT(n < VP_ORC_CAP, "oracle log full");
  uint8_t dig[20]; for (uint32_t q = 0; q < 20; q++) dig[q] = q < dl ? vp_u8() : 0;
  for (uint32_t j = 0; j < VP_ORC_CAP; j++) { if (j < n) { if ((!k || vpl_x_eq(log[j].key, k)) && vpl_x_eq(log[j].text, t)) { for (uint32_t q = 0; q < 20; q++) dig[q] = log[j].dig[q]; } } }
  QAD *ks = k ? qbv_copy(k, k->f1) : (QAD*)&vp_qb_zero, *ts = qbv_copy(t, t->f1);
  for (uint32_t j = 0; j < VP_ORC_CAP; j++) { if (j == n) { log[j].key = ks; log[j].text = ts; for (uint32_t q = 0; q < 20; q++) log[j].dig[q] = dig[q]; } }
  *pn = n + 1; for (uint32_t q = 0; q < 20; q++) out[q] = dig[q]; }
void _ZN10QXmppUtils16generateHmacSha1ERK10QByteArrayS2_(char *ret, char *key, char *text) { uint8_t d[20]; G_vp_hmac_calls++; orc_call(hm_log, &hm_n, *(QAD**)key, *(QAD**)text, 20, d);
  QAD *r = qbv_new(20, 20); for (uint32_t q = 0; q < 20; q++) BD(r)[q] = d[q]; *(QAD**)ret = r; }
uint32_t _ZN10QXmppUtils13generateCrc32ERK10QByteArray(char *text) { uint8_t d[20]; G_vp_crc_calls++; orc_call(cr_log, &cr_n, 0, *(QAD**)text, 4, d);
  return ((uint32_t)d[0] << 24) | ((uint32_t)d[1] << 16) | ((uint32_t)d[2] << 8) | d[3]; }
#endif
/* decode()'s diagnostic list (`QStringList *errors`) is logging, not part of C14/C15: QStringList::operator<<(const QString&) (inline, Qt)
   is a no-op here, the list stays empty (cuts the QList<QString> growth code out of every error path) */
#ifdef HAVE_T_struct_QArrayData
char* _ZN11QStringListlsERK7QString(char *self, char *s) { return self; }
#endif
