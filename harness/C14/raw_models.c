/* C14 raw-pointer safety, part 2 (listed LAST; raw_pre.c must be listed before qt_core.c).
   Every environment function that CONSUMES a raw pointer into a byte array (or produces a view of one) checks the LOGICAL bounds of the
   range it touches as a property-level assertion ("C14 safety: ...", VP_SAFE / VP_RAW_R_OK / VP_RAW_W_OK of bytes_models.c) before it
   does its work.  Functions the shared model already has are wrapped (check + vpcore_* body); the others are modelled here:
     QByteArray(const char*, int), operator=(const char*), append(const char*[, int]), prepend / insert / replace(.. const char* ..),
     fromRawData, setRawData, QString::fromLatin1(const char*, int), qstrcmp, qstrcmp(QByteArray, const char*), qstrncpy, qstrcpy,
     memcpy, memmove, memcmp, bcmp, strncmp (qstrncmp is inline over it),
     and - when hash_models.c is part of the program - QCryptographicHash::addData(const char*, int) and QMessageAuthenticationCode.
   NOT wrapped: strncpy (owned by models/base.h), strlen (cbmc / libc built-in; qstrlen is inline over it).
   fromRawData is modelled as a COPY of the viewed bytes (later writes to the source are not seen through the view); the range check is
   made when the view is created: a view that reaches past the logical end of its source is read by every later use of it. */
#ifdef HAVE_T_struct_QArrayData
#undef _ZN10QByteArrayC1EPKci
#undef _ZN10QByteArrayaSEPKc
#undef _ZN10QByteArray6appendEPKc
#undef _ZN10QByteArray6appendEPKci
#undef qstrcmp
#undef _Z7qstrcmpRK10QByteArrayPKc
#undef bcmp
#undef memcmp
#undef _ZN7QString17fromLatin1_helperEPKci
void vpcore_QByteArrayC1EPKci(char *self, char *p, uint32_t n); char* vpcore_QByteArray_assign_cstr(char *self, char *p);
char* vpcore_QByteArray_append_cstr(char *self, char *p); char* vpcore_QByteArray_append_raw(char *self, char *p, uint32_t n);
uint32_t vpcore_qstrcmp(char *a, char *b); uint32_t vpcore_qstrcmp_ba_cstr(char *a, char *b); char* vpcore_QString_fromLatin1_helper(char *p, uint32_t n);
/* NUL-terminated argument: the bytes up to and including the first NUL are read */
static uint32_t vpl_raw_strlen(const uint8_t *p) { uint32_t n = 0; for (; n < QB_CAP; n++) { if (!p[n]) break; } return n; }
#define VP_RAW_CSTR_OK(p) VP_RAW_R_OK(p, (uint64_t)vpl_raw_strlen((const uint8_t*)(p)) + 1)
/* copy n bytes from a raw source into block d at position off (the caller has checked the source range and the capacity of d) */
static void vpl_raw_into_blk(QAD *d, uint32_t off, const uint8_t *s, uint32_t n) { for (uint32_t i = 0; i < QB_CAP; i++) { if (i >= n) break; if (off + i > QB_CAP) break; BD(d)[off + i] = s[i]; } }

/* ---- QByteArray members taking (const char*, int) ---- */
void _ZN10QByteArrayC1EPKci(char *self, char *p, uint32_t n) {
  if (p) { if ((int32_t)n >= 0) VP_SAFE(VP_RAW_R_OK(p, n), "QByteArray(const char*, int) reads inside the byte array its argument points into");
           else VP_SAFE(VP_RAW_CSTR_OK(p), "QByteArray(const char*) reads inside the byte array its argument points into"); }
  vpcore_QByteArrayC1EPKci(self, p, n); }
char* _ZN10QByteArrayaSEPKc(char *self, char *p) {
  if (p) VP_SAFE(VP_RAW_CSTR_OK(p), "QByteArray::operator=(const char*) reads inside the byte array its argument points into");
  return vpcore_QByteArray_assign_cstr(self, p); }
char* _ZN10QByteArray6appendEPKc(char *self, char *p) {
  if (p) VP_SAFE(VP_RAW_CSTR_OK(p), "QByteArray::append(const char*) reads inside the byte array its argument points into");
  return vpcore_QByteArray_append_cstr(self, p); }
char* _ZN10QByteArray6appendEPKci(char *self, char *p, uint32_t n) {
  if (p) { if ((int32_t)n >= 0) VP_SAFE(VP_RAW_R_OK(p, n), "QByteArray::append(const char*, int) reads inside the byte array its argument points into");
           else VP_SAFE(VP_RAW_CSTR_OK(p), "QByteArray::append(const char*, -1) reads inside the byte array its argument points into"); }
  return vpcore_QByteArray_append_raw(self, p, n); }
/* the view is modelled as a copy (see the head of the file) */
void _ZN10QByteArray11fromRawDataEPKci(char *ret, char *p, uint32_t n) { if (!p) { *(QAD**)ret = SHARED_NULL; return; }
  ASSERT((int32_t)n >= 0, "QByteArray::fromRawData with a negative size is not modelled");
  VP_SAFE(VP_RAW_R_OK(p, n), "QByteArray::fromRawData view lies inside the byte array its argument points into");
  QAD *d = qbv_new(n, n); vpl_raw_into_blk(d, 0, (const uint8_t*)p, n); if (n <= QB_CAP) BD(d)[n] = 0; *(QAD**)ret = d; }
char* _ZN10QByteArray10setRawDataEPKcj(char *self, char *p, uint32_t n) { QAD *o = *(QAD**)self;
  if (!p || !n) { *(QAD**)self = qbv_new(0, 0); qad_deref(o); return self; }
  VP_SAFE(VP_RAW_R_OK(p, n), "QByteArray::setRawData view lies inside the byte array its argument points into");
  QAD *d = qbv_new(n, n); vpl_raw_into_blk(d, 0, (const uint8_t*)p, n); if (n <= QB_CAP) BD(d)[n] = 0; *(QAD**)self = d; qad_deref(o); return self; }
/* insert / prepend / replace: built from the checked pieces [0, pos) + source + [pos + removed, size) */
static void vpl_raw_tail(QAD *d, uint32_t off, QAD *o, uint32_t from, uint32_t n) { for (uint32_t i = 0; i < QB_CAP; i++) { if (i >= n) break; if (off + i > QB_CAP || from + i > QB_CAP) break; BD(d)[off + i] = XBYTES(o)[from + i]; } }
static char *raw_splice(char *self, uint32_t pos, uint32_t removed, const uint8_t *s, uint32_t n) { QAD *o = *(QAD**)self; uint32_t sz = o->f1;
  ASSERT((int32_t)pos >= 0 && pos <= sz, "QByteArray insert/replace: position outside the array (space padding) is not modelled");
  if (removed > sz - pos) removed = sz - pos;
  uint32_t total = sz - removed + n; ASSERT(total <= QB_CAP, "QByteArray capacity of the model exceeded");
  QAD *d = qbv_new(total, total); vpl_raw_tail(d, 0, o, 0, pos); vpl_raw_into_blk(d, pos, s, n); vpl_raw_tail(d, pos + n, o, pos + removed, sz - pos - removed); BD(d)[total] = 0;
  *(QAD**)self = d; qad_deref(o); return self; }
char* _ZN10QByteArray6insertEiPKci(char *self, uint32_t pos, char *p, uint32_t n) { if (!p || (int32_t)n <= 0) return self;
  VP_SAFE(VP_RAW_R_OK(p, n), "QByteArray::insert(int, const char*, int) reads inside the byte array its argument points into");
  return raw_splice(self, pos, 0, (const uint8_t*)p, n); }
char* _ZN10QByteArray6insertEiPKc(char *self, uint32_t pos, char *p) { if (!p) return self;
  VP_SAFE(VP_RAW_CSTR_OK(p), "QByteArray::insert(int, const char*) reads inside the byte array its argument points into");
  return raw_splice(self, pos, 0, (const uint8_t*)p, vpl_raw_strlen((const uint8_t*)p)); }
char* _ZN10QByteArray7prependEPKci(char *self, char *p, uint32_t n) { if (!p || (int32_t)n <= 0) return self;
  VP_SAFE(VP_RAW_R_OK(p, n), "QByteArray::prepend(const char*, int) reads inside the byte array its argument points into");
  return raw_splice(self, 0, 0, (const uint8_t*)p, n); }
char* _ZN10QByteArray7prependEPKc(char *self, char *p) { if (!p) return self;
  VP_SAFE(VP_RAW_CSTR_OK(p), "QByteArray::prepend(const char*) reads inside the byte array its argument points into");
  return raw_splice(self, 0, 0, (const uint8_t*)p, vpl_raw_strlen((const uint8_t*)p)); }
char* _ZN10QByteArray7replaceEiiPKci(char *self, uint32_t pos, uint32_t len, char *p, uint32_t n) { ASSERT(p != 0 && (int32_t)n >= 0 && (int32_t)len >= 0, "QByteArray::replace(int, int, const char*, int): null / negative arguments not modelled");
  VP_SAFE(VP_RAW_R_OK(p, n), "QByteArray::replace(int, int, const char*, int) reads inside the byte array its argument points into");
  return raw_splice(self, pos, len, (const uint8_t*)p, n); }
char* _ZN10QByteArray7replaceEiiPKc(char *self, uint32_t pos, uint32_t len, char *p) { ASSERT(p != 0 && (int32_t)len >= 0, "QByteArray::replace(int, int, const char*): null / negative arguments not modelled");
  VP_SAFE(VP_RAW_CSTR_OK(p), "QByteArray::replace(int, int, const char*) reads inside the byte array its argument points into");
  return raw_splice(self, pos, len, (const uint8_t*)p, vpl_raw_strlen((const uint8_t*)p)); }
char* _ZN7QString17fromLatin1_helperEPKci(char *p, uint32_t n) {
  if (p) { if ((int32_t)n >= 0) VP_SAFE(VP_RAW_R_OK(p, n), "QString::fromLatin1(const char*, int) reads inside the byte array its argument points into");
           else VP_SAFE(VP_RAW_CSTR_OK(p), "QString::fromLatin1(const char*) reads inside the byte array its argument points into"); }
  return vpcore_QString_fromLatin1_helper(p, n); }

/* ---- C-string helpers of qbytearray.h / libc ---- */
uint32_t qstrcmp(char *a, char *b) {
  if (a) VP_SAFE(VP_RAW_CSTR_OK(a), "qstrcmp reads inside the byte array its first argument points into");
  if (b) VP_SAFE(VP_RAW_CSTR_OK(b), "qstrcmp reads inside the byte array its second argument points into");
  return vpcore_qstrcmp(a, b); }
uint32_t _Z7qstrcmpRK10QByteArrayPKc(char *a, char *b) {
  if (b) VP_SAFE(VP_RAW_CSTR_OK(b), "qstrcmp(QByteArray, const char*) reads inside the byte array its second argument points into");
  return vpcore_qstrcmp_ba_cstr(a, b); }
static int vpl_raw_cmp(const uint8_t *a, const uint8_t *b, uint64_t n, int stop_at_nul) { for (uint64_t i = 0; i < n; i++) { if (a[i] != b[i]) return a[i] < b[i] ? -1 : 1; if (stop_at_nul && !a[i]) break; } return 0; }
/* number of bytes strncmp(a, b, n) touches in each argument: up to and including the first difference or NUL */
static uint64_t vpl_raw_cmplen(const uint8_t *a, const uint8_t *b, uint64_t n) { uint64_t i = 0; for (; i < n; i++) { if (a[i] != b[i] || !a[i]) return i + 1; } return i; }
int memcmp(const void *a, const void *b, size_t n) {
  VP_SAFE(VP_RAW_R_OK(a, n), "memcmp reads inside the byte array its first argument points into");
  VP_SAFE(VP_RAW_R_OK(b, n), "memcmp reads inside the byte array its second argument points into");
  return vpl_raw_cmp((const uint8_t*)a, (const uint8_t*)b, n, 0); }
int bcmp(const void *a, const void *b, size_t n) {
  VP_SAFE(VP_RAW_R_OK(a, n), "bcmp reads inside the byte array its first argument points into");
  VP_SAFE(VP_RAW_R_OK(b, n), "bcmp reads inside the byte array its second argument points into");
  return vpl_raw_cmp((const uint8_t*)a, (const uint8_t*)b, n, 0); }
int strncmp(const char *a, const char *b, size_t n) { uint64_t t = vpl_raw_cmplen((const uint8_t*)a, (const uint8_t*)b, n);
  VP_SAFE(VP_RAW_R_OK(a, t), "strncmp / qstrncmp reads inside the byte array its first argument points into");
  VP_SAFE(VP_RAW_R_OK(b, t), "strncmp / qstrncmp reads inside the byte array its second argument points into");
  return vpl_raw_cmp((const uint8_t*)a, (const uint8_t*)b, n, 1); }
/* destination inside a model block: stores go through the typed member (a raw store at a symbolic offset would make the block opaque) */
static void vpl_raw_copy(char *d, const uint8_t *s, uint64_t n) {
  if (n != 0 && (VP_IS_QB(d) || VP_RAW_INBLK(d))) { QAD *db = VP_RAW_BLK(d); uint32_t k = VP_RAW_IDX(d); for (uint64_t i = 0; i < n; i++) { if (k + i > QB_CAP) break; BD(db)[k + i] = s[i]; } }
  else { for (uint64_t i = 0; i < n; i++) d[i] = (char)s[i]; } }
void *memcpy(void *d, const void *s, size_t n) {
  VP_SAFE(VP_RAW_R_OK(s, n), "memcpy source holds the requested number of bytes (logical size of the byte array it points into)");
  VP_SAFE(VP_RAW_W_OK(d, n), "memcpy destination has room for the requested number of bytes (logical size of the byte array it points into)");
  vpl_raw_copy((char*)d, (const uint8_t*)s, n); return d; }
void *memmove(void *d, const void *s, size_t n) { uint8_t tmp[260];
  VP_SAFE(VP_RAW_R_OK(s, n), "memmove source holds the requested number of bytes (logical size of the byte array it points into)");
  VP_SAFE(VP_RAW_W_OK(d, n), "memmove destination has room for the requested number of bytes (logical size of the byte array it points into)");
  ASSERT(n <= 260, "memmove model: n <= 260"); vpl_raw_copy((char*)tmp, (const uint8_t*)s, n); vpl_raw_copy((char*)d, tmp, n); return d; }
/* qstrncpy(dst, src, len): copies at most len - 1 bytes of the NUL-terminated src and always terminates dst */
char* _Z8qstrncpyPcPKcj(char *d, char *s, uint32_t len) { if (!s || !d) return 0; if (len == 0) return d;
  uint32_t r = 0; for (; r < QB_CAP; r++) { if (r >= len - 1) break; if (!s[r]) break; }
  VP_SAFE(VP_RAW_R_OK(s, r < len - 1 ? r + 1 : r), "qstrncpy reads inside the byte array its source points into");
  VP_SAFE(VP_RAW_W_OK(d, len), "qstrncpy destination has room for len bytes");
  vpl_raw_copy(d, (const uint8_t*)s, r); { uint8_t z = 0; vpl_raw_copy(d + r, &z, 1); } return d; }
char* _Z7qstrcpyPcPKc(char *d, char *s) { if (!s) return 0; uint32_t r = vpl_raw_strlen((const uint8_t*)s);
  VP_SAFE(VP_RAW_R_OK(s, (uint64_t)r + 1), "qstrcpy reads inside the byte array its source points into");
  VP_SAFE(VP_RAW_W_OK(d, (uint64_t)r + 1), "qstrcpy destination has room for the string and its terminator");
  vpl_raw_copy(d, (const uint8_t*)s, r); { uint8_t z = 0; vpl_raw_copy(d + r, &z, 1); } return d; }

/* ---- a datagram whose C OBJECT is its logical extent (size + the terminating NUL) ----
   Dereferences that TRANSLATED code performs directly through constData()/data() pointers (p[i], at(), constant-size memcpy expanded
   inline) are instrumented by cbmc, but only against the C object: an ordinary model block owns QB_CAP + 1 bytes.  This block is
   allocated with exactly QB_OFF + len + 1 bytes, so that cbmc's pointer check in the translated code IS the logical bounds check, and
   the models' checks go through __CPROVER_r_ok / w_ok of the same object.  Native replay: the block ends at a PROT_NONE page; a fault
   inside that page is reported as the property failure (exit 77), any other fault keeps its default action. */
#ifndef __CPROVER__
#include <sys/mman.h>
#include <signal.h>
#include <unistd.h>
static char *vp_guard_lo, *vp_guard_hi;
static void vp_guard_segv(int sig, siginfo_t *si, void *ctx) { char *a = (char*)si->si_addr;
  if (vp_guard_lo && a >= vp_guard_lo && a < vp_guard_hi) { static const char m[] = "PROP-FAIL: C14 safety: access behind the end of the datagram (guard page)\n"; if (write(2, m, sizeof m - 1)) { } _exit(77); }
  signal(sig, SIG_DFL); raise(sig); }
static char *vp_guard_alloc(size_t n) { size_t pg = 4096, tot = ((n + pg - 1) / pg + 1) * pg;
  char *m = mmap(0, tot, PROT_READ | PROT_WRITE, MAP_PRIVATE | MAP_ANONYMOUS, -1, 0); if (m == MAP_FAILED) return malloc(n);
  mprotect(m + tot - pg, pg, PROT_NONE); vp_guard_lo = m + tot - pg; vp_guard_hi = m + tot;
  struct sigaction sa; memset(&sa, 0, sizeof sa); sa.sa_sigaction = vp_guard_segv; sa.sa_flags = SA_SIGINFO; sigaction(SIGSEGV, &sa, 0); sigaction(SIGBUS, &sa, 0);
  return m + tot - pg - n; }
#endif
void vp_fresh_bytes_tight(char *out, uint32_t len) { ASSERT(len <= QB_CAP, "vp_fresh_bytes_tight bound");
#ifdef __CPROVER__
  struct qb *s = malloc(QB_OFF + len + 1);
#else
  struct qb *s = (struct qb*)vp_guard_alloc(QB_OFF + len + 1);
#endif
  ASSUME(s != 0); REF(&s->h) = 1; s->h.f1 = len; s->h.f2 = QB_CAP + 1; s->h.f3 = QB_OFF; s->hint = len; s->isnum = 0; s->neg = 0; s->mag = 0; s->b64 = 0;
  for (uint32_t i = 0; i < QB_CAP; i++) { if (i >= len) break; s->data[i] = vp_u8(); } s->data[len] = 0; VP_REG_BLK(s, 1); *(QAD**)out = &s->h; }

/* ---- hash oracle (only where hash_models.c is part of the program: C14 utils) ---- */
#ifdef HB_CAP
static void vpl_h_add_raw(struct vhash *h, const uint8_t *p, uint32_t n) { ASSERT(h->len + n <= HB_CAP, "hash oracle input capacity"); uint32_t off = h->len;
  for (uint32_t i = 0; i < HB_CAP; i++) { if (i >= n) break; h->buf[off + i] = p[i]; } h->len = off + n; }
void _ZN18QCryptographicHash7addDataEPKci(char *self, char *p, uint32_t n) { if ((int32_t)n <= 0) return;
  VP_SAFE(VP_RAW_R_OK(p, n), "QCryptographicHash::addData(const char*, int) reads inside the byte array its argument points into");
  vpl_h_add_raw(VH(self), (const uint8_t*)p, n); }
/* QMessageAuthenticationCode = RFC 2104 over the same uninterpreted hash (vp_hmac_rfc2104 of hash_models.c); text accumulated in a block */
struct vmac { uint32_t alg; QAD *key; struct vhash text; };
#define VM(self) (*(struct vmac**)(self))
void _ZN26QMessageAuthenticationCodeC1EN18QCryptographicHash9AlgorithmERK10QByteArray(char *self, uint32_t alg, char *key) { struct vmac *m = malloc(sizeof(struct vmac)); ASSUME(m != 0);
  m->alg = alg; m->key = qad_ref(*(QAD**)key); m->text.alg = alg; m->text.len = 0; for (uint32_t i = 0; i < HB_CAP; i++) m->text.buf[i] = 0; VM(self) = m; }
void _ZN26QMessageAuthenticationCodeD1Ev(char *self) { }
void _ZN26QMessageAuthenticationCode5resetEv(char *self) { struct vmac *m = VM(self); m->text.len = 0; for (uint32_t i = 0; i < HB_CAP; i++) m->text.buf[i] = 0; }
void _ZN26QMessageAuthenticationCode6setKeyERK10QByteArray(char *self, char *key) { _ZN26QMessageAuthenticationCode5resetEv(self); VM(self)->key = qad_ref(*(QAD**)key); }
void _ZN26QMessageAuthenticationCode7addDataERK10QByteArray(char *self, char *ba) { vpl_h_add(&VM(self)->text, *(QAD**)ba); }
void _ZN26QMessageAuthenticationCode7addDataEPKci(char *self, char *p, uint32_t n) { if ((int32_t)n <= 0) return;
  VP_SAFE(VP_RAW_R_OK(p, n), "QMessageAuthenticationCode::addData(const char*, int) reads inside the byte array its argument points into");
  vpl_h_add_raw(&VM(self)->text, (const uint8_t*)p, n); }
static void mac_result(char *ret, uint32_t alg, QAD *key, const struct vhash *text) { ASSERT(text->len <= QB_CAP, "QMessageAuthenticationCode model: message above the byte-array capacity");
  QAD *t = qbv_new(text->len, text->len); for (uint32_t i = 0; i < QB_CAP; i++) { if (i >= text->len) break; BD(t)[i] = text->buf[i]; }
  char *kp = (char*)&key, *tp = (char*)&t; vp_hmac_rfc2104(ret, alg, kp, tp); }
void _ZNK26QMessageAuthenticationCode6resultEv(char *ret, char *self) { struct vmac *m = VM(self); mac_result(ret, m->alg, m->key, &m->text); }
void _ZN26QMessageAuthenticationCode4hashERK10QByteArrayS2_N18QCryptographicHash9AlgorithmE(char *ret, char *msg, char *key, uint32_t alg) { vp_hmac_rfc2104(ret, alg, key, msg); }
#endif
#endif
