// C14 (and the C15 kernels that live in the STUN code): harnesses over the REAL QXmppStunMessage::{encode,decode,peekType}
// and the file-static helpers of QXmppStun.cpp (the .cpp is included so that they are reachable).
// Layout decisions (which attributes, string lengths, key length, fingerprint) are per-instance constants (vp_cfg*, set by
// cdefs in spec.py); all VALUES are symbolic.  HMAC-SHA1 and CRC-32 are cut at QXmppUtils::generateHmacSha1/generateCrc32
// (uninterpreted but functionally consistent oracles, see stun_models.c); the harness calls the same oracles for the
// expected values.  The functions behind the cut are checked in h_utils.cpp.
#include "QXmppStun_p.h"
#include "QXmppUtils.h"
#include "StringLiterals.h"
#include <QCryptographicHash>
#include <QDataStream>
#include <QHostInfo>
#include <QNetworkInterface>
#include <QTimer>
#include <QUdpSocket>
#include <QVariant>
#include <sstream>
#define private public      /* only for CandidatePair (defined in the .cpp): all headers are already included above */
#include "base/QXmppStun.cpp"
#undef private
#include "vp_harness.h"
extern "C" {
unsigned vp_cfg0(); unsigned vp_cfg1(); unsigned vp_cfg2(); unsigned vp_cfg3();
void vp_fresh_bytes(QByteArray *out, unsigned minlen, unsigned maxlen);
void vp_fresh_text(QString *out, unsigned len);            // exactly len units of the instance's shape (cdef VP_U8PAT; default: ASCII 0x01..0x7f)
unsigned vp_text_bytes(unsigned len);                      // UTF-8 byte length of such a string (a constant of the instance)
void vp_set_byte(QByteArray *ba, unsigned i, unsigned char v);
unsigned char vp_byte_at(const QByteArray *ba, unsigned i);
bool vp_bytes_same(const QByteArray *a, const QByteArray *b);
void vp_sym_addr4(QHostAddress *a); void vp_sym_addr6(QHostAddress *a);
extern unsigned vp_hmac_calls, vp_crc_calls;
void vp_cand_set(QXmppJingleCandidate *c, int type, int component, int priority);
void vp_fake_transport(void *storage, const QXmppJingleCandidate *local);
}
// keeps encode() (and with it the by-value return type of QHostAddress::toIPv6Address that stun_models.c names) in the translated program of
// every entry, whatever subset of instances is selected; vp_never() is the constant 0, symex never enters the branch
extern "C" unsigned vp_never();
static void keepEncode() { if (vp_never()) { QXmppStunMessage m; m.encode(QByteArray(), false); } }
static QByteArray freshBytes(unsigned minlen, unsigned maxlen) { QByteArray b; vp_fresh_bytes(&b, minlen, maxlen); return b; }
static QString freshText(unsigned len) { QString s; vp_fresh_text(&s, len); return s; }
static unsigned u8(const QByteArray &b, unsigned i) { return vp_byte_at(&b, i); }
static unsigned be16(const QByteArray &b, unsigned i) { return (u8(b, i) << 8) | u8(b, i + 1); }
static unsigned be32(const QByteArray &b, unsigned i) { return (be16(b, i) << 16) | be16(b, i + 2); }
static void put16(QByteArray &b, unsigned i, unsigned v) { vp_set_byte(&b, i, (v >> 8) & 0xff); vp_set_byte(&b, i + 1, v & 0xff); }
// the protected prefix of RFC 5389 section 15.4/15.5: first n bytes with the header length field set to `len`
static QByteArray patchedPrefix(const QByteArray &b, unsigned n, unsigned len) { QByteArray c = b.left(n); c.detach(); put16(c, 2, len); return c; }
static bool sameBytesAt(const QByteArray &b, unsigned off, const QByteArray &v) { bool same = true; for (int i = 0; i < v.size(); i++) same = same && (u8(b, off + i) == u8(v, i)); return same; }

enum { G_INTS = 1, G_ADDR4 = 2, G_ADDR4X = 3, G_ADDR6 = 4, G_ADDR6X = 5, G_STR = 6, G_BYTES = 7, G_ERR = 8, G_ICED = 9, G_EMPTY = 10, G_ADDR6B = 11 };

// ---------------------------------------------------------------------------------------------------------------------------
// (3) round trip: build through the public setters/fields, encode, check framing + RFC values of MESSAGE-INTEGRITY/FINGERPRINT,
//     decode under the same key, compare every getter.
extern "C" void h_rt()
{
    keepEncode();
    const unsigned grp = vp_cfg0(), keylen = vp_cfg1(), fp = vp_cfg2(), len = vp_cfg3();
    QByteArray key = freshBytes(keylen, keylen);
    QXmppStunMessage m;
    m.setType(vp_u16()); m.setCookie(vp_u32()); m.setId(freshBytes(12, 12));
    QHostAddress a[4]; QString s[3]; QByteArray d[4];
    if (grp == G_INTS) {
        m.setChangeRequest(vp_u32()); m.setPriority(vp_u32()); m.setChannelNumber(vp_u16());
        m.setLifetime(vp_u32()); m.setRequestedTransport(vp_u8());
        // useCandidate false -> attribute absent: keep the layout concrete by fixing it per instance instead
        m.useCandidate = (len != 0);
    } else if (grp == G_ADDR4) {      // ports are fixed non-zero constants here (port == 0 means "absent" to encode and would fork the
        for (auto &x : a) vp_sym_addr4(&x);   // layout); symbolic ports are covered by h_enc_addr / h_dec_addr
        m.mappedHost = a[0]; m.mappedPort = 0x1234; m.sourceHost = a[1]; m.sourcePort = 0x0001; m.changedHost = a[2]; m.changedPort = 0xffff; m.otherHost = a[3]; m.otherPort = 0x2112;
    } else if (grp == G_ADDR4X) {
        for (auto &x : a) vp_sym_addr4(&x);
        m.xorMappedHost = a[0]; m.xorMappedPort = 0x2112; m.xorPeerHost = a[1]; m.xorPeerPort = 0x0001; m.xorRelayedHost = a[2]; m.xorRelayedPort = 0xfffe;
    } else if (grp == G_ADDR6) {
        vp_sym_addr6(&a[0]); vp_sym_addr6(&a[1]);
        m.mappedHost = a[0]; m.mappedPort = 0x1234; m.otherHost = a[1]; m.otherPort = 0x8000;
    } else if (grp == G_ADDR6B) {
        vp_sym_addr6(&a[0]); vp_sym_addr6(&a[1]);
        m.sourceHost = a[0]; m.sourcePort = 0x1234; m.changedHost = a[1]; m.changedPort = 0x8000;
    } else if (grp == G_ADDR6X) {
        vp_sym_addr6(&a[0]); vp_sym_addr6(&a[1]);
        m.xorMappedHost = a[0]; m.xorMappedPort = 0x2113; m.xorPeerHost = a[1]; m.xorPeerPort = 0x0100;
        if (len) { vp_sym_addr6(&a[2]); m.xorRelayedHost = a[2]; m.xorRelayedPort = 0x7fff; }
    } else if (grp == G_STR) {
        for (auto &x : s) x = freshText(len);
        m.setRealm(s[0]); m.setSoftware(s[1]); m.setUsername(s[2]);
    } else if (grp == G_BYTES) {
        d[0] = freshBytes(len, len); d[1] = freshBytes(len, len); d[2] = freshBytes(8, 8); d[3] = freshBytes(8, 8);
        m.setData(d[0]); m.setNonce(d[1]); m.setReservationToken(d[2]); m.iceControlling = d[3];
    } else if (grp == G_ICED) {
        d[3] = freshBytes(8, 8); m.iceControlled = d[3];
    } else if (grp == G_ERR) {
        // the code is a per-instance constant (errorCode == 0 means "absent" to encode and would fork the layout);
        // symbolic codes are covered by h_enc_err / h_dec_err
        static const int codes[] = { 300, 401, 438, 487, 500, 699, 420, 403, 599 };
        m.errorCode = codes[len]; s[0] = freshText(len); m.errorPhrase = s[0];
    }
    const QByteArray e = m.encode(key, fp != 0);

    // framing
    const unsigned n = e.size();
    vp_assert(n >= 20 && n % 4 == 0, "C14 encoded size is a multiple of 4");
    vp_assert(be16(e, 2) == n - 20, "C14 header length field = body length");
    vp_assert(be16(e, 0) == m.type() && be32(e, 4) == m.cookie() && sameBytesAt(e, 8, m.id()), "C14 header carries type, cookie, id");
    if (grp == G_STR) {      // every attribute starts on a 32-bit boundary: REALM, SOFTWARE, USERNAME at the offsets the UTF-8 BYTE length implies
        const unsigned bytes = vp_text_bytes(len), step = 4 + ((bytes + 3) & ~3u);
        vp_assert(n >= 20 + 3 * step, "C14 string attributes are padded to 32 bits (UTF-8 byte length)");
        if (n < 20 + 3 * step) return;
        vp_assert(be16(e, 20) == 0x0014 && be16(e, 22) == bytes, "C14 REALM: type and UTF-8 length at offset 20");
        vp_assert(be16(e, 20 + step) == 0x8022 && be16(e, 22 + step) == bytes, "C14 SOFTWARE starts on the 32-bit boundary after REALM");
        vp_assert(be16(e, 20 + 2 * step) == 0x0006 && be16(e, 22 + 2 * step) == bytes, "C14 USERNAME starts on the 32-bit boundary after SOFTWARE");
    }
    if (n % 4 != 0 || be16(e, 2) != n - 20) return;      // already reported above; decoding a mis-framed message is not the round-trip claim
    // RFC 5389 values of MESSAGE-INTEGRITY / FINGERPRINT (positions are concrete: they are the last attributes)
    unsigned end = n;
    if (fp) {
        end = n - 8;
        vp_assert(be16(e, end) == 0x8028 && be16(e, end + 2) == 4, "C14 FINGERPRINT is the last attribute");
        const quint32 crc = QXmppUtils::generateCrc32(patchedPrefix(e, end, end - 20 + 8));
        vp_assert(be32(e, end + 4) == (crc ^ 0x5354554eu), "C14 FINGERPRINT = CRC-32(message up to FINGERPRINT, length adjusted) xor 0x5354554e");
    }
    if (keylen) {
        const unsigned mi = end - 24;
        vp_assert(be16(e, mi) == 0x0008 && be16(e, mi + 2) == 20, "C14 MESSAGE-INTEGRITY precedes FINGERPRINT / ends the message");
        const QByteArray h = QXmppUtils::generateHmacSha1(key, patchedPrefix(e, mi, mi - 20 + 24));
        vp_assert(sameBytesAt(e, mi + 4, h), "C14 MESSAGE-INTEGRITY = HMAC-SHA1(key, message up to the attribute, length adjusted)");
    }

    QXmppStunMessage r;
    const bool ok = r.decode(e, key, nullptr);
    vp_assert(ok, "C14 round trip: own encoding is accepted under the same key");
    if (!ok) return;
    vp_assert(r.type() == m.type() && r.cookie() == m.cookie() && r.id() == m.id(), "C14 round trip: type, cookie, id");
    if (grp == G_INTS) {
        vp_assert(r.changeRequest() == m.changeRequest(), "C14 round trip: CHANGE-REQUEST");
        vp_assert(r.priority() == m.priority(), "C14 round trip: PRIORITY");
        vp_assert(r.useCandidate == m.useCandidate, "C14 round trip: USE-CANDIDATE");
        vp_assert(r.channelNumber() == m.channelNumber(), "C14 round trip: CHANNEL-NUMBER");
        vp_assert(r.lifetime() == m.lifetime(), "C14 round trip: LIFETIME");
        vp_assert(r.requestedTransport() == m.requestedTransport(), "C14 round trip: REQUESTED-TRANSPORT");
    } else if (grp == G_ADDR4 || grp == G_ADDR6 || grp == G_ADDR6B) {
        vp_assert(r.mappedHost == m.mappedHost && r.mappedPort == m.mappedPort, "C14 round trip: MAPPED-ADDRESS");
        vp_assert(r.sourceHost == m.sourceHost && r.sourcePort == m.sourcePort, "C14 round trip: SOURCE-ADDRESS");
        vp_assert(r.changedHost == m.changedHost && r.changedPort == m.changedPort, "C14 round trip: CHANGED-ADDRESS");
        vp_assert(r.otherHost == m.otherHost && r.otherPort == m.otherPort, "C14 round trip: OTHER-ADDRESS");
    } else if (grp == G_ADDR4X || grp == G_ADDR6X) {
        vp_assert(r.xorMappedHost == m.xorMappedHost && r.xorMappedPort == m.xorMappedPort, "C14 round trip: XOR-MAPPED-ADDRESS");
        vp_assert(r.xorPeerHost == m.xorPeerHost && r.xorPeerPort == m.xorPeerPort, "C14 round trip: XOR-PEER-ADDRESS");
        vp_assert(r.xorRelayedHost == m.xorRelayedHost && r.xorRelayedPort == m.xorRelayedPort, "C14 round trip: XOR-RELAYED-ADDRESS");
    } else if (grp == G_STR) {
        vp_assert(r.realm() == m.realm(), "C14 round trip: REALM");
        vp_assert(r.software() == m.software(), "C14 round trip: SOFTWARE");
        vp_assert(r.username() == m.username(), "C14 round trip: USERNAME");
    } else if (grp == G_BYTES) {
        vp_assert(r.data() == m.data(), "C14 round trip: DATA");
        vp_assert(r.nonce() == m.nonce(), "C14 round trip: NONCE");
        vp_assert(r.reservationToken() == m.reservationToken(), "C14 round trip: RESERVATION-TOKEN");
        vp_assert(r.iceControlling == m.iceControlling && r.iceControlled.isEmpty(), "C14 round trip: ICE-CONTROLLING");
    } else if (grp == G_ICED) {
        vp_assert(r.iceControlled == m.iceControlled && r.iceControlling.isEmpty(), "C14 round trip: ICE-CONTROLLED");
    } else if (grp == G_ERR) {
        vp_assert(r.errorCode == m.errorCode, "C14 round trip: ERROR-CODE number");
        vp_assert(r.errorPhrase == m.errorPhrase, "C14 round trip: ERROR-CODE reason phrase");
    }
}

// ---------------------------------------------------------------------------------------------------------------------------
// symbolic ports (0 excluded): encode half and decode half against the RFC 5389 15.1/15.2 wire layout, IPv4.
// cfg0: 0 = MAPPED-ADDRESS (plain), 1 = XOR-MAPPED-ADDRESS
extern "C" void h_enc_addr()
{
    keepEncode();
    const bool x = vp_cfg0() != 0;
    QXmppStunMessage m; m.setId(freshBytes(12, 12));
    QHostAddress a; vp_sym_addr4(&a); const quint16 port = vp_u16(); const quint32 ip = a.toIPv4Address();
    if (x) { m.xorMappedHost = a; m.xorMappedPort = port; } else { m.mappedHost = a; m.mappedPort = port; }
    const QByteArray e = m.encode(QByteArray(), false);
    if (port == 0) { vp_assert(e.size() == 20, "C14 address with port 0 is not encoded"); return; }
    vp_assert(e.size() == 32 && be16(e, 2) == 12, "C14 IPv4 address attribute: 12 bytes");
    vp_assert(be16(e, 20) == (x ? 0x0020u : 0x0001u) && be16(e, 22) == 8 && u8(e, 24) == 0 && u8(e, 25) == 1, "C14 address attribute header: type, length 8, reserved 0, family 1");
    vp_assert(be16(e, 26) == (x ? (port ^ 0x2112u) : port), "C14 (X-)Port on the wire");
    vp_assert(be32(e, 28) == (x ? (ip ^ 0x2112A442u) : ip), "C14 (X-)Address on the wire");
}
extern "C" void h_dec_addr()
{
    keepEncode();
    const bool x = vp_cfg0() != 0;
    QByteArray b = freshBytes(32, 32);
    put16(b, 2, 12); put16(b, 20, x ? 0x0020 : 0x0001); put16(b, 22, 8); vp_set_byte(&b, 25, 1);     // reserved byte 24 stays arbitrary
    QXmppStunMessage r;
    const bool ok = r.decode(b, QByteArray(), nullptr);
    vp_assert(ok, "C14 well-formed IPv4 address attribute is accepted");
    if (!ok) return;
    const QHostAddress &h = x ? r.xorMappedHost : r.mappedHost; const quint16 p = x ? r.xorMappedPort : r.mappedPort;
    vp_assert(p == (x ? (be16(b, 26) ^ 0x2112u) : be16(b, 26)), "C14 decoded port = (X-)Port");
    vp_assert(h.protocol() == QAbstractSocket::IPv4Protocol && h.toIPv4Address() == (x ? (be32(b, 28) ^ 0x2112A442u) : be32(b, 28)), "C14 decoded address = (X-)Address");
}

// ERROR-CODE with a symbolic code: encode half (class 3..6, number 0..99: RFC 5389 15.6) and decode half (any class/number byte)
extern "C" void h_enc_err()
{
    keepEncode();
    QXmppStunMessage m;
    const unsigned cls = vp_u8(), num = vp_u8(); vp_assume(cls >= 3 && cls <= 6 && num <= 99);
    m.errorCode = int(cls * 100 + num);
    const QByteArray e = m.encode(QByteArray(), false);
    vp_assert(e.size() == 28 && be16(e, 2) == 8, "C14 ERROR-CODE with empty reason: 8 bytes");
    vp_assert(be16(e, 20) == 0x0009 && be16(e, 22) == 4 && be16(e, 24) == 0, "C14 ERROR-CODE header: type 9, length 4, reserved 0");
    vp_assert(u8(e, 26) == cls && u8(e, 27) == num, "C14 ERROR-CODE class = code / 100, number = code % 100");
}
extern "C" void h_dec_err()
{
    keepEncode();
    const unsigned len = vp_cfg0(), padded = (len + 3) & ~3u, n = 20 + 8 + padded;
    QByteArray b = freshBytes(n, n);
    put16(b, 2, n - 20); put16(b, 20, 0x0009); put16(b, 22, 4 + len);
    for (unsigned i = 0; i < len; i++) vp_assume(u8(b, 28 + i) >= 1 && u8(b, 28 + i) < 0x80);
    QXmppStunMessage r;
    const bool ok = r.decode(b, QByteArray(), nullptr);
    vp_assert(ok, "C14 well-formed ERROR-CODE attribute is accepted");
    if (!ok) return;
    vp_assert(r.errorCode == int(u8(b, 26) * 100 + u8(b, 27)), "C14 decoded error code = class * 100 + number");
    bool same = unsigned(r.errorPhrase.size()) == len;
    for (unsigned i = 0; i < len; i++) same = same && i < unsigned(r.errorPhrase.size()) && r.errorPhrase.at(i).unicode() == u8(b, 28 + i);
    vp_assert(same, "C14 decoded reason phrase = the bytes after the 4-byte code");
}

// ---------------------------------------------------------------------------------------------------------------------------
// (4) integrity / fingerprint acceptance on buffers with a fixed attribute layout; header, attribute LENGTH fields of the
//     last attribute and all payload bytes are symbolic; key non-empty (1..2 symbolic bytes).
// cfg0 = variant, cfg1 = key length bound (0: empty key), cfg2 = 1: also assert C15 (i), cfg3 = 1: symbolic length field in the last attribute
enum { V_MI = 1, V_MI_FP = 2, V_PRIO_MI = 3, V_USER_MI = 4, V_XADDR_MI = 5, V_UNK_MI = 6, V_MI_PRIO = 7, V_FP = 8, V_MI_MI = 9 };
extern "C" void h_dec_mi()
{
    keepEncode();
    const unsigned var = vp_cfg0(), kmax = vp_cfg1();
    QByteArray key = kmax ? freshBytes(1, kmax) : QByteArray();
    unsigned pre = 0, ptype = 0, plen = 0;          // a first attribute in front of MESSAGE-INTEGRITY
    if (var == V_PRIO_MI) { ptype = 0x0024; plen = 4; } else if (var == V_USER_MI) { ptype = 0x0006; plen = 4; }
    else if (var == V_XADDR_MI) { ptype = 0x0020; plen = 8; } else if (var == V_UNK_MI) { ptype = 0x7777; plen = 4; }
    if (ptype) pre = 4 + plen;
    const bool hasMi = var != V_FP;
    unsigned post = 0;                              // an attribute behind MESSAGE-INTEGRITY
    if (var == V_MI_FP || var == V_MI_PRIO) post = 8; else if (var == V_MI_MI) post = 24; else if (var == V_FP) post = 8;
    const unsigned mi = 20 + pre, n = mi + (hasMi ? 24 : 0) + post;
    QByteArray b = freshBytes(n, n);
    put16(b, 2, n - 20);
    if (ptype) { put16(b, 20, ptype); put16(b, 22, plen); if (var == V_XADDR_MI) { vp_set_byte(&b, 25, 1); } }
    // cfg3 = 1: the LAST attribute keeps a symbolic length field (a symbolic length in front of further attributes would make every later
    // position symbolic; that case is what the arbitrary-buffer instances h_dec_any cover); cfg3 = 0: all length fields are the valid constants
    const bool symLen = vp_cfg3() != 0;
    const unsigned p2 = mi + (hasMi ? 24 : 0);
    if (hasMi) { put16(b, mi, 0x0008); if (post || !symLen) put16(b, mi + 2, 20); }
    if (var == V_MI_FP || var == V_FP) { put16(b, p2, 0x8028); if (!symLen) put16(b, p2 + 2, 4); }
    if (var == V_MI_PRIO) { put16(b, p2, 0x0024); put16(b, p2 + 2, 4); }
    if (var == V_MI_MI) { put16(b, p2, 0x0008); put16(b, p2 + 2, 20); }

    QXmppStunMessage r;
    const bool ok = r.decode(b, key, nullptr);
    const unsigned verifiedInDecode = vp_hmac_calls;      // HMACs computed (and compared) by decode itself

    bool expect = true;
    if (hasMi) {
        const bool lenOk = be16(b, mi + 2) == 20;
        bool macOk = true;
        if (!key.isEmpty()) macOk = sameBytesAt(b, mi + 4, QXmppUtils::generateHmacSha1(key, patchedPrefix(b, mi, mi - 20 + 24)));
        expect = lenOk && macOk;
    }
    if (var == V_MI_FP || var == V_FP) {
        const bool lenOk = be16(b, p2 + 2) == 4;
        const bool crcOk = be32(b, p2 + 4) == (QXmppUtils::generateCrc32(patchedPrefix(b, p2, p2 - 20 + 8)) ^ 0x5354554eu);
        expect = expect && lenOk && crcOk;
    }
    if (!hasMi && !key.isEmpty()) {
        // no MESSAGE-INTEGRITY at all: C14 only demands that nothing with a wrong FINGERPRINT is accepted (whether such a message
        // may be accepted under a key at all is C15's decode-implies-authenticated, instance auth_fp)
        vp_assert(!ok || expect, "C14 a FINGERPRINT is accepted only if its length is 4 and it is the CRC of the adjusted prefix");
    } else if (hasMi && !key.isEmpty()) {
        vp_assert(!ok || expect, "C14 a message carrying MESSAGE-INTEGRITY is accepted under a key only if length is 20 and the HMAC over the adjusted prefix matches (and a FINGERPRINT, if present, is the CRC)");
        vp_assert(ok || !expect, "C14 a message whose MESSAGE-INTEGRITY (and FINGERPRINT) verify is accepted");
    } else {
        vp_assert(ok == expect, "C14 FINGERPRINT / MESSAGE-INTEGRITY acceptance without a key");
    }
#if defined(KF_stun_no_integrity) && !defined(VP_DEMONSTRATE_KF)
    if (verifiedInDecode == 0) return;
#endif
    if (vp_cfg2()) vp_assert(!ok || key.isEmpty() || verifiedInDecode >= 1, "C15 decode under a non-empty key returns true only if a MESSAGE-INTEGRITY attribute was verified");
    if (ok) {
        if (var == V_PRIO_MI) vp_assert(r.priority() == be32(b, 24), "C14 attribute in front of MESSAGE-INTEGRITY is decoded");
        if (var == V_MI_PRIO) vp_assert(r.priority() == 0, "C14 an attribute after MESSAGE-INTEGRITY other than FINGERPRINT is ignored");
        if (var == V_MI_MI && !key.isEmpty()) vp_assert(verifiedInDecode == 1, "C14 a second MESSAGE-INTEGRITY after the first is ignored, not verified");
    }
}

// length validation of the fixed-size attributes: one attribute of type cfg0 with a SYMBOLIC length field, exactly as many payload
// bytes as the type requires; no key.  decode accepts iff the length field is the required one.
extern "C" void h_dec_len()
{
    keepEncode();
    static const struct { unsigned type, req; } tab[] = { { 0x0024, 4 }, { 0x802a, 8 }, { 0x8029, 8 }, { 0x0025, 0 }, { 0x000c, 4 }, { 0x000d, 4 }, { 0x0019, 4 }, { 0x0022, 8 }, { 0x0003, 4 } };
    const unsigned type = tab[vp_cfg0()].type, req = tab[vp_cfg0()].req, n = 24 + req;
    QByteArray b = freshBytes(n, n);
    put16(b, 2, n - 20); put16(b, 20, type);
    QXmppStunMessage r;
    const bool ok = r.decode(b, QByteArray(), nullptr);
    vp_assert(ok == (be16(b, 22) == req), "C14 a fixed-size attribute is accepted iff its length field is the size the attribute has");
    if (ok && type == 0x0024) vp_assert(r.priority() == be32(b, 24), "C14 PRIORITY value");
    if (ok && type == 0x802a) vp_assert(sameBytesAt(b, 24, r.iceControlling), "C14 ICE-CONTROLLING value");
    if (ok && type == 0x000d) vp_assert(r.lifetime() == be32(b, 24), "C14 LIFETIME value");
    if (ok && type == 0x000c) vp_assert(r.channelNumber() == be16(b, 24), "C14 CHANNEL-NUMBER value");
    if (ok && type == 0x0025) vp_assert(r.useCandidate, "C14 USE-CANDIDATE flag");
}

// ---------------------------------------------------------------------------------------------------------------------------
// (5) safety on arbitrary bytes, and C15 (i) decode-implies-authenticated.
// cfg0 = buffer size N (header length field is the valid value N-20: everything else arbitrary), cfg1 = key length bound.
// Safety = cbmc's pointer/bounds checks in the translated code + the readRawData destination contract in the stream model +
// unwinding assertion of the attribute loop (done strictly increases: at most (N-20)/4 iterations).
static bool decodeAny(bool c15)
{
    const unsigned n = vp_cfg0(), kmax = vp_cfg1();
    QByteArray b = freshBytes(n, n);
    put16(b, 2, n - 20);
    QByteArray key = kmax ? freshBytes(1, kmax) : QByteArray();
    QXmppStunMessage r;
    const bool ok = r.decode(b, key, nullptr);
#if defined(KF_stun_no_integrity) && !defined(VP_DEMONSTRATE_KF)
    if (vp_hmac_calls == 0) return ok;      // known finding stun_no_integrity: messages without any MESSAGE-INTEGRITY are accepted under a key
#endif
    if (c15) vp_assert(!ok || key.isEmpty() || vp_hmac_calls > 0, "C15 decode under a non-empty key returns true only if a MESSAGE-INTEGRITY attribute was verified");
    return ok;
}
extern "C" void h_dec_any() { keepEncode(); decodeAny(false); }
extern "C" void h_auth_any() { keepEncode(); decodeAny(true); }
// truncated packets and packets whose length field does not match: rejected, nothing else is read
extern "C" void h_dec_short()
{
    keepEncode();
    for (unsigned n = 0; n < 20; n++) {          // every size below the header size; the size is a constant in each round
        QByteArray b = freshBytes(n, n); QByteArray key = freshBytes(0, 1);
        QXmppStunMessage r;
        vp_assert(!r.decode(b, key, nullptr), "C14 a packet shorter than the STUN header is rejected");
        quint32 cookie = 7; QByteArray id;
        vp_assert(QXmppStunMessage::peekType(b, cookie, id) == 0, "C14 peekType: a packet shorter than the STUN header is not STUN");
    }
}
extern "C" void h_dec_badlen()
{
    keepEncode();
    const unsigned n = vp_cfg0();                // 28: header + one well-formed PRIORITY attribute
    QByteArray b = freshBytes(n, n); QByteArray key = freshBytes(0, 1);
    put16(b, 20, 0x0024); put16(b, 22, 4);
    vp_assume(be16(b, 2) != n - 20);
    QXmppStunMessage r;
    vp_assert(!r.decode(b, key, nullptr), "C14 a packet whose length field differs from the datagram size is rejected");
    quint32 cookie = 7; QByteArray id;
    vp_assert(QXmppStunMessage::peekType(b, cookie, id) == 0, "C14 peekType: wrong length field is not STUN");
}
extern "C" void h_peek()
{
    keepEncode();
    const unsigned n = vp_cfg0();
    QByteArray b = freshBytes(n, n); put16(b, 2, n - 20);
    quint32 cookie = 7; QByteArray id;
    const quint16 t = QXmppStunMessage::peekType(b, cookie, id);
    vp_assert(t == be16(b, 0) && cookie == be32(b, 4), "C14 peekType returns the type and cookie of the header");
    vp_assert(id.size() == 12 && sameBytesAt(b, 8, id), "C14 peekType returns the transaction id");
}

// ---------------------------------------------------------------------------------------------------------------------------
// C15 (ii): priority formulas of RFC 5245 4.1.2.1 and 5.7.2
extern "C" void h_prio_cand()
{
    keepEncode();
    QXmppJingleCandidate c; const int type = vp_int(), comp = vp_int(), localPref = vp_int();
    vp_assume(type >= 0 && type <= 3);                       // QXmppJingleCandidate::Type
    vp_assume(comp >= 1 && comp <= 256);                     // RFC 5245: component ID 1..256
    vp_assume(localPref >= 0 && localPref <= 65535);
    vp_cand_set(&c, type, comp, 0);
    const quint32 p = candidatePriority(c, localPref);
    const quint64 typePref = type == QXmppJingleCandidate::HostType ? 126 : type == QXmppJingleCandidate::PeerReflexiveType ? 110 : type == QXmppJingleCandidate::ServerReflexiveType ? 100 : 0;
    const quint64 expected = (quint64(1) << 24) * typePref + (quint64(1) << 8) * quint64(localPref) + quint64(256 - comp);
    vp_assert(quint64(p) == expected, "C15 candidate priority = 2^24*typePref + 2^8*localPref + (256 - component), no overflow");
    const quint32 pd = candidatePriority(c);
    vp_assert(quint64(pd) == (quint64(1) << 24) * typePref + (quint64(1) << 8) * 65535u + quint64(256 - comp), "C15 default local preference is 65535");
}
extern "C" void h_prio_pair()
{
    keepEncode();
    VpRaw<CandidatePair> pair;                                // QObject part is never touched by priority()
    alignas(16) static char transport[64];
    QXmppJingleCandidate local, remote; const quint32 lp = vp_u32(), rp = vp_u32(); const bool controlling = vp_bool(); const int comp = vp_int();
    if (!vp_cfg0()) vp_assume(lp <= 0x7fffffffu && rp <= 0x7fffffffu);      // RFC 5245 4.1.2: a candidate priority is in 1..2^31-1
    vp_cand_set(&local, 0, comp, int(lp)); vp_cand_set(&remote, 0, comp, int(rp));
    vp_fake_transport(transport, &local);
    new (&pair->remote) QXmppJingleCandidate(remote);
    pair->transport = reinterpret_cast<QXmppIceTransport *>(transport);
    pair->m_component = comp; pair->m_controlling = controlling;
    const quint64 got = pair->priority();
    const quint64 G = controlling ? lp : rp, D = controlling ? rp : lp;
    const quint64 mn = G < D ? G : D, mx = G < D ? D : G;
    vp_assert(got == (mn << 32) + 2 * mx + (G > D ? 1 : 0), "C15 pair priority = 2^32*min(G,D) + 2*max(G,D) + (G>D), 64-bit");
}
