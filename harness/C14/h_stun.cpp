// C14 (and the C15 kernels on the STUN code): harnesses over the REAL QXmppStunMessage::{encode,decode,peekType} and the
// file-static helpers of QXmppStun.cpp (included so that they are reachable).
#include "base/QXmppStun.cpp"
#include "vp_harness.h"
extern "C" {
unsigned vp_cfg0(); unsigned vp_cfg1(); unsigned vp_cfg2(); unsigned vp_cfg3();
void vp_fresh_bytes(QByteArray *out, unsigned minlen, unsigned maxlen);
void vp_set_byte(QByteArray *ba, unsigned i, unsigned char v);
unsigned char vp_byte_at(const QByteArray *ba, unsigned i);
void vp_sym_addr4(QHostAddress *a); void vp_sym_addr6(QHostAddress *a);
extern unsigned vp_hmac_calls, vp_crc_calls;
}
static QByteArray freshBytes(unsigned minlen, unsigned maxlen) { QByteArray b; vp_fresh_bytes(&b, minlen, maxlen); return b; }

extern "C" void h_probe()
{
    unsigned n = vp_cfg0();
    QByteArray buf = freshBytes(n, n);
    vp_set_byte(&buf, 2, (n - 20) >> 8); vp_set_byte(&buf, 3, (n - 20) & 0xff);
    QByteArray key = freshBytes(1, 2);
    QXmppStunMessage m;
    bool ok = m.decode(buf, key, nullptr);
    vp_assert(!ok || vp_hmac_calls > 0, "C15 decode under a key succeeds only with verified MESSAGE-INTEGRITY");
}
extern "C" void h_probe2()
{
    QByteArray key = freshBytes(vp_cfg1(), vp_cfg1());
    QXmppStunMessage m2;
    m2.setType(vp_u16());
    m2.setPriority(vp_u32());
    vp_sym_addr4(&m2.mappedHost); m2.mappedPort = vp_u16();
    QByteArray e = m2.encode(key, vp_cfg2());
    QXmppStunMessage m;
    bool ok = m.decode(e, key, nullptr);
    vp_assert(ok, "C14 probe");
    vp_assert(m.priority() == m2.priority(), "C14 probe prio");
}
