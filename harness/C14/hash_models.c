/* C14 utils group: QCryptographicHash as a recording oracle.  hash(alg, bytes) is an uninterpreted function: the first query of
   an input returns fresh symbolic digest bytes, a repeated query returns the same digest.  vp_hmac_rfc2104 is the RFC 2104
   reference built on the same oracle. */
#ifdef HAVE_T_struct_QArrayData
#ifndef HB_CAP
#define HB_CAP 96
#endif
#ifndef VP_HORC_CAP
#define VP_HORC_CAP 8
#endif
struct vhash { uint32_t alg; uint32_t len; uint8_t buf[HB_CAP]; };
struct hent { uint32_t alg; uint32_t len; uint8_t buf[HB_CAP]; uint8_t dig[20]; };
static struct hent h_log[VP_HORC_CAP]; static uint32_t h_n;
static uint32_t dig_len(uint32_t alg) { ASSERT(alg == 1 || alg == 2, "hash oracle: only Md5 and Sha1 are modelled"); return alg == 1 ? 16 : 20; }
static int vpl_h_same(const struct hent *e, const struct vhash *h) { if (e->alg != h->alg || e->len != h->len) return 0; uint8_t same = 1;
  for (uint32_t i = 0; i < HB_CAP; i++) { if (i >= h->len) break; same &= (uint8_t)(e->buf[i] == h->buf[i]); } return same; }
/* every query is recorded in its own slot (the counter stays a constant); its digest is fresh unless an earlier query had the same input */
static void orc_hash(const struct vhash *h, uint8_t *out) { uint32_t dl = dig_len(h->alg); uint32_t n = h_n; ASSERT(n < VP_HORC_CAP, "hash oracle log full");
  uint8_t dig[20]; for (uint32_t j = 0; j < 20; j++) dig[j] = j < dl ? vp_u8() : 0;
  for (uint32_t i = 0; i < VP_HORC_CAP; i++) { if (i < n) { if (vpl_h_same(&h_log[i], h)) { for (uint32_t j = 0; j < 20; j++) dig[j] = h_log[i].dig[j]; } } }
  for (uint32_t i = 0; i < VP_HORC_CAP; i++) { if (i == n) { struct hent *e = &h_log[i]; e->alg = h->alg; e->len = h->len; for (uint32_t q = 0; q < HB_CAP; q++) e->buf[q] = h->buf[q]; for (uint32_t j = 0; j < 20; j++) e->dig[j] = dig[j]; } }
  h_n = n + 1; for (uint32_t j = 0; j < 20; j++) out[j] = dig[j]; }
static void vpl_h_add(struct vhash *h, QAD *d) { uint32_t n = d->f1; ASSERT(h->len + n <= HB_CAP, "hash oracle input capacity"); uint32_t off = h->len;
  for (uint32_t i = 0; i < XHINT(d) && i < QB_CAP; i++) { if (i >= n) break; h->buf[off + i] = XBYTES(d)[i]; } h->len = off + n; }
#define VH(self) (*(struct vhash**)(self))
void _ZN18QCryptographicHashC1ENS_9AlgorithmE(char *self, uint32_t alg) { struct vhash *h = malloc(sizeof(struct vhash)); ASSUME(h != 0); h->alg = alg; h->len = 0; for (uint32_t i = 0; i < HB_CAP; i++) h->buf[i] = 0; VH(self) = h; }
void _ZN18QCryptographicHashD1Ev(char *self) { }
void _ZN18QCryptographicHash5resetEv(char *self) { struct vhash *h = VH(self); h->len = 0; for (uint32_t i = 0; i < HB_CAP; i++) h->buf[i] = 0; }
void _ZN18QCryptographicHash7addDataERK10QByteArray(char *self, char *ba) { vpl_h_add(VH(self), *(QAD**)ba); }
static QAD *dig_block(const uint8_t *dig, uint32_t dl) { QAD *r = qbv_new(dl, dl); for (uint32_t j = 0; j < 20; j++) if (j < dl) BD(r)[j] = dig[j]; return r; }
void _ZNK18QCryptographicHash6resultEv(char *ret, char *self) { struct vhash *h = VH(self); uint8_t dig[20]; orc_hash(h, dig); *(QAD**)ret = dig_block(dig, dig_len(h->alg)); }
void _ZN18QCryptographicHash4hashERK10QByteArrayNS_9AlgorithmE(char *ret, char *ba, uint32_t alg) { struct vhash h; h.alg = alg; h.len = 0; for (uint32_t i = 0; i < HB_CAP; i++) h.buf[i] = 0;
  vpl_h_add(&h, *(QAD**)ba); uint8_t dig[20]; orc_hash(&h, dig); *(QAD**)ret = dig_block(dig, dig_len(alg)); }
/* RFC 2104 reference on the same oracle */
void vp_hmac_rfc2104(char *out, uint32_t alg, char *key, char *text) { QAD *k = *(QAD**)key, *t = *(QAD**)text; uint32_t dl = dig_len(alg); uint8_t k0[64], d[20]; struct vhash h;
  for (uint32_t i = 0; i < 64; i++) k0[i] = 0;
  if (k->f1 > 64) { h.alg = alg; h.len = 0; for (uint32_t i = 0; i < HB_CAP; i++) h.buf[i] = 0; vpl_h_add(&h, k); orc_hash(&h, d); for (uint32_t i = 0; i < 20; i++) if (i < dl) k0[i] = d[i]; }
  else { for (uint32_t i = 0; i < 64; i++) if (i < k->f1) k0[i] = XBYTES(k)[i]; }
  h.alg = alg; for (uint32_t i = 0; i < HB_CAP; i++) h.buf[i] = 0; for (uint32_t i = 0; i < 64; i++) h.buf[i] = k0[i] ^ 0x36; h.len = 64; vpl_h_add(&h, t); orc_hash(&h, d);
  for (uint32_t i = 0; i < HB_CAP; i++) h.buf[i] = 0; for (uint32_t i = 0; i < 64; i++) h.buf[i] = k0[i] ^ 0x5c; for (uint32_t i = 0; i < 20; i++) if (i < dl) h.buf[64 + i] = d[i]; h.len = 64 + dl; orc_hash(&h, d);
  *(QAD**)out = dig_block(d, dl); }
#endif
