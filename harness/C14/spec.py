STUN_MODELS = ['stun_pre.c', 'qt_core.c', 'qt_list.c', 'bytes_models.c', 'stun_models.c']
SPEC = dict(
    property='C14',
    groups=[
        dict(name='probe', harness='h_stun.cpp', tus=[], models=STUN_MODELS, cand='vp_buf_seek:i1(p,i64)',
             loop_bounds={'_ZN16QXmppStunMessage6decodeE': 2},
             instances=[dict(name='probe', entry='h_probe', unwind=18, timeout_s=300, mem_gb=8, cdefs={'QB_CAP': 64, 'VP_CFG0': 24, 'VP_UTF8_LATIN1': 1}, model_loop_bound=70),
                        dict(name='probe2', entry='h_probe2', unwind=18, timeout_s=300, mem_gb=8, cdefs={'QB_CAP': 100, 'VP_CFG1': 2, 'VP_CFG2': 1}, model_loop_bound=104, loop_bounds={'_ZN16QXmppStunMessage6decodeE': 6})]),
    ],
    bounds=[], assumptions=[], outside=[],
)
