# C14 - STUN messages round-trip; integrity and fingerprint accept only untampered data (DESIGN.md "### C14")
STUN_MODELS = ['stun_pre.c', 'qt_core.c', 'qt_list.c', 'bytes_models.c', 'stun_models.c', 'ice_models.c']
UTIL_MODELS = ['stun_pre.c', 'qt_core.c', 'qt_list.c', 'bytes_models.c', 'hash_models.c']
STUN_CAND = 'vp_buf_seek:i1(p,i64);vp_fake_localCandidate:void(p,p,i32)'
Q, T, QT = ('quick',), ('thorough',), ('quick', 'thorough')
DEC = '_ZN16QXmppStunMessage6decodeE'

def S(name, entry, cfg=(0, 0, 0, 0), cap=100, dec=12, tiers=QT, bound='', **kw):
    """one instance over the STUN harness; cfg = the four per-instance constants read by the harness through vp_cfg0..3;
    dec = unwinding bound of decode()'s attribute loop (iterations + 1)"""
    d = dict(name=name, entry=entry, unwind=24, timeout_s=300, mem_gb=4, model_loop_bound=cap + 4, tiers=tiers, bound=bound,
             loop_bounds={DEC: dec},
             cdefs={'QB_CAP': cap, 'VP_CFG0': cfg[0], 'VP_CFG1': cfg[1], 'VP_CFG2': cfg[2], 'VP_CFG3': cfg[3]})
    d['cdefs'].update(kw.pop('cdefs', {})); d.update(kw); return d

G = dict(ints=1, addr4=2, addr4x=3, addr6=4, addr6x=5, str=6, bytes=7, err=8, iced=9, empty=10, addr6b=11)
RT_BOUND = 'all values symbolic (integers full range, IPv4/IPv6 addresses, 12-byte id, key bytes); layout fixed per instance: attribute group %s, key length %d, fingerprint %d, string/byte-string length %d'
NATTR = dict(ints=5, addr4=4, addr4x=3, addr6=2, addr6b=2, addr6x=2, str=3, bytes=4, iced=1, err=1, empty=0)
def RT(name, grp, key, fp, ln, tiers=QT):
    # decode()'s loop is unwound exactly as often as the message has attributes: the symbolic outcome of the HMAC comparison is merged
    # into `done` by the compiler's shared clean-up block, so the exit test after MESSAGE-INTEGRITY is decided by the solver
    # (unwinding assertion), not by constant folding
    n = NATTR[grp] + (1 if (grp in ('ints', 'addr6x') and ln) else 0) + (1 if key else 0) + (1 if fp else 0)
    return S(name, 'h_rt', (G[grp], key, fp, ln), cap=128, dec=n + 1, tiers=tiers, bound=RT_BOUND % (grp, key, fp, ln))

def rt_instances():
    out = [RT('rt_ints', 'ints', 2, 1, 1), RT('rt_ints_plain', 'ints', 0, 0, 0), RT('rt_empty', 'empty', 3, 1, 0), RT('rt_empty_fp', 'empty', 0, 1, 0),
           RT('rt_addr4', 'addr4', 2, 1, 0), RT('rt_addr4x', 'addr4x', 0, 1, 0), RT('rt_addr6', 'addr6', 0, 0, 0), RT('rt_addr6x', 'addr6x', 1, 0, 0),
           RT('rt_iced', 'iced', 0, 0, 0)]
    kf = [(2, 1), (0, 0), (0, 1), (3, 0), (1, 1), (0, 0)]
    for ln in range(6):       # every length 0..5: all residues mod 4 (strings: all six in quick; byte strings / reason phrases: 0..3 in quick, 4..5 in thorough)
        k, f = kf[ln]
        out += [RT('rt_str_%d' % ln, 'str', k, f, ln), RT('rt_bytes_%d' % ln, 'bytes', kf[5 - ln][0], kf[5 - ln][1], ln, tiers=QT if ln < 4 else T),
                RT('rt_err_%d' % ln, 'err', k, 1 - f, ln, tiers=QT if ln < 4 else T)]
    # non-ASCII strings: UTF-8 byte length != UTF-16 unit count (shape = cdef VP_U8PAT, see bytes_models.c); digits least significant first
    for nm, ln, pat, k, f, tiers in (('e_acute', 1, 2, 2, 1, QT), ('euro', 1, 3, 0, 1, QT), ('andre', 5, 21111, 2, 0, QT), ('mix23', 2, 32, 1, 1, QT),
                                     ('aaa2', 3, 222, 0, 0, T), ('a3a3', 4, 3131, 2, 1, T), ('u8x3', 8, 33333333, 0, 0, T), ('e2', 2, 22, 3, 1, T)):
        out.append(dict(RT('rt_utf8_%s' % nm, 'str', k, f, ln, tiers=tiers), bound=RT_BOUND % ('str', k, f, ln) + '; shape %d (1: U+0001..7F, 2: U+00C0..FF, 3: U+2000..2FFF per unit)' % pat))
        out[-1]['cdefs'] = dict(out[-1]['cdefs'], VP_U8PAT=pat)
    out.append(dict(RT('rt_utf8_err', 'err', 2, 1, 3, tiers=QT), bound=RT_BOUND % ('err', 2, 1, 3) + '; reason phrase of shape 212'))
    out[-1]['cdefs'] = dict(out[-1]['cdefs'], VP_U8PAT=212)
    # thorough: remaining key/fingerprint combinations and the address attributes not in quick
    for grp in ('ints', 'addr4', 'addr4x', 'addr6', 'addr6b', 'addr6x'):
        for k in (0, 2):
            for f in (0, 1):
                out.append(RT('rtT_%s_k%d_f%d' % (grp, k, f), grp, k, f, 1, tiers=T))
    for ln in (3, 8):
        for grp in ('str', 'bytes', 'err'):
            out.append(RT('rtT_%s_%d_kf' % (grp, ln), grp, 2, 1, ln, tiers=T))
    return out

V = dict(mi=1, mi_fp=2, prio_mi=3, user_mi=4, xaddr_mi=5, unk_mi=6, mi_prio=7, fp=8, mi_mi=9)
VDEC = dict(mi=2, mi_fp=3, prio_mi=3, user_mi=3, xaddr_mi=3, unk_mi=3, mi_prio=3, fp=2, mi_mi=3)   # = maximal number of attributes walked
MI_BOUND = 'datagram with fixed attribute layout [%s]: header and all payload bytes symbolic%s; key of 1..%d symbolic bytes (0: empty key)'
def MI(var, kmax, sym=0, tiers=QT, name=None, **kw):
    """sym=1: the length field of the last attribute is symbolic too (costs one fully symbolic extra pass of the attribute loop)"""
    o = dict(solver='cadical', mem_gb=6) if sym else {}
    o.update(kw)
    return S(name or ('acc_%s_k%d%s' % (var, kmax, '_len' if sym else '')), 'h_dec_mi', (V[var], kmax, 0, sym), cap=72, dec=VDEC[var], tiers=tiers,
             bound=MI_BOUND % (var, ', length field of the last attribute symbolic' if sym else '', kmax), cdefs={'VP_UTF8_LATIN1': 1}, **o)

def LEN(idx, nm, tiers):
    return S('len_' + nm, 'h_dec_len', (idx, 0, 0, 0), cap=40, dec=2, tiers=tiers, solver='cadical', mem_gb=6, cdefs={'VP_UTF8_LATIN1': 1},
             bound='one %s attribute: header, symbolic length field, payload of the required size symbolic; no key' % nm)
ANY_BOUND = 'arbitrary %d-byte datagram (only the header length field is fixed to the valid value %d), key of 1..%d symbolic bytes'
def ANY(entry, name, n, kmax, tiers, dec, **kw):
    o = dict(solver='cadical', safety_is_property=True, mem_gb=10, timeout_s=900); o.update(kw)
    return S(name, entry, (n, kmax, 0, 0), cap=40, dec=dec, tiers=tiers, bound=ANY_BOUND % (n, n - 20, kmax), cdefs={'VP_UTF8_LATIN1': 1}, **o)

stun_instances = rt_instances() + [
    S('enc_addr_plain', 'h_enc_addr', (0, 0, 0, 0), bound='IPv4 address and port fully symbolic (port 0 = attribute absent)'),
    S('enc_addr_xor', 'h_enc_addr', (1, 0, 0, 0), bound='IPv4 address and port fully symbolic (port 0 = attribute absent)'),
    S('dec_addr_plain', 'h_dec_addr', (0, 0, 0, 0), dec=1, bound='32-byte datagram, fixed framing of one IPv4 address attribute, everything else symbolic'),
    S('dec_addr_xor', 'h_dec_addr', (1, 0, 0, 0), dec=1, bound='32-byte datagram, fixed framing of one IPv4 address attribute, everything else symbolic'),
    S('enc_err', 'h_enc_err', solver='cadical', bound='error class 3..6 and number 0..99 symbolic, empty reason phrase'),
    S('dec_err_0', 'h_dec_err', (0, 0, 0, 0), dec=1, bound='class and number bytes arbitrary, reason phrase of 0 bytes'),
    S('dec_err_3', 'h_dec_err', (3, 0, 0, 0), dec=1, bound='class and number bytes arbitrary, reason phrase of 3 ASCII bytes (no NUL)'),
    LEN(0, 'priority', QT), LEN(1, 'ice_controlling', T),
    LEN(2, 'ice_controlled', T), LEN(3, 'use_candidate', T), LEN(4, 'channel_number', T), LEN(5, 'lifetime', T), LEN(6, 'requested_transport', T), LEN(7, 'reservation_token', T), LEN(8, 'change_request', T),
    MI('mi', 2, sym=1), MI('fp', 0, sym=1),
    MI('mi', 1), MI('mi_fp', 2), MI('prio_mi', 1), MI('user_mi', 1), MI('xaddr_mi', 1), MI('unk_mi', 1), MI('mi_prio', 1), MI('mi_mi', 1), MI('fp', 1), MI('mi_fp', 0),
    MI('mi', 0, sym=1, tiers=T), MI('fp', 1, sym=1, tiers=T), MI('mi', 8, sym=1, tiers=T), MI('mi_fp', 2, sym=1, tiers=T), MI('prio_mi', 3, sym=1, tiers=T), MI('xaddr_mi', 2, sym=1, tiers=T),
    ANY('h_dec_any', 'safe_any20', 20, 1, QT, 1), ANY('h_dec_any', 'safe_any24', 24, 1, QT, 2), ANY('h_dec_any', 'safe_any28', 28, 1, T, 2, timeout_s=2400, mem_gb=14, object_bits=12),
    S('dec_short', 'h_dec_short', cap=40, dec=1, object_bits=12, bound='datagrams of every size 0..19, arbitrary bytes'),
    S('dec_badlen', 'h_dec_badlen', (28, 0, 0, 0), cap=40, dec=1, bound='28-byte datagram: arbitrary header whose length field is not 8, followed by a well-formed PRIORITY attribute'),
    S('peek20', 'h_peek', (20, 0, 0, 0), cap=40, bound='20 arbitrary bytes, valid length field'),
    S('peek28', 'h_peek', (28, 0, 0, 0), cap=40, bound='28 arbitrary bytes, valid length field'),
]

def U(name, entry, cfg=(0, 0, 0, 0), cap=100, unwind=72, tiers=QT, bound='', **kw):
    d = dict(name=name, entry=entry, unwind=unwind, timeout_s=300, mem_gb=6, model_loop_bound=cap + 4, tiers=tiers, bound=bound,
             cdefs={'QB_CAP': cap, 'HB_CAP': max(96, cap), 'VP_CFG0': cfg[0], 'VP_CFG1': cfg[1], 'VP_CFG2': cfg[2], 'VP_CFG3': cfg[3]})
    d.update(kw); return d
HM_BOUND = 'key of %d..%d symbolic bytes, text of 0..%d symbolic bytes, %s; hash = uninterpreted consistent function'
def HM(k, md5, tiers):
    return U('hmac_%s_k%d' % ('md5' if md5 else 'sha1', k), 'h_hmac', (k, k, md5, 4), cap=max(100, k + 4), unwind=max(72, k + 4), tiers=tiers, timeout_s=300 if k < 200 else 1200,
             bound=HM_BOUND % (k, k, 4, 'MD5' if md5 else 'SHA-1'))
util_instances = [

    U('crc_table', 'h_crc_table', unwind=10, bound='all 256 table entries (symbolic index)'),
    U('crc_bytes6', 'h_crc_bytes', (6, 0, 0, 0), cap=40, unwind=12, tiers=QT, solver='cadical', bound='all byte strings of length 0..6'),
    U('crc_bytes8', 'h_crc_bytes', (8, 0, 0, 0), cap=40, unwind=12, tiers=T, solver='cadical', timeout_s=1800, bound='all byte strings of length 0..8'),
] + [HM(k, 0, QT) for k in (0, 63, 64, 65)] + [HM(k, 1, QT) for k in (64, 65)] + [HM(k, 0, T) for k in (1, 2, 20, 32, 62, 66, 67, 70, 100, 128, 300)] + [HM(k, 1, T) for k in (0, 16, 63, 66, 128)
]

SPEC = dict(
    property='C14',
    groups=[
        dict(name='stun', harness='h_stun.cpp', tus=[], models=STUN_MODELS, cand=STUN_CAND, instances=stun_instances),
        dict(name='utils', harness='h_utils.cpp', tus=[], models=UTIL_MODELS, instances=util_instances),
        # demonstration of the known finding (only selected while `hmac_long_key` is listed in known_findings.txt)
        dict(name='utils_kf', harness='h_utils.cpp', tus=[], models=UTIL_MODELS, cxxdefs={'VP_DEMONSTRATE_KF': 1},
             instances=[dict(HM(65, 0, QT), name='kf_hmac_sha1_k65', known_finding='hmac_long_key')]),
    ],
    bounds=[
        'round trips: one attribute group per instance (integers; IPv4 plain/XOR; IPv6 plain/XOR; strings; byte strings + ICE role; ERROR-CODE; no attribute), '
        'key length 0..3, fingerprint on/off, strings and byte strings of every length 0..5 (quick) and 8 (thorough); all values symbolic',
        'ports and error codes are per-instance constants in the round trips (0 = attribute absent); symbolic ports / codes in enc_addr_*, dec_addr_*, enc_err, dec_err_*',
        'acceptance: datagrams of 44..72 bytes with a fixed attribute layout ([MI], [MI,FP], [X,MI] for X in PRIORITY/USERNAME/XOR-MAPPED/unknown, [MI,PRIORITY], [MI,MI], [FP]); '
        'header, payload and the length field of the last attribute symbolic; key 1..2 (thorough: 8) symbolic bytes or empty',
        'length validation: one fixed-size attribute with symbolic length field (PRIORITY in quick; eight more types in thorough)',
        'safety: arbitrary datagrams of 20 and 24 bytes (thorough: 28) with a valid header length field, every size 0..19, one wrong length field; peekType on 20/28 bytes',
        'CRC-32: all 256 table entries; all byte strings of length <= 6 (thorough: 8)',
        'HMAC: key lengths 0, 63, 64, 65 (SHA-1) and 64, 65 (MD5) in quick; 1, 2, 16, 20, 32, 62, 66, 67, 70, 100, 128, 300 more in thorough; key and text bytes symbolic, text 0..4 bytes',
    ],
    assumptions=[
        'strings: ASCII without NUL, or (rt_utf8_*) a per-instance shape of 1-, 2- and 3-byte characters (U+00C0..FF, U+2000..2FFF) with symbolic units inside the shape; '
        'the UTF-8 codec is Qt\'s and is modelled as the real mapping restricted to these shapes (QString::fromUtf8(QByteArray) stops at the first NUL)',
        'setId() is given 12 bytes (Q_ASSERT in the setter); ICE-CONTROLLING/ICE-CONTROLLED tie-breakers are 8 bytes (RFC 5245) and not both set',
        'an address attribute is "present" iff its port is non-zero (encode\'s own convention); ERROR-CODE is in 300..699 (RFC 5389 15.6)',
        'HMAC-SHA1 and CRC-32 inside encode/decode are cut at QXmppUtils::generateHmacSha1/generateCrc32 and replaced by uninterpreted, functionally consistent functions; '
        'the functions behind the cut are checked in the utils group (hash function itself = uninterpreted QCryptographicHash oracle)',
    ],
    outside=[
        'TURN allocation logic, toString() dumps',
        'strings longer than 8 units, characters outside U+0001..7F / U+00C0..FF / U+2000..2FFF (other 2-/3-byte blocks, surrogate pairs), strings with embedded NUL (these do NOT round-trip: decode truncates at the NUL)',
        'bit-level rejection ("flipping any bit makes decoding fail") is claimed only structurally: acceptance <=> the 20 bytes equal HMAC(key, adjusted prefix) for an uninterpreted HMAC; '
        'collision resistance of SHA-1 is not something a solver establishes',
        'symbolic length fields in front of further attributes are covered only by the arbitrary-datagram instances (<= 28 bytes)',
        'HMAC key lengths other than the listed ones (the key length must be a constant per instance: Qt\'s QStringBuilder copy loops over a symbolic length do not terminate in symex)',
        'observation (not asserted): a truncated MESSAGE-INTEGRITY attribute is compared zero-extended, attribute lengths are not checked against the datagram size (reads past the end yield zeros, no memory is touched)',
    ],
)
