STUN_MODELS = ['stun_pre.c', 'qt_core.c', 'qt_list.c', 'bytes_models.c', 'stun_models.c', 'ice_models.c']
def S(name, entry, cfg=(0, 0, 0, 0), cap=100, **kw):
    d = dict(name=name, entry=entry, unwind=24, timeout_s=300, mem_gb=6, model_loop_bound=cap + 4,
             cdefs={'QB_CAP': cap, 'VP_CFG0': cfg[0], 'VP_CFG1': cfg[1], 'VP_CFG2': cfg[2], 'VP_CFG3': cfg[3]})
    d['cdefs'].update(kw.pop('cdefs', {})); d.update(kw); return d
SPEC = dict(
    property='C14',
    groups=[
        dict(name='stun', harness='h_stun.cpp', tus=[], models=STUN_MODELS, cand='vp_buf_seek:i1(p,i64);vp_fake_localCandidate:void(p,p,i32)',
             loop_bounds={'_ZN16QXmppStunMessage6decodeE': 8},
             instances=[S('rt_ints', 'h_rt', (1, 2, 1, 1)), S('prio_cand', 'h_prio_cand'), S('prio_pair', 'h_prio_pair'),
                        S('dec_mi', 'h_dec_mi', (1, 2, 0, 0), loop_bounds={'_ZN16QXmppStunMessage6decodeE': 3})]),
    ],
    bounds=[], assumptions=[], outside=[],
)
