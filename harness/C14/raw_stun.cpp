// C14 raw-pointer safety (spec_raw.py): decode() on arbitrary datagrams whose FIRST attribute type is a per-instance constant, one
// instance per attribute that carries a variable-length or raw payload; the attribute's length field and every other byte are symbolic.
// Claim: safe decode - no access outside the LOGICAL bounds of any byte array (checked inside every environment model that takes a raw
// pointer: "C14 safety: ..." assertions of bytes_models.c / stun_models.c / raw_models.c), no out-of-bounds access in the translated
// code (cbmc pointer/bounds checks), the attribute loop terminates (unwinding assertion).
// The scaffolding (helpers, includes of the real QXmppStun.cpp) is h_stun.cpp's.
#include "h_stun.cpp"
extern "C" void vp_fresh_bytes_tight(QByteArray *out, unsigned len);   // raw_models.c: C object == logical extent (+ NUL)
// cfg0 = datagram size N (header length field = N - 20), cfg1 = key length bound (0: empty key), cfg2 = type of the first attribute,
// cfg3 bit 0: the length field of the first attribute is not 0 (the datagram has room for one attribute only: the loop ends after it);
// cfg3 bit 1: the datagram is a TIGHT block (its C object ends with the terminating NUL: direct dereferences of the translated code are
//             checked by cbmc against the logical extent)
extern "C" void h_raw_attr()
{
    keepEncode();
    const unsigned n = vp_cfg0(), kmax = vp_cfg1(), type = vp_cfg2();
    QByteArray b;
    if (vp_cfg3() & 2) vp_fresh_bytes_tight(&b, n); else b = freshBytes(n, n);
    put16(b, 2, n - 20); put16(b, 20, type);
    if (vp_cfg3() & 1) vp_assume(be16(b, 22) != 0);
    QByteArray key = kmax ? freshBytes(1, kmax) : QByteArray();
    QXmppStunMessage r;
    r.decode(b, key, nullptr);
}
