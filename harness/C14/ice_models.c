/* C15 (ii): QXmppJingleCandidate cut to the three fields the priority formulas read (the class lives in QXmppJingleData.cpp,
   which is not linked), and a fake QXmppIceTransport whose hand-made vtable answers localCandidate(). */
struct vcand { uint32_t type, component, priority; };
#define VC(self) (*(struct vcand**)(self))
static struct vcand *vc_new(char *self) { struct vcand *c = malloc(sizeof(struct vcand)); ASSUME(c != 0); c->type = 0; c->component = 0; c->priority = 0; VC(self) = c; return c; }
void _ZN20QXmppJingleCandidateC1Ev(char *self) { vc_new(self); }
void _ZN20QXmppJingleCandidateC1ERKS_(char *self, char *o) { struct vcand *c = vc_new(self); *c = *VC(o); }
void _ZN20QXmppJingleCandidateD1Ev(char *self) { }
uint32_t _ZNK20QXmppJingleCandidate4typeEv(char *self) { return VC(self)->type; }
uint32_t _ZNK20QXmppJingleCandidate9componentEv(char *self) { return VC(self)->component; }
uint32_t _ZNK20QXmppJingleCandidate8priorityEv(char *self) { return VC(self)->priority; }
void vp_cand_set(char *self, uint32_t type, uint32_t component, uint32_t priority) { struct vcand *c = VC(self); c->type = type; c->component = component; c->priority = priority; }
struct vtransport { char *vptr; char *qobject_d; char *local; };
void vp_fake_localCandidate(char *ret, char *self, uint32_t component) { struct vcand *c = vc_new(ret); *c = *VC(((struct vtransport*)self)->local); }
static char *vtransport_vtable[24] = { 0, 0, 0, 0, 0, 0, 0, 0, 0, 0, 0, 0, (char*)&vp_fake_localCandidate, 0, 0, 0, 0, 0, 0, 0, 0, 0, 0, 0 };
void vp_fake_transport(char *storage, char *local) { struct vtransport *t = (struct vtransport*)storage; t->vptr = (char*)vtransport_vtable; t->qobject_d = 0; t->local = local; }
