/* C14/C15: listed BEFORE qt_core.c.  The byte-array members below are re-defined in stun_models.c (virtual-size blocks:
   a decoder may legally ask for QByteArray(65535, 0) / resize(65535) on attacker-chosen lengths, far above the capacity of
   the shared model, without touching more bytes than the datagram holds).  qt_core.c's own definitions are renamed away. */
#define _ZN10QByteArrayC1Eic vpcore_QByteArrayC1Eic
#define _ZN10QByteArray6resizeEi vpcore_QByteArray_resizeEi
#define _ZN10QByteArray11reallocDataEj6QFlagsIN10QArrayData16AllocationOptionEE vpcore_QByteArray_reallocData
#define _ZN10QByteArray6appendEc vpcore_QByteArray_appendEc
/* UTF-8 codec: re-defined in bytes_models.c (non-ASCII case split VP_U8PAT); without VP_U8PAT the calls are forwarded to these */
#define _ZN7QString13toUtf8_helperERKS_ vpcore_QString_toUtf8_helper
#define _ZN7QString15fromUtf8_helperEPKci vpcore_QString_fromUtf8_helper
