# C14, raw-pointer safety: every environment model that consumes a raw pointer into a byte array checks the LOGICAL bounds of the range it
# touches (bytes_models.c: VP_RAW_R_OK / VP_RAW_W_OK; stun_models.c: readRawData / writeRawData; raw_models.c: everything else), and decode()
# is run on arbitrary datagrams whose first attribute type is fixed per instance (added after seed C14-3, which read 4 bytes behind the
# datagram inside the QByteArray(const char*, int) model: invisible to cbmc's instrumentation and inside the block's spare capacity).
RAW_MODELS = ['stun_pre.c', 'raw_pre.c', 'qt_core.c', 'qt_list.c', 'bytes_models.c', 'stun_models.c', 'ice_models.c', 'raw_models.c']
RAW_UTIL_MODELS = ['stun_pre.c', 'raw_pre.c', 'qt_core.c', 'qt_list.c', 'bytes_models.c', 'hash_models.c', 'raw_models.c']
STUN_CAND = 'vp_buf_seek:i1(p,i64);vp_fake_localCandidate:void(p,p,i32)'
Q, T, QT = ('quick',), ('thorough',), ('quick', 'thorough')
DEC = '_ZN16QXmppStunMessage6decodeE'

ATTRS = [('data', 0x0013, 'DATA'), ('username', 0x0006, 'USERNAME'), ('realm', 0x0014, 'REALM'), ('nonce', 0x0015, 'NONCE'), ('software', 0x8022, 'SOFTWARE'),
         ('restoken', 0x0022, 'RESERVATION-TOKEN'), ('errcode', 0x0009, 'ERROR-CODE (reason phrase)'), ('unknown', 0x7777, 'unknown attribute 0x7777'),
         ('xpeer', 0x0012, 'XOR-PEER-ADDRESS'), ('xrelayed', 0x0016, 'XOR-RELAYED-ADDRESS'), ('xmapped', 0x0020, 'XOR-MAPPED-ADDRESS'),
         ('integrity', 0x0008, 'MESSAGE-INTEGRITY'), ('mapped', 0x0001, 'MAPPED-ADDRESS'), ('icectl', 0x802a, 'ICE-CONTROLLING')]
RAW_BOUND = ('arbitrary %d-byte datagram: header length field fixed to the valid value %d, type of the FIRST attribute fixed to %s, its length field%s and every other byte '
             '(family byte of address attributes included) symbolic; %s')

def RAW(nm, typ, desc, n, kmax, tiers, nz=0, tight=None, **kw):
    # the keyed variants run on a TIGHT datagram block (C object == logical extent + NUL, see vp_fresh_bytes_tight in raw_models.c), the others on an ordinary model block
    if tight is None: tight = 1 if kmax else 0
    name = 'raw_%s_%d%s%s' % (nm, n, '_k' if kmax else '', '_nz' if nz else '')
    d = dict(name=name, entry='h_raw_attr', unwind=24, timeout_s=300, mem_gb=6, model_loop_bound=44, tiers=tiers, solver='cadical', safety_is_property=True,
             loop_bounds={DEC: 1 if (n == 24 or nz) else 2},   # body executions; a further iteration is excluded by the unwinding assertion (done >= length after one attribute)
             bound=RAW_BOUND % (n, n - 20, desc, ' (not 0: one attribute)' if nz else '', 'key of 1 symbolic byte' if kmax else 'no key') + ('; tight datagram block' if tight else ''),
             cdefs={'QB_CAP': 40, 'VP_CFG0': n, 'VP_CFG1': kmax, 'VP_CFG2': typ, 'VP_CFG3': nz + 2 * tight, 'VP_UTF8_LATIN1': 1})
    d.update(kw); return d

def raw_instances():
    out = []
    KEYED28 = ('data', 'username', 'errcode', 'integrity', 'xpeer', 'restoken')      # keyed (= tight block) 28-byte variants in quick; the others in thorough
    for i, (nm, typ, desc) in enumerate(ATTRS):
        out.append(RAW(nm, typ, desc, 24, 0, QT))
        out.append(RAW(nm, typ, desc, 24, 1, QT))
        out.append(RAW(nm, typ, desc, 28, 0, QT, nz=1))
        out.append(RAW(nm, typ, desc, 28, 1, QT if nm in KEYED28 else T, nz=1))
        # length field fully symbolic (0 included: a second, arbitrary attribute header follows): two passes of the attribute loop, the second fully symbolic
        out.append(RAW(nm, typ, desc, 28, 0, T, timeout_s=600, mem_gb=8))
        if nm in KEYED28: out.append(RAW(nm, typ, desc, 28, 1, T, timeout_s=600, mem_gb=8))
    return out

def RU(name, entry, cfg, cap, unwind, tiers, bound, **kw):
    d = dict(name=name, entry=entry, unwind=unwind, timeout_s=300, mem_gb=6, model_loop_bound=cap + 4, tiers=tiers, bound=bound,
             cdefs={'QB_CAP': cap, 'HB_CAP': max(96, cap), 'VP_CFG0': cfg[0], 'VP_CFG1': cfg[1], 'VP_CFG2': cfg[2], 'VP_CFG3': cfg[3]})
    d.update(kw); return d
# the utils harness over the model set with the raw-pointer checks (QCryptographicHash::addData(const char*, int), QMessageAuthenticationCode, memcpy, ...):
# the unchanged generateHmacSha1 / generateCrc32 use none of them; a change that hashes through raw pointers is checked against the logical bounds
raw_util_instances = [
    RU('raw_hmac_sha1_k1', 'h_hmac', (1, 1, 0, 4), 100, 72, QT, 'key of 1 symbolic byte, text of 0..4 symbolic bytes, SHA-1; hash = uninterpreted consistent function'),
    RU('raw_hmac_sha1_k65', 'h_hmac', (65, 65, 0, 4), 100, 72, T, 'key of 65 symbolic bytes, text of 0..4 symbolic bytes, SHA-1; hash = uninterpreted consistent function'),
    RU('raw_crc_bytes4', 'h_crc_bytes', (4, 0, 0, 0), 40, 12, T, 'all byte strings of length 0..4', solver='cadical'),
]

GROUPS = [
    dict(name='raw', harness='raw_stun.cpp', tus=[], models=RAW_MODELS, cand=STUN_CAND, instances=raw_instances()),
    dict(name='raw_utils', harness='h_utils.cpp', tus=[], models=RAW_UTIL_MODELS, instances=raw_util_instances),
]
BOUNDS = [
    'raw-pointer safety (raw_*): arbitrary datagrams of 24 and 28 bytes, first attribute type fixed per instance (DATA, USERNAME, REALM, NONCE, SOFTWARE, RESERVATION-TOKEN, ERROR-CODE, '
    'unknown, XOR-PEER/RELAYED/MAPPED-ADDRESS, MESSAGE-INTEGRITY, MAPPED-ADDRESS, ICE-CONTROLLING), length field symbolic, with a 1-byte key and without; '
    'quick: 28-byte datagrams with a non-zero first length field (one attribute); thorough: also length 0 followed by a second arbitrary attribute header',
]
ASSUMPTIONS = [
    'raw-pointer safety: "inside the byte array" means offset + n <= size for writes and <= size + 1 for reads (Qt guarantees a readable terminating NUL at data()[size]); '
    'a pointer that does not point into a byte-array block is checked against its C object (__CPROVER_r_ok / w_ok)',
    'QByteArray::fromRawData is modelled as a copy whose source range is checked when the view is created',
]
OUTSIDE = [
    'dereferences that TRANSLATED code performs directly through a constData()/data() pointer (p[i], at(), constant-size memcpy expanded inline) are checked by cbmc against the C object of the block: '
    'exact (logical extent + NUL) only for the datagram of the keyed raw_*_k instances (tight block, replayed natively through a guard page); every other block owns QB_CAP + 1 bytes. '
    'Such a failure is a cbmc pointer check, not a model assertion: when the driver cannot replay it (or picks an undecided property for the trace) the run is inconclusive, never a pass',
    'strncpy / strlen on pointers into byte arrays (owned by models/base.h / cbmc built-in), QString (UTF-16) raw pointers',
    'the existing groups `stun` (spec.py) and C15 get the new checks of bytes_models.c / stun_models.c (qstrnlen, fromUtf8, readRawData, writeRawData) but keep qt_core.c\'s unchecked '
    'QByteArray(const char*, int) / append(const char*, int): those are wrapped only in the groups of spec_raw.py (raw_pre.c + raw_models.c)',
]
