// C11 seq_*: TWO handleStanza calls on ONE manager object (built by its real constructor, registered by the real setClient) with a
// reconfiguration of the client in between.  The sender check of the second call must be made against the account in use NOW
// (client()->configuration().jidBare() at the time of the call), not against anything the manager remembered from the first call.
//   call 1: arbitrary wrapper tree under account A (accepted or rejected; the single-call oracle is asserted for it too)
//   reconfiguration (one per entry point):
//     set     client->configuration().setUser(uB) / setDomain(dB)            (real setters on the client's configuration object)
//     assign  client->configuration() = <another QXmppConfiguration built for B>   (real copy assignment: shared private)
//     move    the manager is moved to ANOTHER client whose configuration is B   (real setClient: onUnregistered / onRegistered)
//   signals of the client: connected() is emitted or not before each call, disconnected() is emitted or not before the reconfiguration;
//     an emitted signal runs every slot the manager REALLY connected to it in onRegistered (today: V2's enableCarbons() on connected(),
//     with client()->streamManagementState() and the stream's "carbons enabled via bind2" flag symbolic, so that both early-return
//     alternatives and the enable-IQ path are explored; V1 connects nothing)
//   call 2: arbitrary wrapper tree; same oracle as the single-call instances, against B's bare JID.
// A and B are arbitrary identities of the bound, possibly equal, possibly sharing only user or only domain.
#include "h.cpp"
#include "QXmppOutgoingClient.h"
#include "QXmppIq.h"
#include "QXmppSendStanzaParams.h"
#include "QXmppTask.h"
#include "QXmppPromise.h"
#include <cstring>

extern "C" void vp_c11_setup2(QXmppClient *client, const QXmppConfiguration *cfg);

// ---- environment: QXmppClient / QXmppOutgoingClient as seen by onRegistered / onUnregistered / enableCarbons ----
struct CarbonMirror { bool enableViaBind2, enabled, requested; };   // QXmpp::Private::CarbonManager (QXmppOutgoingClient.h)
static_assert(sizeof(QXmpp::Private::CarbonManager) == sizeof(CarbonMirror), "CarbonManager layout");
static CarbonMirror g_carbon;
static char g_streamStorage[16];
static unsigned g_smState;      // QXmppClient::StreamManagementState, symbolic per notification
static unsigned g_nEnableIq;    // enable-IQs handed to QXmppClient::sendIq
static char clientStorage2[16];

QXmppOutgoingClient *QXmppClient::stream() const { return reinterpret_cast<QXmppOutgoingClient *>(g_streamStorage); }
QXmpp::Private::CarbonManager &QXmppOutgoingClient::carbonManager() const { return *reinterpret_cast<QXmpp::Private::CarbonManager *>(&g_carbon); }
QXmppClient::StreamManagementState QXmppClient::streamManagementState() const { return StreamManagementState(g_smState); }
// the answer to the enable request never arrives within the run (its continuation only writes log lines)
QXmppTask<QXmppClient::IqResult> QXmppClient::sendIq(QXmppIq &&, const std::optional<QXmppSendStanzaParams> &)
{
    g_nEnableIq++;
    auto *p = new QXmppPromise<IqResult>;
    return p->task();
}

enum Reconf { R_SET, R_ASSIGN, R_MOVE };

struct Calib { int sentIdx = -1, recvIdx = -1; };

static bool call(QXmppCarbonManagerV2 &mgr, const QDomElement &el) { std::optional<QXmppE2eeMetadata> e2ee; return mgr.QXmppCarbonManagerV2::handleStanza(el, e2ee); }
static bool call(QXmppCarbonManager &mgr, const QDomElement &el) { return mgr.QXmppCarbonManager::handleStanza(el); }
// first stanza: its own (smaller) tree size
#ifndef SEQ_A1
#define SEQ_A1 1
#endif
#ifndef SEQ_A2
#define SEQ_A2 1
#endif
#ifndef SEQ_A3
#define SEQ_A3 1
#endif
typedef TreeT<SEQ_A1, SEQ_A2, SEQ_A3> Tree1;

// Delivery of a signal of the client: every slot that is CONNECTED to it at that moment (captured by the connectImpl model when the real
// onRegistered ran, removed again by the real disconnect of onUnregistered) is called through its real QSlotObject.  Whether the client
// emits the signal at all between two stanzas is the application's / stream's business: both alternatives are explored.
extern "C" { unsigned vp_seq_nconn(); bool vp_seq_conn_live(unsigned); void *vp_seq_conn_sender(unsigned); void *vp_seq_conn_signal(unsigned); void *vp_seq_conn_receiver(unsigned); void *vp_seq_conn_slot(unsigned); void *vp_seq_conn_slotfn(unsigned); }
static unsigned g_slotsRun;
template<typename MP> static void emitFrom(QXmppClient *sender, MP mp)
{
    void *raw[2] = { nullptr, nullptr };
    static_assert(sizeof(mp) == sizeof(raw));
    std::memcpy(raw, &mp, sizeof(mp));
    for (unsigned i = 0; i < 4; i++) {
        if (i >= vp_seq_nconn()) break;
        if (vp_seq_conn_live(i) && vp_seq_conn_signal(i) == raw[0] && vp_seq_conn_sender(i) == (void *)sender) {
            void *args[1] = { nullptr };
            g_slotsRun++;
            QObject *recv = static_cast<QObject *>(vp_seq_conn_receiver(i));
            // member-function slot (signals of the client used here carry no arguments): called through the function address stored in the
            // member pointer.  NOT through QSlotObject::impl -> FunctorCall, whose Itanium-ABI "is it virtual?" test reads the low bit of that
            // address: gcc -O0 does not align functions, so the native replay of a counterexample crashed on odd addresses (seen).
            // A virtual slot (small odd value) matches no function: reported as unmodelled, never silently skipped.  Functors: real slot object.
            if (void *fn = vp_seq_conn_slotfn(i)) reinterpret_cast<void (*)(QObject *)>(fn)(recv);
            else static_cast<QtPrivate::QSlotObjectBase *>(vp_seq_conn_slot(i))->call(recv, args);
        }
    }
}
static void maybeConnected(QXmppClient *c)
{
    if (vp_bool()) {
        // what the connected() slot of the V2 manager looks at: stream-management state and the stream's "carbons enabled via bind2" flag
        g_smState = vp_u8(); vp_assume(g_smState <= unsigned(QXmppClient::ResumedStream));
        g_carbon.enabled = vp_bool();
        emitFrom(c, &QXmppClient::connected);
    }
}
static void maybeDisconnected(QXmppClient *c)
{
    if (vp_bool()) emitFrom(c, &QXmppClient::disconnected);
}

template<class M, bool V1> static void run_seq(Reconf how, bool withFrom2)
{
    QXmppClient *client = reinterpret_cast<QXmppClient *>(clientStorage);
    QXmppClient *client2 = reinterpret_cast<QXmppClient *>(clientStorage2);
    Account a; a.make(client);
    Account b; b.draw();
    M mgr;
    mgr.QXmppClientExtension::setClient(client);    // what QXmppClient::addExtension does with the extension
    vp_assert(mgr.client() == client, "C11 seq: the manager is registered with its client");
    Calib c;
    if constexpr (V1) {
        QXmppMessage probe; mgr.messageSent(probe); c.sentIdx = int(vp_c11_sigidx(0)); vp_c11_reset(); mgr.messageReceived(probe); c.recvIdx = int(vp_c11_sigidx(0)); vp_c11_reset();
        vp_assert(c.sentIdx != c.recvIdx, "C11 V1 messageSent and messageReceived are distinct signals");
    }
    maybeConnected(client);                          // session of account A
    // ---- call 1 under account A ----
    {
        Tree1 t1; t1.build(true);
        bool ret1 = call(mgr, t1.outer.el);
        oracle(t1, a.bare, ret1, V1, &mgr, client, c.sentIdx, c.recvIdx, false);
        vp_c11_reset();
    }
    // ---- the account changes (application, or the stream itself: bind / SASL 2 results call configuration().setJid / setUser ...) ----
    maybeDisconnected(client);
    QXmppClient *cur = client;
    if (how == R_SET) {
        client->configuration().setUser(b.user); client->configuration().setDomain(b.domain); client->configuration().setResource(b.resource);
    } else if (how == R_ASSIGN) {
        b.cfg.setUser(b.user); b.cfg.setDomain(b.domain); b.cfg.setResource(b.resource);
        client->configuration() = b.cfg;
    } else {
        b.cfg.setUser(b.user); b.cfg.setDomain(b.domain); b.cfg.setResource(b.resource);
        vp_c11_setup2(client2, &b.cfg);
        mgr.QXmppClientExtension::setClient(nullptr);   // QXmppClient::removeExtension
        mgr.QXmppClientExtension::setClient(client2);   // other.addExtension
        cur = client2;
    }
    maybeConnected(cur);                             // session of account B
    // ---- call 2 under account B ----
    Tree t2; t2.build(withFrom2);
    bool ret2 = call(mgr, t2.outer.el);
    oracle(t2, b.bare, ret2, V1, &mgr, cur, c.sentIdx, c.recvIdx, true);
}

extern "C" void h_seq_v2_set() { run_seq<QXmppCarbonManagerV2, false>(R_SET, true); }
extern "C" void h_seq_v2_set_nofrom() { run_seq<QXmppCarbonManagerV2, false>(R_SET, false); }
extern "C" void h_seq_v2_assign() { run_seq<QXmppCarbonManagerV2, false>(R_ASSIGN, true); }
extern "C" void h_seq_v2_move() { run_seq<QXmppCarbonManagerV2, false>(R_MOVE, true); }
extern "C" void h_seq_v1_set() { run_seq<QXmppCarbonManager, true>(R_SET, true); }
extern "C" void h_seq_v1_set_nofrom() { run_seq<QXmppCarbonManager, true>(R_SET, false); }
extern "C" void h_seq_v1_assign() { run_seq<QXmppCarbonManager, true>(R_ASSIGN, true); }
extern "C" void h_seq_v1_move() { run_seq<QXmppCarbonManager, true>(R_MOVE, true); }
