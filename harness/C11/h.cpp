// C11 - carbon copies are unwrapped only when the outer stanza comes from the own bare JID; what is delivered is the inner
// <message xmlns='jabber:client'/> under <forwarded xmlns='urn:xmpp:forward:0'/> under the carbon element, flagged as forwarded.
// REAL code: QXmppCarbonManagerV2::handleStanza, QXmppCarbonManager::handleStanza, QXmpp::Private::firstChildElement,
// QXmppClientExtension::client/injectMessage, the moc-generated signal bodies of QXmppCarbonManager.
// everything QXmppClientExtension.h includes comes first (the access hack must not reach libstdc++ / Qt headers)
#include "QXmppDiscoveryIq.h"
#include "QXmppExtension.h"
#include "QXmppLogger.h"
#include <memory>
#define private public
#define protected public
#include "QXmppClientExtension.h"
#include "QXmppCarbonManager.h"
#include "QXmppCarbonManagerV2.h"
#undef private
#undef protected
#include "QXmppClient.h"
#include "QXmppConfiguration.h"
#include "QXmppMessage.h"
#include "QXmppE2eeMetadata.h"
#include <QDomElement>
#include <optional>
#include "vp_harness.h"
#include "vp_dom.h"
#include "vp_object.h"
// the real moc output of the build (signal bodies, staticMetaObject); generated files stay in /repo/_build (-I/repo/_build/src)
#include "QXmppQt5_autogen/7EM65HM6UG/moc_QXmppCarbonManager.cpp"
// (A) the managers are built by their REAL constructors and destroyed by their real destructors; the vtables / meta objects of the
// class chain QXmppCarbonManager[V2] < QXmppClientExtension < QXmppLoggable come from the real moc output too
#include "QXmppQt5_autogen/7EM65HM6UG/moc_QXmppCarbonManagerV2.cpp"
#include "QXmppQt5_autogen/7EM65HM6UG/moc_QXmppClientExtension.cpp"
#include "QXmppQt5_autogen/CZ4SVKUTXB/moc_QXmppLogger.cpp"

extern "C" {
void vp_c11_setup(QXmppClient *client, const QXmppConfiguration *cfg);
void vp_c11_compose_bare(QString *out, const QString *user, const QString *domain);
unsigned vp_c11_ndel(); void vp_c11_reset();
unsigned vp_c11_kind(unsigned i);            // 1 = QXmppClient::injectMessage, 2 = signal emission
void *vp_c11_target(unsigned i);             // client (inject) / sender (signal)
const QMetaObject *vp_c11_meta(unsigned i); unsigned vp_c11_sigidx(unsigned i);
void vp_c11_parsed(unsigned i, QDomElement *out);   // element handed to QXmppMessage::parse (null if none)
unsigned vp_c11_nparse(unsigned i); bool vp_c11_carbon(unsigned i); bool vp_c11_msg_alive(unsigned i);
void vp_dom_truncate(QDomElement *el, unsigned n);
void vp_c11_pick_tag(QString *out, unsigned idx); void vp_c11_pick_ns(QString *out, unsigned idx);
bool vp_qstring_eq(const QString *a, const QString *b);
}

#ifndef C11_N1
#define C11_N1 3   // children of the outer stanza
#endif
#ifndef C11_N2
#define C11_N2 2   // children of each of them
#endif
#ifndef C11_N3
#define C11_N3 2   // children of each of those
#endif
#ifndef C11_STRLEN
#define C11_STRLEN 6   // outer/inner 'from': 0..6 arbitrary UTF-16 units (user <= 2, '@', domain <= 3 and its look-alikes fit)
#endif

// Account identity: REAL QXmppConfiguration built with the real setters from a symbolic user (0..2 units), domain (1..3 units) and
// resource (0..2 units); user and domain contain neither '@' nor '/'.  `bare` is the own bare JID composed by the oracle's side.
static bool jidPartOk(const QString &s) { for (int i = 0; i < s.size(); i++) if (s.at(i) == u'@' || s.at(i) == u'/') return false; return true; }
#ifndef C11_ULEN
#define C11_ULEN 2   // user: 0..2 units
#endif
#ifndef C11_DLEN
#define C11_DLEN 3   // domain: 1..3 units
#endif
struct Account {
    QXmppConfiguration cfg; QString user, domain, resource, bare;
    void draw()   // an arbitrary account identity of the bound + its bare JID as the oracle composes it
    {
        user = vpSymString(C11_ULEN); domain = vpSymStringNonEmpty(C11_DLEN); resource = vpSymString(2);
        vp_assume(jidPartOk(user) && jidPartOk(domain));
        vp_c11_compose_bare(&bare, &user, &domain);
    }
    void make(QXmppClient *client)
    {
        draw();
        cfg.setUser(user); cfg.setDomain(domain); cfg.setResource(resource);
        vp_c11_setup(client, &cfg);
    }
};

enum { T_MESSAGE, T_SENT, T_RECEIVED, T_FORWARDED, T_BODY, T_OTHER, T_MESSAGES, NTAG };   // NTAG as an index: empty string
enum { NS_CARBONS, NS_FORWARD, NS_CLIENT, NS_OTHER, NS_INHERIT, NNS };

struct Node {
    unsigned tag, ns, eff;   // eff = namespace in effect (own declaration or inherited)
    QDomElement el;
    void make(const Node *parent)
    {
        tag = vp_u8(); vp_assume(tag < NTAG);
        ns = vp_u8(); vp_assume(ns < NNS);
        eff = (ns == NS_INHERIT && parent) ? parent->eff : ns;   // eff == NS_INHERIT: in no namespace at all
        // tag: message|sent|received|forwarded|body|private|messages; xmlns: urn:xmpp:carbons:2|urn:xmpp:forward:0|jabber:client|urn:xmpp:carbons:1|none
        QString t, n; vp_c11_pick_tag(&t, tag); vp_c11_pick_ns(&n, ns);
        vp_dom_new(&el, &t, &n);
    }
};
// dimensions are template parameters so that a sequence harness can use a smaller tree for its first stanza; Tree = the default size
template<int TN1, int TN2, int TN3> struct TreeT {
    Node outer, l1[TN1], l2[TN1][TN2], l3[TN1][TN2][TN3];
    unsigned n1, n2[TN1], n3[TN1][TN2];
    bool hasFrom; QString from;        // outer 'from' attribute (absent / 0..4 arbitrary UTF-16 units)
    // withFrom: the outer stanza has a 'from' attribute (its own instance, so that the attribute value is never a symbolic choice
    // between a model string and Qt's static null string - that mix defeats constant propagation in the string model)
    void build(bool withFrom)
    {
        const QString fromName = QStringLiteral("from");
        outer.make(nullptr);
        hasFrom = withFrom; from = vpSymString(C11_STRLEN);
        if (hasFrom) vp_dom_set_attr(&outer.el, &fromName, &from);
        const bool innerHasFrom = true; QString innerFrom = vpSymString(C11_STRLEN);   // 'from' of every wrapper / inner element
        for (int i = 0; i < TN1; i++) {
            l1[i].make(&outer); vp_dom_append(&outer.el, &l1[i].el);
            if (innerHasFrom) vp_dom_set_attr(&l1[i].el, &fromName, &innerFrom);
            for (int j = 0; j < TN2; j++) {
                l2[i][j].make(&l1[i]); vp_dom_append(&l1[i].el, &l2[i][j].el);
                if (innerHasFrom) vp_dom_set_attr(&l2[i][j].el, &fromName, &innerFrom);
                for (int k = 0; k < TN3; k++) {
                    l3[i][j][k].make(&l2[i][j]); vp_dom_append(&l2[i][j].el, &l3[i][j][k].el);
                    if (innerHasFrom) vp_dom_set_attr(&l3[i][j][k].el, &fromName, &innerFrom);
                }
            }
        }
        // symbolic child counts (0..N): absent children
        n1 = vp_u8(); vp_assume(n1 <= TN1); vp_dom_truncate(&outer.el, n1);
        for (int i = 0; i < TN1; i++) {
            n2[i] = vp_u8(); vp_assume(n2[i] <= TN2); vp_dom_truncate(&l1[i].el, n2[i]);
            for (int j = 0; j < TN2; j++) { n3[i][j] = vp_u8(); vp_assume(n3[i][j] <= TN3); vp_dom_truncate(&l2[i][j].el, n3[i][j]); }
        }
    }
};
typedef TreeT<C11_N1, C11_N2, C11_N3> Tree;

static char clientStorage[16];

// Oracle shared by both manager generations; the environment logged the deliveries made while the stanza `t` was handled.
// needDelivery: end the run unless the stanza was delivered (last call of a harness: the witness then proves the acceptance path reachable)
template<int TN1, int TN2, int TN3> static void oracle(const TreeT<TN1, TN2, TN3> &t, const QString &bare, bool ret, bool v1, void *mgr, QXmppClient *client, int sentIdx, int recvIdx, bool needDelivery = true)
{
    unsigned nd = vp_c11_ndel();
    vp_assert(nd <= 1, "C11 a stanza leads to at most one delivered message");
    vp_assert(ret == (nd == 1), "C11 handleStanza returns true exactly when it delivered the unwrapped message, otherwise nothing is emitted");
    if (nd == 1) {
        QString effFrom = t.hasFrom ? t.from : QString();
        vp_assert(vp_qstring_eq(&effFrom, &bare), "C11 carbon unwrapped only if the outer 'from' equals the configured bare JID exactly");
        vp_assert(t.outer.tag == T_MESSAGE, "C11 carbon unwrapped only from a <message/> stanza");
        // what was parsed: exactly one element, and it is message@jabber:client < forwarded@urn:xmpp:forward:0 < sent|received@urn:xmpp:carbons:2 < outer
        vp_assert(vp_c11_nparse(0) == 1, "C11 the delivered message was parsed from exactly one element");
        vp_assert(vp_c11_carbon(0), "C11 the delivered message is flagged as carbon-forwarded");
        vp_assert(vp_c11_msg_alive(0), "C11 the delivered message object is alive when delivered");
        QDomElement parsed; vp_c11_parsed(0, &parsed);
        bool found = false, wasSent = false;
        for (int i = 0; i < TN1; i++) for (int j = 0; j < TN2; j++) for (int k = 0; k < TN3; k++) {
            if (parsed == t.l3[i][j][k].el) {
                found = true;
                const Node &c = t.l1[i], &f = t.l2[i][j], &m = t.l3[i][j][k];
                vp_assert(unsigned(i) < t.n1 && unsigned(j) < t.n2[i] && unsigned(k) < t.n3[i][j], "C11 the parsed element is part of the stanza");
                vp_assert(m.tag == T_MESSAGE && m.eff == NS_CLIENT, "C11 the parsed element is a <message xmlns='jabber:client'/>");
                vp_assert(f.tag == T_FORWARDED && f.eff == NS_FORWARD, "C11 the parsed message sits directly in <forwarded xmlns='urn:xmpp:forward:0'/>");
                vp_assert((c.tag == T_SENT || c.tag == T_RECEIVED) && c.eff == NS_CARBONS, "C11 the forwarded element sits directly in <sent/> or <received/> of urn:xmpp:carbons:2");
                wasSent = c.tag == T_SENT;
            }
        }
        vp_assert(found, "C11 the parsed element is the inner message (third level below the stanza), not the stanza itself or a wrapper");
        if (v1) {
            vp_assert(vp_c11_kind(0) == 2 && vp_c11_target(0) == mgr && vp_c11_meta(0) == &QXmppCarbonManager::staticMetaObject, "C11 V1 delivers through its own signal");
            vp_assert(int(vp_c11_sigidx(0)) == (wasSent ? sentIdx : recvIdx), "C11 V1 emits messageSent for <sent/> and messageReceived for <received/>");
        } else {
            vp_assert(vp_c11_kind(0) == 1 && vp_c11_target(0) == client, "C11 V2 delivers by injecting into its client");
        }
    }
    // coverage: with a 'from' attribute the harness end (witness) is reachable only through a delivery, so a pass is never vacuous
    // w.r.t. acceptance; without the attribute nothing can be delivered (the own bare JID is never empty)
    if (t.hasFrom && needDelivery) vp_assume(nd == 1);
}

static void run_v2(bool withFrom)
{
    QXmppClient *client = reinterpret_cast<QXmppClient *>(clientStorage);
    Account acct; acct.make(client); const QString &bare = acct.bare;
    QXmppCarbonManagerV2 mgr; mgr.m_client = client;   // real constructor chain (members initialised the way the library does)
    Tree t; t.build(withFrom);
    std::optional<QXmppE2eeMetadata> e2ee;
    bool ret = mgr.QXmppCarbonManagerV2::handleStanza(t.outer.el, e2ee);
    oracle(t, bare, ret, false, &mgr, client, -1, -1);
}

static void run_v1(bool withFrom)
{
    QXmppClient *client = reinterpret_cast<QXmppClient *>(clientStorage);
    Account acct; acct.make(client); const QString &bare = acct.bare;
    QXmppCarbonManager mgr; mgr.m_client = client;   // real constructor chain
    // calibrate the signal indices through the real moc code
    int sentIdx, recvIdx;
    { QXmppMessage probe; mgr.messageSent(probe); sentIdx = int(vp_c11_sigidx(0)); vp_c11_reset(); mgr.messageReceived(probe); recvIdx = int(vp_c11_sigidx(0)); vp_c11_reset(); }
    vp_assert(sentIdx != recvIdx, "C11 V1 messageSent and messageReceived are distinct signals");
    Tree t; t.build(withFrom);
    bool ret = mgr.QXmppCarbonManager::handleStanza(t.outer.el);
    oracle(t, bare, ret, true, &mgr, client, sentIdx, recvIdx);
}

extern "C" void h_v2() { run_v2(true); }
extern "C" void h_v2_nofrom() { run_v2(false); }
extern "C" void h_v1() { run_v1(true); }
extern "C" void h_v1_nofrom() { run_v1(false); }

// Helper lemma: QXmpp::Private::firstChildElement(el, tag, xmlns) returns the FIRST child element whose tag matches (or any tag
// when the tag view is empty) and whose namespace matches (or any when empty); a null element when there is none / el is null.
#include "QXmppUtils_p.h"
extern "C" void h_first_child()
{
    Node parent, ch[3]; parent.make(nullptr);
    for (int i = 0; i < 3; i++) { ch[i].make(&parent); vp_dom_append(&parent.el, &ch[i].el); }
    unsigned n = vp_u8(); vp_assume(n <= 3); vp_dom_truncate(&parent.el, n);
    unsigned qt = vp_u8(), qn = vp_u8(); vp_assume(qt <= NTAG && qn <= NS_INHERIT);   // NTAG / NS_INHERIT: empty view = wildcard
    QString ts, nss; vp_c11_pick_tag(&ts, qt); vp_c11_pick_ns(&nss, qn);
    bool nullParent = vp_bool();
    QDomElement r = QXmpp::Private::firstChildElement(nullParent ? QDomElement() : parent.el, ts, nss);
    int exp = -1;
    for (int i = 2; i >= 0; i--)
        if (!nullParent && unsigned(i) < n && (qt == NTAG || ch[i].tag == qt) && (qn == NS_INHERIT || ch[i].eff == qn)) exp = i;
    if (exp < 0) vp_assert(r.isNull(), "C11 firstChildElement: null when no child matches");
    for (int i = 0; i < 3; i++) if (exp == i) vp_assert(r == ch[i].el, "C11 firstChildElement: returns the first child matching tag and namespace");
}
