/* C11 environment: what the carbon managers' handleStanza() touches outside QXmppCarbonManager*.cpp / QXmppUtils.cpp /
   QXmppClientExtension.cpp.  Needs qt_core.c, qt_dom.c, qt_object.c before it (one translation unit).
   - QXmppClient::configuration().jidBare(): the configured bare JID is a harness-chosen (symbolic) QString.
   - QXmppMessage: ctor/dtor/parse/setCarbonForwarded record into a ghost block hung at the message's d-pointer slot:
     WHICH element was parsed (node identity), how often, and the carbon-forwarded flag.  Message content is C01/C17's subject.
   - delivery = QXmppClient::injectMessage (V2) or emission of a QXmppCarbonManager signal (V1, through the real moc code and
     QMetaObject::activate of qt_object.c): snapshot of the message ghost at that moment. */
struct c11_msg { struct dnode *parsed; uint32_t nparse; uint8_t carbon; uint8_t alive; };
#define C11_MSG(m) (*(struct c11_msg**)((char*)(m) + 16))
static void c11_msg_init(char *self) { struct c11_msg *g = malloc(sizeof(struct c11_msg)); ASSUME(g != 0); g->parsed = 0; g->nparse = 0; g->carbon = 0; g->alive = 1; *(char**)(self + 8) = 0; C11_MSG(self) = g; }
void _ZN12QXmppMessageC1ERK7QStringS2_S2_S2_(char *self, char *from, char *to, char *body, char *thread) { c11_msg_init(self); }
void _ZN12QXmppMessageC2ERK7QStringS2_S2_S2_(char *self, char *from, char *to, char *body, char *thread) { c11_msg_init(self); }
void _ZN12QXmppMessageD1Ev(char *self) { ASSERT(C11_MSG(self)->alive, "QXmppMessage destroyed twice"); C11_MSG(self)->alive = 0; }
void _ZN12QXmppMessageD2Ev(char *self) { ASSERT(C11_MSG(self)->alive, "QXmppMessage destroyed twice"); C11_MSG(self)->alive = 0; }
void _ZN12QXmppMessage5parseERK11QDomElement(char *self, char *el) { struct c11_msg *g = C11_MSG(self); g->parsed = DN(el); g->nparse++; }
void _ZN12QXmppMessage5parseERK11QDomElementN5QXmpp7SceModeE(char *self, char *el, uint32_t mode) { struct c11_msg *g = C11_MSG(self); g->parsed = DN(el); g->nparse++; }
void _ZN12QXmppMessage18setCarbonForwardedEb(char *self, uint8_t on) { C11_MSG(self)->carbon = on ? 1 : 0; }
/* QString members missing in models/qt_core.c (generally useful) */
uint8_t _ZNK7QString10startsWithERKS_N2Qt15CaseSensitivityE(char *self, char *o, uint32_t cs) { QAD *a = *(QAD**)self, *b = *(QAD**)o; ASSERT(cs == 1, "case-insensitive compare not modelled");
  return _ZN9QtPrivate10startsWithE11QStringViewS0_N2Qt15CaseSensitivityE(a->f1, (char*)qs_chars(a), b->f1, (char*)qs_chars(b), cs); }
uint8_t _ZNK7QString8endsWithERKS_N2Qt15CaseSensitivityE(char *self, char *o, uint32_t cs) { QAD *a = *(QAD**)self, *b = *(QAD**)o; ASSERT(cs == 1, "case-insensitive compare not modelled");
  return _ZN9QtPrivate8endsWithE11QStringViewS0_N2Qt15CaseSensitivityE(a->f1, (char*)qs_chars(a), b->f1, (char*)qs_chars(b), cs); }
/* QStringBuilder piece `QConcatenable<QString>::appendTo(const QString &a, QChar *&out)` (Qt inline: memcpy(out, a.constData(), 2*a.size()); out += a.size()).
   cbmc's library memcpy with a symbolic size havocs the destination block (spurious, non-replayable counterexamples seen with the
   real jidBare() = user + '@' + domain).  Same contract with typed unit-by-unit writes into the destination model block. */
static void vpl_c11_append(QAD *blk, uint32_t off, QAD *s) { uint32_t n = s->f1; for (uint32_t i = 0; i < (s->f3 == QS_OFF ? ((struct qs*)s)->hint : s->f1); i++) { if (i >= n) break; SD(blk)[off + i] = qs_chars(s)[i]; } }
void _ZN13QConcatenableI7QStringE8appendToERKS0_RP5QChar(char *a, char *out) { QAD *s = *(QAD**)a; uint16_t *p = *(uint16_t**)out; uint32_t n = s->f1;
#ifdef __CPROVER__
  ASSERT(__CPROVER_POINTER_OFFSET(p) >= QS_OFF, "QStringBuilder: destination is not a model string block");
  vpl_c11_append((QAD*)((char*)p - __CPROVER_POINTER_OFFSET(p)), (uint32_t)((__CPROVER_POINTER_OFFSET(p) - QS_OFF) / 2), s);
#else
  for (uint32_t i = 0; i < n; i++) p[i] = qs_chars(s)[i];
#endif
  *(uint16_t**)out = p + n; }
/* logging: no-op (DESIGN 2.5) */
void _ZN13QXmppLoggable10logMessageEN11QXmppLogger11MessageTypeERK7QString(char *self, uint32_t type, char *msg) { }
/* ---- client / configuration ---- */
/* the client's configuration is a REAL QXmppConfiguration object (src/client/QXmppConfiguration.cpp is linked) built by the harness
   with the real setters; user()/domain()/resource()/jid()/jidBare() are the real getters */
static char *c11_client; static char *c11_cfg; static char *c11_client2; static char *c11_cfg2;   /* second client: seq_* (manager moved to another client) */
void vp_c11_setup(char *client, char *cfg) { c11_client = client; c11_cfg = cfg; }
void vp_c11_setup2(char *client, char *cfg) { c11_client2 = client; c11_cfg2 = cfg; }
char* _ZN11QXmppClient13configurationEv(char *self) { if (c11_client2 != 0 && self == c11_client2) return c11_cfg2; ASSERT(self == c11_client, "C11 env: configuration() of an unknown client"); return c11_cfg; }
/* own bare JID as the oracle composes it: user empty ? domain : user '@' domain (fresh block, written unit by unit) */
#define C11_BARECAP 6
void vp_c11_compose_bare(char *out, char *user, char *domain) { QAD *u = *(QAD**)user, *d = *(QAD**)domain; uint32_t ul = u->f1, dl = d->f1; ASSUME(ul <= 2 && dl <= 3);
  if (ul == 0) { *(QAD**)out = qad_ref(d); return; }
  QAD *r = qs_new(ul + 1 + dl, C11_BARECAP); const uint16_t *U = qs_chars(u), *D = qs_chars(d);
  for (uint32_t i = 0; i < C11_BARECAP; i++) { uint16_t c = 0; if (i < ul) c = U[i < 2 ? i : 0]; else if (i == ul) c = '@'; else if (i - ul - 1 < dl) c = D[i - ul - 1 < 3 ? i - ul - 1 : 0]; SD(r)[i] = c; }
  *(QAD**)out = r; }
/* value types the configuration object merely carries along: opaque 8-byte handles (as in harness/C05/models.c) */
void _ZN13QNetworkProxyC1Ev(char *self) { *(char**)self = 0; }
void _ZN13QNetworkProxyC1ERKS_(char *self, char *o) { *(char**)self = *(char**)o; }
void _ZN13QNetworkProxyD1Ev(char *self) { }
void _ZN15QSslCertificateC1ERKS_(char *self, char *o) { *(char**)self = *(char**)o; }
void _ZN15QSslCertificateD1Ev(char *self) { }
void _ZN9QDateTimeC1Ev(char *self) { *(char**)self = 0; }
void _ZN9QDateTimeC1ERKS_(char *self, char *o) { *(char**)self = *(char**)o; }
void _ZN9QDateTimeC1EOS_(char *self, char *o) { *(char**)self = *(char**)o; *(char**)o = 0; }
void _ZN9QDateTimeD1Ev(char *self) { }
/* ---- deliveries ---- */
struct c11_del { uint8_t kind; char *target; char *mo; uint32_t sigidx; struct dnode *parsed; uint32_t nparse; uint8_t carbon, alive; };
#define C11_DELCAP 3
static struct c11_del c11_dl[C11_DELCAP]; static uint32_t c11_ndel;
static void c11_deliver(uint8_t kind, char *target, char *mo, uint32_t idx, char *msg) { ASSERT(c11_ndel < C11_DELCAP, "C11 env: delivery log full"); ASSUME(c11_ndel < C11_DELCAP);
  struct c11_del *d = &c11_dl[c11_ndel++]; struct c11_msg *g = C11_MSG(msg); d->kind = kind; d->target = target; d->mo = mo; d->sigidx = idx; d->parsed = g->parsed; d->nparse = g->nparse; d->carbon = g->carbon; d->alive = g->alive; }
uint8_t _ZN11QXmppClient13injectMessageEO12QXmppMessage(char *self, char *msg) { c11_deliver(1, self, 0, 0, msg); return vp_bool(); }
void c11_on_signal(char *sender, char *mo, uint32_t idx, char **argv) { c11_deliver(2, sender, mo, idx, argv[1]); }
uint32_t vp_c11_ndel(void) { return c11_ndel; }
void vp_c11_reset(void) { c11_ndel = 0; vp_sig_reset(); }
uint32_t vp_c11_kind(uint32_t i) { ASSUME(i < C11_DELCAP); return c11_dl[i].kind; }
char* vp_c11_target(uint32_t i) { ASSUME(i < C11_DELCAP); return c11_dl[i].target; }
char* vp_c11_meta(uint32_t i) { ASSUME(i < C11_DELCAP); return c11_dl[i].mo; }
uint32_t vp_c11_sigidx(uint32_t i) { ASSUME(i < C11_DELCAP); return c11_dl[i].sigidx; }
void vp_c11_parsed(uint32_t i, char *outEl) { ASSUME(i < C11_DELCAP); DN(outEl) = c11_dl[i].parsed; }
uint32_t vp_c11_nparse(uint32_t i) { ASSUME(i < C11_DELCAP); return c11_dl[i].nparse; }
uint8_t vp_c11_carbon(uint32_t i) { ASSUME(i < C11_DELCAP); return c11_dl[i].carbon; }
uint8_t vp_c11_msg_alive(uint32_t i) { ASSUME(i < C11_DELCAP); return c11_dl[i].alive; }
/* ---- symbolic names: a FRESH block per element whose content is selected from a constant table by a symbolic index
   (pointers stay concrete, only characters and length are symbolic: comparisons become plain bit-vector formulas) ---- */
#define C11_NAMELEN 18
#define C11_NTAG 8
#define C11_NNS 5
static const uint8_t c11_tags[C11_NTAG][C11_NAMELEN + 1] = { "message", "sent", "received", "forwarded", "body", "private", "messages", "" };
static const uint8_t c11_taglen[C11_NTAG] = { 7, 4, 8, 9, 4, 7, 8, 0 };
static const uint8_t c11_nss[C11_NNS][C11_NAMELEN + 1] = { "urn:xmpp:carbons:2", "urn:xmpp:forward:0", "jabber:client", "urn:xmpp:carbons:1", "" };
static const uint8_t c11_nslen[C11_NNS] = { 18, 18, 13, 18, 0 };
void vp_c11_pick_tag(char *out, uint32_t idx) { ASSUME(idx < C11_NTAG); QAD *d = qs_new(c11_taglen[idx], 9); for (uint32_t i = 0; i < 9; i++) SD(d)[i] = c11_tags[idx][i]; *(QAD**)out = d; }
void vp_c11_pick_ns(char *out, uint32_t idx) { ASSUME(idx < C11_NNS); QAD *d = qs_new(c11_nslen[idx], C11_NAMELEN); for (uint32_t i = 0; i < C11_NAMELEN; i++) SD(d)[i] = c11_nss[idx][i]; *(QAD**)out = d; }
/* logging cut: the text of V2's "carbon copy from attacker" notice is not built (QStringBuilder<QStringBuilder<char16_t[53],QString>,char16_t[31]>::convertTo<QString>) */
void _ZNK14QStringBuilderIS_IA53_Ds7QStringEA31_DsE9convertToIS1_EET_v(char *ret, char *self) { *(QAD**)ret = SHARED_NULL; }
/* ---- DOM helper: keep only the first n children (children are appended at concrete indices, the count is symbolic) ---- */
void vp_dom_truncate(char *el, uint32_t n) { struct dnode *d = DN(el); ASSUME(n <= d->nch); for (uint32_t i = d->nch; i < DOM_MAXCH; i++) d->ch[i] = 0; /* unused slots: definite null, so sibling walks end for symex too */ d->nch = n; }
