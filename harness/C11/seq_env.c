/* C11 seq_*: what QXmppCarbonManagerV2::enableCarbons() touches beyond c11_env.c.
   The enable request `CarbonEnableIq()` is a QXmppIq subclass defined in QXmppCarbonManagerV2.cpp (real code: its constructor sets the
   vptr); the QXmppIq base part (src/base/QXmppIq.cpp, QXmppStanza.cpp: not linked) is never read in the run - the harness-side
   QXmppClient::sendIq only counts the request - so base constructor / setType / destructor are no-ops on the caller's storage. */
void _ZN7QXmppIqC2ENS_4TypeE(char *self, uint32_t type) { }
void _ZN7QXmppIqC1ENS_4TypeE(char *self, uint32_t type) { }
void _ZN7QXmppIq7setTypeENS_4TypeE(char *self, uint32_t type) { }
void _ZN7QXmppIqD2Ev(char *self) { }
void _ZN7QXmppIqD1Ev(char *self) { }
/* ---- connections: captured (sender, signal = address of the moc signal body, receiver, slot member pointer, slot object) so that the
   harness can deliver a signal of the client to the slots the manager really connected; disconnect() removes matching entries
   (null signal / receiver / slot = wildcard, as in Qt).  Generally useful (same idea as harness/C03/m_common.c, plus disconnect). ---- */
#undef _ZN7QObject11connectImplEPKS_PPvS1_S3_PN9QtPrivate15QSlotObjectBaseEN2Qt14ConnectionTypeEPKiPK11QMetaObject
#undef _ZN7QObject14disconnectImplEPKS_PPvS1_S3_PK11QMetaObject
#define SEQ_MAXCONN 4
struct seq_conn { char *sender, *signal, *recv, *slotfn, *slotobj; uint8_t live; };
static struct seq_conn seq_cn[SEQ_MAXCONN]; static uint32_t seq_ncn;
void _ZN7QObject11connectImplEPKS_PPvS1_S3_PN9QtPrivate15QSlotObjectBaseEN2Qt14ConnectionTypeEPKiPK11QMetaObject(char *ret, char *sender, char *sig, char *recv, char *slot, char *slotobj, uint32_t type, char *types, char *mo) {
  ASSERT(seq_ncn < SEQ_MAXCONN, "connect model: too many connections"); ASSUME(seq_ncn < SEQ_MAXCONN);
  struct seq_conn *c = &seq_cn[seq_ncn++]; c->sender = sender; c->signal = *(char**)sig; c->recv = recv; c->slotfn = slot ? *(char**)slot : 0; c->slotobj = slotobj; c->live = 1;
  ASSERT(slot == 0 || ((char**)slot)[1] == 0, "connect model: slot member pointer with a this-adjustment");
  vp_nconnect++; *(char**)ret = slotobj; }
uint8_t _ZN7QObject14disconnectImplEPKS_PPvS1_S3_PK11QMetaObject(char *sender, char *sig, char *recv, char *slot, char *mo) { uint8_t any = 0; vp_ndisconnect++;
  for (uint32_t i = 0; i < SEQ_MAXCONN; i++) { struct seq_conn *c = &seq_cn[i]; if (i >= seq_ncn) break; if (!c->live || c->sender != sender) continue;
    if (sig && *(char**)sig != c->signal) continue; if (recv && recv != c->recv) continue; if (slot && *(char**)slot != c->slotfn) continue; c->live = 0; any = 1; }
  return any; }
uint32_t vp_seq_nconn(void) { return seq_ncn; }
uint8_t vp_seq_conn_live(uint32_t i) { return i < seq_ncn && seq_cn[i].live; }
char* vp_seq_conn_sender(uint32_t i) { ASSUME(i < SEQ_MAXCONN); return seq_cn[i].sender; }
char* vp_seq_conn_signal(uint32_t i) { ASSUME(i < SEQ_MAXCONN); return seq_cn[i].signal; }
char* vp_seq_conn_receiver(uint32_t i) { ASSUME(i < SEQ_MAXCONN); return seq_cn[i].recv; }
char* vp_seq_conn_slot(uint32_t i) { ASSUME(i < SEQ_MAXCONN); return seq_cn[i].slotobj; }
char* vp_seq_conn_slotfn(uint32_t i) { ASSUME(i < SEQ_MAXCONN); return seq_cn[i].slotfn; }   /* member-function slot: first word of the member pointer (null for functors) */
