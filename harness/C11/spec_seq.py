# C11 seq_*: two handleStanza calls on ONE manager (real constructor / setClient / destructor) with a reconfiguration of the client in between
TUS = ['src/client/QXmppCarbonManagerV2.cpp', 'src/client/QXmppCarbonManager.cpp', 'src/client/QXmppClientExtension.cpp', 'src/base/QXmppUtils.cpp',
       'src/client/QXmppConfiguration.cpp', 'src/base/QXmppLogger.cpp']
MODELS = ['qt_core.c', 'qt_list.c', 'qt_dom.c', 'seq_pre.c', 'qt_object.c', 'c11_env.c', 'seq_env.c']
LB = {r'^_ZNSt6ranges14__copy_or_move': 100}
def tree(n1, n2, n3): return 'outer + %d children + %d grandchildren each + %d great-grandchildren each (%d elements)' % (n1, n2, n3, 1 + n1 + n1 * n2 + n1 * n2 * n3)
def bound(a, n, sl, ul, dl):
    return ('two stanzas: first a tree of ' + tree(*a) + ', second a tree of ' + tree(*n) + ', every tag from {message,sent,received,forwarded,body,private,messages}, every xmlns from '
            '{carbons:2, forward:0, jabber:client, carbons:1, inherited}, child counts 0..max, outer from <= %d arbitrary UTF-16 units (second stanza of *_nofrom: absent); '
            'accounts A and B independent (possibly equal): REAL QXmppConfiguration, user 0..%d units, domain 1..%d units, resource 0..2 units, user/domain without @ and /; '
            'V2: before each call the real enableCarbons() slot runs or not, with stream-management state in {none,new,resumed} and the bind2-carbons flag arbitrary') % (sl, ul, dl)
def I(name, b, **kw):
    d = dict(name=name, entry='h_' + name, unwind=14, timeout_s=300, mem_gb=6, cdefs={'VP_ACTIVATE_HOOK': 'c11_on_signal', 'QS_CAP': 20, 'DOM_MAXCH': 3, 'DOM_MAXATTR': 2}, bound=b); d.update(kw); return d
Q = dict(C11_N1=2, C11_N2=1, C11_N3=1, C11_STRLEN=4, C11_ULEN=1, C11_DLEN=2)
BQ = bound((1, 1, 1), (2, 1, 1), 4, 1, 2)
T = dict(C11_N1=3, C11_N2=2, C11_N3=2, SEQ_A1=2, SEQ_A2=1, SEQ_A3=1, C11_STRLEN=6, C11_ULEN=2, C11_DLEN=3)
BT = bound((2, 1, 1), (3, 2, 2), 6, 2, 3)
TH = dict(tiers=('thorough',))
NAMES = ['seq_v2_set', 'seq_v1_set', 'seq_v2_assign', 'seq_v2_move', 'seq_v1_assign', 'seq_v1_move', 'seq_v2_set_nofrom', 'seq_v1_set_nofrom']
GROUPS = [
    dict(name='seq', harness='seq_h.cpp', tus=TUS, models=MODELS, shadow_task=True, loop_bounds=LB, cxxdefs=Q,
         instances=[I('seq_v2_set', BQ), I('seq_v1_set', BQ), I('seq_v2_assign', BQ), I('seq_v2_move', BQ),
                    I('seq_v1_assign', BQ, **TH), I('seq_v1_move', BQ, **TH), I('seq_v2_set_nofrom', BQ, **TH), I('seq_v1_set_nofrom', BQ, **TH)]),
    dict(name='seq_big', harness='seq_h.cpp', tus=TUS, models=MODELS, shadow_task=True, loop_bounds=LB, cxxdefs=T,
         instances=[I(n + '_big', BT, entry='h_' + n, timeout_s=900, timeout_thorough_s=2700, mem_gb=12, **TH) for n in NAMES]),
]
BOUNDS = ['seq_* (quick size): ' + BQ, 'seq_*_big (thorough): ' + BT,
          'seq_*: exactly two stanzas per run; one reconfiguration between them; the client emits connected() at most once before each stanza and disconnected() at most once before the reconfiguration']
ASSUMPTIONS = [
    'seq_*: the manager is built by its REAL constructor (QXmppCarbonManager[V2] < QXmppClientExtension < QXmppLoggable(src/base/QXmppLogger.cpp) real; QObject base = models/qt_object.c), registered by the REAL QXmppClientExtension::setClient (what QXmppClient::addExtension / removeExtension call) and destroyed by its real destructor',
    'seq_*: QObject::connect / disconnect record / remove (sender, signal, receiver, slot object) entries (seq_env.c); a signal of the client, when emitted by the harness, calls the real QSlotObject of every live entry for that sender and signal (direct connection); whether a signal is emitted at all is arbitrary',
    'seq_*: QXmppClient::stream() / QXmppOutgoingClient::carbonManager() return harness objects (the real inline CarbonManager::setEnableViaBind2 / enabled run on them); QXmppClient::streamManagementState() and the enabled-via-bind2 flag are arbitrary at each connected(); QXmppClient::sendIq counts the request and returns a task that stays pending (QXmppTask / QXmppPromise = lean shadow, DESIGN 2.3); the QXmppIq base part of the enable request is not built (constructor / setType / destructor no-ops)',
    'seq_*: reconfiguration = real QXmppConfiguration::setUser / setDomain / setResource on the object QXmppClient::configuration() returns (what the stream does with a bind result), or real copy assignment of another QXmppConfiguration to it, or the manager is moved to a second client (own configuration) by setClient(nullptr) + setClient(other)',
]
OUTSIDE = [
    'seq_*: QXmppConfiguration::setJid (QString::split is not modelled); histories longer than two stanzas / more than one reconfiguration; queued connections and signal emissions re-entering handleStanza',
    'seq_*: the continuation of the enable-carbons IQ (it only writes log lines); QXmppCarbonManager::setCarbonsEnabled (V1 enable/disable IQ)',
    'seq_*: the oracle is the property\'s "only if": a stanza that is delivered must come from the CURRENT bare JID; that a genuine copy from the current account is never refused is not asserted (the witness of every instance proves that a delivery after the reconfiguration is possible)',
]
