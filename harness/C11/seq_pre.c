/* C11 seq_*: must come BEFORE qt_object.c in the group's model list.  qt_object.c only counts connect()/disconnect(); the sequence
   harness needs to deliver the client's signals to whatever slots the manager really connected (onRegistered), so seq_env.c supplies
   capturing versions under the real names and the counting ones of qt_object.c are renamed out of the way. */
#define _ZN7QObject11connectImplEPKS_PPvS1_S3_PN9QtPrivate15QSlotObjectBaseEN2Qt14ConnectionTypeEPKiPK11QMetaObject vp_qtobj_connectImpl_counting_only
#define _ZN7QObject14disconnectImplEPKS_PPvS1_S3_PK11QMetaObject vp_qtobj_disconnectImpl_counting_only
