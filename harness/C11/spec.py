TUS = ['src/client/QXmppCarbonManagerV2.cpp', 'src/client/QXmppCarbonManager.cpp', 'src/client/QXmppClientExtension.cpp', 'src/base/QXmppUtils.cpp', 'src/client/QXmppConfiguration.cpp', 'src/base/QXmppLogger.cpp']
MODELS = ['qt_core.c', 'qt_list.c', 'qt_dom.c', 'qt_object.c', 'c11_env.c']
BOUND = 'stanza tree: outer + 3 children + 2 grandchildren each + 2 great-grandchildren each (22 elements), every tag from {message,sent,received,forwarded,body,private,messages}, every xmlns from {carbons:2, forward:0, jabber:client, carbons:1, inherited}, child counts 0..max; outer from absent or <= 6 arbitrary UTF-16 units; account = REAL QXmppConfiguration with symbolic user (0..2 units), domain (1..3 units), resource (0..2 units), user/domain without @ and /'
BOUND_BIG = BOUND.replace('3 children + 2 grandchildren each + 2 great-grandchildren each (22 elements)', '3 children + 3 grandchildren each + 3 great-grandchildren each (40 elements)').replace('<= 6 arbitrary', '<= 8 arbitrary')
def I(name, entry, **kw):
    d = dict(name=name, entry=entry, unwind=14, timeout_s=600, mem_gb=8, cdefs={'VP_ACTIVATE_HOOK': 'c11_on_signal', 'QS_CAP': 20, 'DOM_MAXCH': 3, 'DOM_MAXATTR': 2}, bound=BOUND); d.update(kw); return d
SPEC = dict(
    property='C11',
    groups=[
        dict(name='carbon', harness='h.cpp', tus=TUS, models=MODELS, loop_bounds={r'^_ZNSt6ranges14__copy_or_move': 100},
             instances=[I('v2_tree', 'h_v2'), I('v1_tree', 'h_v1'), I('v2_nofrom', 'h_v2_nofrom'), I('v1_nofrom', 'h_v1_nofrom'), I('first_child', 'h_first_child', bound='parent (possibly null) with 0..3 children, tags/namespaces as above, query tag/namespace from the same tables or empty')]),
        dict(name='carbon_big', harness='h.cpp', tus=TUS, models=MODELS, loop_bounds={r'^_ZNSt6ranges14__copy_or_move': 100},
             cxxdefs={'C11_N1': 3, 'C11_N2': 3, 'C11_N3': 3, 'C11_STRLEN': 8},
             instances=[I(n + '_big', e, tiers=('thorough',), unwind=30, timeout_s=900, timeout_thorough_s=2700, mem_gb=12, bound=BOUND_BIG) for n, e in
                        [('v2_tree', 'h_v2'), ('v1_tree', 'h_v1'), ('v2_nofrom', 'h_v2_nofrom'), ('v1_nofrom', 'h_v1_nofrom')]]),
    ],
    bounds=[BOUND, 'thorough: ' + BOUND_BIG,
            'one handleStanza call per run from an arbitrary account identity of the bound (single step; the managers keep no state between stanzas)',
            'first_child: parent (possibly null) with 0..3 children, query tag/namespace from the tables or empty (wildcard)'],
    assumptions=['the manager is registered with a client (client() != nullptr); the account identity is a real QXmppConfiguration (src/client/QXmppConfiguration.cpp linked, default constructor + setUser/setDomain/setResource); user() / domain() / resource() / jid() / jidBare() are the real getters; the oracle composes the own bare JID itself (user empty ? domain : user@domain); domain non-empty; user and domain contain neither @ nor /',
                 'QConcatenable<QString>::appendTo (QStringBuilder piece, Qt inline memcpy of symbolic size) is a typed unit-by-unit copy model; QNetworkProxy/QSslCertificate/QDateTime are opaque 8-byte values carried by the configuration',
                 'QDomElement::attribute() of an absent attribute returns the empty default (Qt contract, DOM model)',
                 'children of an element are elements only (DOM model has no text/comment nodes between elements); namespaceURI() = own xmlns or the parent\'s',
                 'QXmppMessage::parse / setCarbonForwarded / constructor / destructor are recording models (WHICH element is parsed, flag value); message content is C01/C17\'s subject',
                 'QXmppClient::configuration() returns the harness-built configuration object; QXmppClient::injectMessage is a recording model returning an arbitrary bool',
                 'QMetaObject::activate records the emission (sender, meta object, signal index, argument snapshot); slots are not run; QXmppLoggable::logMessage is a no-op; V2\'s log text (QStringBuilder::convertTo) is not built',
                 'signal indices of messageSent/messageReceived are measured by calling the real moc-generated signal bodies before the stanza is handled'],
    outside=['e2ee metadata other than std::nullopt (the parameter is unused by V2)', 'the dispatch inside QXmppClient (StanzaPipeline/MessagePipeline) before and after the manager: handleStanza is called non-virtually on a manager built by its real constructor (QObject base: models/qt_object.c)',
             'what message handlers do with an injected message; content of the inner message (parse is cut)', 'composition of jidBare() from user/domain (QXmppConfiguration)',
             'case-insensitive or normalising comparisons (model asserts -> inconclusive if a change introduces them)', 'enabling carbons (IQ / bind2), onRegistered/onUnregistered',
             'trees deeper than 4 levels or wider than the bound; more than one carbon-namespace look-alike (urn:xmpp:carbons:1) and one tag look-alike (messages)'],
)
