TUS = ['src/client/QXmppCarbonManagerV2.cpp', 'src/client/QXmppCarbonManager.cpp', 'src/client/QXmppClientExtension.cpp', 'src/base/QXmppUtils.cpp']
MODELS = ['qt_core.c', 'qt_dom.c', 'qt_object.c', 'c11_env.c']
BOUND = 'stanza tree: outer + 3 children + 2 grandchildren each + 2 great-grandchildren each (22 elements), every tag from {message,sent,received,forwarded,body,private}, every xmlns from {carbons:2, forward:0, jabber:client, carbons:1, inherited}, child counts 0..max; outer from absent or <= 4 arbitrary UTF-16 units; configured bare JID <= 4 arbitrary units'
def I(name, entry, **kw):
    d = dict(name=name, entry=entry, unwind=14, timeout_s=600, mem_gb=8, cdefs={'VP_ACTIVATE_HOOK': 'c11_on_signal', 'QS_CAP': 20, 'DOM_MAXCH': 3, 'DOM_MAXATTR': 2}, bound=BOUND); d.update(kw); return d
SPEC = dict(
    property='C11',
    groups=[
        dict(name='carbon', harness='h.cpp', tus=TUS, models=MODELS, loop_bounds={r'^_ZNSt6ranges14__copy_or_move': 100},
             instances=[I('v2_tree', 'h_v2'), I('v1_tree', 'h_v1'), I('v2_nofrom', 'h_v2_nofrom'), I('v1_nofrom', 'h_v1_nofrom'), I('first_child', 'h_first_child', bound='parent (possibly null) with 0..3 children, tags/namespaces as above, query tag/namespace from the same tables or empty')]),
    ],
    bounds=[BOUND],
    assumptions=[],
    outside=[],
)
