TUS = ['src/base/QXmppIq.cpp', 'src/base/QXmppStanza.cpp', 'src/base/QXmppUtils.cpp']
B = 'table <= 2 pending requests; ids <= 2, JIDs <= 3 arbitrary UTF-16 units; '
def I(name, entry, cfg, bound, **kw):
    d = dict(name=name, entry='h_' + entry, unwind=5, timeout_s=300, mem_gb=6, cdefs={'VP_CFG': cfg}, bound=B + bound); d.update(kw); return d
# VP_CFG bits: 1 = continuation attached before the event (else after), 2/4/8 = type/id/from attribute present, 16/32 = outcome of the stream send
STANZA = [I('stanza_%s%s' % (n, 'e' if e else 'l'), 'stanza', c | e, 'one arbitrary top-level element (tag <= 3, type <= 6, id <= 2, from <= 3 units), attributes present: ' + n)
          for (n, c) in (('tif', 14), ('ti', 6), ('tf', 10), ('if', 12)) for e in (1, 0) if not (e == 0 and n in ('tf', 'if'))]
SEND = [I('send_packet_%s' % n, 'send_packet', m << 4, 'arbitrary id <= 2 / addressee <= 3 units incl. empty and duplicate; stream send ' + n) for (n, m) in (('ok', 0), ('fail', 1), ('pending', 2), ('pending_then_fail', 2 | 1 << 2 | 1 << 4), ('pending_then_ok', 2 | 2 << 2 | 1 << 4))] + \
       [I('send_iq_%s' % n, 'send_iq', m << 4, 'QXmppIq with arbitrary id / to (incl. empty), arbitrary own bare JID, arbitrary generated ids; stream send ' + n) for (n, m) in (('ok', 0), ('fail', 1))]
SPEC = dict(
    property='C07',
    groups=[
        dict(name='step', harness='h.cpp', tus=TUS, models=['qt_core.c', 'qt_list.c', 'qt_dom.c', 'models.c'], shadow_task=True,
             loop_bounds={r'^_ZNSt6ranges14__copy_or_move': 110},
             instances=STANZA + [
             ] + [I('%s_%s' % (n, 'e' if e else 'l'), 'session', e | k << 4, 'event ' + d) for (k, n, d) in
                  ((0, 'opened', 'onSessionOpened(arbitrary SessionBegin: resumed or not)'), (1, 'closed', 'onSessionClosed(canResume?)'), (2, 'cancelall', 'cancelAll()'), (3, 'destroy', '~QXmppOutgoingClient()'))
                  for e in (1, 0) if e or k == 0] + [
                 I('finish', 'finish', 1, 'finish(id, result) with arbitrary id'),
             ]),
        # own group: the continuation of OutgoingIqManager::sendIq must not be a dispatch candidate in the step group (see README note in c07_common.h)
        dict(name='send', harness='h.cpp', tus=TUS, models=['qt_core.c', 'qt_list.c', 'qt_dom.c', 'models.c'], shadow_task=True, cxxdefs={'VP_NO_WATCH': 1},
             loop_bounds={r'^_ZNSt6ranges14__copy_or_move': 110}, instances=SEND),
        dict(name='reenter', harness='h_reenter.cpp', tus=TUS, models=['qt_core.c', 'qt_list.c', 'qt_dom.c', 'models.c'], shadow_task=True,
             loop_bounds={r'^_ZNSt6ranges14__copy_or_move': 110},
             instances=[I('reenter_opened', 'reenter', 768 | 0 << 4, 'handler of a cancelled request re-sends under a fresh id during onSessionOpened(new session)'),
                        I('reenter_closed', 'reenter', 768 | 1 << 4, 'same during onSessionClosed(cannot resume)')]),
        dict(name='chain', harness='h_chain.cpp', tus=TUS, models=['qt_core.c', 'qt_list.c', 'qt_dom.c', 'models.c'], shadow_task=True,
             loop_bounds={r'^_ZNSt6ranges14__copy_or_move': 110},
             instances=[
                 I('chain_conv', 'chain', 1, 'chainIq with converter (QXmppClient::sendGenericIq), continuation before reply'),
                 I('chain_conv_l', 'chain', 0, 'chainIq with converter, continuation after reply'),
                 I('chain_typed', 'chain', 3, 'chainIq<variant<QXmppIq,QXmppError>>, continuation before reply'),
             ]),
    ],
    bounds=[], assumptions=[], outside=[],
)
