TUS = ['src/base/QXmppIq.cpp', 'src/base/QXmppStanza.cpp', 'src/base/QXmppUtils.cpp']
def I(name, **kw):
    d = dict(name=name, entry='h_' + name, unwind=5, timeout_s=120, mem_gb=6, bound='table <= 2 requests, ids <= 2 / JIDs <= 3 arbitrary UTF-16 units'); d.update(kw); return d
SPEC = dict(
    property='C07',
    groups=[
        dict(name='iq', harness='h.cpp', tus=TUS, models=['qt_core.c', 'qt_list.c', 'qt_dom.c', 'models.c'], shadow_task=True, cxxdefs={'VP_PROBES': 1},
             instances=[I('stanza_%d' % c, entry='h_stanza', cdefs={'VP_CFG': c}) for c in (15, 6)] + [I('p1', cdefs={'VP_CFG': 15}, timeout_s=60), I('p2', cdefs={'VP_CFG': 15}, timeout_s=60)]),
    ],
    bounds=[], assumptions=[], outside=[],
)
