TUS = ['src/base/QXmppIq.cpp', 'src/base/QXmppStanza.cpp', 'src/base/QXmppUtils.cpp']
B = 'table <= 2 pending requests; ids <= 2, JIDs <= 3 arbitrary UTF-16 units; '
def I(name, entry, cfg, bound, **kw):
    d = dict(name=name, entry='h_' + entry, unwind=5, timeout_s=300, mem_gb=6, cdefs={'VP_CFG': cfg}, bound=B + bound); d.update(kw); return d
# VP_CFG bits: 1 = continuation attached before the event (else after), 2/4/8 = type/id/from attribute present, 16/32 = outcome of the stream send
STANZA = [I('stanza_%s%s' % (n, 'e' if e else 'l'), 'stanza', c | e, 'one arbitrary top-level element (tag <= 3, type <= 6, id <= 2, from <= 3 units), attributes present: ' + n)
          for (n, c) in (('tif', 14), ('ti', 6), ('tf', 10), ('if', 12), ('t', 2), ('i', 4), ('none', 0)) for e in (1, 0)]
for i in STANZA:
    if i['name'] in ('stanza_tfl', 'stanza_ifl') or i['name'][7:-1] in ('t', 'i', 'none'): i['tiers'] = ('thorough',)
SEND = [I('send_packet_%s' % n, 'send_packet', m << 4, 'arbitrary id <= 2 / addressee <= 3 units incl. empty and duplicate; stream send ' + n) for (n, m) in (('ok', 0), ('fail', 1), ('pending', 2), ('pending_then_fail', 2 | 1 << 2 | 1 << 4), ('pending_then_ok', 2 | 2 << 2 | 1 << 4))] + \
       [I('send_iq_%s' % n, 'send_iq', m << 4, 'QXmppIq with arbitrary id / to (incl. empty), arbitrary own bare JID, arbitrary generated ids; stream send ' + n, tiers=(('quick', 'thorough') if m < 2 else ('thorough',))) for (n, m) in (('ok', 0), ('fail', 1), ('pending', 2))] + \
       [I('send_then_reply', 'send_then_reply', 256, 'two events: valid send (new id 2 units, pending ids 1 unit), then result/error reply with that id and arbitrary from <= 3 units')]
SPEC = dict(
    property='C07',
    groups=[
        dict(name='step', harness='h.cpp', tus=TUS, models=['qt_core.c', 'qt_list.c', 'qt_dom.c', 'models.c'], shadow_task=True,
             loop_bounds={r'^_ZNSt6ranges14__copy_or_move': 110},
             instances=STANZA + [
             ] + [I('%s_%s' % (n, 'e' if e else 'l'), 'session', e | k << 4, 'event ' + d, tiers=(('quick', 'thorough') if e or k == 0 else ('thorough',))) for (k, n, d) in
                  ((0, 'opened', 'onSessionOpened(arbitrary SessionBegin: resumed or not)'), (1, 'closed', 'onSessionClosed(canResume?)'), (2, 'cancelall', 'cancelAll()'), (3, 'destroy', '~QXmppOutgoingClient()'))
                  for e in (1, 0)] + [
                 I('finish', 'finish', 1, 'finish(id, result) with arbitrary id'),
             ]),
        # own group: the continuation of OutgoingIqManager::sendIq must not be a dispatch candidate in the step group (see README note in c07_common.h)
        dict(name='send', harness='h.cpp', tus=TUS, models=['qt_core.c', 'qt_list.c', 'qt_dom.c', 'models.c'], shadow_task=True, cxxdefs={'VP_NO_WATCH': 1},
             loop_bounds={r'^_ZNSt6ranges14__copy_or_move': 110}, instances=SEND),
        dict(name='reenter', harness='h_reenter.cpp', tus=TUS, models=['qt_core.c', 'qt_list.c', 'qt_dom.c', 'models.c'], shadow_task=True,
             loop_bounds={r'^_ZNSt6ranges14__copy_or_move': 110},
             instances=[I('reenter_cancelall', 'reenter', 768 | 2 << 4, 'same during cancelAll()', tiers=('thorough',)), I('reenter_opened', 'reenter', 768 | 0 << 4, 'handler of a cancelled request re-sends under a fresh id during onSessionOpened(new session)'),
                        I('reenter_closed', 'reenter', 768 | 1 << 4, 'same during onSessionClosed(cannot resume)')]),
        dict(name='chain', harness='h_chain.cpp', tus=TUS, models=['qt_core.c', 'qt_list.c', 'qt_dom.c', 'models.c'], shadow_task=True,
             loop_bounds={r'^_ZNSt6ranges14__copy_or_move': 110},
             instances=[
                 I('chain_conv', 'chain', 1, 'chainIq with converter (QXmppClient::sendGenericIq), continuation before reply'),
                 I('chain_conv_l', 'chain', 0, 'chainIq with converter, continuation after reply'),
                 I('chain_typed_l', 'chain', 2, 'chainIq<variant<QXmppIq,QXmppError>>, continuation after reply', tiers=('thorough',)),
                 I('chain_typed', 'chain', 3, 'chainIq<variant<QXmppIq,QXmppError>>, continuation before reply'),
             ]),
    ],
    bounds=[
        'single inductive steps: arbitrary valid request table with 0..2 pending requests (ids 1..2, recorded addressees 1..3 arbitrary UTF-16 units, ids distinct, promises unfinished, continuation attached before or after the event) and ONE event',
        'incoming element: tag <= 3 units (covers "iq" and any other), type <= 6 units (covers result/error/get/set/garbage) or absent, id <= 2 units or absent, from <= 3 units or absent/empty; error replies: no child elements (the <error/> payload only shapes the error value)',
        'send: id <= 2 units incl. empty and duplicate, addressee <= 3 units incl. empty, own bare JID <= 3 units incl. empty, generated UUIDs = arbitrary non-empty strings <= 2 units (may even collide); stream outcome in {sent, error at once, pending, pending then error, pending then success}',
        'send_packet_pending_then_*: id lengths fixed (new id 2 units, pending ids 1 unit, addressee 2 units) so that the request is valid by construction',
        're-entrancy (reenter_*): exactly one pending request whose handler issues one new request with a fresh id',
        'request table model capacity 3 (2 pending + 1 new)',
    ],
    assumptions=[
        'representation invariant of the pre-state (what start() establishes): ids non-empty and pairwise distinct, addressee non-empty, promise unfinished',
        'QXmppTask/QXmppPromise behave as their shadow (contract proved for the real classes by C13): continuation runs once with the value; a second finish() is reported as a failure by the shadow itself',
        'std::unordered_map<QString,IqState> behaves as the array-backed class-level model vp_iqmap.h (find/emplace/erase/clear/iteration; an element inserted during a running iteration may or may not be visited)',
        'StreamAckManager::send is cut: it reports success, an error, or nothing yet (C09 covers it); QXmppPacket serialisation is cut; QXmppConfiguration::jidBare() returns an arbitrary string; QXmppUtils::generateStanzaUuid returns arbitrary non-empty strings; logging is a no-op; QXmppIq::parseElementFromChild not reached (no children)',
        'absent attribute == QDomElement::attribute() returning the empty default (Qt contract)',
    ],
    outside=[
        'the request APIs of the bundled managers (MAM, PubSub, discovery, ...): each is its own chain of continuations over manager-private state; only the generic chaining templates chain/chainIq/parseIq are encoded (two instantiations: converter form of QXmppClient::sendGenericIq and the typed form chainIq<variant<QXmppIq,QXmppError>>)',
        'histories longer than one event are covered by induction over the table invariant, not enumerated; a stale send-error report that arrives after its request was answered and the same id was reused is not modelled',
        'handlers that re-enter the manager from inside handleStanza()/finish() (only re-entrancy during cancelAll is encoded: reenter_*)',
        'destruction of QXmppOutgoingClientPrivate members and of the QObject base in ~QXmppOutgoingClient (only the destructor body: resetCache + cancelAll)',
        'content of the <error/> child of an error reply (QXmppStanza::Error parsing belongs to C01/C02); sceTimestamp/e2ee metadata',
        'rehash-induced iterator invalidation of the real std::unordered_map',
    ],

)
