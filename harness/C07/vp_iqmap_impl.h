// second half of the request-table model: member definitions, need the complete IqState (include after QXmppOutgoingClient_p.h)
#pragma once
#include "vp_iqmap.h"
using VpIqMap = std::unordered_map<QString, QXmpp::Private::IqState>;
struct VpIqMap::Tbl {
    union Slot { value_type v; Slot() { } ~Slot() { } };
    bool used[VP_MAP_CAP + 1];
    Slot s[VP_MAP_CAP + 1];   // the last slot is the end() sentinel: a constructed dummy, so that even on paths the solver has not yet
                              // excluded a dereference of end() reads well-formed objects (keeps symbolic execution's pointers concrete)
};
inline VpIqMap::unordered_map() : t(new Tbl)
{
    for (unsigned i = 0; i <= VP_MAP_CAP; i++) t->used[i] = false;
    new (&t->s[VP_MAP_CAP].v) value_type(QString(), mapped_type {});
}
inline VpIqMap::value_type *VpIqMap::slot(unsigned i) const { return &t->s[i].v; }
inline bool VpIqMap::used(unsigned i) const { return t->used[i]; }
inline int VpIqMap::freeSlot() const { for (int i = VP_MAP_CAP - 1; i >= 0; i--) if (!t->used[i]) return i; return -1; }
inline VpIqMap::size_type VpIqMap::size() const { size_type n = 0; for (unsigned i = 0; i < VP_MAP_CAP; i++) if (t->used[i]) n++; return n; }
inline VpIqMap::iterator VpIqMap::begin() const { iterator it { this, 0 }; if (!t->used[0]) ++it; return it; }
inline VpIqMap::value_type &VpIqMap::iterator::operator*() const { return *m->slot(i); }
inline VpIqMap::value_type *VpIqMap::iterator::operator->() const { return m->slot(i); }
inline VpIqMap::iterator &VpIqMap::iterator::operator++()
{
    unsigned n = VP_MAP_CAP;
    for (unsigned k = VP_MAP_CAP; k-- > 0;) if (k > i && m->t->used[k]) n = k;
    i = n;
    return *this;
}
inline VpIqMap::~unordered_map() { clear(); }
inline VpIqMap::iterator VpIqMap::find(const QString &k) const
{
    unsigned r = VP_MAP_CAP;
    for (unsigned j = VP_MAP_CAP; j-- > 0;) if (t->used[j] && slot(j)->first == k) r = j;
    return iterator { this, r };
}
template<typename... A> std::pair<VpIqMap::iterator, bool> VpIqMap::emplace(A &&...a)
{
    // like the real container: construct the element first, then look the key up
    int f = freeSlot();
    vp_model_assert_cap(f >= 0);
    new (slot(f)) value_type(std::forward<A>(a)...);
    iterator it = find(slot(f)->first);
    if (it != end()) { slot(f)->~value_type(); return { it, false }; }
    t->used[f] = true;
    return { iterator { this, unsigned(f) }, true };
}
template<typename... A> std::pair<VpIqMap::iterator, bool> VpIqMap::try_emplace(const QString &k, A &&...a)
{
    iterator it = find(k);
    if (it != end()) return { it, false };
    return emplace(std::piecewise_construct, std::forward_as_tuple(k), std::forward_as_tuple(std::forward<A>(a)...));
}
inline std::pair<VpIqMap::iterator, bool> VpIqMap::insert(value_type &&v) { return emplace(std::move(v)); }
inline std::pair<VpIqMap::iterator, bool> VpIqMap::insert_or_assign(const QString &k, mapped_type &&v)
{
    iterator it = find(k);
    if (it != end()) { it->second = std::move(v); return { it, false }; }
    return emplace(k, std::move(v));
}
inline VpIqMap::mapped_type &VpIqMap::operator[](const QString &k) { return try_emplace(k).first->second; }
inline VpIqMap::mapped_type &VpIqMap::at(const QString &k) { iterator it = find(k); vp_assert(it != end(), "C07 request table: at() with a missing key throws"); return it->second; }
inline VpIqMap::iterator VpIqMap::erase(iterator it)
{
    bool valid = it.i < VP_MAP_CAP && t->used[it.i];
    vp_assert(valid, "C07 request table: erase() of end() or of an already erased entry (undefined behaviour)");
    if (!valid) return end();
    iterator nx = it; ++nx;
    slot(it.i)->~value_type();
    t->used[it.i] = false;
    return nx;
}
inline VpIqMap::size_type VpIqMap::erase(const QString &k) { iterator it = find(k); if (it == end()) return 0; erase(it); return 1; }
inline void VpIqMap::clear()
{
    for (unsigned j = 0; j < VP_MAP_CAP; j++) if (t->used[j]) { slot(j)->~value_type(); t->used[j] = false; }
}
