// C07 continuation chaining that converts the raw reply into typed results (src/base/QXmppFutureUtils_p.h:136-200)
#include "c07_common.h"

// ---------------------------------------------------------------- continuation chaining: raw reply -> typed result (QXmppFutureUtils_p.h)
static int chainRuns, chainKind;
static bool chainSendError;
extern "C" void h_chain()
{
    static char ctxbuf[16];
    QObject *ctx = reinterpret_cast<QObject *>(ctxbuf);
    bool early = vp_cfg() & 1, typed = vp_cfg() & 2;
    bool asError = vp_bool();
    QString tag = QStringLiteral("iq"), ns, nId = QStringLiteral("id"), nType = QStringLiteral("type"), id = vpSymString(2), ty = QStringLiteral("result");
    QDomElement el; vp_dom_new(&el, &tag, &ns); vp_dom_set_attr(&el, &nId, &id); vp_dom_set_attr(&el, &nType, &ty);
    QXmppPromise<IqResult> p;
    int before = vp_task_completions;
    auto fin = [&] { if (asError) p.finish(QXmppError { QString(), SendError::Disconnected }); else p.finish(el); };
    if (!typed) {
        // the instantiation of QXmppClient::sendGenericIq (src/client/QXmppClient.cpp)
        using EmptyResult = std::variant<QXmpp::Success, QXmppError>;
        auto t = chainIq(p.task(), ctx, [](const QXmppIq &) -> EmptyResult { return QXmpp::Success(); });
        auto k = [](EmptyResult &&r) { chainRuns++; chainKind = int(r.index()); if (auto *e = std::get_if<QXmppError>(&r)) chainSendError = std::any_cast<SendError>(&e->error) != nullptr; };
        if (early) { t.then(ctx, k); vp_assert(chainRuns == 0 && !t.isFinished(), "C07 chained task is not complete before the reply"); fin(); }
        else { fin(); vp_assert(t.isFinished(), "C07 chained task completes with the raw one"); t.then(ctx, k); }
    } else {
        // the form used by the bundled managers: chainIq<std::variant<Iq, QXmppError>>(client->sendIq(...), this)
        using R = std::variant<QXmppIq, QXmppError>;
        auto t = chainIq<R>(p.task(), ctx);
        static bool idOk;
        auto k = [id](R &&r) { chainRuns++; chainKind = int(r.index()); if (auto *e = std::get_if<QXmppError>(&r)) chainSendError = std::any_cast<SendError>(&e->error) != nullptr; else idOk = std::get<QXmppIq>(r).id() == id; };
        if (early) { t.then(ctx, k); vp_assert(chainRuns == 0 && !t.isFinished(), "C07 chained task is not complete before the reply"); fin(); }
        else { fin(); vp_assert(t.isFinished(), "C07 chained task completes with the raw one"); t.then(ctx, k); }
        if (!asError) vp_assert(idOk, "C07 the typed result is parsed from the reply element");
    }
    vp_assert(chainRuns == 1, "C07 the typed continuation runs exactly once per request");
    vp_assert(chainKind == (asError ? 1 : 0), "C07 a reply element becomes the typed result, an error is forwarded as the error");
    if (asError) vp_assert(chainSendError, "C07 the forwarded error is the one the request completed with");
    vp_assert(vp_task_completions - before == 2, "C07 raw and chained promise are each finished exactly once");
}
