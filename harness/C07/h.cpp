// C07 step harnesses of OutgoingIqManager (see c07_common.h)
#include "c07_common.h"

// ---------------------------------------------------------------- event: an incoming stanza
extern "C" void h_stanza()
{
    Fixture f;
    // arbitrary top-level element: tag, optional type / id / from attributes
    QString tag = vpSymString(3), ns;
    QDomElement el; vp_dom_new(&el, &tag, &ns);
    bool hasType = vp_cfg() & 2, hasId = vp_cfg() & 4, hasFrom = vp_cfg() & 8;
    QString type = vpSymString(6), id = vpSymString(2), from = vpSymString(3);
    QString nType = QStringLiteral("type"), nId = QStringLiteral("id"), nFrom = QStringLiteral("from");
    if (hasType) vp_dom_set_attr(&el, &nType, &type); else type = QString();     // an absent attribute reads as the empty string
    if (hasId) vp_dom_set_attr(&el, &nId, &id); else id = QString();
    if (hasFrom) vp_dom_set_attr(&el, &nFrom, &from); else from = QString();

    bool ret = f.mgr->handleStanza(el);
    f.settle();

    bool isResult = type == u"result", isError = type == u"error";
    bool reply = tag == u"iq" && (isResult || isError);
    bool any = false;
    for (int i = 0; i < 2; i++) {
        if (!f.used[i]) continue;
        bool match = reply && id == f.key[i] && (from.isEmpty() || from == f.jid[i]);
        if (match) {
            any = true;
            f.completedOnce(i);
            vp_assert(obs[i].done == 1, "C07 a valid reply completes the request exactly once");
            if (isResult) vp_assert(obs[i].kind == 0 && obs[i].el == el, "C07 a result reply completes the request with that very response element");
            else vp_assert(obs[i].kind == 1 && obs[i].stanzaError, "C07 an error reply completes the request with the stanza error");
        } else {
            f.untouched(i);
        }
    }
    vp_assert(ret == any, "C07 handleStanza reports 'handled' exactly when a request was completed");
    vp_assert(f.map->size() == (f.used[0] ? 1u : 0u) + (f.used[1] ? 1u : 0u) - (any ? 1u : 0u), "C07 table holds exactly the still pending requests");
    vp_assert(g_sendCalls == 0, "C07 a reply sends nothing");
}

// ---------------------------------------------------------------- events: session opened / closed, cancelAll, destruction of the stream
extern "C" void h_session()
{
    Fixture f;
    unsigned ev = (vp_cfg() >> 4) & 3;       // which event: case split per instance
    bool flag = vp_bool(), cancel;
    if (ev == 0) {
        SessionBegin s { vp_bool(), flag, vp_bool(), vp_bool(), AuthenticationMethod(vp_u8() % 3) };
        f.mgr->onSessionOpened(s);
        cancel = !flag;     // a new (not resumed) stream cannot deliver the replies
    } else if (ev == 1) {
        SessionEnd s { flag };
        f.mgr->onSessionClosed(s);
        cancel = !flag;     // the stream cannot be resumed
    } else if (ev == 2) {
        f.mgr->cancelAll();
        cancel = true;
    } else {
        f.client->QXmppOutgoingClient::~QXmppOutgoingClient();
        cancel = true;
    }
    f.settle();
    for (int i = 0; i < 2; i++) {
        if (!f.used[i]) continue;
        if (cancel) {
            f.completedOnce(i);
            vp_assert(obs[i].done == 1, "C07 ending the session without resumption completes every pending request exactly once");
            vp_assert(obs[i].kind == 1 && obs[i].sendError && obs[i].sendErrorValue == int(SendError::Disconnected), "C07 a cancelled request completes with a disconnect error");
        } else {
            f.untouched(i);
        }
    }
    if (cancel) vp_assert(f.map->empty(), "C07 no request stays in the table after cancellation");
    vp_assert(g_sendCalls == 0, "C07 session events send no request");
}

// ---------------------------------------------------------------- event: a request is issued
struct SendOracle {
    // after the call: `t` is the returned task, (id, to) the effective id / addressee the reference transition expects
    static void check(Fixture &f, QXmppTask<IqResult> &t, const QString &id, const QString &to)
    {
        bool dup = (f.used[0] && id == f.key[0]) || (f.used[1] && id == f.key[1]);
        bool invalid = id.isEmpty() || dup || to.isEmpty();
        unsigned before = (f.used[0] ? 1u : 0u) + (f.used[1] ? 1u : 0u);
        // nothing that was pending before is touched, whatever happens to the new request
        bool later = false, laterError = false;
        if (!invalid && g_sendMode == 2) {
            unsigned lk = (vp_cfg() >> 6) & 3;       // what the stream reports later: 0 nothing yet, 1 an error, 2 success (case split per instance)
            later = lk != 0;
            if (later) {
                laterError = lk == 1;
                if (laterError) g_pendingSend->finish(QXmppError { QString(), SendError::Disconnected });
                else g_pendingSend->finish(SendSuccess { vp_bool() });
            }
        }
        f.task[2].emplace(t);
        f.watch(2);
        f.settle();
        for (int i = 0; i < 2; i++) if (f.used[i]) f.untouched(i);
        if (invalid) {
            vp_assert(t.isFinished() && obs[2].done == 1, "C07 a request with an empty / duplicate id or without addressee completes immediately, exactly once");
            vp_assert(obs[2].kind == 1 && obs[2].sendError, "C07 ... with a send error");
            vp_assert(g_sendCalls == 0, "C07 a rejected request is not sent");
            vp_assert(f.map->size() == before, "C07 a rejected request does not change the table");
        } else {
            vp_assert(g_sendCalls == 1, "C07 an accepted request is sent exactly once");
            bool failed = g_sendMode == 1 || (g_sendMode == 2 && later && laterError);
            if (failed) {
                vp_assert(obs[2].done == 1 && obs[2].kind == 1 && obs[2].sendError, "C07 a request whose packet could not be sent completes exactly once with the send error");
                vp_assert(!f.mgr->hasId(id) && f.map->size() == before, "C07 a request that failed to be sent is erased");
            } else {
                vp_assert(!t.isFinished() && obs[2].done == 0, "C07 an accepted request stays pending until its reply");
                auto it = f.map->find(id);
                vp_assert(it != f.map->end() && f.map->size() == before + 1, "C07 an accepted request is recorded under its id");
                if (it != f.map->end()) vp_assert(it->second.jid == to, "C07 the addressee recorded for the reply check is the entity the request was sent to");
            }
        }
    }
};
extern "C" void h_send_packet()
{
    Fixture f;
    g_sendMode = (vp_cfg() >> 4) & 3;
    // cfg bit 256: a request that is valid already for symbolic execution (lengths fixed: new id 2 units, pending ids 1 unit, addressee 2 units)
    bool fixed = vp_cfg() & 256;
    QString id = fixed ? vpFixString(2) : vpSymString(2), to = fixed ? vpFixString(2) : vpSymString(3);
    QXmppPacket pkt(QByteArray(), true);
    QXmppPromise<SendResult> pending; g_pendingSend = &pending;
    auto t = f.mgr->sendIq(std::move(pkt), id, to);
    SendOracle::check(f, t, id, to);
}
// public entry QXmppOutgoingClient::sendIq(QXmppIq&&): implicit addressee = own bare JID, empty / duplicate ids are replaced
extern "C" void h_send_iq()
{
    Fixture f;
    g_sendMode = (vp_cfg() >> 4) & 3;
    QString id = vpSymString(2), to = vpSymString(3), bare = vpSymString(3);
    QString u0 = vpSymStringNonEmpty(2), u1 = vpSymStringNonEmpty(2);
    vp_jidBare = &bare; vp_uuid[0] = &u0; vp_uuid[1] = &u1; vp_uuid_n = 0;
    QXmppPromise<SendResult> pending; g_pendingSend = &pending;
    QXmppIq iq;
    iq.setId(id);
    iq.setTo(to);
    auto t = f.client->sendIq(std::move(iq));
    // reference: effective addressee and id
    QString toEff = to.isEmpty() ? bare : to;
    auto inTable = [&](const QString &x) { return (f.used[0] && x == f.key[0]) || (f.used[1] && x == f.key[1]); };
    QString idEff = id;
    unsigned n = 0;
    if (idEff.isEmpty()) idEff = n++ == 0 ? u0 : u1;
    if (inTable(idEff)) idEff = n++ == 0 ? u0 : u1;
    SendOracle::check(f, t, idEff, toEff);
}

// two events in a row (integration of the two steps): a valid request is issued, then a reply with its id arrives
extern "C" void h_send_then_reply()
{
    Fixture f;                                   // cfg bit 256: pending ids have exactly 1 unit, so the new 2-unit id is fresh
    g_sendMode = 0;
    QString id = vpFixString(2), to = vpFixString(2);
    QXmppPacket pkt(QByteArray(), true);
    QXmppPromise<SendResult> pending; g_pendingSend = &pending;
    auto t = f.mgr->sendIq(std::move(pkt), id, to);
    vp_assert(!t.isFinished() && f.mgr->hasId(id), "C07 an accepted request is pending");
    QString tag = QStringLiteral("iq"), ns, nType = QStringLiteral("type"), nId = QStringLiteral("id"), nFrom = QStringLiteral("from");
    QString type = vp_bool() ? QStringLiteral("result") : QStringLiteral("error"), from = vpSymString(3);
    QDomElement el; vp_dom_new(&el, &tag, &ns);
    vp_dom_set_attr(&el, &nType, &type); vp_dom_set_attr(&el, &nId, &id); vp_dom_set_attr(&el, &nFrom, &from);
    bool ret = f.mgr->handleStanza(el);
    f.task[2].emplace(t);
    f.watch(2);
    f.settle();
    bool ok = from.isEmpty() || from == to;
    vp_assert(ret == ok, "C07 the reply is consumed exactly when it comes from the entity the request was sent to (or from the own server)");
    vp_assert(t.isFinished() == ok && obs[2].done == (ok ? 1 : 0), "C07 the request completes exactly once, and only by a reply from the addressee");
    vp_assert(f.mgr->hasId(id) == !ok, "C07 the request stays pending after a reply from a stranger and is erased after the genuine one");
    for (int i = 0; i < 2; i++) if (f.used[i]) f.untouched(i);
}

// ---------------------------------------------------------------- internal completion path finish(id, result)
extern "C" void h_finish()
{
    Fixture f;
    QString id = vpSymString(2);
    bool asError = vp_bool();
    QString tag = QStringLiteral("iq"), ns;
    QDomElement el; vp_dom_new(&el, &tag, &ns);
    if (asError) f.mgr->finish(id, QXmppError { QString(), SendError::SocketWriteError });
    else f.mgr->finish(id, el);
    f.settle();
    for (int i = 0; i < 2; i++) {
        if (!f.used[i]) continue;
        if (id == f.key[i]) {
            f.completedOnce(i);
            vp_assert(obs[i].done == 1 && obs[i].kind == (asError ? 1 : 0), "C07 finish(id) completes exactly the request with that id, once, with the given result");
        } else {
            f.untouched(i);
        }
    }
}

