// C07 - every request completes exactly once, and only by a reply from the entity asked.
// Single inductive steps of the REAL QXmpp::Private::OutgoingIqManager (src/client/QXmppOutgoingClient.cpp) from an arbitrary
// valid request table (<= 2 outstanding requests) under one arbitrary event, compared with the reference transition of the
// property text.  Environment: request-table model (vp_iqmap.h), Task/Promise shadow, DOM tree model, stream layer cut at
// StreamAckManager::send (outcome chosen by the solver), packet serialisation cut, logging = no-op.
#include "vp_harness.h"
#include "vp_dom.h"
#include "vp_iqmap.h"
#include "client/QXmppOutgoingClient.cpp"
#include "vp_iqmap_impl.h"
#include "QXmppConfiguration.h"
#include <optional>

using namespace QXmpp;
using namespace QXmpp::Private;

// ---------------------------------------------------------------- environment written in C++ (cut points)
// stream layer: what happens to the packet is outside C07 (C09); only the reported outcome matters
static int g_sendCalls;
static unsigned g_sendMode;                                        // 0: reports success at once, 1: reports an error at once, 2: stays pending
static std::optional<QXmppPromise<SendResult>> g_pendingSend;
QXmppTask<SendResult> StreamAckManager::send(QXmppPacket &&)
{
    g_sendCalls++;
    QXmppPromise<SendResult> p;
    if (g_sendMode == 0) p.finish(SendSuccess { vp_bool() });
    else if (g_sendMode == 1) p.finish(QXmppError { QString(), SendError::SocketWriteError });
    else g_pendingSend = p;
    return p.task();
}
// packet serialisation is not the subject: packets carry no bytes here
QXmppPacket::QXmppPacket(const QXmppNonza &, QXmppPromise<SendResult> p) : m_promise(std::move(p)), m_isXmppStanza(true) { }
QXmppPacket::QXmppPacket(const QByteArray &, bool isStanza, QXmppPromise<SendResult> p) : m_promise(std::move(p)), m_isXmppStanza(isStanza) { }
// the account's bare JID is an input of the implicit-addressee rule
extern "C" { QString *vp_jidBare; }
QString QXmppConfiguration::jidBare() const { return *vp_jidBare; }
// QXmppUtils::generateStanzaUuid is modelled in models.c: it hands out these (arbitrary) strings
extern "C" { QString *vp_uuid[2]; unsigned vp_uuid_n; unsigned vp_cfg(); }
// ~QXmppOutgoingClient: flushing the stream-management cache is C09's subject
static int g_resetCacheCalls;
void StreamAckManager::resetCache() { g_resetCacheCalls++; }

// ---------------------------------------------------------------- fixture
static_assert(sizeof(OutgoingIqManager) == 16 + sizeof(VpIqMap), "layout of OutgoingIqManager: { l, &streamAckManager, m_requests }");
static_assert(sizeof(QXmppOutgoingClient) == 24, "layout of QXmppOutgoingClient: { QObject, d }");
struct Obs { int done; int kind; bool sendError; int sendErrorValue; bool stanzaError; QDomElement el; };
static Obs obs[3];
// typed but unconstructed storage (a union member is not constructed implicitly): unlike a char buffer it keeps pointers that the
// real code stores into the object as pointers for the solver
template<typename T> union VpTyped { T v; VpTyped() { } ~VpTyped() { } T *p() { return &v; } T *operator->() { return &v; } };
struct Fixture {
    VpTyped<QXmppOutgoingClientPrivate> priv;   // only iqManager is constructed; streamAckManager.send / config.jidBare are cut
    VpTyped<QXmppOutgoingClient> client;        // only `d` is set
    VpRaw<QXmppLoggable> logger;                // raw storage: never touched (logMessage() is a no-op model)
    OutgoingIqManager *mgr;
    VpIqMap *map;
    bool used[3];
    QString key[3], jid[3];
    std::optional<QXmppTask<IqResult>> task[3];
    bool early;

    Fixture()
    {
        mgr = new (&priv->iqManager) OutgoingIqManager(logger.p(), priv->streamAckManager);
        map = reinterpret_cast<VpIqMap *>(reinterpret_cast<char *>(mgr) + 16);
        *reinterpret_cast<void **>(reinterpret_cast<char *>(client.p()) + 16) = priv.p();
        // arbitrary valid table: ids non-empty and distinct, addressees non-empty, promises unfinished.
        // (all slots hold constructed objects so that every pointer the solver sees is concrete; `used` decides what exists)
        for (int i = 0; i < VP_MAP_CAP; i++) {
            key[i] = vpSymStringNonEmpty(2);
            jid[i] = vpSymStringNonEmpty(3);
            new (map->slot(i)) VpIqMap::value_type(key[i], IqState { {}, jid[i] });
            used[i] = i < 2 ? vp_bool() : false;
            map->t->s[i]->used = used[i];
            task[i].emplace(map->slot(i)->second.interface.task());
        }
        vp_assume(!(used[0] && used[1] && key[0] == key[1]));
        // the caller may or may not have attached its continuation already
        early = vp_cfg() & 1;
        if (early) watchAll();
    }
    void watch(int i)
    {
        task[i]->then(nullptr, [i](IqResult &&r) {
            obs[i].done++;
            obs[i].kind = int(r.index());
            if (auto *e = std::get_if<QXmppError>(&r)) {
                auto *se = std::any_cast<SendError>(&e->error);
                obs[i].sendError = se != nullptr;
                obs[i].sendErrorValue = se ? int(*se) : -1;
                obs[i].stanzaError = std::any_cast<QXmppStanza::Error>(&e->error) != nullptr;
            } else {
                obs[i].el = std::get<QDomElement>(r);
            }
        });
    }
    void watchAll() { for (int i = 0; i < 2; i++) watch(i); }
    void settle() { if (!early) watchAll(); }
    // request i of the pre-state is still pending, unchanged
    void untouched(int i)
    {
        vp_assert(!task[i]->isFinished() && obs[i].done == 0, "C07 a request that got no valid reply stays pending (not completed, not cancelled)");
        auto it = map->find(key[i]);
        vp_assert(it != map->end() && mgr->hasId(key[i]), "C07 a request that got no valid reply stays in the table");
        if (it != map->end()) vp_assert(it->second.jid == jid[i], "C07 recorded addressee of a pending request is unchanged");
    }
    void completedOnce(int i)
    {
        vp_assert(task[i]->isFinished() || obs[i].done == 1, "C07 request completed");
        vp_assert(!mgr->hasId(key[i]), "C07 completed request is erased from the table");
    }
};

// ---------------------------------------------------------------- event: an incoming stanza
extern "C" void h_stanza()
{
    Fixture f;
    // arbitrary top-level element: tag, optional type / id / from attributes
    QString tag = vpSymString(3), ns;
    QDomElement el; vp_dom_new(&el, &tag, &ns);
    bool hasType = vp_cfg() & 2, hasId = vp_cfg() & 4, hasFrom = vp_cfg() & 8;
    QString type = vpSymString(6), id = vpSymString(2), from = vpSymString(3);
    QString nType = QStringLiteral("type"), nId = QStringLiteral("id"), nFrom = QStringLiteral("from");
    if (hasType) vp_dom_set_attr(&el, &nType, &type); else type = QString();     // an absent attribute reads as the empty string
    if (hasId) vp_dom_set_attr(&el, &nId, &id); else id = QString();
    if (hasFrom) vp_dom_set_attr(&el, &nFrom, &from); else from = QString();

    bool ret = f.mgr->handleStanza(el);
    f.settle();

    bool isResult = type == u"result", isError = type == u"error";
    bool reply = tag == u"iq" && (isResult || isError);
    bool any = false;
    for (int i = 0; i < 2; i++) {
        if (!f.used[i]) continue;
        bool match = reply && id == f.key[i] && (from.isEmpty() || from == f.jid[i]);
        if (match) {
            any = true;
            f.completedOnce(i);
            vp_assert(obs[i].done == 1, "C07 a valid reply completes the request exactly once");
            if (isResult) vp_assert(obs[i].kind == 0 && obs[i].el == el, "C07 a result reply completes the request with that very response element");
            else vp_assert(obs[i].kind == 1 && obs[i].stanzaError, "C07 an error reply completes the request with the stanza error");
        } else {
            f.untouched(i);
        }
    }
    vp_assert(ret == any, "C07 handleStanza reports 'handled' exactly when a request was completed");
    vp_assert(f.map->size() == (f.used[0] ? 1u : 0u) + (f.used[1] ? 1u : 0u) - (any ? 1u : 0u), "C07 table holds exactly the still pending requests");
    vp_assert(g_sendCalls == 0, "C07 a reply sends nothing");
}

// ---------------------------------------------------------------- events: session opened / closed, cancelAll, destruction of the stream
extern "C" void h_session()
{
    Fixture f;
    unsigned ev = vp_u8() % 4;
    bool flag = vp_bool(), cancel;
    if (ev == 0) {
        SessionBegin s { vp_bool(), flag, vp_bool(), vp_bool(), AuthenticationMethod(vp_u8() % 3) };
        f.mgr->onSessionOpened(s);
        cancel = !flag;     // a new (not resumed) stream cannot deliver the replies
    } else if (ev == 1) {
        SessionEnd s { flag };
        f.mgr->onSessionClosed(s);
        cancel = !flag;     // the stream cannot be resumed
    } else if (ev == 2) {
        f.mgr->cancelAll();
        cancel = true;
    } else {
        f.client->QXmppOutgoingClient::~QXmppOutgoingClient();
        cancel = true;
    }
    f.settle();
    for (int i = 0; i < 2; i++) {
        if (!f.used[i]) continue;
        if (cancel) {
            f.completedOnce(i);
            vp_assert(obs[i].done == 1, "C07 ending the session without resumption completes every pending request exactly once");
            vp_assert(obs[i].kind == 1 && obs[i].sendError && obs[i].sendErrorValue == int(SendError::Disconnected), "C07 a cancelled request completes with a disconnect error");
        } else {
            f.untouched(i);
        }
    }
    if (cancel) vp_assert(f.map->empty(), "C07 no request stays in the table after cancellation");
    vp_assert(g_sendCalls == 0, "C07 session events send no request");
}

// ---------------------------------------------------------------- event: a request is issued
struct SendOracle {
    // after the call: `t` is the returned task, (id, to) the effective id / addressee the reference transition expects
    static void check(Fixture &f, QXmppTask<IqResult> &t, const QString &id, const QString &to)
    {
        bool dup = (f.used[0] && id == f.key[0]) || (f.used[1] && id == f.key[1]);
        bool invalid = id.isEmpty() || dup || to.isEmpty();
        unsigned before = (f.used[0] ? 1u : 0u) + (f.used[1] ? 1u : 0u);
        // nothing that was pending before is touched, whatever happens to the new request
        bool later = false, laterError = false;
        if (!invalid && g_sendMode == 2) {
            vp_assert(g_pendingSend.has_value(), "C07 the packet was handed to the stream");
            later = vp_bool();
            if (later && g_pendingSend) {
                laterError = vp_bool();
                if (laterError) g_pendingSend->finish(QXmppError { QString(), SendError::Disconnected });
                else g_pendingSend->finish(SendSuccess { vp_bool() });
            }
        }
        f.task[2].emplace(t);
        f.watch(2);
        f.settle();
        for (int i = 0; i < 2; i++) if (f.used[i]) f.untouched(i);
        if (invalid) {
            vp_assert(t.isFinished() && obs[2].done == 1, "C07 a request with an empty / duplicate id or without addressee completes immediately, exactly once");
            vp_assert(obs[2].kind == 1 && obs[2].sendError, "C07 ... with a send error");
            vp_assert(g_sendCalls == 0, "C07 a rejected request is not sent");
            vp_assert(f.map->size() == before, "C07 a rejected request does not change the table");
        } else {
            vp_assert(g_sendCalls == 1, "C07 an accepted request is sent exactly once");
            bool failed = g_sendMode == 1 || (g_sendMode == 2 && later && laterError);
            if (failed) {
                vp_assert(obs[2].done == 1 && obs[2].kind == 1 && obs[2].sendError, "C07 a request whose packet could not be sent completes exactly once with the send error");
                vp_assert(!f.mgr->hasId(id) && f.map->size() == before, "C07 a request that failed to be sent is erased");
            } else {
                vp_assert(!t.isFinished() && obs[2].done == 0, "C07 an accepted request stays pending until its reply");
                auto it = f.map->find(id);
                vp_assert(it != f.map->end() && f.map->size() == before + 1, "C07 an accepted request is recorded under its id");
                if (it != f.map->end()) vp_assert(it->second.jid == to, "C07 the addressee recorded for the reply check is the entity the request was sent to");
            }
        }
    }
};
extern "C" void h_send_packet()
{
    Fixture f;
    g_sendMode = (vp_cfg() >> 4) & 3;
    QString id = vpSymString(2), to = vpSymString(3);
    QXmppPacket pkt(QByteArray(), true);
    auto t = f.mgr->sendIq(std::move(pkt), id, to);
    SendOracle::check(f, t, id, to);
}
// public entry QXmppOutgoingClient::sendIq(QXmppIq&&): implicit addressee = own bare JID, empty / duplicate ids are replaced
extern "C" void h_send_iq()
{
    Fixture f;
    g_sendMode = (vp_cfg() >> 4) & 3;
    QString id = vpSymString(2), to = vpSymString(3), bare = vpSymString(3);
    QString u0 = vpSymStringNonEmpty(2), u1 = vpSymStringNonEmpty(2);
    vp_jidBare = &bare; vp_uuid[0] = &u0; vp_uuid[1] = &u1; vp_uuid_n = 0;
    QXmppIq iq;
    iq.setId(id);
    iq.setTo(to);
    auto t = f.client->sendIq(std::move(iq));
    // reference: effective addressee and id
    QString toEff = to.isEmpty() ? bare : to;
    auto inTable = [&](const QString &x) { return (f.used[0] && x == f.key[0]) || (f.used[1] && x == f.key[1]); };
    QString idEff = id;
    unsigned n = 0;
    if (idEff.isEmpty()) idEff = n++ == 0 ? u0 : u1;
    if (inTable(idEff)) idEff = n++ == 0 ? u0 : u1;
    SendOracle::check(f, t, idEff, toEff);
}

// ---------------------------------------------------------------- internal completion path finish(id, result)
extern "C" void h_finish()
{
    Fixture f;
    QString id = vpSymString(2);
    bool asError = vp_bool();
    QString tag = QStringLiteral("iq"), ns;
    QDomElement el; vp_dom_new(&el, &tag, &ns);
    if (asError) f.mgr->finish(id, QXmppError { QString(), SendError::SocketWriteError });
    else f.mgr->finish(id, el);
    f.settle();
    for (int i = 0; i < 2; i++) {
        if (!f.used[i]) continue;
        if (id == f.key[i]) {
            f.completedOnce(i);
            vp_assert(obs[i].done == 1 && obs[i].kind == (asError ? 1 : 0), "C07 finish(id) completes exactly the request with that id, once, with the given result");
        } else {
            f.untouched(i);
        }
    }
}

// ---------------------------------------------------------------- continuation chaining: raw reply -> typed result (QXmppFutureUtils_p.h)
static int chainRuns, chainKind;
static bool chainSendError;
extern "C" void h_chain()
{
    static char ctxbuf[16];
    QObject *ctx = reinterpret_cast<QObject *>(ctxbuf);
    bool early = vp_cfg() & 1, typed = vp_cfg() & 2;
    bool asError = vp_bool();
    QString tag = QStringLiteral("iq"), ns, nId = QStringLiteral("id"), nType = QStringLiteral("type"), id = vpSymString(2), ty = QStringLiteral("result");
    QDomElement el; vp_dom_new(&el, &tag, &ns); vp_dom_set_attr(&el, &nId, &id); vp_dom_set_attr(&el, &nType, &ty);
    QXmppPromise<IqResult> p;
    int before = vp_task_completions;
    auto fin = [&] { if (asError) p.finish(QXmppError { QString(), SendError::Disconnected }); else p.finish(el); };
    if (!typed) {
        // the instantiation of QXmppClient::sendGenericIq (src/client/QXmppClient.cpp)
        using EmptyResult = std::variant<QXmpp::Success, QXmppError>;
        auto t = chainIq(p.task(), ctx, [](const QXmppIq &) -> EmptyResult { return QXmpp::Success(); });
        auto k = [](EmptyResult &&r) { chainRuns++; chainKind = int(r.index()); if (auto *e = std::get_if<QXmppError>(&r)) chainSendError = std::any_cast<SendError>(&e->error) != nullptr; };
        if (early) { t.then(ctx, k); vp_assert(chainRuns == 0 && !t.isFinished(), "C07 chained task is not complete before the reply"); fin(); }
        else { fin(); vp_assert(t.isFinished(), "C07 chained task completes with the raw one"); t.then(ctx, k); }
    } else {
        // the form used by the bundled managers: chainIq<std::variant<Iq, QXmppError>>(client->sendIq(...), this)
        using R = std::variant<QXmppIq, QXmppError>;
        auto t = chainIq<R>(p.task(), ctx);
        static bool idOk;
        auto k = [id](R &&r) { chainRuns++; chainKind = int(r.index()); if (auto *e = std::get_if<QXmppError>(&r)) chainSendError = std::any_cast<SendError>(&e->error) != nullptr; else idOk = std::get<QXmppIq>(r).id() == id; };
        if (early) { t.then(ctx, k); vp_assert(chainRuns == 0 && !t.isFinished(), "C07 chained task is not complete before the reply"); fin(); }
        else { fin(); vp_assert(t.isFinished(), "C07 chained task completes with the raw one"); t.then(ctx, k); }
        if (!asError) vp_assert(idOk, "C07 the typed result is parsed from the reply element");
    }
    vp_assert(chainRuns == 1, "C07 the typed continuation runs exactly once per request");
    vp_assert(chainKind == (asError ? 1 : 0), "C07 a reply element becomes the typed result, an error is forwarded as the error");
    if (asError) vp_assert(chainSendError, "C07 the forwarded error is the one the request completed with");
    vp_assert(vp_task_completions - before == 2, "C07 raw and chained promise are each finished exactly once");
}
