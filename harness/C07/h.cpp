// C07 - every request completes exactly once, and only by a reply from the entity asked.
// Single inductive steps of the REAL QXmpp::Private::OutgoingIqManager (src/client/QXmppOutgoingClient.cpp) from an arbitrary
// valid request table (<= 2 outstanding requests) under one arbitrary event, compared with the reference transition of the
// property text.  Environment: request-table model (vp_iqmap.h), Task/Promise shadow, DOM tree model, stream layer cut at
// StreamAckManager::send (outcome chosen by the solver), packet serialisation cut, logging = no-op.
#include "vp_harness.h"
#include "vp_dom.h"
#include "vp_iqmap.h"
#include "client/QXmppOutgoingClient.cpp"
#include "vp_iqmap_impl.h"
#include "QXmppConfiguration.h"
#include <optional>

using namespace QXmpp;
using namespace QXmpp::Private;

// ---------------------------------------------------------------- environment written in C++ (cut points)
// stream layer: what happens to the packet is outside C07 (C09); only the reported outcome matters
static int g_sendCalls;
static unsigned g_sendMode;                                        // 0: reports success at once, 1: reports an error at once, 2: stays pending
static std::optional<QXmppPromise<SendResult>> g_pendingSend;
QXmppTask<SendResult> StreamAckManager::send(QXmppPacket &&)
{
    g_sendCalls++;
    QXmppPromise<SendResult> p;
    if (g_sendMode == 0) p.finish(SendSuccess { vp_bool() });
    else if (g_sendMode == 1) p.finish(QXmppError { QString(), SendError::SocketWriteError });
    else g_pendingSend = p;
    return p.task();
}
// packet serialisation is not the subject: packets carry no bytes here
QXmppPacket::QXmppPacket(const QXmppNonza &, QXmppPromise<SendResult> p) : m_promise(std::move(p)), m_isXmppStanza(true) { }
QXmppPacket::QXmppPacket(const QByteArray &, bool isStanza, QXmppPromise<SendResult> p) : m_promise(std::move(p)), m_isXmppStanza(isStanza) { }
// the account's bare JID is an input of the implicit-addressee rule
extern "C" { QString *vp_jidBare; }
QString QXmppConfiguration::jidBare() const { return *vp_jidBare; }
// QXmppUtils::generateStanzaUuid is modelled in models.c: it hands out these (arbitrary) strings
extern "C" { QString *vp_uuid[2]; unsigned vp_uuid_n; unsigned vp_cfg(); }

// ---------------------------------------------------------------- fixture
static_assert(sizeof(OutgoingIqManager) == 16 + sizeof(VpIqMap), "layout of OutgoingIqManager: { l, &streamAckManager, m_requests }");
static_assert(sizeof(QXmppOutgoingClient) == 24, "layout of QXmppOutgoingClient: { QObject, d }");
struct Obs { int done; int kind; bool sendError; bool stanzaError; QDomElement el; };
static Obs obs[3];
struct Fixture {
    VpRaw<QXmppOutgoingClientPrivate> priv;     // raw storage: only iqManager is constructed; streamAckManager.send / config.jidBare are cut
    VpRaw<QXmppOutgoingClient> client;          // raw storage: only `d` is set
    VpRaw<QXmppLoggable> logger;                // raw storage: logMessage() is a no-op model
    OutgoingIqManager *mgr;
    VpIqMap *map;
    bool used[3];
    QString key[3], jid[3];
    std::optional<QXmppTask<IqResult>> task[3];
    bool early;

    Fixture()
    {
        mgr = new (&priv->iqManager) OutgoingIqManager(logger.p(), priv->streamAckManager);
        map = reinterpret_cast<VpIqMap *>(reinterpret_cast<char *>(mgr) + 16);
        *reinterpret_cast<void **>(client.b + 16) = priv.p();
        // arbitrary valid table: ids non-empty and distinct, addressees non-empty, promises unfinished.
        // (all slots hold constructed objects so that every pointer the solver sees is concrete; `used` decides what exists)
        for (int i = 0; i < VP_MAP_CAP; i++) {
            key[i] = vpSymStringNonEmpty(2);
            jid[i] = vpSymStringNonEmpty(3);
            new (map->slot(i)) VpIqMap::value_type(key[i], IqState { {}, jid[i] });
            used[i] = i < 2 ? vp_bool() : false;
            map->t->used[i] = used[i];
            task[i].emplace(map->slot(i)->second.interface.task());
        }
        vp_assume(!(used[0] && used[1] && key[0] == key[1]));
        // the caller may or may not have attached its continuation already
        early = vp_cfg() & 1;
        if (early) watchAll();
    }
    void watch(int i)
    {
        task[i]->then(nullptr, [i](IqResult &&r) {
            obs[i].done++;
            obs[i].kind = int(r.index());
            if (auto *e = std::get_if<QXmppError>(&r)) {
                obs[i].sendError = std::any_cast<SendError>(&e->error) != nullptr;
                obs[i].stanzaError = std::any_cast<QXmppStanza::Error>(&e->error) != nullptr;
            } else {
                obs[i].el = std::get<QDomElement>(r);
            }
        });
    }
    void watchAll() { for (int i = 0; i < 2; i++) watch(i); }
    void settle() { if (!early) watchAll(); }
    // request i of the pre-state is still pending, unchanged
    void untouched(int i)
    {
        vp_assert(!task[i]->isFinished() && obs[i].done == 0, "C07 a request that got no valid reply stays pending (not completed, not cancelled)");
        auto it = map->find(key[i]);
        vp_assert(it != map->end() && mgr->hasId(key[i]), "C07 a request that got no valid reply stays in the table");
        if (it != map->end()) vp_assert(it->second.jid == jid[i], "C07 recorded addressee of a pending request is unchanged");
    }
    void completedOnce(int i)
    {
        vp_assert(task[i]->isFinished() || obs[i].done == 1, "C07 request completed");
        vp_assert(!mgr->hasId(key[i]), "C07 completed request is erased from the table");
    }
};

// ---------------------------------------------------------------- event: an incoming stanza
extern "C" void h_stanza()
{
    Fixture f;
    // arbitrary top-level element: tag, optional type / id / from attributes
    QString tag = vpSymString(3), ns;
    QDomElement el; vp_dom_new(&el, &tag, &ns);
    bool hasType = vp_cfg() & 2, hasId = vp_cfg() & 4, hasFrom = vp_cfg() & 8;
    QString type = vpSymString(6), id = vpSymString(2), from = vpSymString(3);
    QString nType = QStringLiteral("type"), nId = QStringLiteral("id"), nFrom = QStringLiteral("from");
    if (hasType) vp_dom_set_attr(&el, &nType, &type); else type = QString();     // an absent attribute reads as the empty string
    if (hasId) vp_dom_set_attr(&el, &nId, &id); else id = QString();
    if (hasFrom) vp_dom_set_attr(&el, &nFrom, &from); else from = QString();

    bool ret = f.mgr->handleStanza(el);
    f.settle();

    bool isResult = type == u"result", isError = type == u"error";
    bool reply = tag == u"iq" && (isResult || isError);
    bool any = false;
    for (int i = 0; i < 2; i++) {
        if (!f.used[i]) continue;
        bool match = reply && id == f.key[i] && (from.isEmpty() || from == f.jid[i]);
        if (match) {
            any = true;
            f.completedOnce(i);
            vp_assert(obs[i].done == 1, "C07 a valid reply completes the request exactly once");
            if (isResult) vp_assert(obs[i].kind == 0 && obs[i].el == el, "C07 a result reply completes the request with that very response element");
            else vp_assert(obs[i].kind == 1 && obs[i].stanzaError, "C07 an error reply completes the request with the stanza error");
        } else {
            f.untouched(i);
        }
    }
    vp_assert(ret == any, "C07 handleStanza reports 'handled' exactly when a request was completed");
    vp_assert(f.map->size() == (f.used[0] ? 1u : 0u) + (f.used[1] ? 1u : 0u) - (any ? 1u : 0u), "C07 table holds exactly the still pending requests");
    vp_assert(g_sendCalls == 0, "C07 a reply sends nothing");
}
#ifdef VP_PROBES
extern "C" void h_p1() { Fixture f; vp_assert(f.mgr->hasId(f.key[0]) == f.used[0], "C07 probe"); }
extern "C" void h_p2()
{
    Fixture f;
    QString tag = vpSymString(3), ns;
    QDomElement el; vp_dom_new(&el, &tag, &ns);
    QString type = vpSymString(6), id = vpSymString(2), from = vpSymString(3);
    QString nType = QStringLiteral("type"), nId = QStringLiteral("id"), nFrom = QStringLiteral("from");
    vp_dom_set_attr(&el, &nType, &type); vp_dom_set_attr(&el, &nId, &id); vp_dom_set_attr(&el, &nFrom, &from);
    bool ret = f.mgr->handleStanza(el);
    vp_assert(f.mgr->hasId(f.key[0]) || !f.used[0] || ret, "C07 probe");
}
#endif
