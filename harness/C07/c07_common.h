// C07 - every request completes exactly once, and only by a reply from the entity asked.
// Single inductive steps of the REAL QXmpp::Private::OutgoingIqManager (src/client/QXmppOutgoingClient.cpp) from an arbitrary
// valid request table (<= 2 outstanding requests) under one arbitrary event, compared with the reference transition of the
// property text.  Environment: request-table model (vp_iqmap.h), Task/Promise shadow, DOM tree model, stream layer cut at
// StreamAckManager::send (outcome chosen by the solver), packet serialisation cut, logging = no-op.
#pragma once
#include "vp_harness.h"
#include "vp_dom.h"
#include "vp_iqmap.h"
#include "client/QXmppOutgoingClient.cpp"
#include "vp_iqmap_impl.h"
#include "QXmppConfiguration.h"
#include <optional>

using namespace QXmpp;
using namespace QXmpp::Private;

// ---------------------------------------------------------------- environment written in C++ (cut points)
// stream layer: what happens to the packet is outside C07 (C09); only the reported outcome matters
static int g_sendCalls;
static unsigned g_sendMode;                                        // 0: reports success at once, 1: reports an error at once, 2: stays pending
static QXmppPromise<SendResult> *g_pendingSend;                   // created up-front by the harness (a conditionally engaged optional would
                                                                  // leave symbolic execution with an unknown promise object)
QXmppTask<SendResult> StreamAckManager::send(QXmppPacket &&)
{
    g_sendCalls++;
    QXmppPromise<SendResult> p;
    if (g_sendMode == 0) p.finish(SendSuccess { vp_bool() });
    else if (g_sendMode == 1) p.finish(QXmppError { QString(), SendError::SocketWriteError });
    else return g_pendingSend->task();
    return p.task();
}
// packet serialisation is not the subject: packets carry no bytes here
QXmppPacket::QXmppPacket(const QXmppNonza &, QXmppPromise<SendResult> p) : m_promise(std::move(p)), m_isXmppStanza(true) { }
QXmppPacket::QXmppPacket(const QByteArray &, bool isStanza, QXmppPromise<SendResult> p) : m_promise(std::move(p)), m_isXmppStanza(isStanza) { }
// the account's bare JID is an input of the implicit-addressee rule
extern "C" { QString *vp_jidBare; }
QString QXmppConfiguration::jidBare() const { return *vp_jidBare; }
// QXmppUtils::generateStanzaUuid is modelled in models.c: it hands out these (arbitrary) strings
extern "C" { QString *vp_uuid[2]; unsigned vp_uuid_n; unsigned vp_cfg(); }
// ~QXmppOutgoingClient: flushing the stream-management cache is C09's subject
static int g_resetCacheCalls;
void StreamAckManager::resetCache() { g_resetCacheCalls++; }

// ---------------------------------------------------------------- fixture
static_assert(sizeof(OutgoingIqManager) == 16 + sizeof(VpIqMap), "layout of OutgoingIqManager: { l, &streamAckManager, m_requests }");
static_assert(sizeof(QXmppOutgoingClient) == 24, "layout of QXmppOutgoingClient: { QObject, d }");
// n arbitrary UTF-16 units, length known to symbolic execution (vpSymString's length is solver-chosen)
static QString vpFixString(int n) { QChar b[4]; for (int k = 0; k < n && k < 4; k++) b[k] = QChar(vp_u16()); return QString(b, n); }
struct Obs { int done; int kind; bool sendError; int sendErrorValue; bool stanzaError; QDomElement el; };
static Obs obs[4];
// typed but unconstructed storage (a union member is not constructed implicitly): unlike a char buffer it keeps pointers that the
// real code stores into the object as pointers for the solver
template<typename T> union VpTyped { T v; VpTyped() { } ~VpTyped() { } T *p() { return &v; } T *operator->() { return &v; } };
struct Fixture {
    VpTyped<QXmppOutgoingClientPrivate> priv;   // only iqManager is constructed; streamAckManager.send / config.jidBare are cut
    VpTyped<QXmppOutgoingClient> client;        // only `d` is set
    VpRaw<QXmppLoggable> logger;                // raw storage: never touched (logMessage() is a no-op model)
    OutgoingIqManager *mgr;
    VpIqMap *map;
    bool used[3];
    QString key[3], jid[3];
    std::optional<QXmppTask<IqResult>> task[4];     // [2]: the request issued by the event (if any), [3]: the table model's end() sentinel
    bool early;

    Fixture()
    {
        mgr = new (&priv->iqManager) OutgoingIqManager(logger.p(), priv->streamAckManager);
        map = reinterpret_cast<VpIqMap *>(reinterpret_cast<char *>(mgr) + 16);
        *reinterpret_cast<void **>(reinterpret_cast<char *>(client.p()) + 16) = priv.p();
        // arbitrary valid table: ids non-empty and distinct, addressees non-empty, promises unfinished.
        // (all slots hold constructed objects so that every pointer the solver sees is concrete; `used` decides what exists)
        for (int i = 0; i < VP_MAP_CAP; i++) {
            // cfg bit 256: ids of the pending requests have exactly 1 unit (the id of the new request then has exactly 2, see h_send_packet)
            key[i] = (vp_cfg() & 256) ? vpFixString(1) : vpSymStringNonEmpty(2);
            jid[i] = vpSymStringNonEmpty(3);
            new (map->slot(i)) VpIqMap::value_type(key[i], IqState { {}, jid[i] });
            // cfg bit 512: exactly one pending request, known to symbolic execution (re-entrancy harness)
            used[i] = (vp_cfg() & 512) ? i == 0 : (i < 2 ? vp_bool() : false);
            map->t->s[i]->used = used[i];
            task[i].emplace(map->slot(i)->second.interface.task());
        }
        task[3].emplace(map->slot(VP_MAP_CAP)->second.interface.task());
        vp_assume(!(used[0] && used[1] && key[0] == key[1]));
        // the caller may or may not have attached its continuation already
        early = vp_cfg() & 1;
        if (early) watchAll();
    }
    static void record(int i, const IqResult &r)
    {
        obs[i].done++;
        obs[i].kind = int(r.index());
        if (auto *e = std::get_if<QXmppError>(&r)) {
            auto *se = std::any_cast<SendError>(&e->error);
            obs[i].sendError = se != nullptr;
            obs[i].sendErrorValue = se ? int(*se) : -1;
            obs[i].stanzaError = std::any_cast<QXmppStanza::Error>(&e->error) != nullptr;
        } else {
            obs[i].el = std::get<QDomElement>(r);
        }
    }
#ifndef VP_NO_WATCH
    // observe request i like a caller does: through a continuation
    void watch(int i) { task[i]->then(nullptr, [i](IqResult &&r) { record(i, r); }); }
#else
    // "send" group: observe through the task's stored result instead (no continuation class of the harness may exist in that group:
    // ll2c offers every ShadowCont<...>::call of matching shape as a candidate at the virtual call in QXmppPromise::finish, and a
    // candidate reached with a not-yet-excluded null continuation costs minutes)
    void watch(int i) { obs[i].done = 0; if (task[i]->isFinished() && task[i]->hasResult()) record(i, task[i]->result()); }
#endif
    // (the unused slot and the sentinel get a continuation too: every promise the solver might still consider then has the same
    //  kind of continuation object, which keeps the virtual call in QXmppPromise::finish a direct call for symbolic execution)
    void watchAll() { for (int i = 0; i < 4; i++) watch(i); }
    void settle() { if (!early) watchAll(); }
    // request i of the pre-state is still pending, unchanged
    void untouched(int i)
    {
        vp_assert(!task[i]->isFinished() && obs[i].done == 0, "C07 a request that got no valid reply stays pending (not completed, not cancelled)");
        auto it = map->find(key[i]);
        vp_assert(it != map->end() && mgr->hasId(key[i]), "C07 a request that got no valid reply stays in the table");
        if (it != map->end()) vp_assert(it->second.jid == jid[i], "C07 recorded addressee of a pending request is unchanged");
    }
    void completedOnce(int i)
    {
        vp_assert(task[i]->isFinished() || obs[i].done == 1, "C07 request completed");
        vp_assert(!mgr->hasId(key[i]), "C07 completed request is erased from the table");
    }
};

