// C07 - re-entrancy: the completion handler of a cancelled request issues a new request (a retry) while cancelAll() is running.
// The new request must not be lost: after the event it is either completed or still recorded (so that its reply can complete it).
#define VP_NO_WATCH 1
#include "c07_common.h"

static OutgoingIqManager *g_mgr;
static std::optional<QXmppTask<IqResult>> g_retryTask;
static int g_handlerRuns;
static QString *g_newId, *g_newTo;

extern "C" void h_reenter()
{
    Fixture f;                                   // cfg bits 256|512: exactly one pending request, its id has exactly 1 unit
    g_mgr = f.mgr;
    g_sendMode = 0;                              // the stream accepts the packet (new session is up / stream management caches it)
    QString newId = vpFixString(2), newTo = vpFixString(2);   // fresh id (2 units, all pending ids have 1), non-empty addressee
    g_newId = &newId; g_newTo = &newTo;
    QXmppPromise<SendResult> pending; g_pendingSend = &pending;
    f.task[0]->then(nullptr, [](IqResult &&r) {
        g_handlerRuns++;
        if (std::holds_alternative<QXmppError>(r)) {
            // retry: issue the request again under a fresh id
            QXmppPacket pkt(QByteArray(), true);
            g_retryTask.emplace(g_mgr->sendIq(std::move(pkt), *g_newId, *g_newTo));
        }
    });
    unsigned ev = (vp_cfg() >> 4) & 3;
    if (ev == 0) { SessionBegin s { vp_bool(), false, vp_bool(), vp_bool(), AuthenticationMethod(vp_u8() % 3) }; f.mgr->onSessionOpened(s); }
    else if (ev == 1) { SessionEnd s { false }; f.mgr->onSessionClosed(s); }
    else f.mgr->cancelAll();
    vp_assert(g_handlerRuns == 1, "C07 the cancelled request completes exactly once");
    vp_assert(g_retryTask.has_value(), "C07 handler ran with the cancellation error");
    if (g_retryTask) {
        vp_assert(g_sendCalls == 1, "C07 the request issued by the handler was sent");
        vp_assert(g_retryTask->isFinished() || f.mgr->hasId(newId),
                  "C07 a request issued while requests are being cancelled is either completed or stays pending in the table (it must not be lost)");
    }
}
