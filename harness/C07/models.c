/* C07: property-specific environment (C side) */
void vp_model_assert_cap(uint8_t ok) { ASSERT(ok, "C07 request-table model: capacity (3 entries) exceeded"); ASSUME(ok); }
/* logging: QXmppLoggable::logMessage is a Qt signal (moc code); nobody listens */
void _ZN13QXmppLoggable10logMessageEN11QXmppLogger11MessageTypeERK7QString(char *self, uint32_t type, char *msg) { }
/* case split chosen per instance (cdefs): keeps presence flags / continuation timing concrete for symex */
#ifndef VP_CFG
#define VP_CFG 0
#endif
uint32_t vp_cfg(void) { return VP_CFG; }
