/* C07: property-specific environment (C side) */
void vp_model_assert_cap(uint8_t ok) { ASSERT(ok, "C07 request-table model: capacity (3 entries) exceeded"); ASSUME(ok); }
/* logging: QXmppLoggable::logMessage is a Qt signal (moc code); nobody listens */
void _ZN13QXmppLoggable10logMessageEN11QXmppLogger11MessageTypeERK7QString(char *self, uint32_t type, char *msg) { }
/* case split chosen per instance (cdefs): keeps presence flags / continuation timing concrete for symex */
#ifndef VP_CFG
#define VP_CFG 0
#endif
uint32_t vp_cfg(void) { return VP_CFG; }
/* QDateTime (libQt5Core): only default-constructed / copied / destroyed members of QXmppStanza::Error and friends; value irrelevant here */
void _ZN9QDateTimeC1Ev(char *self) { *(char**)self = 0; }
void _ZN9QDateTimeC1ERKS_(char *self, char *o) { *(char**)self = *(char**)o; }
void _ZN9QDateTimeC1EOS_(char *self, char *o) { *(char**)self = *(char**)o; }
void _ZN9QDateTimeD1Ev(char *self) { }
char* _ZN9QDateTimeaSERKS_(char *self, char *o) { *(char**)self = *(char**)o; return self; }
/* log-message formatting: identity on the format string */
void _ZN9QtPrivate12argToQStringE11QStringViewmPPKNS_7ArgBaseE(char *ret, uint64_t n, char *p, uint64_t nargs, char *args) { *(QAD**)ret = SHARED_NULL; }
void _ZNK7QString3argERKS_i5QChar(char *ret, char *self, char *a, uint32_t w, uint16_t fill) { *(QAD**)ret = qad_ref(*(QAD**)self); }
/* index -> one of four concrete addresses (see vp_iqmap_impl.h) */
char* vp_pick4(uint32_t i, char *a, char *b, char *c, char *d) { return i == 0 ? a : i == 1 ? b : i == 2 ? c : d; }
/* QString::startsWith / endsWith (const QString&, cs): via the view models of qt_core.c */
uint8_t _ZNK7QString10startsWithERKS_N2Qt15CaseSensitivityE(char *self, char *o, uint32_t cs) { QAD *a = *(QAD**)self, *b = *(QAD**)o;
  return _ZN9QtPrivate10startsWithE11QStringViewS0_N2Qt15CaseSensitivityE(a->f1, (char*)qs_chars(a), b->f1, (char*)qs_chars(b), cs); }
uint8_t _ZNK7QString8endsWithERKS_N2Qt15CaseSensitivityE(char *self, char *o, uint32_t cs) { QAD *a = *(QAD**)self, *b = *(QAD**)o;
  return _ZN9QtPrivate8endsWithE11QStringViewS0_N2Qt15CaseSensitivityE(a->f1, (char*)qs_chars(a), b->f1, (char*)qs_chars(b), cs); }
/* QXmppUtils::generateStanzaUuid (real: QUuid::createUuid, random): hands out the arbitrary strings prepared by the harness */
#ifdef HAVE_G_vp_uuid
void _ZN10QXmppUtils18generateStanzaUuidEv(char *ret) { ASSERT(G_vp_uuid_n < 2, "C07: more than two generated ids"); ASSUME(G_vp_uuid_n < 2);
  char *src = G_vp_uuid_n == 0 ? ((char**)&G_vp_uuid)[0] : ((char**)&G_vp_uuid)[1]; G_vp_uuid_n++; *(QAD**)ret = qad_ref(*(QAD**)src); }
#else
void _ZN10QXmppUtils18generateStanzaUuidEv(char *ret) { ASSERT(0, "C07: generateStanzaUuid not expected here"); *(QAD**)ret = SHARED_NULL; }
#endif
/* ~QXmppOutgoingClient: destruction of the private object (socket, managers, ...) and of the QObject base is outside C07 */
void _ZNKSt14default_deleteI26QXmppOutgoingClientPrivateEclEPS0_(char *self, char *p) { }
void _ZN13QXmppLoggableD2Ev(char *self) { }
void _ZN7QObjectD2Ev(char *self) { }
