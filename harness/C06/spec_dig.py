# C06 / DIGEST-MD5 client (RFC 2831), ANONYMOUS, X-OAUTH2 - spec fragment merged by the driver
MODELS = ['c06_pre.c', 'qt_core.c', 'qt_list.c', 'qt_dom.c', 'c06_models.c']
def I(name, entry, cfg=(), **kw):
    d = dict(name=name, entry=entry, unwind=8, timeout_s=150, mem_gb=6, bound='')
    d['cdefs'] = {}
    for i, v in enumerate(cfg): d['cdefs']['C06_CFG%d' % i] = v
    d['cdefs'].update(kw.pop('cdefs', {})); d.update(kw); return d
QOP = {0: 'absent', 1: '"auth"', 2: '"auth-int"', 3: '"auth-int,auth"', 4: '2 arbitrary bytes', 5: '4 arbitrary bytes without ","', 6: '"auth,auth-conf"'}
def S1(name, nonce, realm, qop, others, ul=1, pl=1, **kw):
    b = 'challenge directive map: nonce %s, realm %s, qop %s, unused directives mask %d (charset 1, algorithm 2, cipher 4, rspauth 8, foreign 16; values 0..2 arbitrary bytes); user name %d / password %d / host 1 arbitrary ASCII units, cnonce 2 arbitrary bytes, digests 4 symbolic bytes' % (
        'absent' if not nonce else '%d arbitrary bytes' % (nonce - 1), 'absent' if not realm else '%d arbitrary bytes' % (realm - 1), QOP[qop], others, ul, pl)
    return I(name, 'h_dig_step1', (nonce, realm, qop, others, ul, pl), unwind=12, cdefs={'QB_CAP': 48}, model_loop_bound=50, bound=b, **kw)
def S2(name, rsp, others, **kw):
    b = 'arbitrary state after step 1 (secret = 4 arbitrary digest bytes, nonce / cnonce 2 arbitrary bytes, host 1 ASCII unit); second challenge directive map: rspauth %s, other directives mask %d (charset 1, nonce 2, foreign 16)' % (
        'absent' if rsp == 0 else 'present, 8 arbitrary bytes (= 2 x digest length)' if rsp == 1 else 'present, %d arbitrary bytes' % (rsp - 2), others)
    return I(name, 'h_dig_step2', (rsp, 0, 0, others), unwind=12, cdefs={'QB_CAP': 48}, model_loop_bound=50, bound=b, **kw)
GROUPS = [
    dict(name='dig_resp', harness='dig_resp.cpp', tus=[], models=MODELS + ['dig_cut.c'],
         loop_bounds={r'^_ZN13QConcatenableI10QByteArrayE8appendTo': 56},
         instances=[
             S1('dig_step1_honest', 3, 2, 1, 3),
             S1('dig_step1_nononce', 0, 2, 1, 3),
             S1('dig_step1_noqop', 2, 0, 0, 0),
             S1('dig_step1_qop_int', 3, 1, 2, 2),
             S1('dig_step1_qop_list', 3, 3, 3, 31, ul=2, pl=2, tiers=('thorough',)),
             S1('dig_step1_qop_any4', 3, 2, 5, 0, tiers=('thorough',)),
             S1('dig_step1_qop_any2', 1, 0, 4, 8, tiers=('thorough',), timeout_s=300),
             S1('dig_step1_qop_conf', 2, 2, 6, 24, tiers=('thorough',)),
             S1('dig_step1_nononce_noqop', 0, 0, 0, 16, tiers=('thorough',)),
             S1('dig_step1_long', 4, 4, 1, 31, ul=3, pl=3, tiers=('thorough',)),
             S2('dig_step2_rspauth', 1, 0),
             S2('dig_step2_missing', 0, 3),
             S2('dig_step2_short', 4, 16),
             S2('dig_step2_empty', 2, 0, tiers=('thorough',)),
             S2('dig_step2_rspauth_more', 1, 19, tiers=('thorough',)),
             I('dig_exchange', 'h_dig_exchange', (0, 1), unwind=12, cdefs={'QB_CAP': 48, 'C06_ORC_CAP': 24}, model_loop_bound=50,
               bound='step 0, challenge {nonce 2 arbitrary bytes, realm 1 arbitrary byte, qop=auth, charset, algorithm}, response, rspauth computed per RFC 2831 2.1.3 from an arbitrary server-side password (1 unit, equal to the client password or not); user/password/host 1 ASCII unit'),
             I('dig_exchange_norealm', 'h_dig_exchange', (0, 0), unwind=12, cdefs={'QB_CAP': 48, 'C06_ORC_CAP': 24}, model_loop_bound=50, tiers=('thorough',),
               bound='as dig_exchange without realm directive'),
             I('dig_anonymous', 'h_dig_anonymous', (), bound='challenges of 0..2 arbitrary bytes'),
             I('dig_xoauth2', 'h_dig_xoauth2', (2, 2), bound='user name 2, access token 2 arbitrary ASCII units; challenges 0..2 arbitrary bytes'),
         ]),
]
EXCL = 'conforming messages only; excluded classes (each a deviation of parseMessage from the grammar, see the dig_f_* instances): E1 closing quote preceded by a backslash, E2 quoted-pair of a character other than " and backslash, E3 LWS after "=" or after a value, E4 null list elements'
import os
FT = ('thorough',) if os.environ.get('DIG_DEMO') else ()   # demonstrations of findings: never run by the driver unless DIG_DEMO=1
PATHS = dict(cbmc_flags=['--paths', 'lifo'])
SM = r'^_ZN18QXmppSaslDigestMd516serializeMessage'
PM = r'^_ZN18QXmppSaslDigestMd512parseMessage'
def PA(n, **kw): return I('dig_parse_any%d' % n, 'h_dig_parse_any', (n, 15), unwind=10, loop_bounds={PM: (n + 1) // 2 + 1}, bound='every byte string of exactly %d bytes that is a list of directives per RFC 2831 7.1; %s' % (n, EXCL), **kw)
PMF = 'F__ZN18QXmppSaslDigestMd512parseMessageERK10QByteArray'   # loop .0 = closing-quote scan (one character or quoted pair per trip), loop .1 = one directive per trip
def PS(name, shape, lv, what, it=1, hint=3, scan=None, **kw):
    scan = scan if scan is not None else 2 * lv + 4
    return I(name, 'h_dig_parse_shape', (shape, lv, hint), unwind=10, unwindset=['%s.0:%d' % (PMF, scan), '%s.1:%d' % (PMF, it + 1)], bound='message %s with %d arbitrary bytes per value piece (token characters for unquoted values, any qdtext except " and backslash for quoted ones)' % (what, lv), **kw)
CLS = ['arbitrary non-separator byte', '"', 'backslash', ',', 'SP', '=']
def RC(name, n, classes, mode=0, **kw):   # mode 0: real serializer -> real parser (with the verified at() hint); 3: serializer lemma only (text read by the reference parser)
    code = sum(c * 6 ** i for i, c in enumerate(classes))
    return I(name, 'h_dig_roundtrip_cls', (n, code, mode), unwind=10, unwindset=['%s.0:%d' % (PMF, 2 * n + 3), '%s.1:3' % PMF], loop_bounds={SM: 24},
             bound='map {k: v}, v = %d bytes of the classes (%s); %s' % (n, ', '.join(CLS[c] for c in classes), 'serializeMessage only: the text must mean {k: v} to the reference parser' if mode == 3 else 'parse(serialize(m)) == m'), **dict(PATHS, **kw))
def RT(name, ne, l1, l2, excl=1, **kw): return I(name, 'h_dig_roundtrip', (ne, l1, l2, excl), unwind=10, loop_bounds={PM: ne + l1 + l2 + 2, SM: 24}, bound='map of %d entries, names = 1 arbitrary token character each, values of exactly %d / %d arbitrary bytes%s' % (ne, l1, l2, ' not ending in a backslash (class E1)' if excl else ''), **kw)
GROUPS.append(
    dict(name='dig_parse', harness='dig_parse.cpp', tus=[], models=['c06_pre.c', 'dig_pre.c', 'qt_core.c', 'qt_list.c', 'qt_dom.c', 'c06_models.c', 'dig_map.c'],
         loop_bounds={r'^_ZN13QConcatenableI10QByteArrayE8appendTo': 48, r'^_ZN3Msg3litEPKc': 26},
         instances=[
             PA(2, tiers=('thorough',), timeout_s=600),
             PS('dig_parse_s_tok', 0, 2, 'ab=V', scan=3, **PATHS),
             PS('dig_parse_s_quoted', 1, 2, 'ab="V"', scan=4, **PATHS),
             PS('dig_parse_s_quoted_sep', 1, 1, 'ab="V" where V is ANY qdtext byte incl. "=" "," SP (no indexOf hint)', hint=2, it=2, tiers=('thorough',), timeout_s=900, **PATHS),
             PS('dig_parse_s_escq', 2, 1, 'a="V\\"W" (escaped quote inside)', tiers=('thorough',), timeout_s=450, **PATHS),
             PS('dig_parse_s_two', 3, 2, 'a=V,c=W', it=2, tiers=('thorough',), timeout_s=450, **PATHS),
             PS('dig_parse_s_qthen', 16, 1, 'a="V",c=W', it=2, tiers=('thorough',), timeout_s=900, **PATHS),
             PS('dig_parse_s_lead', 17, 1, '" a=V" (LWS before the name)', tiers=('thorough',), timeout_s=450, **PATHS),
             PS('dig_parse_s_trail', 4, 2, 'a=V, (trailing comma)', tiers=('thorough',), timeout_s=450, **PATHS),
             PS('dig_parse_s_empty', 5, 2, 'a=,c=W (empty value)', it=2, tiers=('thorough',), timeout_s=450, **PATHS),
             PS('dig_parse_s_emptyq', 6, 0, 'a="" (empty quoted value)', **PATHS),
             PS('dig_parse_s_escbs', 8, 1, 'a="V\\\\W" (escaped backslash inside)', tiers=('thorough',), timeout_s=450, **PATHS),
             PS('dig_parse_s_lws', 9, 1, '" a =\"V\",<HT>c=W" (LWS before names and before "=")', it=2, tiers=('thorough',), timeout_s=900, **PATHS),
             PS('dig_parse_s_dup', 10, 1, 'a=V,a=W (repeated directive, last wins)', it=2, tiers=('thorough',), timeout_s=450, **PATHS),
             # E1 (closing quote preceded by an escaped backslash) was defect F1, fixed in /repo: dig_f_e1_trailing_backslash / dig_f_rtc_x_bs are regressions now.
             # E2-E4: demonstrations of deviations that remain; tiers=() = never run by the driver (DIG_DEMO=1 ./check C06 thorough --only <name> runs one)
             PS('dig_f_e1_trailing_backslash', 7, 1, 'a="V\\\\" (quoted value ending in an escaped backslash; defect fixed in /repo, regression)', tiers=('thorough',), **PATHS),
             PS('dig_f_e2_quoted_pair', 12, 1, 'a="\\V" (quoted-pair of an ordinary character)', tiers=FT, **PATHS),
             PS('dig_f_e3_lws_after', 13, 1, 'a=V ,c= W (LWS after a value / after "=")', it=2, tiers=FT, **PATHS),
             PS('dig_f_e4_null_element', 14, 1, 'a=V,,c=W (null list element)', it=2, tiers=FT, **PATHS),
             RC('dig_rtc_x', 1, (0,), tiers=('thorough',), timeout_s=600), RC('dig_rtc_quote_x', 2, (1, 0), tiers=('thorough',), timeout_s=600), RC('dig_rtc_x_quote', 2, (0, 1), tiers=('thorough',), timeout_s=600), RC('dig_rtc_bs_x', 2, (2, 0), tiers=('thorough',), timeout_s=600),
             RC('dig_f_rtc_x_bs', 2, (0, 2), tiers=('thorough',), timeout_s=600),   # value ending in a backslash: defect F1, fixed in /repo (regression)
             RC('dig_ser_quote_x', 2, (1, 0), mode=3, tiers=('thorough',), timeout_s=600), RC('dig_ser_bs_x', 2, (2, 0), mode=3, tiers=('thorough',), timeout_s=600), RC('dig_ser_x_bs', 2, (0, 2), mode=3, tiers=('thorough',), timeout_s=600),
             I('dig_f_ser_unquoted', 'h_dig_ser_quoted', (2,), unwind=10, loop_bounds={SM: 24}, tiers=('quick', 'thorough'), known_finding='digest_unquoted_directives', bound='username value of 2 arbitrary token characters'),
         ]))
def MG(p, name, data, tag, step, demo=0, **kw):
    what = {0: 'without data', 1: 'carrying the directive map {rspauth = 8 arbitrary bytes}', 2: 'carrying a directive map without rspauth'}[data]
    return I('dig_%s_%s' % (p, name), 'h_dig_%s_manager' % p, (data, tag, step, demo), unwind=12, cdefs={'QB_CAP': 48}, model_loop_bound=50,
             bound='pending DIGEST-MD5 client at step %d with arbitrary secret (4 digest bytes) and nonce (2 bytes); element <%s/> %s' % (step, ('success', 'challenge', 'failure')[tag], what), **kw)
GROUPS.append(
    dict(name='dig_mgr', harness='dig_mgr.cpp', tus=['src/base/QXmppSasl.cpp', 'src/base/QXmppUtils.cpp', 'src/base/QXmppStreamManagement.cpp'], models=MODELS + ['dig_cut.c'],
         ranges_shim=True, shadow_task=True, cxxdefs={'_GLIBCXX_RANGES': 1},
         loop_bounds={r'^_Z8qstrnlenPKcj': 40, r'^_ZN13QConcatenableI10QByteArrayE8appendTo': 56},
         instances=[i for p in ('sasl', 'sasl2') for i in (
             MG(p, 'challenge_rspauth', 1, 1, 2),
             MG(p, 'challenge_missing', 2, 1, 2, **({} if p == 'sasl' else dict(tiers=('thorough',)))),
             MG(p, 'challenge_third', 1, 1, 3, tiers=('thorough',)),
             MG(p, 'success_verified', 0, 0, 3, tiers=('thorough',)),
             MG(p, 'failure', 0, 2, 2, tiers=('thorough',)),
             MG(p, 'success_early', 1, 0, 2, tiers=('thorough',)),
             MG(p, 'f_success_wrong_rspauth', 1, 0, 2, demo=1, tiers=('quick', 'thorough')),
         )]))
# SCRAM deepening (task C): the existing exchange harness with lengths one or two units above today's
GROUPS.append(
    dict(name='dig_scram', harness='h_scram.cpp', tus=[], models=MODELS,
         loop_bounds={r'^_ZN13QConcatenableI10QByteArrayE8appendTo': 72},
         instances=[
             I('dig_scram_exchange_n4', 'h_scram_exchange', (4, 0, 1, 6, 4, 2), unwind=16, tiers=('thorough',), timeout_s=900, mem_gb=10, cdefs={'QB_CAP': 64}, model_loop_bound=66,
               bound='client nonce 4 bytes, server nonce field 6, salt field 4, iteration field 2 (all arbitrary, no ","), password 1 unit, all 4 SCRAM hashes'),
             I('dig_scram_exchange_u2', 'h_scram_exchange', (2, 2, 1, 3, 2, 1), unwind=12, tiers=('thorough',), timeout_s=900, mem_gb=10, cdefs={'QB_CAP': 64}, model_loop_bound=66,
               bound='as scram_exchange with a user name of 2 arbitrary ASCII units (incl. "," and "=", which must be escaped in the AuthMessage)'),
         ]))
BOUNDS = [
    'DIGEST-MD5: nonce / realm 0..3 arbitrary bytes, cnonce 2 arbitrary bytes, user name / password 1..3 ASCII units, host 1 ASCII unit, service type "xmpp", digests 4 symbolic bytes (HEX = 8 digits)',
    'DIGEST-MD5 codec lemma: messages of the stated fixed shapes with 0..2 arbitrary bytes per value piece; arbitrary byte strings only up to 2 bytes (dig_parse_any2)',
    'DIGEST-MD5 managers: one handleElement step from a pending client at step 2 or 3',
]
ASSUMPTIONS = [
    'DIGEST-MD5 client and managers (groups dig_resp, dig_mgr): QXmppSaslDigestMd5::parseMessage is CUT to "returns the directive map of the challenge" (an arbitrary map over nonce, realm, qop, charset, algorithm, cipher, rspauth and a foreign name, built by the harness); serializeMessage is CUT to a recorder (the response is compared as a directive map). The lemma group dig_parse checks the real codec against the RFC 2831 7.1 grammar on the stated shapes, outside the classes E1-E4',
    'MD5 = recording oracle as for SCRAM; toHex is computed digit by digit on the 4 symbolic digest bytes',
    'the cnonce is injected through QXmppSaslDigestMd5::setNonce (as the test-suite does); QXmppUtils::generateRandomBytes + toBase64 in generateNonce are not exercised',
    'group dig_parse: QMap<QByteArray,QByteArray> = append-only log model (dig_map.c): last entry with an equal key wins, operator[] only as assignment target, iteration only over maps filled in ascending key order; cbmc runs in path mode (--paths lifo) for the shape and round-trip instances; indexOf uses the verified structure hint of c06_models.c (hence hinted quoted values contain no "=", "," or quote); QByteArray::at is a class-level model with a verified hint (dig_map.c): on the one message under test, at() at a position the harness registered as an arbitrary content byte asserts that the byte is neither a quote nor a backslash and returns the constant "x" (parseMessage compares at() results only with these two characters), so the closing-quote scan has a concrete trip count; data copies (mid/replace) keep the real bytes. A serializer change that moves a quote or backslash onto a registered position makes the dig_rtc_* instance inconclusive (model assertion), never a pass; the serializer is checked without this hint by dig_ser_*',
]
OUTSIDE = [
    'DIGEST-MD5 parseMessage on ARBITRARY byte strings longer than 2 bytes: the real parser alone on 3 symbolic bytes costs 50 s / 1.9 GB, with the reference parser of dig_parse.cpp the SAT instance exceeds 5.5 GB (dig_parse_any3 not registered); covered instead by fixed shapes with symbolic value bytes',
    'DIGEST-MD5 serialize -> parse round trip on values of 2 or more ARBITRARY bytes and on maps of 2 entries (no verdict in 450 s); registered: one arbitrary byte next to each special character, class by class (dig_rtc_*: real serializer -> real parser; dig_ser_*: real serializer -> reference parser)',
    'DIGEST-MD5 messages of the classes E1-E4 (parseMessage deviates from RFC 2831 7.1 there: demonstrations dig_f_e1..e4, not run), the always-quoted form of username/realm/nonce/cnonce (dig_f_ser_unquoted), rspauth carried by <success/> (dig_*_f_success_wrong_rspauth)',
    'DIGEST-MD5: authzid, several realm directives, stale / maxbuf / cipher handling, qop other than auth, non-ASCII user names (charset), nonce-count > 1 (no subsequent authentication), QXmppSaslServerDigestMd5',
    'X-FACEBOOK-PLATFORM (QUrlQuery is not modelled), X-MESSENGER-OAUTH2 (one line: base64-decoded token); SCRAM iteration counts at the int boundary are already inside scram_exchange (toInt of ordinary text = arbitrary (value, ok), so 2147483647, 0, -1 and "not an int" are all covered abstractly); the digit grammar (leading "+", 2147483648 out of range) is Qt\'s',
]
