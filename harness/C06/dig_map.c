/* C06 / group dig_parse: class-level QMap<QByteArray,QByteArray> as an APPEND-ONLY LOG (overrides the inline template members).
   insert()/operator[] append one (key, value) entry at the next index - a constant for symex as long as every path to the call has
   made the same number of insertions, which holds for parseMessage (one insertion per loop iteration). Map semantics are resolved at
   look-up time: value()/contains() take the LAST entry with an equal key, size() counts distinct keys. operator[] must only be used as
   an assignment target (true for parseMessage and the harness). Iteration (serializeMessage) is supported for maps whose entries were
   inserted in strictly ascending key order (asserted), where insertion order = QMap order. */
#ifdef HAVE_T_struct_QArrayData
#undef _ZN4QMapI10QByteArrayS0_EC2Ev
#undef _ZN4QMapI10QByteArrayS0_ED2Ev
#undef _ZN4QMapI10QByteArrayS0_EixERKS0_
#undef _ZN4QMapI10QByteArrayS0_E6insertERKS0_S3_
#undef _ZNK4QMapI10QByteArrayS0_E8containsERKS0_
#undef _ZNK4QMapI10QByteArrayS0_E5valueERKS0_S3_
#undef _ZNK4QMapI10QByteArrayS0_E5beginEv
#undef _ZNK4QMapI10QByteArrayS0_E3endEv
#undef _ZN4QMapI10QByteArrayS0_E14const_iteratorppEi
#undef _ZNK4QMapI10QByteArrayS0_E14const_iterator3keyEv
#undef _ZNK4QMapI10QByteArrayS0_E14const_iterator5valueEv
#undef _ZNK4QMapI10QByteArrayS0_E14const_iteratorneERKS2_
#ifndef DIG_LCAP
#define DIG_LCAP 4
#endif
struct dig_lent { QAD *k; QAD *v; };
struct dig_lmap { uint32_t n; struct dig_lent e[DIG_LCAP + 1]; };
#define LMAP(self) (*(struct dig_lmap**)(self))
static struct dig_lent *dig_lappend(struct dig_lmap *m, QAD *key) { ASSERT(m->n < DIG_LCAP, "QMap<QByteArray,QByteArray> log capacity of the model exceeded"); ASSUME(m->n < DIG_LCAP);
  struct dig_lent *e = &m->e[m->n]; m->n++; e->k = qad_ref(key); e->v = SHARED_NULL; return e; }
/* index of the last entry with this key, or DIG_LCAP */
static uint32_t dig_lfind(struct dig_lmap *m, QAD *key) { uint32_t pos = DIG_LCAP; for (uint32_t i = 0; i < DIG_LCAP; i++) { if (i >= m->n) break; if (qb_eq(m->e[i].k, key)) pos = i; } return pos; }
void _ZN4QMapI10QByteArrayS0_EC2Ev(char *self) { struct dig_lmap *m = malloc(sizeof(struct dig_lmap)); ASSUME(m != 0); m->n = 0; for (uint32_t i = 0; i <= DIG_LCAP; i++) { m->e[i].k = SHARED_NULL; m->e[i].v = SHARED_NULL; } LMAP(self) = m; }
void _ZN4QMapI10QByteArrayS0_ED2Ev(char *self) { }
char* _ZN4QMapI10QByteArrayS0_EixERKS0_(char *self, char *key) { return (char*)&dig_lappend(LMAP(self), QBD(key))->v; }
char* _ZN4QMapI10QByteArrayS0_E6insertERKS0_S3_(char *self, char *key, char *val) { struct dig_lent *e = dig_lappend(LMAP(self), QBD(key)); e->v = qad_ref(QBD(val)); return (char*)e; }
uint8_t _ZNK4QMapI10QByteArrayS0_E8containsERKS0_(char *self, char *key) { return dig_lfind(LMAP(self), QBD(key)) < DIG_LCAP; }
void _ZNK4QMapI10QByteArrayS0_E5valueERKS0_S3_(char *ret, char *self, char *key, char *def) { struct dig_lmap *m = LMAP(self); uint32_t pos = dig_lfind(m, QBD(key)); QAD *r = QBD(def);
  for (uint32_t i = 0; i < DIG_LCAP; i++) { if (i == pos) r = m->e[i].v; } QBD(ret) = qad_ref(r); }
uint32_t _ZNK4QMapI10QByteArrayS0_E4sizeEv(char *self) { struct dig_lmap *m = LMAP(self); uint32_t cnt = 0;
  for (uint32_t i = 0; i < DIG_LCAP; i++) { if (i >= m->n) break; uint8_t later = 0; for (uint32_t j = 0; j < DIG_LCAP; j++) { if (j >= m->n) break; if (j > i && qb_eq(m->e[i].k, m->e[j].k)) later = 1; } if (!later) cnt++; } return cnt; }
uint32_t vp_dig_log_len(char *self) { return LMAP(self)->n; }
char* _ZNK4QMapI10QByteArrayS0_E5beginEv(char *self) { struct dig_lmap *m = LMAP(self);
  for (uint32_t i = 0; i + 1 < DIG_LCAP; i++) { if (i + 1 >= m->n) break; char *a = (char*)&m->e[i].k, *b = (char*)&m->e[i + 1].k; ASSERT((int32_t)_Z7qstrcmpRK10QByteArrayS1_(a, b) < 0, "QMap log model: iteration only over maps filled in strictly ascending key order"); }
  return (char*)&m->e[0]; }
char* _ZNK4QMapI10QByteArrayS0_E3endEv(char *self) { struct dig_lmap *m = LMAP(self); return (char*)&m->e[m->n]; }
char* _ZN4QMapI10QByteArrayS0_E14const_iteratorppEi(char *it, uint32_t dummy) { char *old = *(char**)it; *(char**)it = old + sizeof(struct dig_lent); return old; }
char* _ZNK4QMapI10QByteArrayS0_E14const_iterator3keyEv(char *it) { return (char*)&(*(struct dig_lent**)it)->k; }
char* _ZNK4QMapI10QByteArrayS0_E14const_iterator5valueEv(char *it) { return (char*)&(*(struct dig_lent**)it)->v; }
uint8_t _ZNK4QMapI10QByteArrayS0_E14const_iteratorneERKS2_(char *a, char *b) { return *(char**)a != *(char**)b; }
/* a QByteArray of `len` (<= cap, cap a constant) bytes copied from a harness buffer */
void vp_dig_bytes(char *out, char *buf, uint32_t len, uint32_t cap) { ASSERT(cap <= 16 && len <= cap, "vp_dig_bytes bound"); ASSUME(len <= cap); QAD *d = qb_new(len, cap);
  for (uint32_t i = 0; i < 16; i++) { if (i >= cap) break; C06_BD(d)[i] = ((uint8_t*)buf)[i]; } C06_BD(d)[len] = 0; QBD(out) = d; }
/* Verified structure hint for QByteArray::at (inline Qt member, overridden as a class-level model for this group only): for ONE message the
   harness built from literal pieces and symbolic pieces, the positions of the symbolic ("opaque content") bytes are registered as a bit mask.
   at(i) on exactly that block at such a position ASSERTS that the byte really is neither '"' nor a backslash - the only two characters
   parseMessage compares at() results with - and then returns the constant 'x', so that the closing-quote scan of parseMessage folds for symex.
   The bytes themselves (copied by mid()/replace()) stay symbolic. Every other at() call returns the stored byte. */
static QAD *dig_at_blk; static uint32_t dig_at_mask;
void vp_dig_at_hint(char *ba, uint32_t mask) { dig_at_blk = QBD(ba); dig_at_mask = mask; }
uint8_t _ZNK10QByteArray2atEi(char *self, uint32_t i) { QAD *d = QBD(self); uint8_t b = qb_bytes(d)[i];
  if (d == dig_at_blk && i < 32 && ((dig_at_mask >> i) & 1)) { ASSERT(b != '"' && b != '\\', "at() hint: an opaque content byte is neither a quote nor a backslash"); ASSUME(b != '"' && b != '\\'); return 'x'; }
  return b; }
#endif
