// C06 harness prelude: std/Qt headers first (their access specifiers must stay), then qxmpp headers with private members opened.
#pragma once
#include <any>
#include <optional>
#include <variant>
#include <memory>
#include <functional>
#include <QObject>
#include <QDomElement>
#include <QMessageAuthenticationCode>
#include <QPasswordDigestor>
#include <QCryptographicHash>
#include <QUrlQuery>
#include <QXmlStreamWriter>
#include <QtEndian>
#include <QMap>
#include <QUuid>
#include <QDateTime>
#include <QSslSocket>
#include "vp_harness.h"
#include "vp_dom.h"
extern "C" {
void vp_sym_bytes_n(QByteArray *out, unsigned maxlen);
void vp_c06_sym_bytes_exact(QByteArray *out, unsigned n);
void vp_c06_sym_string_exact(QString *out, unsigned n);
unsigned vp_cfg(unsigned i); unsigned vp_diglen();
void vp_split_hint_begin(const QByteArray *ba, char sep); void vp_split_hint_piece(unsigned len);
void vp_b64_expect_valid(bool on); void vp_toint_fix(unsigned v);
void vp_index_hint_begin(const QByteArray *ba); void vp_index_hint(char c, unsigned pos);
unsigned vp_orc_count();
void vp_orc_seal(unsigned n); void vp_orc_reference(bool on);
unsigned vp_orc_kind(unsigned i); unsigned vp_orc_alg(unsigned i); unsigned vp_orc_iters(unsigned i); unsigned long long vp_orc_dklen(unsigned i);
void vp_orc_in1(unsigned i, QByteArray *out); void vp_orc_in2(unsigned i, QByteArray *out);
}
static inline QByteArray vpBytesN(unsigned maxlen) { QByteArray b; vp_sym_bytes_n(&b, maxlen); return b; }
static inline QByteArray vpBytesExact(unsigned n) { QByteArray b; vp_c06_sym_bytes_exact(&b, n); return b; }
static inline QString vpStringExact(unsigned n) { QString b; vp_c06_sym_string_exact(&b, n); return b; }
static inline void hintPiecesOne(const QByteArray &m) { vp_split_hint_begin(&m, ','); vp_split_hint_piece(unsigned(m.size())); }
// the next split(',') of ANY block has exactly one piece of this length (asserted by the model)
static inline void hintAnyOnePiece(unsigned len) { vp_split_hint_begin(nullptr, ','); vp_split_hint_piece(len); }
static inline bool vpNoByte(const QByteArray &b, char c) { for (int i = 0; i < b.size(); i++) if (b.at(i) == c) return false; return true; }
static inline int vpCountByte(const QByteArray &b, char c) { int n = 0; for (int i = 0; i < b.size(); i++) if (b.at(i) == c) n++; return n; }
// ASCII without NUL: the UTF-8 codec of Qt is outside the model (identity on ASCII)
static inline bool vpAscii(const QString &s) { for (int i = 0; i < s.size(); i++) { auto u = s.at(i).unicode(); if (u == 0 || u >= 0x80) return false; } return true; }
#define private public
#define protected public
// The vtable of a Q_OBJECT class is emitted with its key function metaObject(), which the real build gets from moc. Defining it here
// (never called) makes the vtable part of the translated program, so virtual calls in the real code are devirtualised by ll2c.
#define C06_VTABLE(C) const QMetaObject *C::metaObject() const { return nullptr; }
