/* C06 / DIGEST-MD5 client, assume-guarantee CUT of the message codec (group dig_resp, dig_mgr): QXmppSaslDigestMd5::parseMessage
   returns the map the harness prepared (an arbitrary directive map - what the lemma group dig_parse establishes about the real
   parser is that it yields the directive map of the RFC 2831 7.1 grammar); QXmppSaslDigestMd5::serializeMessage records the map it
   is given and returns a fixed token (the lemma dig_rt_* shows that parse(serialize(m)) == m).  Uses the class-level
   QMap<QByteArray,QByteArray> of c06_models.c (same translation unit). */
#ifdef HAVE_T_struct_QArrayData
static struct c06_bmap *dig_cut_map; static uint32_t dig_parse_n, dig_ser_n; static QAD *dig_parse_arg; static struct c06_bmap *dig_ser_map;
void vp_dig_cut_parse(char *m) { dig_cut_map = BMAP(m); }
uint32_t vp_dig_parse_calls(void) { return dig_parse_n; }
void vp_dig_parse_arg(char *out) { QBD(out) = dig_parse_arg ? qad_ref(dig_parse_arg) : SHARED_NULL; }
uint32_t vp_dig_ser_calls(void) { return dig_ser_n; }
void vp_dig_ser_map(char *out) { ASSERT(dig_ser_map != 0, "serializeMessage cut: no call recorded"); BMAP(out) = dig_ser_map; }
void _ZN18QXmppSaslDigestMd512parseMessageERK10QByteArray(char *ret, char *ba) { ASSERT(dig_cut_map != 0, "parseMessage cut: the harness prepared no map"); dig_parse_n++; dig_parse_arg = qad_ref(QBD(ba)); BMAP(ret) = dig_cut_map; }
void _ZN18QXmppSaslDigestMd516serializeMessageERK4QMapI10QByteArrayS1_E(char *ret, char *map) { dig_ser_n++; dig_ser_map = BMAP(map); QBD(ret) = c06_from((const uint8_t*)"<serialized>", 12); }
/* QMap::size() reads d->size of the real node layout: the class-level model keeps the count in its own field */
uint32_t _ZNK4QMapI10QByteArrayS0_E4sizeEv(char *self) { return BMAP(self)->n; }
#endif
