// C06 - SaslManager / Sasl2Manager::handleElement: a SCRAM login is reported successful only if the mechanism object has
// verified the server (single inductive step from an arbitrary in-progress state of manager + SCRAM client)
#include "c06_common.h"
#include "client/QXmppSaslManager.cpp"
C06_VTABLE(QXmppSaslClient) C06_VTABLE(QXmppSaslClientScram)
using namespace QXmpp::Private;

extern "C" unsigned vp_serialize_count();   // number of stanzas serialised for sending (contents are cut, see c06_models.c)
struct Sock : SendDataInterface { bool sendData(const QByteArray &) override { return true; } };

#define S(x) QStringLiteral(x)
static QDomElement elem(const QString &tag, const QString &ns) { QDomElement e; vp_dom_new(&e, &tag, &ns); return e; }
static void setText(QDomElement &e, const QByteArray &data) { QString t = QString::fromUtf8(data.toBase64()); vp_dom_set_text(&e, &t); }

// SCRAM client in an arbitrary in-progress state. Representation invariant of (manager, client) while the task is pending:
// step in {1,2,3}; step 3 is only reached through a server-final whose signature matched (otherwise the manager had failed the task).
// the repaired client (proposed fix) records the verification in a flag; the unchanged one has no such member
template<class C> static void setVerified(C *c, bool v) { if constexpr (requires { c->m_serverVerified; }) c->m_serverVerified = v; }
static QXmppSaslClientScram *scramInState(int step, const QByteArray &sig)
{
    QXmppSaslDigestMd5::setNonce(QByteArray("N"));
    auto *c = new QXmppSaslClientScram(SaslScramMechanism { SaslScramMechanism::Sha256 }, nullptr);
    c->m_step = step; setVerified(c, step == 3); c->m_serverSignature = sig; c->m_gs2Header = QByteArray("n,,"); c->m_clientFirstMessageBare = QByteArray("n=u,r=N");
    return c;
}
// the data carried by the incoming element (per-instance choice): nothing, or a server-final with an arbitrary signature V
// (at step 1 the latter is a malformed server-first)
static QByteArray incomingData(unsigned kind, const QByteArray &V)
{
    if (kind == 0) return QByteArray();
    QByteArray d("v="); d.append(V.toBase64()); hintAnyOnePiece(d.size()); return d;
}

static void saslManager(bool excludeKnown)
{
    Sock sock; SaslManager mgr(&sock);
    mgr.m_promise = QXmppPromise<SaslManager::AuthResult>();
    auto task = mgr.m_promise->task();
    unsigned step = vp_u32(); vp_assume(step >= 1 && step <= 3);
    QByteArray sig = vpBytesExact(vp_diglen()), V = vpBytesExact(vp_diglen());
    auto *c = scramInState(int(step), sig);
    mgr.m_saslClient.reset(c);
    // incoming element
    unsigned tag = vp_cfg(1), dk = vp_cfg(0); vp_b64_expect_valid(true);
    QByteArray data = incomingData(dk, V);
    QDomElement el = elem(tag == 0 ? S("success") : tag == 1 ? S("challenge") : tag == 2 ? S("failure") : S("other"), S("urn:ietf:params:xml:ns:xmpp-sasl"));
    if (!data.isEmpty()) setText(el, data);
    auto r = mgr.handleElement(el);
    bool serverProved = step == 3 || (step == 2 && dk == 1 && V == sig);
    if (excludeKnown && tag == 0) vp_assume(serverProved);   // known finding: <success/> before the server signature was verified
    bool finished = task.isFinished();
    bool success = finished && std::holds_alternative<QXmpp::Success>(task.result());
    vp_assert(!success || serverProved, "C06 SASL: Success is reported only if the SCRAM server signature was verified");
    vp_assert(finished == (r == Finished), "C06 SASL: the task completes exactly when handleElement reports Finished");
    vp_assert(finished == !mgr.m_promise.has_value(), "C06 SASL: a finished exchange leaves no pending promise");
    if (tag == 1 && !finished) {
        vp_assert(r == Accepted && vp_serialize_count() == 1, "C06 SASL: an answered challenge sends exactly one response");
        vp_assert(c->m_step == 3 && serverProved, "C06 SASL: the exchange continues past a server-final only if the signature matched (invariant)");
    }
    if (tag == 1 && step == 2 && !serverProved) vp_assert(finished && !success, "C06 SASL: a wrong server signature fails the login");
    if (tag == 2) vp_assert(finished && !success, "C06 SASL: <failure/> fails the login");
    if (tag == 3) vp_assert(r == Rejected && !finished, "C06 SASL: unrelated elements are not handled");
    if (tag == 0 && serverProved) vp_assert(success, "C06 SASL: <success/> after a verified server signature completes the login");
}

static void sasl2Manager(bool excludeKnown)
{
    Sock sock; Sasl2Manager mgr(&sock);
    mgr.m_state.emplace();
    auto task = mgr.m_state->p.task();
    unsigned step = vp_u32(); vp_assume(step >= 1 && step <= 3);
    QByteArray sig = vpBytesExact(vp_diglen()), V = vpBytesExact(vp_diglen());
    auto *c = scramInState(int(step), sig);
    mgr.m_state->sasl.reset(c);
    unsigned tag = vp_cfg(1), dk = vp_cfg(0); vp_b64_expect_valid(true);
    QByteArray data = incomingData(dk, V);
    QString ns2 = S("urn:xmpp:sasl:2");
    QDomElement el = elem(tag == 0 ? S("success") : tag == 1 ? S("challenge") : tag == 2 ? S("failure") : S("other"), ns2);
    if (tag == 0) {
        if (!data.isEmpty()) { QDomElement ad = elem(S("additional-data"), ns2); setText(ad, data); vp_dom_append(&el, &ad); }
        QDomElement aid = elem(S("authorization-identifier"), ns2); QString jid = S("u@d"); vp_dom_set_text(&aid, &jid); vp_dom_append(&el, &aid);
    } else if (tag == 2) {
        QDomElement cond = elem(S("not-authorized"), S("urn:ietf:params:xml:ns:xmpp-sasl")); vp_dom_append(&el, &cond);
    } else if (!data.isEmpty()) setText(el, data);
    auto r = mgr.handleElement(el);
    bool serverProved = step == 3 || (step == 2 && dk == 1 && V == sig);
    if (excludeKnown && tag == 0) vp_assume(serverProved);   // known finding: <success/> before the server signature was verified
    bool finished = task.isFinished();
    bool success = finished && std::holds_alternative<Sasl2::Success>(task.result());
    vp_assert(!success || serverProved, "C06 SASL2: Success is reported only if the SCRAM server signature was verified");
    vp_assert(finished == (r == Finished), "C06 SASL2: the task completes exactly when handleElement reports Finished");
    vp_assert(finished == !mgr.m_state.has_value(), "C06 SASL2: a finished exchange leaves no pending state");
    if (tag == 1 && !finished) {
        vp_assert(r == Accepted && vp_serialize_count() == 1, "C06 SASL2: an answered challenge sends exactly one response");
        vp_assert(c->m_step == 3 && serverProved, "C06 SASL2: the exchange continues past a server-final only if the signature matched (invariant)");
    }
    if (tag == 1 && step == 2 && !serverProved) vp_assert(finished && !success, "C06 SASL2: a wrong server signature fails the login");
    if (tag == 2) vp_assert(finished && !success, "C06 SASL2: <failure/> fails the login");
    if (tag == 3) vp_assert(r == Rejected && !finished, "C06 SASL2: unrelated elements are not handled");
    if (tag == 0 && serverProved) vp_assert(success, "C06 SASL2: <success/> after (or carrying) a verified server signature completes the login");
}

#ifdef KF_success_before_server_proof
#define C06_EXCL true
#else
#define C06_EXCL false
#endif
extern "C" void h_sasl_manager() { saslManager(C06_EXCL); }
extern "C" void h_sasl2_manager() { sasl2Manager(C06_EXCL); }
extern "C" void h_sasl_manager_kf() { saslManager(false); }    // demonstrates the known finding
extern "C" void h_sasl2_manager_kf() { sasl2Manager(false); }
