// C06 - SaslManager / Sasl2Manager::handleElement: a SCRAM login is reported successful only if the mechanism object has
// verified the server (single inductive step from an arbitrary in-progress state of manager + SCRAM client)
#include "c06_common.h"
#include "client/QXmppSaslManager.cpp"
C06_VTABLE(QXmppSaslClient) C06_VTABLE(QXmppSaslClientScram)
using namespace QXmpp::Private;

// what the manager sends: serialised into the DOM/writer tree model instead of text (definition of the out-of-line helper of
// QXmppUtils.cpp, which needs a QXmlStreamWriter over a QByteArray device)
static int g_sent = 0;
static QDomElement *g_lastSent = nullptr;
extern "C" void vp_serialize_xml(QByteArray *ret, const void *packet, void (*toXml)(const void *, QXmlStreamWriter *))
{
    VpWriter w; toXml(packet, w.writer());
    static QDomElement last; last = w.root(); g_lastSent = &last; g_sent++;
    new (ret) QByteArray();
}
// keeps vp_serialize_xml in the translated program (it is called from the C model of serializeXml); never executed
static void keepHelper() { unsigned z = vp_u32(); vp_assume(z != 0xC06C06); if (z == 0xC06C06) { QByteArray b; vp_serialize_xml(&b, nullptr, nullptr); } }
struct Sock : SendDataInterface { bool sendData(const QByteArray &) override { return true; } };

#define S(x) QStringLiteral(x)
static QDomElement elem(const QString &tag, const QString &ns) { QDomElement e; vp_dom_new(&e, &tag, &ns); return e; }
static void setText(QDomElement &e, const QByteArray &data) { QString t = QString::fromUtf8(data.toBase64()); vp_dom_set_text(&e, &t); }

// SCRAM client in an arbitrary in-progress state. Representation invariant of (manager, client) while the task is pending:
// step in {1,2,3}; step 3 is only reached through a server-final whose signature matched (otherwise the manager had failed the task).
static QXmppSaslClientScram *scramInState(int step, const QByteArray &sig)
{
    QXmppSaslDigestMd5::setNonce(QByteArray("N"));
    auto *c = new QXmppSaslClientScram(SaslScramMechanism { SaslScramMechanism::Sha256 }, nullptr);
    c->m_step = step; c->m_serverSignature = sig; c->m_gs2Header = QByteArray("n,,"); c->m_clientFirstMessageBare = QByteArray("n=u,r=N");
    return c;
}
// the data carried by the incoming element: nothing, garbage, or a server-final with an arbitrary signature
static QByteArray incomingData(unsigned kind, const QByteArray &V)
{
    if (kind == 0) return QByteArray();
    if (kind == 1) return QByteArray("e=other-error");
    QByteArray d("v="); d.append(V.toBase64()); hintPiecesOne(d); return d;
}

extern "C" void h_sasl_manager()
{
    keepHelper();
    Sock sock; SaslManager mgr(&sock);
    mgr.m_promise = QXmppPromise<SaslManager::AuthResult>();
    auto task = mgr.m_promise->task();
    unsigned step = vp_u32(); vp_assume(step >= 1 && step <= 3);
    QByteArray sig = vpBytesExact(vp_diglen()), V = vpBytesExact(vp_diglen());
    auto *c = scramInState(int(step), sig);
    mgr.m_saslClient.reset(c);
    // incoming element
    unsigned tag = vp_u32(), dk = vp_u32(); vp_assume(tag < 4 && dk < 3);
    QByteArray data = incomingData(dk, V);
    QDomElement el = elem(tag == 0 ? S("success") : tag == 1 ? S("challenge") : tag == 2 ? S("failure") : S("other"), S("urn:ietf:params:xml:ns:xmpp-sasl"));
    if (!data.isEmpty()) setText(el, data);
    auto r = mgr.handleElement(el);
    bool serverProved = step == 3 || (step == 2 && dk == 2 && V == sig);
    bool finished = task.isFinished();
    bool success = finished && std::holds_alternative<QXmpp::Success>(task.result());
    vp_assert(!success || serverProved, "C06 SASL: Success is reported only if the SCRAM server signature was verified");
    vp_assert(finished == (r == Finished), "C06 SASL: the task completes exactly when handleElement reports Finished");
    vp_assert(finished == !mgr.m_promise.has_value(), "C06 SASL: a finished exchange leaves no pending promise");
    if (tag == 1 && !finished) {
        vp_assert(r == Accepted && g_sent == 1, "C06 SASL: an answered challenge sends exactly one response");
        vp_assert(c->m_step == 3 && serverProved, "C06 SASL: the exchange continues past a server-final only if the signature matched (invariant)");
    }
    if (tag == 1 && step == 2 && !serverProved) vp_assert(finished && !success, "C06 SASL: a wrong server signature fails the login");
    if (tag == 2) vp_assert(finished && !success, "C06 SASL: <failure/> fails the login");
    if (tag == 3) vp_assert(r == Rejected && !finished, "C06 SASL: unrelated elements are not handled");
    if (tag == 0 && serverProved) vp_assert(success, "C06 SASL: <success/> after a verified server signature completes the login");
}

extern "C" void h_sasl2_manager()
{
    keepHelper();
    Sock sock; Sasl2Manager mgr(&sock);
    mgr.m_state.emplace();
    auto task = mgr.m_state->p.task();
    unsigned step = vp_u32(); vp_assume(step >= 1 && step <= 3);
    QByteArray sig = vpBytesExact(vp_diglen()), V = vpBytesExact(vp_diglen());
    auto *c = scramInState(int(step), sig);
    mgr.m_state->sasl.reset(c);
    unsigned tag = vp_u32(), dk = vp_u32(); vp_assume(tag < 4 && dk < 3);
    QByteArray data = incomingData(dk, V);
    QString ns2 = S("urn:xmpp:sasl:2");
    QDomElement el = elem(tag == 0 ? S("success") : tag == 1 ? S("challenge") : tag == 2 ? S("failure") : S("other"), ns2);
    if (tag == 0) {
        if (!data.isEmpty()) { QDomElement ad = elem(S("additional-data"), ns2); setText(ad, data); vp_dom_append(&el, &ad); }
        QDomElement aid = elem(S("authorization-identifier"), ns2); QString jid = S("u@d"); vp_dom_set_text(&aid, &jid); vp_dom_append(&el, &aid);
    } else if (tag == 2) {
        QDomElement cond = elem(S("not-authorized"), S("urn:ietf:params:xml:ns:xmpp-sasl")); vp_dom_append(&el, &cond);
    } else if (!data.isEmpty()) setText(el, data);
    auto r = mgr.handleElement(el);
    bool serverProved = step == 3 || (step == 2 && dk == 2 && V == sig);
    bool finished = task.isFinished();
    bool success = finished && std::holds_alternative<Sasl2::Success>(task.result());
    vp_assert(!success || serverProved, "C06 SASL2: Success is reported only if the SCRAM server signature was verified");
    vp_assert(finished == (r == Finished), "C06 SASL2: the task completes exactly when handleElement reports Finished");
    vp_assert(finished == !mgr.m_state.has_value(), "C06 SASL2: a finished exchange leaves no pending state");
    if (tag == 1 && !finished) {
        vp_assert(r == Accepted && g_sent == 1, "C06 SASL2: an answered challenge sends exactly one response");
        vp_assert(c->m_step == 3 && serverProved, "C06 SASL2: the exchange continues past a server-final only if the signature matched (invariant)");
    }
    if (tag == 1 && step == 2 && !serverProved) vp_assert(finished && !success, "C06 SASL2: a wrong server signature fails the login");
    if (tag == 2) vp_assert(finished && !success, "C06 SASL2: <failure/> fails the login");
    if (tag == 3) vp_assert(r == Rejected && !finished, "C06 SASL2: unrelated elements are not handled");
    if (tag == 0 && serverProved) vp_assert(success, "C06 SASL2: <success/> after (or carrying) a verified server signature completes the login");
}
