// C06 - DIGEST-MD5 client (RFC 2831), QXmppSaslClientDigestMd5::respond + calculateDigest with the message codec CUT
// (assume-guarantee, see dig_cut.c; the codec itself is the subject of dig_parse.cpp), plus ANONYMOUS / X-OAUTH2 / X-MESSENGER-OAUTH2.
#include "c06_common.h"
#include "base/QXmppSasl.cpp"
C06_VTABLE(QXmppSaslClient) C06_VTABLE(QXmppSaslClientDigestMd5) C06_VTABLE(QXmppSaslClientAnonymous) C06_VTABLE(QXmppSaslClientGoogle)
using BMap = QMap<QByteArray, QByteArray>;
extern "C" {
void vp_dig_cut_parse(const BMap *m);      // every parseMessage call returns this map
unsigned vp_dig_parse_calls(); void vp_dig_parse_arg(QByteArray *out);
unsigned vp_dig_ser_calls(); void vp_dig_ser_map(BMap *out);
}
#define L(x) QByteArrayLiteral(x)
static QByteArray md5(const QByteArray &d) { return QCryptographicHash::hash(d, QCryptographicHash::Md5); }
static QByteArray cat(std::initializer_list<QByteArray> parts) { QByteArray r; for (const auto &p : parts) r.append(p); return r; }
// RFC 2831 2.1.2.1
//   response-value = HEX( KD ( HEX(H(A1)), { nonce-value, ":" nc-value, ":", cnonce-value, ":", qop-value, ":", HEX(H(A2)) }))
//   A1 = { H( { username-value, ":", realm-value, ":", passwd } ), ":", nonce-value, ":", cnonce-value }      (no authzid)
//   A2 = { "AUTHENTICATE:", digest-uri-value }         2.1.3: rspauth uses A2 = { ":", digest-uri-value }
//   KD(k, s) = H({k, ":", s}), H = MD5, HEX = 32 (here 2 x digest length) lower-case hex digits
struct Ref { QByteArray a0, a1, a2, kd, secret, value; };
static void refDigest(Ref &r, bool haveSecret, const QByteArray &user, const QByteArray &realm, const QByteArray &pw, const QByteArray &method, const QByteArray &uri, const QByteArray &nonce, const QByteArray &cnonce)
{
    if (!haveSecret) { r.a0 = cat({ user, L(":"), realm, L(":"), pw }); r.secret = md5(r.a0); }
    r.a1 = cat({ r.secret, L(":"), nonce, L(":"), cnonce });
    r.a2 = cat({ method, L(":"), uri });
    r.kd = cat({ md5(r.a1).toHex(), L(":"), nonce, L(":"), L("00000001"), L(":"), cnonce, L(":"), L("auth"), L(":"), md5(r.a2).toHex() });
    r.value = md5(r.kd).toHex();
}
static bool orcIs(unsigned i, const QByteArray &in) { QByteArray a; vp_orc_in1(i, &a); return vp_orc_kind(i) == 1 && vp_orc_alg(i) == unsigned(QCryptographicHash::Md5) && a == in; }

struct Dig {
    QByteArray cnonce; QString user, pw, host; QXmppSaslClientDigestMd5 *c;
    Dig(unsigned ulen, unsigned plen)
    {
        cnonce = vpBytesExact(2); QXmppSaslDigestMd5::setNonce(cnonce);      // the random source, injected as the test-suite does
        c = new QXmppSaslClientDigestMd5(nullptr);
        user = vpStringExact(ulen); pw = vpStringExact(plen); host = vpStringExact(1); vp_assume(vpAscii(user) && vpAscii(pw) && vpAscii(host));
        c->setUsername(user); c->setHost(host); c->setServiceType(QStringLiteral("xmpp"));
        Credentials cr; cr.password = pw; c->QXmppSaslClientDigestMd5::setCredentials(cr);
    }
    QByteArray uri() const { QByteArray u("xmpp/"); u.append(host.toUtf8()); return u; }
};

// cfg0: nonce absent (0) / present with cfg0-1 arbitrary bytes; cfg1: realm likewise;
// cfg2: qop absent (0), "auth" (1), "auth-int" (2), "auth-int,auth" (3), 2 arbitrary bytes (4), 4 arbitrary bytes without ',' (5), "auth,auth-conf" (6)
// cfg3: presence mask of directives the client does not use: charset(1) algorithm(2) cipher(4) rspauth(8) foreign(16), values 0..2 arbitrary bytes
// cfg4 / cfg5: user name / password length
extern "C" void h_dig_step1()
{
    Dig k(vp_cfg(4), vp_cfg(5));
    vp_assert(k.c->m_cnonce == k.cnonce && k.c->m_nc == L("00000001"), "C06 DIGEST-MD5: cnonce comes from the random source, nc-value is 00000001 (first use of the nonce)");
    auto r0 = k.c->QXmppSaslClientDigestMd5::respond(vpSymBytes(2));
    vp_assert(r0.has_value() && r0->isEmpty() && vp_orc_count() == 0, "C06 DIGEST-MD5 has no initial response (RFC 2831 2.1: the server speaks first)");
    // the challenge, as the directive map the parser delivers
    BMap in; unsigned c0 = vp_cfg(0), c1 = vp_cfg(1), c2 = vp_cfg(2), c3 = vp_cfg(3);
    QByteArray nonce, realm, qop;
    if (c0) { nonce = vpBytesExact(c0 - 1); in[L("nonce")] = nonce; }
    if (c1) { realm = vpBytesExact(c1 - 1); in[L("realm")] = realm; }
    bool qopAuth = true;
    if (c2) {
        if (c2 == 1) qop = L("auth"); else if (c2 == 2) { qop = L("auth-int"); qopAuth = false; } else if (c2 == 3) qop = L("auth-int,auth"); else if (c2 == 6) qop = L("auth,auth-conf");
        else if (c2 == 4) { qop = vpBytesExact(2); qopAuth = false; }
        else { qop = vpBytesExact(4); vp_assume(vpNoByte(qop, ',')); qopAuth = (qop == L("auth")); hintAnyOnePiece(4); }
        in[L("qop")] = qop;
    }
    if (c3 & 1) in[L("charset")] = vpBytesN(2);
    if (c3 & 2) in[L("algorithm")] = vpBytesN(2);
    if (c3 & 4) in[L("cipher")] = vpBytesN(2);
    if (c3 & 8) in[L("rspauth")] = vpBytesN(2);
    if (c3 & 16) in[L("x")] = vpBytesN(2);
    vp_dig_cut_parse(&in);
    QByteArray challenge = vpBytesExact(3);
    // RFC reference first (the oracle is order-independent)
    Ref ref; QByteArray uri = k.uri();
    refDigest(ref, false, k.user.toUtf8(), realm, k.pw.toUtf8(), L("AUTHENTICATE"), uri, nonce, k.cnonce);
    unsigned nref = vp_orc_count();
    auto r1 = k.c->QXmppSaslClientDigestMd5::respond(challenge);
    { QByteArray arg; vp_dig_parse_arg(&arg); vp_assert(vp_dig_parse_calls() == 1 && arg == challenge, "C06 DIGEST-MD5: the challenge text is what is parsed"); }
    bool expectAccept = c0 != 0 && qopAuth;
    vp_assert(r1.has_value() == expectAccept, "C06 DIGEST-MD5 step 1: refused iff the nonce directive is missing or qop is given without 'auth' (absent qop means auth)");
    if (!r1) { vp_assert(vp_dig_ser_calls() == 0, "C06 DIGEST-MD5 step 1: a refused challenge produces no response"); return; }
    if (!expectAccept) return;
    vp_assert(vp_dig_ser_calls() == 1 && *r1 == L("<serialized>"), "C06 DIGEST-MD5 step 1: the response is the serialised directive map");
    BMap out; vp_dig_ser_map(&out);
    bool haveRealm = c1 > 1;
    vp_assert(out.size() == (haveRealm ? 9 : 8), "C06 DIGEST-MD5 response has exactly username, [realm,] nonce, cnonce, nc, qop, digest-uri, response, charset");
    vp_assert(out.value(L("username")) == k.user.toUtf8(), "C06 DIGEST-MD5 response: username");
    vp_assert(out.contains(L("realm")) == haveRealm && out.value(L("realm")) == realm, "C06 DIGEST-MD5 response: realm echoed iff the server named one");
    vp_assert(out.contains(L("nonce")) && out.value(L("nonce")) == nonce, "C06 DIGEST-MD5 response: nonce echoed");
    vp_assert(out.value(L("cnonce")) == k.cnonce, "C06 DIGEST-MD5 response: cnonce from the random source");
    vp_assert(out.value(L("nc")) == L("00000001"), "C06 DIGEST-MD5 response: nc=00000001");
    vp_assert(out.value(L("qop")) == L("auth"), "C06 DIGEST-MD5 response: qop=auth");
    vp_assert(out.value(L("digest-uri")) == uri, "C06 DIGEST-MD5 response: digest-uri = serv-type '/' host");
    vp_assert(out.value(L("charset")) == L("utf-8"), "C06 DIGEST-MD5 response: charset=utf-8");
    vp_assert(out.value(L("response")) == ref.value, "C06 DIGEST-MD5 response-value = HEX(MD5(HEX(MD5(A1)):nonce:nc:cnonce:auth:HEX(MD5('AUTHENTICATE:' digest-uri)))), A1 = MD5(user:realm:password):nonce:cnonce");
    // what is hashed (oracle log): user:realm:password, A1, A2, KD and nothing else
    vp_assert(vp_orc_count() >= nref + 4, "C06 DIGEST-MD5 step 1: the secret, A1, A2 and the KD input are hashed");
    vp_assert(orcIs(nref, ref.a0), "C06 DIGEST-MD5: the secret is MD5(username ':' realm ':' password)");
    vp_assert((orcIs(nref + 1, ref.a1) && orcIs(nref + 2, ref.a2)) || (orcIs(nref + 1, ref.a2) && orcIs(nref + 2, ref.a1)), "C06 DIGEST-MD5: A1 = secret ':' nonce ':' cnonce and A2 = 'AUTHENTICATE:' digest-uri are hashed");
    vp_assert(orcIs(nref + 3, ref.kd), "C06 DIGEST-MD5: KD input = HEX(H(A1)) ':' nonce ':' nc ':' cnonce ':auth:' HEX(H(A2))");
    vp_assert(k.c->m_step == 2, "C06 DIGEST-MD5 step advances to 2");
}

// step 2 from an arbitrary state after step 1 (secret, nonce, cnonce arbitrary): the second challenge is accepted iff its rspauth
// directive is HEX(MD5(HEX(MD5(A1)):nonce:nc:cnonce:auth:HEX(MD5(':' digest-uri)))); afterwards nothing more is answered.
// cfg0: rspauth absent (0) / present with 2*diglen arbitrary bytes (1) / present with cfg0-2 arbitrary bytes (2..); cfg3: other directives as above
extern "C" void h_dig_step2()
{
    Dig k(1, 1);
    k.c->m_step = 2; k.c->m_secret = vpBytesExact(vp_diglen()); k.c->m_nonce = vpBytesExact(2);
    BMap in; unsigned c0 = vp_cfg(0), c3 = vp_cfg(3); QByteArray X;
    if (c0 == 1) { X = vpBytesExact(2 * vp_diglen()); in[L("rspauth")] = X; } else if (c0 >= 2) { X = vpBytesExact(c0 - 2); in[L("rspauth")] = X; }
    if (c3 & 1) in[L("charset")] = vpBytesN(2);
    if (c3 & 2) in[L("nonce")] = k.c->m_nonce;
    if (c3 & 16) in[L("x")] = vpBytesN(2);
    vp_dig_cut_parse(&in);
    Ref ref; ref.secret = k.c->m_secret;
    refDigest(ref, true, QByteArray(), QByteArray(), QByteArray(), QByteArray(), k.uri(), k.c->m_nonce, k.cnonce);
    unsigned nref = vp_orc_count();
    QByteArray challenge = vpBytesExact(3);
    auto r = k.c->QXmppSaslClientDigestMd5::respond(challenge);
    { QByteArray arg; vp_dig_parse_arg(&arg); vp_assert(vp_dig_parse_calls() == 1 && arg == challenge, "C06 DIGEST-MD5: the second challenge text is what is parsed"); }
    bool good = c0 != 0 && X == ref.value;
    vp_assert(r.has_value() == good, "C06 DIGEST-MD5 step 2: accepted iff rspauth is the RFC 2831 2.1.3 response-auth value (a wrong or missing rspauth is rejected)");
    vp_assert(k.c->m_step == (good ? 3 : 2), "C06 DIGEST-MD5 step 2: the step advances only on a verified rspauth");
    if (r) vp_assert(r->isEmpty(), "C06 DIGEST-MD5: the answer to a verified rspauth is empty");
    vp_assert(vp_orc_count() >= nref + 3 && ((orcIs(nref, ref.a1) && orcIs(nref + 1, ref.a2)) || (orcIs(nref, ref.a2) && orcIs(nref + 1, ref.a1))) && orcIs(nref + 2, ref.kd),
              "C06 DIGEST-MD5 step 2: rspauth is compared with a digest over A1, A2 = ':' digest-uri and the RFC KD input");
    if (r) {
        auto r3 = k.c->QXmppSaslClientDigestMd5::respond(vpSymBytes(2));
        vp_assert(!r3.has_value() && k.c->m_step == 3, "C06 DIGEST-MD5: a third challenge is rejected");
    }
}

// the honest exchange end to end (codec cut): step 0, challenge with nonce [+ realm], response, rspauth computed by an RFC server from
// the SAME password is accepted; one computed from a DIFFERENT password, realm or nonce is accepted only if the digests collide
extern "C" void h_dig_exchange()
{
    Dig k(1, 1);
    auto r0 = k.c->QXmppSaslClientDigestMd5::respond(QByteArray());
    vp_assume(r0.has_value());
    BMap in; QByteArray nonce = vpBytesExact(2), realm = vpBytesExact(vp_cfg(1));
    in[L("nonce")] = nonce; if (vp_cfg(1)) in[L("realm")] = realm;
    in[L("qop")] = L("auth"); in[L("charset")] = L("utf-8"); in[L("algorithm")] = L("md5-sess");
    vp_dig_cut_parse(&in);
    // the server's view: its own password for the account
    QString spw = vpStringExact(1); vp_assume(vpAscii(spw));
    Ref cl, sv;
    refDigest(cl, false, k.user.toUtf8(), realm, k.pw.toUtf8(), L("AUTHENTICATE"), k.uri(), nonce, k.cnonce);
    refDigest(sv, false, k.user.toUtf8(), realm, spw.toUtf8(), QByteArray(), k.uri(), nonce, k.cnonce);
    auto r1 = k.c->QXmppSaslClientDigestMd5::respond(vpBytesExact(1));
    vp_assert(r1.has_value(), "C06 DIGEST-MD5: an honest challenge is answered");
    if (!r1) return;
    BMap out; vp_dig_ser_map(&out);
    vp_assert(out.value(L("response")) == cl.value, "C06 DIGEST-MD5: the response is the RFC value for the client's password (a server holding the same secret accepts it)");
    BMap in2; in2[L("rspauth")] = sv.value; vp_dig_cut_parse(&in2);
    auto r2 = k.c->QXmppSaslClientDigestMd5::respond(vpBytesExact(1));
    if (spw == k.pw) vp_assert(r2.has_value(), "C06 DIGEST-MD5: the rspauth of a server holding the same password is accepted");
    if (r2) {
        Ref me; refDigest(me, false, k.user.toUtf8(), realm, k.pw.toUtf8(), QByteArray(), k.uri(), nonce, k.cnonce);
        vp_assert(sv.value == me.value, "C06 DIGEST-MD5: an accepted rspauth equals the response-auth value for the client's own password");
    }
}

// ---------------------------------------------------------------------------------------------------------------------
// regression lemmas for mechanisms the statement does not name (cheap): ANONYMOUS (RFC 4505 with an empty trace), X-OAUTH2, X-MESSENGER-OAUTH2
extern "C" void h_dig_anonymous()
{
    QXmppSaslClientAnonymous c(nullptr);
    auto r0 = c.QXmppSaslClientAnonymous::respond(vpSymBytes(2));
    vp_assert(r0.has_value() && r0->isEmpty(), "C06 ANONYMOUS: one empty response");
    auto r1 = c.QXmppSaslClientAnonymous::respond(vpSymBytes(2));
    vp_assert(!r1.has_value(), "C06 ANONYMOUS: a second challenge is refused");
    vp_assert(vp_orc_count() == 0, "C06 ANONYMOUS: nothing is hashed");
}
extern "C" void h_dig_xoauth2()
{
    QXmppSaslClientGoogle c(nullptr);
    QString user = vpStringExact(vp_cfg(0)), tok = vpStringExact(vp_cfg(1)); vp_assume(vpAscii(user) && vpAscii(tok));
    c.setUsername(user); Credentials cr; cr.googleAccessToken = tok; cr.password = vpStringExact(1); c.QXmppSaslClientGoogle::setCredentials(cr);
    auto r0 = c.QXmppSaslClientGoogle::respond(vpSymBytes(2));
    QByteArray exp; exp.append('\0'); exp.append(user.toUtf8()); exp.append('\0'); exp.append(tok.toUtf8());
    vp_assert(r0.has_value() && *r0 == exp, "C06 X-OAUTH2: response = NUL user NUL access-token (never the password)");
    auto r1 = c.QXmppSaslClientGoogle::respond(vpSymBytes(2));
    vp_assert(!r1.has_value(), "C06 X-OAUTH2: no second response");
}
