/* C06 property-specific environment: crypto recording oracle, injective base64 stand-in, consistent toInt, QByteArray helpers,
   class-level QMap<char,QByteArray>, QObject/QXmppLoggable boundary.  Included after qt_core.c / qt_list.c (one TU). */
#ifdef HAVE_T_struct_QArrayData
#undef _ZNK10QByteArray8toBase64E6QFlagsINS_12Base64OptionEE
#undef _ZNK10QByteArray8toBase64Ev
#undef _ZN10QByteArray18fromBase64EncodingERKS_6QFlagsINS_12Base64OptionEE
#undef _ZN10QByteArray18fromBase64EncodingEOS_6QFlagsINS_12Base64OptionEE
#undef _ZN10QByteArray10fromBase64ERKS_
#undef _ZN10QByteArray10fromBase64ERKS_6QFlagsINS_12Base64OptionEE
#undef _ZNK10QByteArray5toIntEPbi
#undef _ZNK10QByteArray7indexOfEci
#define QBD(p) (*(QAD**)(p))
#define C06_BD(d) (((struct qb*)(d))->data)   /* typed destination: keeps the rest of the block constant-propagated */
static void c06_copy8(QAD *d, uint32_t off, const uint8_t *s, uint32_t n, uint32_t hint) { for (uint32_t i = 0; i < hint; i++) { if (i >= n) break; C06_BD(d)[off + i] = s[i]; } }
static int c06_cmp8(const uint8_t *a, const uint8_t *b, uint32_t n, uint32_t hint) { for (uint32_t i = 0; i < hint; i++) { if (i >= n) break; if (a[i] != b[i]) return 1; } return 0; }
static uint32_t c06_strlen(const uint8_t *p) { uint32_t n = 0; for (; n < QB_CAP; n++) { if (!p[n]) break; } return n; }
static QAD *c06_from(const uint8_t *p, uint32_t n) { QAD *d = qb_new(n, n); c06_copy8(d, 0, p, n, n); C06_BD(d)[n] = 0; return d; }
/* constant upper bound of a block's length whenever the block pointer is known */
static uint32_t c06_hint(QAD *d) { return d->f3 == QB_OFF ? ((struct qb*)d)->hint : d->f1; }
static int c06_is_lit(QAD *d, const char *lit, uint32_t n) { if (d->f1 != n) return 0; return c06_cmp8(qb_bytes(d), (const uint8_t*)lit, n, n) == 0; }

/* ---- QObject / QXmppLoggable boundary: no parent, no logger; signals go nowhere ---- */
void _ZN13QXmppLoggableC2EP7QObject(char *self, char *parent) { ASSERT(parent == 0, "QXmppLoggable with a parent object is not modelled"); *(char**)(self + 8) = 0; }
void _ZN13QXmppLoggable10logMessageEN11QXmppLogger11MessageTypeERK7QString(char *self, uint32_t t, char *msg) { }
void _ZN7QObjectD2Ev(char *self) { }
void _ZN9QDateTimeD1Ev(char *self) { }
void _ZN9QDateTimeC1Ev(char *self) { *(char**)self = 0; }

/* ---- base64 stand-in: an injective code whose image contains neither ',' nor '=' (2 letters per byte: 'A'+high nibble,
   'a'+low nibble); the one literal the RFC fixes, base64("n,,") = "biws", is kept literally ("biws" is outside the image).
   Decoding text outside the image yields an arbitrary outcome (Qt's lenient decoder is trusted, not modelled). ---- */
static void vpl_b64enc(QAD *o, const uint8_t *s, uint32_t n, uint32_t hint) { for (uint32_t i = 0; i < hint; i++) { if (i >= n) break; C06_BD(o)[2 * i] = (uint8_t)('A' + (s[i] >> 4)); C06_BD(o)[2 * i + 1] = (uint8_t)('a' + (s[i] & 15)); } }
static uint8_t vpl_b64valid(const uint8_t *s, uint32_t n, uint32_t hint) { uint8_t ok = (n & 1) == 0; for (uint32_t i = 0; i < hint; i++) { if (i >= n) break; uint8_t c = s[i]; if (i & 1) { if (c < 'a' || c > 'p') ok = 0; } else { if (c < 'A' || c > 'P') ok = 0; } } return ok; }
static QAD *c06_b64enc(QAD *raw) { uint32_t n = raw->f1; if (n == 0) return qb_new(0, 0); ASSERT(!numB(raw).isnum, "toBase64 of an abstract number string");
  if (c06_is_lit(raw, "n,,", 3)) return c06_from((const uint8_t*)"biws", 4);
  uint32_t h = c06_hint(raw); ASSERT(2 * n <= QB_CAP, "QByteArray capacity of the model exceeded (base64)"); QAD *d = qb_new(2 * n, 2 * h); vpl_b64enc(d, qb_bytes(raw), n, h); C06_BD(d)[2 * n] = 0; return d; }
#ifndef C06_B64CAP
#define C06_B64CAP 3
#endif
static struct { QAD *txt; QAD *out; uint8_t ok; } c06_b64tab[C06_B64CAP]; static uint32_t c06_nb64;
static uint8_t c06_b64_expect_valid;   /* harness switch: every text decoded is known to come from the encoder (asserted) */
void vp_b64_expect_valid(uint8_t on) { c06_b64_expect_valid = on; }
static QAD *c06_b64dec(QAD *enc, uint8_t *ok) { *ok = 1; uint32_t n = enc->f1; if (n == 0) return qb_new(0, 0);
  if (c06_is_lit(enc, "biws", 4)) return c06_from((const uint8_t*)"n,,", 3);
  uint32_t h = c06_hint(enc); uint8_t valid = vpl_b64valid(qb_bytes(enc), n, h);
  if (c06_b64_expect_valid) { ASSERT(valid, "base64 text expected to come from the encoder"); ASSUME(valid); QAD *d = qb_new(n / 2, (h + 1) / 2); const uint8_t *s = qb_bytes(enc);
    for (uint32_t i = 0; i < QB_CAP / 2; i++) { if (2 * i + 1 >= n || 2 * i + 1 >= h + 1) break; C06_BD(d)[i] = (uint8_t)(((s[2 * i] - 'A') << 4) | (s[2 * i + 1] - 'a')); } C06_BD(d)[n / 2] = 0; return d; }
  /* outside the image: arbitrary outcome (invalid, or <= 3 arbitrary bytes), but the same text always decodes the same way */
  uint8_t avalid = vp_bool(); uint32_t alen = vp_u32(); uint8_t a0 = vp_u8(), a1 = vp_u8(), a2 = vp_u8(); ASSUME(alen <= 3); if (!avalid) alen = 0;
  for (uint32_t k = 0; k < C06_B64CAP; k++) { if (k >= c06_nb64) break; if (qb_eq(c06_b64tab[k].txt, enc)) { QAD *p = c06_b64tab[k].out; avalid = c06_b64tab[k].ok; alen = p->f1; a0 = qb_bytes(p)[0]; a1 = qb_bytes(p)[1]; a2 = qb_bytes(p)[2]; break; } }
  uint32_t hh = (h + 1) / 2 < 3 ? 3 : (h + 1) / 2; QAD *d = qb_new(0, hh); uint8_t *o = C06_BD(d); const uint8_t *s = qb_bytes(enc);
  if (valid) { for (uint32_t i = 0; i < QB_CAP / 2; i++) { if (2 * i + 1 >= n || 2 * i + 1 >= h + 1) break; o[i] = (uint8_t)(((s[2 * i] - 'A') << 4) | (s[2 * i + 1] - 'a')); } d->f1 = n / 2; }
  else { o[0] = a0; o[1] = a1; o[2] = a2; d->f1 = alen; *ok = avalid; }
  o[d->f1] = 0;
  ASSERT(c06_nb64 < C06_B64CAP, "base64 decode table capacity"); c06_b64tab[c06_nb64].txt = qad_ref(enc); c06_b64tab[c06_nb64].out = d; c06_b64tab[c06_nb64].ok = *ok; c06_nb64++;
  return qad_ref(d); }
void _ZNK10QByteArray8toBase64E6QFlagsINS_12Base64OptionEE(char *ret, char *self, uint32_t opt) { ASSERT(opt == 0, "base64 options other than the default are not modelled"); QBD(ret) = c06_b64enc(QBD(self)); }
void _ZNK10QByteArray8toBase64Ev(char *ret, char *self) { QBD(ret) = c06_b64enc(QBD(self)); }
void _ZN10QByteArray10fromBase64ERKS_(char *ret, char *enc) { uint8_t ok; QBD(ret) = c06_b64dec(QBD(enc), &ok); }
void _ZN10QByteArray10fromBase64ERKS_6QFlagsINS_12Base64OptionEE(char *ret, char *enc, uint32_t opt) { uint8_t ok; QBD(ret) = c06_b64dec(QBD(enc), &ok); }
void _ZN10QByteArray18fromBase64EncodingERKS_6QFlagsINS_12Base64OptionEE(char *ret, char *enc, uint32_t opt) { uint8_t ok; QBD(ret) = c06_b64dec(QBD(enc), &ok); *(uint32_t*)(ret + 8) = ok ? 0 : 1; }
void _ZN10QByteArray18fromBase64EncodingEOS_6QFlagsINS_12Base64OptionEE(char *ret, char *enc, uint32_t opt) { uint8_t ok; QBD(ret) = c06_b64dec(QBD(enc), &ok); *(uint32_t*)(ret + 8) = ok ? 0 : 1; }

/* ---- QByteArray::toInt: abstract numbers as in qt_core.c; ordinary text -> an arbitrary but FUNCTIONALLY CONSISTENT (value, ok)
   (same text => same answer), so a harness can ask what the text "means" and compare with what the real code did ---- */
#define C06_INTCAP 4
static struct { QAD *txt; uint32_t val; uint8_t ok; } c06_ints[C06_INTCAP]; static uint32_t c06_nints;
static uint32_t c06_toint_fixed;
void vp_toint_fix(uint32_t v) { c06_toint_fixed = v; }
uint32_t _ZNK10QByteArray5toIntEPbi(char *self, char *ok, uint32_t base) { QAD *d = QBD(self);
  if (numB(d).isnum || d->f1 == 0) return qtcore_QByteArray_toInt(self, ok, base);
  uint8_t k = vp_bool(); uint32_t v = vp_u32(); if (!k) v = 0;
  if (c06_toint_fixed) { k = 1; v = c06_toint_fixed; }   /* harness switch: every ordinary text means this number (keeps the accept path concrete) */
  for (uint32_t i = 0; i < C06_INTCAP; i++) { if (i >= c06_nints) break; if (qb_eq(c06_ints[i].txt, d)) { k = c06_ints[i].ok; v = c06_ints[i].val; break; } }
  ASSERT(c06_nints < C06_INTCAP, "toInt oracle capacity"); c06_ints[c06_nints].txt = qad_ref(d); c06_ints[c06_nints].val = v; c06_ints[c06_nints].ok = k; c06_nints++;
  if (ok) *ok = k; return v; }

/* ---- QByteArray helpers missing from qt_core.c ---- */
uint8_t _ZNK10QByteArray10startsWithERKS_(char *self, char *o) { QAD *a = QBD(self), *b = QBD(o); if (b->f1 == 0) return 1; if (b->f1 > a->f1) return 0; if (numB(a).isnum || numB(b).isnum) return 0;
  return c06_cmp8(qb_bytes(a), qb_bytes(b), b->f1, c06_hint(b)) == 0; }
uint8_t _ZNK10QByteArray10startsWithEPKc(char *self, char *s) { QAD *a = QBD(self); if (!s) return 1; uint32_t n = c06_strlen((uint8_t*)s); if (n == 0) return 1; if (n > a->f1 || numB(a).isnum) return 0; return c06_cmp8(qb_bytes(a), (uint8_t*)s, n, n) == 0; }
#ifdef HAVE_T_struct_QListData__Data
/* split: piece boundaries are scalars found by one scan; piece bytes are read from the source at (symbolic) offsets and written
   at concrete indices.  At most LIST_CAP pieces (asserted). */
#define C06_MAXP LIST_CAP
static uint32_t vpl_split_scan(const uint8_t *s, uint32_t n, uint32_t hint, uint8_t sep, uint32_t *st, uint32_t *ln) { uint32_t cur = 0, start = 0;
  for (uint32_t i = 0; i < hint; i++) { if (i >= n) break; if (s[i] == sep) { if (cur < C06_MAXP) { st[cur] = start; ln[cur] = i - start; } cur++; start = i + 1; } }
  if (cur < C06_MAXP) { st[cur] = start; ln[cur] = n - start; } return cur + 1; }
/* structure hint: the harness may register, for ONE message it has built from fixed-length parts, where the separators are.
   split() on exactly that block then uses the (concrete) boundaries - after asserting that they are right - instead of
   scanning symbolic bytes, so every piece has a concrete length. */
static QAD *c06_hint_blk; static uint32_t c06_hint_np, c06_hint_st[C06_MAXP], c06_hint_ln[C06_MAXP]; static uint8_t c06_hint_sep;
static uint8_t c06_hint_any;
void vp_split_hint_begin(char *ba, uint8_t sep) { c06_hint_blk = ba ? QBD(ba) : 0; c06_hint_any = ba == 0; c06_hint_np = 0; c06_hint_sep = sep; }
void vp_split_hint_piece(uint32_t len) { ASSERT(c06_hint_np < C06_MAXP, "split hint: too many pieces"); c06_hint_st[c06_hint_np] = c06_hint_np ? c06_hint_st[c06_hint_np - 1] + c06_hint_ln[c06_hint_np - 1] + 1 : 0; c06_hint_ln[c06_hint_np] = len; c06_hint_np++; }
void _ZNK10QByteArray5splitEc(char *ret, char *self, uint8_t sep) { QAD *a = QBD(self); ASSERT(!numB(a).isnum, "split of an abstract number string"); uint32_t h = c06_hint(a);
  uint32_t st[C06_MAXP], ln[C06_MAXP]; for (uint32_t k = 0; k < C06_MAXP; k++) { st[k] = 0; ln[k] = 0; } uint32_t np;
  uint8_t hinted = (a == c06_hint_blk || c06_hint_any) && sep == c06_hint_sep && c06_hint_np > 0;
  if (hinted) { np = c06_hint_np; uint32_t total = c06_hint_st[np - 1] + c06_hint_ln[np - 1]; ASSERT(a->f1 == total, "split hint: total length"); ASSUME(a->f1 == total);
    uint32_t k = 0; for (uint32_t i = 0; i < QB_CAP; i++) { if (i >= total) break; uint8_t is_sep = (k + 1 < np && i == c06_hint_st[k + 1] - 1); ASSERT((qb_bytes(a)[i] == sep) == is_sep, "split hint: separator positions"); if (is_sep) k++; }
    for (uint32_t j = 0; j < C06_MAXP; j++) { st[j] = c06_hint_st[j]; ln[j] = c06_hint_ln[j]; } }
  else { np = vpl_split_scan(qb_bytes(a), a->f1, h, sep, st, ln); ASSERT(np <= C06_MAXP, "QList capacity of the model exceeded (split)"); ASSUME(np <= C06_MAXP); }
  struct ld *l = ld_new(np);
  for (uint32_t k = 0; k < C06_MAXP; k++) { if (k >= np) break; QAD *p = qb_new(ln[k], hinted ? ln[k] : h); c06_copy8(p, 0, qb_bytes(a) + st[k], ln[k], h); C06_BD(p)[ln[k]] = 0; l->array[k] = (char*)p; }
  *(struct ld**)ret = l; }
#endif

/* ---- class-level QMap<char,QByteArray> (overrides the inline template members): fixed slots for the keys the SCRAM client
   reads ('r','s','i','v'), one shared slot for every other key; reading another key is outside the model (asserted) ---- */
struct c06_cmap { QAD *v[5]; uint8_t has[5]; };
static uint32_t c06_cslot(uint8_t k) { return k == 'r' ? 0 : k == 's' ? 1 : k == 'i' ? 2 : k == 'v' ? 3 : 4; }
void _ZN4QMapIc10QByteArrayEC2Ev(char *self) { struct c06_cmap *m = malloc(sizeof(struct c06_cmap)); ASSUME(m != 0); for (uint32_t i = 0; i < 5; i++) { m->v[i] = SHARED_NULL; m->has[i] = 0; } *(struct c06_cmap**)self = m; }
void _ZN4QMapIc10QByteArrayED2Ev(char *self) { }
char* _ZN4QMapIc10QByteArrayEixERKc(char *self, char *key) { struct c06_cmap *m = *(struct c06_cmap**)self; uint32_t s = c06_cslot(*(uint8_t*)key); if (!m->has[s]) { m->has[s] = 1; m->v[s] = SHARED_NULL; } return (char*)&m->v[s]; }
void _ZNK4QMapIc10QByteArrayE5valueERKcRKS0_(char *ret, char *self, char *key, char *def) { struct c06_cmap *m = *(struct c06_cmap**)self; uint32_t s = c06_cslot(*(uint8_t*)key);
  ASSERT(s < 4, "QMap<char,QByteArray> model: only the keys r,s,i,v may be read"); QBD(ret) = m->has[s] ? qad_ref(m->v[s]) : qad_ref(QBD(def)); }

/* ---- crypto: recording oracle (DESIGN 2.3).  Every digest is C06_DIGLEN fresh symbolic bytes, functionally consistent:
   same (primitive, algorithm, inputs) => same bytes.  Nothing else is assumed (in particular no collision freedom). ---- */
#ifndef C06_DIGLEN
#define C06_DIGLEN 4
#endif
#ifndef C06_ORC_CAP
#define C06_ORC_CAP 14
#endif
struct c06_orc { uint8_t kind; uint32_t alg; QAD *a, *b; uint32_t iters; uint64_t dklen; uint8_t out[C06_DIGLEN]; };
static struct c06_orc c06_log[C06_ORC_CAP]; static uint32_t c06_orc_n;
static QAD *c06_oracle(uint8_t kind, uint32_t alg, QAD *a, QAD *b, uint32_t iters, uint64_t dklen) {
  ASSERT(c06_orc_n < C06_ORC_CAP, "crypto oracle log capacity"); ASSUME(c06_orc_n < C06_ORC_CAP);
  uint8_t val[C06_DIGLEN]; for (uint32_t j = 0; j < C06_DIGLEN; j++) val[j] = vp_u8();
  uint8_t found = 0;
  for (uint32_t k = 0; k < C06_ORC_CAP; k++) { if (k >= c06_orc_n) break; struct c06_orc *e = &c06_log[k];
    if (!found && e->kind == kind && e->alg == alg && e->iters == iters && e->dklen == dklen && qb_eq(e->a, a) && qb_eq(e->b, b)) { found = 1; for (uint32_t j = 0; j < C06_DIGLEN; j++) val[j] = e->out[j]; } }
  struct c06_orc *n = &c06_log[c06_orc_n++]; n->kind = kind; n->alg = alg; n->a = qad_ref(a); n->b = qad_ref(b); n->iters = iters; n->dklen = dklen;
  QAD *d = qb_new(C06_DIGLEN, C06_DIGLEN); for (uint32_t j = 0; j < C06_DIGLEN; j++) { n->out[j] = val[j]; C06_BD(d)[j] = val[j]; } C06_BD(d)[C06_DIGLEN] = 0; return d; }
/* harness interface */
static uint8_t c06_reference_phase;   /* set while the harness computes its RFC reference (may use parameters the client must refuse) */
void vp_orc_reference(uint8_t on) { c06_reference_phase = on; }
uint32_t vp_orc_count(void) { return c06_orc_n; }
void vp_orc_seal(uint32_t n) { ASSERT(c06_orc_n <= n && n <= C06_ORC_CAP, "crypto oracle: seal below the number of recorded calls");
  for (uint32_t k = 0; k < C06_ORC_CAP; k++) { if (k >= c06_orc_n && k < n) { c06_log[k].kind = 0; c06_log[k].a = SHARED_NULL; c06_log[k].b = SHARED_NULL; } } c06_orc_n = n; }
uint32_t vp_orc_kind(uint32_t i) { return c06_log[i].kind; }
uint32_t vp_orc_alg(uint32_t i) { return c06_log[i].alg; }
uint32_t vp_orc_iters(uint32_t i) { return c06_log[i].iters; }
uint64_t vp_orc_dklen(uint32_t i) { return c06_log[i].dklen; }
void vp_orc_in1(uint32_t i, char *out) { QBD(out) = qad_ref(c06_log[i].a); }
void vp_orc_in2(uint32_t i, char *out) { QBD(out) = qad_ref(c06_log[i].b); }
#define C06_HASH 1
#define C06_HMAC 2
#define C06_PBKDF2 3
uint32_t _ZN18QCryptographicHash10hashLengthENS_9AlgorithmE(uint32_t alg) { return alg == 1 ? 16 : alg == 2 ? 20 : alg == 3 ? 28 : alg == 4 ? 32 : alg == 5 ? 48 : alg == 6 ? 64 : (alg == 7 || alg == 11) ? 28 : (alg == 8 || alg == 12) ? 32 : (alg == 9 || alg == 13) ? 48 : (alg == 10 || alg == 14) ? 64 : 16; }
void _ZN18QCryptographicHash4hashERK10QByteArrayNS_9AlgorithmE(char *ret, char *data, uint32_t alg) { QBD(ret) = c06_oracle(C06_HASH, alg, QBD(data), SHARED_NULL, 0, 0); }
void _ZN26QMessageAuthenticationCode4hashERK10QByteArrayS2_N18QCryptographicHash9AlgorithmE(char *ret, char *msg, char *key, uint32_t alg) { QBD(ret) = c06_oracle(C06_HMAC, alg, QBD(key), QBD(msg), 0, 0); }
void _ZN17QPasswordDigestor15deriveKeyPbkdf2EN18QCryptographicHash9AlgorithmERK10QByteArrayS4_iy(char *ret, uint32_t alg, char *pw, char *salt, uint32_t iters, uint64_t dklen) {
  if (!c06_reference_phase) { VP_ASSERT((int32_t)iters >= 1, "C06 PBKDF2 is never run with an iteration count < 1"); VP_ASSERT(QBD(salt)->f1 > 0, "C06 PBKDF2 is never run with an empty salt"); }
  QBD(ret) = c06_oracle(C06_PBKDF2, alg, QBD(pw), QBD(salt), iters, dklen); }
/* incremental QMessageAuthenticationCode object: (algorithm, key, accumulated message) behind the d pointer */
struct c06_mac { uint32_t alg; QAD *key; QAD *msg; };
void _ZN26QMessageAuthenticationCodeC1EN18QCryptographicHash9AlgorithmERK10QByteArray(char *self, uint32_t alg, char *key) { struct c06_mac *m = malloc(sizeof(struct c06_mac)); ASSUME(m != 0); m->alg = alg; m->key = qad_ref(QBD(key)); m->msg = qb_new(0, 0); *(struct c06_mac**)self = m; }
void _ZN26QMessageAuthenticationCodeD1Ev(char *self) { }
void _ZN26QMessageAuthenticationCode7addDataERK10QByteArray(char *self, char *data) { struct c06_mac *m = *(struct c06_mac**)self; char *slot = (char*)&m->msg; _ZN10QByteArray6appendERKS_(slot, data); }
void _ZN26QMessageAuthenticationCode7addDataEPKci(char *self, char *p, uint32_t n) { struct c06_mac *m = *(struct c06_mac**)self; char *slot = (char*)&m->msg; _ZN10QByteArray6appendEPKci(slot, p, n); }
void _ZNK26QMessageAuthenticationCode6resultEv(char *ret, char *self) { struct c06_mac *m = *(struct c06_mac**)self; QBD(ret) = c06_oracle(C06_HMAC, m->alg, m->key, m->msg, 0, 0); }
#endif
#ifdef HAVE_T_struct_QArrayData
/* symbolic byte strings longer than vp_sym_bytes allows (<= 16) */
void vp_sym_bytes_n(char *out, uint32_t maxlen) { uint32_t len = vp_u32(); ASSUME(len <= maxlen); ASSERT(maxlen <= 16, "symbolic bytes bound"); QAD *d = qb_new(len, maxlen); uint8_t *p = C06_BD(d);
  for (uint32_t i = 0; i < 16; i++) { if (i >= maxlen) break; p[i] = vp_u8(); } p[len] = 0; QBD(out) = d; }
/* exactly n symbolic bytes */
void vp_c06_sym_bytes_exact(char *out, uint32_t n) { ASSERT(n <= 16, "symbolic bytes bound"); QAD *d = qb_new(n, n); uint8_t *p = C06_BD(d); for (uint32_t i = 0; i < 16; i++) { if (i >= n) break; p[i] = vp_u8(); } p[n] = 0; QBD(out) = d; }
#endif
#ifdef HAVE_T_struct_QArrayData
/* exactly n symbolic UTF-16 units (concrete length keeps every later offset concrete) */
void vp_c06_sym_string_exact(char *out, uint32_t n) { ASSERT(n <= 8, "symbolic string bound"); QAD *d = qs_new(n, n); uint16_t *p = ((struct qs*)d)->data; for (uint32_t i = 0; i < 8; i++) { if (i >= n) break; p[i] = vp_u16(); } *(QAD**)out = d; }
#endif
/* per-instance configuration constants (cdefs C06_CFG0..5): lets one translated program serve several length variants */
#ifndef C06_CFG0
#define C06_CFG0 0
#endif
#ifndef C06_CFG1
#define C06_CFG1 0
#endif
#ifndef C06_CFG2
#define C06_CFG2 0
#endif
#ifndef C06_CFG3
#define C06_CFG3 0
#endif
#ifndef C06_CFG4
#define C06_CFG4 0
#endif
#ifndef C06_CFG5
#define C06_CFG5 0
#endif
#ifndef C06_CFG6
#define C06_CFG6 0
#endif
#ifndef C06_CFG7
#define C06_CFG7 0
#endif
uint32_t vp_cfg(uint32_t i) { return i == 0 ? C06_CFG0 : i == 1 ? C06_CFG1 : i == 2 ? C06_CFG2 : i == 3 ? C06_CFG3 : i == 4 ? C06_CFG4 : i == 5 ? C06_CFG5 : i == 6 ? C06_CFG6 : C06_CFG7; }
uint32_t vp_diglen(void) { return C06_DIGLEN; }
/* QXmpp::Private::serializeXml(const void*, void(*)(const void*, QXmlStreamWriter*)) needs a QXmlStreamWriter over a QByteArray
   device (not modelled).  CUT: the bytes the managers send are not inspected; calls are counted.  (Calling the toXml callback
   through std::invoke on a pointer-to-member stored in integer words makes cbmc explore spurious recursion.) */
#ifdef HAVE_T_struct_QArrayData
static uint32_t c06_serialized;
uint32_t vp_serialize_count(void) { return c06_serialized; }
void _ZN5QXmpp7Private12serializeXmlEPKvPFvS2_P16QXmlStreamWriterE(char *ret, char *packet, char *fn) { c06_serialized++; QBD(ret) = qb_new(0, 0); }
#endif
#ifdef HAVE_T_struct_QArrayData
/* formatting of log / error texts: identity (texts are not part of the property) */
void _ZNK7QString3argERKS_i5QChar(char *ret, char *self, char *a, uint32_t w, uint16_t fill) { *(QAD**)ret = qad_ref(*(QAD**)self); }
void _ZNK7QString3argERKS_S1_(char *ret, char *self, char *a, char *b) { *(QAD**)ret = qad_ref(*(QAD**)self); }
#endif
#ifdef HAVE_T_struct_QArrayData
/* QByteArray::replace(char before, const QByteArray &after) / replace(const char*, const char*): every occurrence, left to right; in place */
static uint8_t s_match(const uint8_t *s, uint32_t n, uint32_t i, const uint8_t *pat, uint32_t pl) { if (i + pl > n) return 0; if (s[i] != pat[0]) return 0; if (pl == 2 && s[i + 1] != pat[1]) return 0; return 1; }
static QAD *c06_replace(QAD *a, const uint8_t *pat, uint32_t pl, const uint8_t *rep, uint32_t rl) { uint32_t n = a->f1, h = c06_hint(a); ASSERT(!numB(a).isnum, "replace in an abstract number string"); ASSERT(pl >= 1 && pl <= 2, "replace: pattern length 1..2 modelled");
  uint32_t grow = rl > pl ? rl - pl : 0; uint32_t oh = h + h * grow; if (oh > QB_CAP) oh = QB_CAP; QAD *d = qb_new(0, oh); uint32_t j = 0;
  for (uint32_t i = 0; i < QB_CAP; i++) { if (i >= n || i >= h) break; uint8_t m = s_match(qb_bytes(a), n, i, pat, pl);
    if (m) { ASSERT(j + rl <= QB_CAP, "QByteArray capacity of the model exceeded (replace)"); for (uint32_t k = 0; k < 4; k++) { if (k >= rl) break; C06_BD(d)[j + k] = rep[k]; } j += rl; if (pl == 2) i++; }
    else { ASSERT(j < QB_CAP, "QByteArray capacity of the model exceeded (replace)"); C06_BD(d)[j] = qb_bytes(a)[i]; j++; } }
  d->f1 = j; C06_BD(d)[j] = 0; return d; }
char* _ZN10QByteArray7replaceEcRKS_(char *self, uint8_t before, char *after) { QAD *r = QBD(after); ASSERT(r->f1 <= 4, "replace: replacement longer than 4 bytes"); QBD(self) = c06_replace(QBD(self), &before, 1, qb_bytes(r), r->f1); return self; }
char* _ZN10QByteArray7replaceEPKcS1_(char *self, char *before, char *after) { uint32_t pl = c06_strlen((uint8_t*)before), rl = c06_strlen((uint8_t*)after); ASSERT(rl <= 4, "replace: replacement longer than 4 bytes"); QBD(self) = c06_replace(QBD(self), (uint8_t*)before, pl, (uint8_t*)after, rl); return self; }
#endif
/* QDateTime (8-byte value/d-pointer union): opaque word, never interpreted by the SASL code */
void _ZN9QDateTimeC1ERKS_(char *self, char *o) { *(char**)self = *(char**)o; }
void _ZN9QDateTimeC1EOS_(char *self, char *o) { *(char**)self = *(char**)o; }
char* _ZN9QDateTimeaSERKS_(char *self, char *o) { *(char**)self = *(char**)o; return self; }
#ifdef HAVE_T_struct_QArrayData
/* ---- DIGEST-MD5 support ---- */
/* QString::arg(a1, a2) (multi-arg form -> QtPrivate::argToQString): "%N" placeholders (N = 1..9) replaced by the N-th argument */
void _ZN9QtPrivate12argToQStringE11QStringViewmPPKNS_7ArgBaseE(char *ret, uint64_t psize, char *pat, uint64_t nargs, char *args) { const uint16_t *p = (const uint16_t*)pat; QAD *d = qs_new(0, QS_CAP); uint32_t j = 0;
  for (uint32_t i = 0; i < QS_CAP; i++) { if (i >= psize) break;
    if (p[i] == '%' && i + 1 < psize && p[i + 1] >= '1' && p[i + 1] <= '9' && (uint64_t)(p[i + 1] - '1') < nargs) { char *ab = ((char**)args)[p[i + 1] - '1']; uint64_t an = *(uint64_t*)(ab + 8); const uint16_t *ad = *(const uint16_t**)(ab + 16);
      ASSERT(j + an <= QS_CAP, "QString capacity of the model exceeded (arg)"); for (uint32_t k = 0; k < QS_CAP; k++) { if (k >= an) break; ((struct qs*)d)->data[j + k] = ad[k]; } j += (uint32_t)an; i++; }
    else { ASSERT(j < QS_CAP, "QString capacity of the model exceeded (arg)"); ((struct qs*)d)->data[j++] = p[i]; } }
  d->f1 = j; ((struct qs*)d)->hint = j; *(QAD**)ret = d; }
void _ZNK14QMessageLogger7warningEPKcz(char *self, char *fmt, ...) { }
/* lower-case hex */
void _ZNK10QByteArray5toHexEv(char *ret, char *self) { QAD *a = QBD(self); uint32_t n = a->f1, h = c06_hint(a); ASSERT(2 * n <= QB_CAP, "QByteArray capacity of the model exceeded (toHex)"); QAD *d = qb_new(2 * n, 2 * h);
  for (uint32_t i = 0; i < QB_CAP / 2; i++) { if (i >= n || i >= h) break; uint8_t b = qb_bytes(a)[i], hi = b >> 4, lo = b & 15; C06_BD(d)[2 * i] = (uint8_t)(hi < 10 ? '0' + hi : 'a' + hi - 10); C06_BD(d)[2 * i + 1] = (uint8_t)(lo < 10 ? '0' + lo : 'a' + lo - 10); }
  C06_BD(d)[2 * n] = 0; QBD(ret) = d; }
/* trimmed(): strip ASCII white space at both ends */
static uint8_t c06_isspace(uint8_t c) { return c == ' ' || (c >= 9 && c <= 13); }
void _ZN10QByteArray14trimmed_helperERS_(char *ret, char *self) { QAD *a = QBD(self); uint32_t n = a->f1, h = c06_hint(a); uint32_t b = 0, e = n;
  for (uint32_t i = 0; i < QB_CAP; i++) { if (i >= n || i >= h) break; if (b == i && c06_isspace(qb_bytes(a)[i])) b = i + 1; }
  for (uint32_t i = 0; i < QB_CAP; i++) { if (i >= n || i >= h) break; uint32_t k = n - 1 - i; if (e == k + 1 && k >= b && c06_isspace(qb_bytes(a)[k])) e = k; }
  if (b == 0 && e == n) { QBD(ret) = qad_ref(a); return; }
  uint32_t l = e > b ? e - b : 0; QAD *d = qb_new(l, h); c06_copy8(d, 0, qb_bytes(a) + b, l, h); C06_BD(d)[l] = 0; QBD(ret) = d; }
/* class-level QMap<QByteArray,QByteArray>: array of (key,value) kept sorted by key (qstrcmp order); iterators point at entries */
#define C06_BMAP_CAP 10
struct c06_bent { QAD *k; QAD *v; };
struct c06_bmap { uint32_t n; struct c06_bent e[C06_BMAP_CAP + 1]; };
#define BMAP(self) (*(struct c06_bmap**)(self))
static int c06_bcmp(QAD *a, QAD *b) { char *pa = (char*)&a, *pb = (char*)&b; return (int32_t)_Z7qstrcmpRK10QByteArrayS1_(pa, pb); }
/* index of the first entry whose key is not less than key; *found = key present there */
static uint32_t c06_bfind(struct c06_bmap *m, QAD *key, uint8_t *found) { uint32_t pos = m->n; *found = 0; uint8_t done = 0;
  for (uint32_t i = 0; i < C06_BMAP_CAP; i++) { if (i >= m->n) break; if (!done) { int c = c06_bcmp(m->e[i].k, key); if (c >= 0) { pos = i; *found = (c == 0); done = 1; } } } return pos; }
static struct c06_bent *c06_bslot(struct c06_bmap *m, QAD *key) { uint8_t found; uint32_t pos = c06_bfind(m, key, &found); if (found) return &m->e[pos];
  ASSERT(m->n < C06_BMAP_CAP, "QMap<QByteArray,QByteArray> capacity of the model exceeded"); for (uint32_t i = C06_BMAP_CAP; i > 0; i--) { if (i <= m->n && i > pos) m->e[i] = m->e[i - 1]; }
  m->n++; m->e[pos].k = qad_ref(key); m->e[pos].v = SHARED_NULL; return &m->e[pos]; }
void _ZN4QMapI10QByteArrayS0_EC2Ev(char *self) { struct c06_bmap *m = malloc(sizeof(struct c06_bmap)); ASSUME(m != 0); m->n = 0; for (uint32_t i = 0; i <= C06_BMAP_CAP; i++) { m->e[i].k = SHARED_NULL; m->e[i].v = SHARED_NULL; } BMAP(self) = m; }
void _ZN4QMapI10QByteArrayS0_ED2Ev(char *self) { }
char* _ZN4QMapI10QByteArrayS0_EixERKS0_(char *self, char *key) { return (char*)&c06_bslot(BMAP(self), QBD(key))->v; }
char* _ZN4QMapI10QByteArrayS0_E6insertERKS0_S3_(char *self, char *key, char *val) { struct c06_bent *e = c06_bslot(BMAP(self), QBD(key)); e->v = qad_ref(QBD(val)); return (char*)e; }
uint8_t _ZNK4QMapI10QByteArrayS0_E8containsERKS0_(char *self, char *key) { uint8_t found; c06_bfind(BMAP(self), QBD(key), &found); return found; }
void _ZNK4QMapI10QByteArrayS0_E5valueERKS0_S3_(char *ret, char *self, char *key, char *def) { struct c06_bmap *m = BMAP(self); uint8_t found; uint32_t pos = c06_bfind(m, QBD(key), &found); QBD(ret) = found ? qad_ref(m->e[pos].v) : qad_ref(QBD(def)); }
char* _ZNK4QMapI10QByteArrayS0_E5beginEv(char *self) { return (char*)&BMAP(self)->e[0]; }
char* _ZNK4QMapI10QByteArrayS0_E3endEv(char *self) { struct c06_bmap *m = BMAP(self); return (char*)&m->e[m->n]; }
char* _ZN4QMapI10QByteArrayS0_E14const_iteratorppEi(char *it, uint32_t dummy) { char *old = *(char**)it; *(char**)it = old + sizeof(struct c06_bent); return old; }
char* _ZNK4QMapI10QByteArrayS0_E14const_iterator3keyEv(char *it) { return (char*)&(*(struct c06_bent**)it)->k; }
char* _ZNK4QMapI10QByteArrayS0_E14const_iterator5valueEv(char *it) { return (char*)&(*(struct c06_bent**)it)->v; }
uint8_t _ZNK4QMapI10QByteArrayS0_E14const_iteratorneERKS2_(char *a, char *b) { return *(char**)a != *(char**)b; }
#endif
#ifdef HAVE_T_struct_QArrayData
/* structure hint for QByteArray::indexOf: for ONE message built by the harness from fixed-length parts, the positions of the
   grammar characters '=', '"' and ',' are registered; indexOf of one of these characters in exactly that block is answered from the
   (concrete) list - after asserting that the list is exact - instead of scanning symbolic bytes. */
#define C06_IXCAP 8
static QAD *c06_ix_blk; static uint32_t c06_ix_n; static uint8_t c06_ix_c[C06_IXCAP]; static uint32_t c06_ix_p[C06_IXCAP]; static uint8_t c06_ix_checked;
void vp_index_hint_begin(char *ba) { c06_ix_blk = QBD(ba); c06_ix_n = 0; c06_ix_checked = 0; }
void vp_index_hint(uint8_t c, uint32_t pos) { ASSERT(c06_ix_n < C06_IXCAP && (c == '=' || c == '"' || c == ','), "index hint"); ASSERT(c06_ix_n == 0 || c06_ix_p[c06_ix_n - 1] < pos, "index hint: ascending positions"); c06_ix_c[c06_ix_n] = c; c06_ix_p[c06_ix_n] = pos; c06_ix_n++; }
uint32_t _ZNK10QByteArray7indexOfEci(char *self, uint8_t c, uint32_t from) { QAD *d = QBD(self);
  if (d != c06_ix_blk || !(c == '=' || c == '"' || c == ',')) return qtcore_QByteArray_indexOf(self, c, from);
  if ((int32_t)from < 0) from = 0;
  if (!c06_ix_checked) { c06_ix_checked = 1; uint32_t n = d->f1, k = 0;
    for (uint32_t i = 0; i < QB_CAP; i++) { if (i >= n) break; uint8_t b = qb_bytes(d)[i]; uint8_t isg = (b == '=' || b == '"' || b == ',');
      if (k < c06_ix_n && c06_ix_p[k] == i) { ASSERT(b == c06_ix_c[k], "index hint: registered character is there"); k++; } else ASSERT(!isg, "index hint: no unregistered grammar character"); }
    ASSERT(k == c06_ix_n, "index hint: positions inside the message"); }
  for (uint32_t k = 0; k < C06_IXCAP; k++) { if (k >= c06_ix_n) break; if (c06_ix_c[k] == c && c06_ix_p[k] >= from) return c06_ix_p[k]; }
  return (uint32_t)-1; }
#endif
