/* C06 / group dig_parse: listed BEFORE c06_models.c. The sorted class-level QMap<QByteArray,QByteArray> of c06_models.c inserts at a
   position found by comparing keys; with SYMBOLIC keys (the parser lemma) every later access becomes a case split. For this group it
   is replaced by the append-only log of dig_map.c; the c06 definitions are renamed out of the way (not edited). */
#define _ZN4QMapI10QByteArrayS0_EC2Ev c06_unused_bmap_ctor
#define _ZN4QMapI10QByteArrayS0_ED2Ev c06_unused_bmap_dtor
#define _ZN4QMapI10QByteArrayS0_EixERKS0_ c06_unused_bmap_index
#define _ZN4QMapI10QByteArrayS0_E6insertERKS0_S3_ c06_unused_bmap_insert
#define _ZNK4QMapI10QByteArrayS0_E8containsERKS0_ c06_unused_bmap_contains
#define _ZNK4QMapI10QByteArrayS0_E5valueERKS0_S3_ c06_unused_bmap_value
#define _ZNK4QMapI10QByteArrayS0_E5beginEv c06_unused_bmap_begin
#define _ZNK4QMapI10QByteArrayS0_E3endEv c06_unused_bmap_end
#define _ZN4QMapI10QByteArrayS0_E14const_iteratorppEi c06_unused_bmap_itinc
#define _ZNK4QMapI10QByteArrayS0_E14const_iterator3keyEv c06_unused_bmap_itkey
#define _ZNK4QMapI10QByteArrayS0_E14const_iterator5valueEv c06_unused_bmap_itval
#define _ZNK4QMapI10QByteArrayS0_E14const_iteratorneERKS2_ c06_unused_bmap_itne
