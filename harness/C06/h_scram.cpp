// C06 - SCRAM client (QXmppSaslClientScram::respond, parseGS2): refusal and RFC 5802 conformance
#include "c06_common.h"
#include "base/QXmppSasl.cpp"
C06_VTABLE(QXmppSaslClient) C06_VTABLE(QXmppSaslClientScram) C06_VTABLE(QXmppSaslClientPlain) C06_VTABLE(QXmppSaslClientHt) C06_VTABLE(QXmppSaslClientAnonymous)

static SaslScramMechanism symMech()
{
    unsigned a = vp_u32(); vp_assume(a < 4);
    return SaslScramMechanism { SaslScramMechanism::Algorithm(a) };
}
// RFC 5802 5.1: saslname = 1*(value-safe-char / "=2C" / "=3D")
static QByteArray saslName(const QString &user)
{
    QByteArray out;
    for (int i = 0; i < user.size(); i++) {
        char c = char(user.at(i).unicode());
        if (c == ',') out.append("=2C"); else if (c == '=') out.append("=3D"); else out.append(c);
    }
    return out;
}
static bool plainName(const QString &user)
{
    for (int i = 0; i < user.size(); i++) if (user.at(i) == u',' || user.at(i) == u'=') return false;
    return true;
}
static QByteArray hmac(QCryptographicHash::Algorithm alg, const QByteArray &key, const QByteArray &msg) { return QMessageAuthenticationCode::hash(msg, key, alg); }
static void hintPieces(const QByteArray &m, unsigned a, unsigned b = ~0u, unsigned c = ~0u, unsigned d = ~0u)
{
    vp_split_hint_begin(&m, ',');
    vp_split_hint_piece(a); if (b != ~0u) vp_split_hint_piece(b); if (c != ~0u) vp_split_hint_piece(c); if (d != ~0u) vp_split_hint_piece(d);
}
struct Client {
    QByteArray cnonce; QString user, password; SaslScramMechanism mech;
    std::unique_ptr<QXmppSaslClientScram> c;
    // a client after the (real) constructor, the setters; lengths are per-instance constants, contents arbitrary
    Client(unsigned nlen, unsigned ulen, unsigned plen, const SaslScramMechanism *sameMech = nullptr, const char *fixedNonce = nullptr)
    {
        if (fixedNonce) cnonce = QByteArray(fixedNonce);
        else { cnonce = vpBytesExact(nlen); vp_assume(vpNoByte(cnonce, ',')); }   // RFC 5802: nonce = printable without ','
        QXmppSaslDigestMd5::setNonce(cnonce);
        mech = sameMech ? *sameMech : symMech();
        c = std::make_unique<QXmppSaslClientScram>(mech, nullptr);
        user = vpStringExact(ulen); password = vpStringExact(plen); vp_assume(vpAscii(user) && vpAscii(password));
        c->setUsername(user);
        Credentials cr; cr.password = password; c->QXmppSaslClientScram::setCredentials(cr);
    }
};

// client-first-message = "n,," "n=" saslname ",r=" c-nonce
static void scramFirst(bool excludeKnown)
{
    Client k(vp_cfg(0), vp_cfg(1), vp_cfg(2));
    if (excludeKnown) vp_assume(plainName(k.user));
    auto r0 = k.c->respond(QByteArray());
    vp_assert(r0.has_value(), "C06 SCRAM client-first is produced");
    QByteArray exp("n,,n="); exp.append(saslName(k.user)); exp.append(",r="); exp.append(k.cnonce);
    if (r0) vp_assert(*r0 == exp, "C06 SCRAM client-first = 'n,,n=' saslname(user) ',r=' nonce with ',' and '=' of the user name escaped (RFC 5802 5.1)");
    vp_assert(k.c->m_step == 1, "C06 SCRAM step advances");
}
extern "C" void h_scram_first()
{
#ifdef KF_scram_username_unescaped
    scramFirst(true);
#else
    scramFirst(false);
#endif
}
extern "C" void h_scram_first_kf() { scramFirst(false); }   // demonstrates the known finding

// Whole exchange with a server-first of honest SHAPE "r=N,s=S,i=I" but arbitrary N, S, I (fixed lengths per instance):
// accepted iff N extends the client nonce, S decodes to a non-empty salt, I is a number >= 1; if accepted the client-final,
// the proof and the expected server signature are those of RFC 5802 section 3; server-final accepted iff v = ServerSignature.
extern "C" void h_scram_exchange()
{
    Client k(vp_cfg(0), vp_cfg(1), vp_cfg(2));
    auto r0 = k.c->respond(QByteArray());
    vp_assume(r0.has_value());
    unsigned ln = vp_cfg(3), ls = vp_cfg(4), li = vp_cfg(5);
    QByteArray N = vpBytesExact(ln), S = vpBytesExact(ls), I = vpBytesExact(li);
    vp_assume(vpNoByte(N, ',') && vpNoByte(S, ',') && vpNoByte(I, ','));
    // server-first-message: the three mandatory attributes, optionally one more attribute E of le arbitrary bytes (an extension
    // after i=, RFC 5802 section 7 "extensions", or a reserved-mext in front) and optionally another attribute order. Whatever the
    // shape, the AuthMessage contains the message VERBATIM.
    unsigned le = vp_cfg(6), shape = vp_cfg(7);   // shape 0: r,s,i[,E]   1: E,r,s,i   2: i,s,r[,E]
    QByteArray E = vpBytesExact(le);
    if (le) vp_assume(vpNoByte(E, ',') && !(le >= 2 && E.at(1) == '=' && (E.at(0) == 'r' || E.at(0) == 's' || E.at(0) == 'i')));   // not a duplicate of r/s/i
    QByteArray pr("r="); pr.append(N); QByteArray ps("s="); ps.append(S); QByteArray pi("i="); pi.append(I);
    QByteArray sf;
    if (shape == 1 && le) { sf.append(E); sf.append(','); }
    if (shape == 2) { sf.append(pi); sf.append(','); sf.append(ps); sf.append(','); sf.append(pr); }
    else { sf.append(pr); sf.append(','); sf.append(ps); sf.append(','); sf.append(pi); }
    if (shape != 1 && le) { sf.append(','); sf.append(E); }
    if (!le) { if (shape == 2) hintPieces(sf, 2 + li, 2 + ls, 2 + ln); else hintPieces(sf, 2 + ln, 2 + ls, 2 + li); }
    else if (shape == 1) hintPieces(sf, le, 2 + ln, 2 + ls, 2 + li);
    else if (shape == 2) hintPieces(sf, 2 + li, 2 + ls, 2 + ln, le);
    else hintPieces(sf, 2 + ln, 2 + ls, 2 + li, le);
    // what the message means (the reference is computed first: the oracle is order-independent)
    bool okI = false; int iters = I.toInt(&okI);
    QByteArray salt = QByteArray::fromBase64(S);
    bool expectAccept = N.startsWith(k.cnonce) && !salt.isEmpty() && okI && iters >= 1;
    auto alg = k.mech.qtAlgorithm();
    QByteArray cfb = r0->mid(3);                                   // client-first-message-bare as sent
    QByteArray cfwp("c=biws,r="); cfwp.append(N);                  // client-final-message-without-proof
    QByteArray am(cfb); am.append(','); am.append(sf); am.append(','); am.append(cfwp);
    vp_orc_reference(true);
    QByteArray sp = QPasswordDigestor::deriveKeyPbkdf2(alg, k.password.toUtf8(), salt, iters, quint64(QCryptographicHash::hashLength(alg)));
    QByteArray ck = hmac(alg, sp, QByteArray("Client Key"));
    QByteArray sk = QCryptographicHash::hash(ck, alg);
    QByteArray cs = hmac(alg, sk, am);
    QByteArray proof(cs);
    for (int i = 0; i < proof.size(); i++) proof[i] = char(ck.at(i) ^ cs.at(i));
    QByteArray expFinal(cfwp); expFinal.append(",p="); expFinal.append(proof.toBase64());
    QByteArray ssig = hmac(alg, hmac(alg, sp, QByteArray("Server Key")), am);
    vp_orc_reference(false);
    unsigned nref = vp_orc_count();

    auto r1 = k.c->respond(sf);
    vp_assert(r1.has_value() == expectAccept, "C06 SCRAM server-first accepted iff nonce extends the client nonce, salt is non-empty and the iteration count is >= 1");
    if (!r1) { vp_assert(vp_orc_count() == nref, "C06 SCRAM: nothing is derived from the password for a refused server-first"); return; }
    if (!expectAccept) return;
    vp_assert(*r1 == expFinal, "C06 SCRAM client-final = 'c=biws,r=' nonce ',p=' base64(ClientKey XOR HMAC(H(ClientKey), AuthMessage)) with RFC 5802 key derivation");
    vp_assert(k.c->m_serverSignature == ssig, "C06 SCRAM expected ServerSignature = HMAC(HMAC(SaltedPassword,'Server Key'), AuthMessage)");
    vp_assert(k.c->m_step == 2, "C06 SCRAM step 2 after client-final");
    // directly on the oracle log: both signatures are HMACs over client-first-bare "," server-first AS RECEIVED "," client-final-without-proof
    {
        QByteArray m1, m2; vp_orc_in2(nref + 3, &m1); vp_orc_in2(nref + 5, &m2);
        vp_assert(vp_orc_kind(nref + 3) == 2 && m1 == am, "C06 SCRAM ClientSignature is an HMAC over the AuthMessage with the received server-first verbatim");
        vp_assert(vp_orc_kind(nref + 5) == 2 && m2 == am, "C06 SCRAM ServerSignature is an HMAC over the AuthMessage with the received server-first verbatim");
    }
    // server-final
    QByteArray V = vpBytesExact(vp_diglen());
    QByteArray fin("v="); fin.append(V.toBase64());
    hintPieces(fin, fin.size());
    auto r2 = k.c->respond(fin);
    vp_assert(r2.has_value() == (V == ssig), "C06 SCRAM server-final accepted iff v is the ServerSignature");
    if (r2) vp_assert(r2->isEmpty(), "C06 SCRAM answer to server-final is empty");
    auto r3 = k.c->respond(QByteArray());
    vp_assert(!r3.has_value(), "C06 SCRAM: no further challenge is answered");
}

// Two SCRAM logins in the same process, one after the other (two client objects): same hash, same salt and iteration count
// (what a server sends again on reconnect), nonces and passwords arbitrary (equal or different). The SECOND exchange must be
// exactly the RFC 5802 exchange for ITS OWN password - nothing derived for the first login may leak into it.
extern "C" void h_scram_two_sessions()
{
    SaslScramMechanism fixedMech { SaslScramMechanism::Algorithm(vp_cfg(4)) };   // per-instance constant (a symbolic hash would make "same hash as before" a symbolic comparison)
    Client k1(vp_cfg(0), vp_cfg(1), vp_cfg(2), &fixedMech, "c1");   // concrete nonce / salt for the first login: its path stays concrete, its password is arbitrary
    Client k2(vp_cfg(0), vp_cfg(1), vp_cfg(2), &k1.mech);
    auto a0 = k1.c->respond(QByteArray()); auto b0 = k2.c->respond(QByteArray());
    vp_assume(a0.has_value() && b0.has_value());
    // The first login is an honest one (so that it certainly derives keys): client nonce "c1" extended by arbitrary bytes, the salt is
    // the one byte "s", the iteration field means 4096. The second login gets the same salt and iteration fields
    // and an arbitrary nonce field.
    unsigned ln = vp_cfg(3), li = vp_cfg(5);
    vp_b64_expect_valid(true); vp_toint_fix(4096);
    QByteArray N1(k1.cnonce); N1.append(vpBytesExact(ln - vp_cfg(0))); QByteArray N2 = vpBytesExact(ln), S = QByteArray("s").toBase64(), I = vpBytesExact(li);
    unsigned ls = unsigned(S.size());
    vp_assume(vpNoByte(N1, ',') && vpNoByte(N2, ',') && vpNoByte(I, ','));
    QByteArray sf1("r="); sf1.append(N1); sf1.append(",s="); sf1.append(S); sf1.append(",i="); sf1.append(I);
    QByteArray sf2("r="); sf2.append(N2); sf2.append(",s="); sf2.append(S); sf2.append(",i="); sf2.append(I);
    // reference for the second exchange (computed first: the oracle is order-independent)
    bool okI = false; int iters = I.toInt(&okI);
    QByteArray salt = QByteArray::fromBase64(S);
    bool paramsOk = !salt.isEmpty() && okI && iters >= 1;
    bool expect2 = N2.startsWith(k2.cnonce) && paramsOk;
    auto alg = k2.mech.qtAlgorithm();
    QByteArray cfb = b0->mid(3);
    QByteArray cfwp("c=biws,r="); cfwp.append(N2);
    QByteArray am(cfb); am.append(','); am.append(sf2); am.append(','); am.append(cfwp);
    vp_orc_reference(true);
    QByteArray sp = QPasswordDigestor::deriveKeyPbkdf2(alg, k2.password.toUtf8(), salt, iters, quint64(QCryptographicHash::hashLength(alg)));
    QByteArray ck = hmac(alg, sp, QByteArray("Client Key"));
    QByteArray sk = QCryptographicHash::hash(ck, alg);
    QByteArray cs = hmac(alg, sk, am);
    QByteArray proof(cs);
    for (int i = 0; i < proof.size(); i++) proof[i] = char(ck.at(i) ^ cs.at(i));
    QByteArray expFinal(cfwp); expFinal.append(",p="); expFinal.append(proof.toBase64());
    QByteArray ssig = hmac(alg, hmac(alg, sp, QByteArray("Server Key")), am);
    vp_orc_reference(false);
    unsigned nref = vp_orc_count();
    // first login
    hintPieces(sf1, 2 + ln, 2 + ls, 2 + li);
    auto a1 = k1.c->respond(sf1);
    vp_assert(a1.has_value() == (N1.startsWith(k1.cnonce) && paramsOk), "C06 SCRAM (first of two logins): server-first accepted iff nonce, salt and iteration count are valid");
    vp_orc_seal(nref + 6);
    // second login
    hintPieces(sf2, 2 + ln, 2 + ls, 2 + li);
    auto b1 = k2.c->respond(sf2);
    vp_assert(b1.has_value() == expect2, "C06 SCRAM (second login): server-first accepted iff nonce extends the client nonce, salt non-empty, iteration count >= 1");
    if (!b1 || !expect2) return;
    vp_assert(*b1 == expFinal, "C06 SCRAM (second login): client-final carries the RFC 5802 proof for the password of THIS login");
    vp_assert(k2.c->m_serverSignature == ssig, "C06 SCRAM (second login): expected ServerSignature is derived from the password of THIS login");
    QByteArray V = vpBytesExact(vp_diglen());
    QByteArray fin("v="); fin.append(V.toBase64());
    hintPieces(fin, fin.size());
    auto b2 = k2.c->respond(fin);
    vp_assert(b2.has_value() == (V == ssig), "C06 SCRAM (second login): server-final accepted iff it proves the password of THIS login");
}

// Refusal with arbitrary attribute names: "k1e1V1,k2e2V2,k3e3V3" with arbitrary bytes k, e and values (no ',' inside a value):
// covers missing / duplicated / permuted / malformed attributes. Whatever is accepted echoes a nonce extending the client nonce,
// and PBKDF2 never runs with an empty salt or iteration count < 1 (asserted inside the PBKDF2 oracle).
extern "C" void h_scram_refuse_attrs()
{
    Client k(vp_cfg(0), vp_cfg(1), vp_cfg(2));
    auto r0 = k.c->respond(QByteArray());
    vp_assume(r0.has_value());
    unsigned lv = vp_cfg(3);
    QByteArray sf;
    for (int f = 0; f < 3; f++) {
        QByteArray kv = vpBytesExact(2 + lv); vp_assume(vpNoByte(kv, ','));
        if (f) sf.append(',');
        sf.append(kv);
    }
    hintPieces(sf, 2 + lv, 2 + lv, 2 + lv);
    auto r1 = k.c->respond(sf);
    if (r1) {
        QByteArray pre("c=biws,r="); pre.append(k.cnonce);
        vp_assert(r1->startsWith(pre), "C06 SCRAM: an accepted server-first carries a nonce that extends the client nonce");
        vp_assert(vp_orc_count() == 6, "C06 SCRAM: PBKDF2, ClientKey, StoredKey, ClientSignature, ServerKey/ServerSignature are computed on acceptance");
        vp_assert(k.c->m_step == 2, "C06 SCRAM step advances to 2 on acceptance");
    }
}

// server-final = arbitrary "a b X" (two arbitrary bytes + value) at step 2 with an arbitrary stored signature
extern "C" void h_scram_final_any()
{
    Client k(vp_cfg(0), vp_cfg(1), vp_cfg(2));
    k.c->m_step = 2; k.c->m_serverSignature = vpBytesExact(vp_diglen());
    QByteArray fin = vpBytesExact(2 + 2 * vp_diglen()); vp_assume(vpNoByte(fin, ','));
    hintPieces(fin, fin.size());
    auto r2 = k.c->respond(fin);
    bool ok = fin.at(0) == 'v' && fin.at(1) == '=' && QByteArray::fromBase64(fin.mid(2)) == k.c->m_serverSignature;
    vp_assert(r2.has_value() == ok, "C06 SCRAM server-final accepted iff it is v=base64(ServerSignature)");
    vp_assert(k.c->m_step == 3, "C06 SCRAM step 3 after server-final");
}

// parseGS2 on arbitrary bytes = attribute map of the RFC 5802 grammar (attr "=" value, separated by ','; the last duplicate wins)
extern "C" void h_parse_gs2()
{
    QByteArray m = vpBytesN(vp_cfg(0)); vp_assume(vpCountByte(m, ',') <= int(vp_cfg(1)));
    auto map = parseGS2(m);
    const char keys[4] = { 'r', 's', 'i', 'v' };
    for (char key : keys) {
        // reference: scan the pieces
        int start = 0, vs = -1, ve = -1;
        for (int i = 0; i <= m.size(); i++) {
            if (i == m.size() || m.at(i) == ',') {
                if (i - start >= 2 && m.at(start) == key && m.at(start + 1) == '=') { vs = start + 2; ve = i; }
                start = i + 1;
            }
        }
        QByteArray got = map.value(key);
        if (vs < 0) vp_assert(got.isEmpty(), "C06 parseGS2: attribute absent => empty value");
        else {
            bool same = got.size() == ve - vs;
            for (int i = 0; same && i < got.size(); i++) if (got.at(i) != m.at(vs + i)) same = false;
            vp_assert(same, "C06 parseGS2: value of the (last) attribute with that name");
        }
    }
}

// ---------------------------------------------------------------------------------------------------------------------
// PLAIN (RFC 4616): message = [authzid] NUL authcid NUL passwd, sent once
extern "C" void h_plain()
{
    QXmppSaslClientPlain c(nullptr);
    QString user = vpStringExact(vp_cfg(0)), pw = vpStringExact(vp_cfg(1)); vp_assume(vpAscii(user) && vpAscii(pw));
    c.setUsername(user); Credentials cr; cr.password = pw; c.QXmppSaslClientPlain::setCredentials(cr);
    auto r0 = c.QXmppSaslClientPlain::respond(vpSymBytes(2));
    vp_assert(r0.has_value(), "C06 PLAIN: initial response is produced");
    QByteArray exp; exp.append('\0'); exp.append(user.toUtf8()); exp.append('\0'); exp.append(pw.toUtf8());
    if (r0) vp_assert(*r0 == exp, "C06 PLAIN: response = NUL user NUL password (RFC 4616)");
    auto r1 = c.QXmppSaslClientPlain::respond(vpSymBytes(2));
    vp_assert(!r1.has_value(), "C06 PLAIN: no second response");
}

// HT-*-NONE (XEP-0484): initial response = user NUL HMAC-<hash>(token, "Initiator"); refused if there is no token, the token
// belongs to another mechanism, the challenge is not empty, or a response was already sent
extern "C" void h_ht()
{
    unsigned ha = vp_u32(), hb = vp_u32(); vp_assume(ha <= unsigned(IanaHashAlgorithm::Sha3_512) && hb <= unsigned(IanaHashAlgorithm::Sha3_512));
    SaslHtMechanism mech { IanaHashAlgorithm(ha), SaslHtMechanism::None };
    QXmppSaslClientHt c(mech, nullptr);
    QString user = vpStringExact(vp_cfg(0)), secret = vpStringExact(vp_cfg(1)); vp_assume(vpAscii(user) && vpAscii(secret));
    c.setUsername(user);
    bool haveToken = vp_bool();
    unsigned cb = vp_u32(); vp_assume(cb <= unsigned(SaslHtMechanism::None));
    SaslHtMechanism tokMech { IanaHashAlgorithm(hb), SaslHtMechanism::ChannelBindingType(cb) };
    Credentials cr; if (haveToken) cr.htToken = HtToken { tokMech, secret, QDateTime() };
    c.QXmppSaslClientHt::setCredentials(cr);
    QByteArray ch = vpSymBytes(1);
    // reference first (the oracle is order-independent; keeps its log concrete)
    QByteArray exp(user.toUtf8()); exp.append('\0');
    exp.append(QMessageAuthenticationCode::hash(QByteArray("Initiator"), secret.toUtf8(), ianaHashAlgorithmToQt(IanaHashAlgorithm(ha))));
    unsigned nref = vp_orc_count();
    auto r0 = c.QXmppSaslClientHt::respond(ch);
    bool expect = haveToken && ha == hb && cb == unsigned(SaslHtMechanism::None) && ch.isEmpty();
    vp_assert(r0.has_value() == expect, "C06 HT: responds iff a token of exactly this mechanism is stored and the challenge is empty");
    if (!r0) vp_assert(vp_orc_count() == nref, "C06 HT: nothing is computed from the token when the response is refused");
    if (r0 && expect) {
        vp_assert(*r0 == exp, "C06 HT: response = user NUL HMAC(token, 'Initiator') with the hash of the mechanism name");
        auto r1 = c.QXmppSaslClientHt::respond(QByteArray());
        vp_assert(!r1.has_value(), "C06 HT: no second response");
    }
}
// hash algorithm named by the mechanism is the one used (IANA name -> Qt algorithm)
extern "C" void h_ht_alg()
{
    using H = IanaHashAlgorithm; using Q = QCryptographicHash;
    vp_assert(ianaHashAlgorithmToQt(H::Sha256) == Q::Sha256 && ianaHashAlgorithmToQt(H::Sha384) == Q::Sha384 && ianaHashAlgorithmToQt(H::Sha512) == Q::Sha512, "C06 hash names: SHA-2 family maps to SHA-2");
    vp_assert(ianaHashAlgorithmToQt(H::Sha3_224) == Q::RealSha3_224 && ianaHashAlgorithmToQt(H::Sha3_256) == Q::RealSha3_256 && ianaHashAlgorithmToQt(H::Sha3_384) == Q::RealSha3_384 && ianaHashAlgorithmToQt(H::Sha3_512) == Q::RealSha3_512, "C06 IANA SHA-3 names map to FIPS-202 SHA-3");
    vp_assert(SaslScramMechanism { SaslScramMechanism::Sha1 }.qtAlgorithm() == Q::Sha1 && SaslScramMechanism { SaslScramMechanism::Sha256 }.qtAlgorithm() == Q::Sha256 &&
              SaslScramMechanism { SaslScramMechanism::Sha512 }.qtAlgorithm() == Q::Sha512 && SaslScramMechanism { SaslScramMechanism::Sha3_512 }.qtAlgorithm() == Q::RealSha3_512, "C06 SCRAM: hash of the mechanism name is the one used");
}
