// C06 - SCRAM client (QXmppSaslClientScram::respond, parseGS2): refusal and RFC 5802 conformance
#include "c06_common.h"
#include "base/QXmppSasl.cpp"
C06_VTABLE(QXmppSaslClient) C06_VTABLE(QXmppSaslClientScram)

static SaslScramMechanism symMech()
{
    unsigned a = vp_u32(); vp_assume(a < 4);
    return SaslScramMechanism { SaslScramMechanism::Algorithm(a) };
}
// RFC 5802 5.1: saslname = 1*(value-safe-char / "=2C" / "=3D")
static QByteArray saslName(const QString &user)
{
    QByteArray out;
    for (int i = 0; i < user.size(); i++) {
        char c = char(user.at(i).unicode());
        if (c == ',') out.append("=2C"); else if (c == '=') out.append("=3D"); else out.append(c);
    }
    return out;
}
struct Client {
    QByteArray cnonce; QString user, password; SaslScramMechanism mech;
    std::unique_ptr<QXmppSaslClientScram> c;
    // a client after the (real) constructor, setters and step 0
    Client(int maxNonce = 2)
    {
        cnonce = vpBytesExact(C06_NLEN); vp_assume(!cnonce.isEmpty() && vpNoByte(cnonce, ','));   // nonce = printable without ',' (RFC 5802 "printable"); qxmpp uses base64 text
        QXmppSaslDigestMd5::setNonce(cnonce);
        mech = symMech();
        c = std::make_unique<QXmppSaslClientScram>(mech, nullptr);
        user = vpStringExact(C06_ULEN); password = vpStringExact(C06_PLEN); vp_assume(vpAscii(user) && vpAscii(password));
        c->setUsername(user);
        Credentials cr; cr.password = password; c->setCredentials(cr);
    }
};

// client-first-message = "n,," "n=" saslname ",r=" c-nonce
extern "C" void h_scram_first()
{
    Client k;
#if defined(KF_scram_username_unescaped) && !defined(C06_DEMO_KF)
    vp_assume(saslName(k.user) == k.user.toUtf8());
#endif
    auto r0 = k.c->respond(QByteArray());
    vp_assert(r0.has_value(), "C06 SCRAM client-first is produced");
    QByteArray exp("n,,n="); exp.append(saslName(k.user)); exp.append(",r="); exp.append(k.cnonce);
    if (r0) vp_assert(*r0 == exp, "C06 SCRAM client-first = 'n,,n=' saslname(user) ',r=' nonce with ',' and '=' of the user name escaped (RFC 5802 5.1)");
    vp_assert(k.c->m_step == 1, "C06 SCRAM step advances");
}

// server-first = ARBITRARY bytes: whatever is accepted, the nonce echoed back extends the client nonce and PBKDF2 never runs on an
// empty salt or an iteration count < 1 (the two latter are asserted inside the PBKDF2 oracle)
extern "C" void h_scram_refuse_any()
{
    Client k;
    auto r0 = k.c->respond(QByteArray());
    QByteArray sf = vpBytesN(C06_SFLEN); vp_assume(vpCountByte(sf, ',') <= 3);
    auto r1 = k.c->respond(sf);
    if (r1) {
        QByteArray pre("c=biws,r="); pre.append(k.cnonce);
        vp_assert(r1->startsWith(pre), "C06 SCRAM: an accepted server-first carries a nonce that extends the client nonce");
        vp_assert(vp_orc_count() > 0, "C06 SCRAM: a client-final needs the salted password");
        vp_assert(k.c->m_step == 2, "C06 SCRAM step advances to 2 on acceptance");
    }
}
