MODELS = ['c06_pre.c', 'qt_core.c', 'qt_list.c', 'qt_dom.c', 'c06_models.c']
def I(name, entry, **kw):
    d = dict(name=name, entry=entry, unwind=8, timeout_s=300, mem_gb=6, cdefs={'QB_CAP': 64}, bound=''); d.update(kw); return d
SPEC = dict(
    property='C06',
    groups=[
        dict(name='scram', harness='h_scram.cpp', tus=[], models=MODELS, cxxdefs={'C06_SFLEN': 12, 'C06_NLEN': 2, 'C06_ULEN': 2, 'C06_PLEN': 2},
             instances=[I('scram_first', 'h_scram_first'), I('scram_refuse_any', 'h_scram_refuse_any', unwind=14)]),
    ],
    bounds=[], assumptions=[], outside=[],
)
