MODELS = ['c06_pre.c', 'qt_core.c', 'qt_list.c', 'qt_dom.c', 'c06_models.c']
def I(name, entry, cfg=(), **kw):
    d = dict(name=name, entry=entry, unwind=8, timeout_s=300, mem_gb=6, bound='')
    d['cdefs'] = {}
    for i, v in enumerate(cfg): d['cdefs']['C06_CFG%d' % i] = v
    d['cdefs'].update(kw.pop('cdefs', {})); d.update(kw); return d
SPEC = dict(
    property='C06',
    groups=[
        dict(name='scram', harness='h_scram.cpp', tus=[], models=MODELS, cxxdefs={'C06_GS2LEN': 8}, loop_bounds={r'^_ZN13QConcatenableI10QByteArrayE8appendTo': 48},
             instances=[
                 I('scram_first', 'h_scram_first', (2, 2, 1)),
                 I('scram_first_kf', 'h_scram_first_kf', (2, 2, 1), known_finding='scram_username_unescaped'),
                 I('scram_exchange', 'h_scram_exchange', (2, 1, 1, 3, 2, 1), unwind=12),
                 I('scram_refuse_attrs', 'h_scram_refuse_attrs', (1, 1, 1, 2), unwind=12),
                 I('scram_final_any', 'h_scram_final_any', (1, 1, 1), unwind=12),
             ]),
        dict(name='mgr', harness='h_mgr.cpp', tus=['src/base/QXmppSasl.cpp', 'src/base/QXmppUtils.cpp'], models=MODELS, ranges_shim=True, shadow_task=True, cxxdefs={'_GLIBCXX_RANGES': 1},
             instances=[
                 I('sasl_manager', 'h_sasl_manager', (), unwind=12, cdefs={'C06_SERIALIZE_VIA_HARNESS': 1}),
                 I('sasl2_manager', 'h_sasl2_manager', (), unwind=12, cdefs={'C06_SERIALIZE_VIA_HARNESS': 1}),
             ]),
    ],
    bounds=[], assumptions=[], outside=[],
)
