# C06 - SASL exchanges follow their RFCs; a server that cannot prove itself is refused
MODELS = ['c06_pre.c', 'qt_core.c', 'qt_list.c', 'qt_dom.c', 'c06_models.c']
KF_USER = 'scram_username_unescaped'        # DESIGN D7
KF_SUCCESS = 'success_before_server_proof'  # DESIGN D6
def I(name, entry, cfg=(), **kw):
    d = dict(name=name, entry=entry, unwind=8, timeout_s=150, mem_gb=6, bound='')
    d['cdefs'] = {}
    for i, v in enumerate(cfg): d['cdefs']['C06_CFG%d' % i] = v
    d['cdefs'].update(kw.pop('cdefs', {})); d.update(kw); return d
B_ASCII = 'user name / password: arbitrary ASCII (1..127) units of the stated length; digests: %d symbolic bytes' % 4
SPEC = dict(
    property='C06',
    groups=[
        dict(name='scram', harness='h_scram.cpp', tus=[], models=MODELS,
             loop_bounds={r'^_ZN13QConcatenableI10QByteArrayE8appendTo': 48},
             instances=[
                 I('scram_first', 'h_scram_first', (2, 2, 1), bound='client nonce 2 bytes, user name 2 units, password 1 unit; ' + B_ASCII),
                 I('scram_first_kf', 'h_scram_first_kf', (2, 2, 1), known_finding=KF_USER, bound='as scram_first'),
                 I('scram_exchange', 'h_scram_exchange', (2, 0, 1, 3, 2, 1), unwind=12,
                   bound='client nonce 2 bytes, server nonce field 3 bytes, salt field 2 bytes, iteration field 1 byte (all arbitrary, no ","), password 1 unit, all 4 SCRAM hashes; server-final v= arbitrary 4-byte signature'),
                 I('scram_exchange_ext', 'h_scram_exchange', (2, 0, 1, 3, 2, 1, 3, 0), unwind=12,
                   bound='as scram_exchange, server-first = r=..,s=..,i=.. followed by one extension attribute of 3 arbitrary bytes (not r=/s=/i=)'),
                 I('scram_exchange_mext', 'h_scram_exchange', (2, 0, 1, 3, 2, 1, 3, 1), unwind=12, tiers=('thorough',),
                   bound='as scram_exchange, server-first preceded by one attribute of 3 arbitrary bytes (reserved-mext position)'),
                 I('scram_exchange_order', 'h_scram_exchange', (2, 0, 1, 3, 2, 1, 0, 2), unwind=12,
                   bound='as scram_exchange, attributes in the order i=,s=,r='),
                 I('scram_exchange_long', 'h_scram_exchange', (3, 0, 2, 5, 4, 2), unwind=16, tiers=('thorough',), timeout_s=300, cdefs={'QB_CAP': 64}, model_loop_bound=66,
                   bound='client nonce 3 bytes, server nonce field 5, salt field 4, iteration field 2, password 2 units'),
                 I('scram_exchange_user', 'h_scram_exchange', (2, 1, 1, 3, 2, 1), unwind=12, tiers=('thorough',), timeout_s=300,
                   bound='as scram_exchange with a 1-unit user name'),
                 I('scram_two_sessions', 'h_scram_two_sessions', (2, 0, 1, 3, 1, 1), unwind=12, cdefs={'C06_ORC_CAP': 20, 'C06_B64CAP': 5},
                   bound='two client objects in sequence, SCRAM-SHA-256 for both, same salt (the byte "s") and iteration field (1 arbitrary byte, meaning 4096); first login honest: client nonce "c1" + arbitrary extension, second login arbitrary 3-byte nonce field; client nonces 2 bytes, passwords 1 unit each (equal or different)'),
                 I('scram_refuse_attrs', 'h_scram_refuse_attrs', (1, 0, 1, 2), unwind=12,
                   bound='3 attributes "k e v v" of 4 arbitrary bytes each (no "," inside), client nonce 1 byte'),
                 I('scram_final_any', 'h_scram_final_any', (1, 1, 1), unwind=12, bound='server-final = 10 arbitrary bytes without ",", arbitrary stored signature of 4 bytes'),
                 I('parse_gs2', 'h_parse_gs2', (5, 1), unwind=10, timeout_s=120, tiers=('quick',), cdefs={'LIST_CAP': 2}, bound='arbitrary message of <= 5 bytes with <= 1 comma'),
                 I('parse_gs2_6', 'h_parse_gs2', (6, 2), unwind=10, timeout_s=200, tiers=('thorough',), bound='arbitrary message of <= 6 bytes with <= 2 commas'),
                 I('plain', 'h_plain', (2, 2), bound='user name 2 units, password 2 units; ' + B_ASCII),
                 I('ht', 'h_ht', (2, 2), bound='user name 2 units, token 2 units, all 7 hash names x all 4 channel-binding types for the stored token, challenge 0..1 bytes'),
                 I('hash_names', 'h_ht_alg', (), unwind=4, bound='all mechanism hash names'),
             ]),
        dict(name='mgr', harness='h_mgr.cpp', tus=['src/base/QXmppSasl.cpp', 'src/base/QXmppUtils.cpp', 'src/base/QXmppStreamManagement.cpp'], models=MODELS,
             ranges_shim=True, shadow_task=True, cxxdefs={'_GLIBCXX_RANGES': 1},
             loop_bounds={r'^_Z8qstrnlenPKcj': 40, r'^_ZN13QConcatenableI10QByteArrayE8appendTo': 48},
             instances=
                 [I(p + '_' + n, 'h_%s_manager' % p, cfg, unwind=12,
                    bound='arbitrary pending state: SCRAM step in {1,2,3}, arbitrary stored signature (4 bytes); element <%s/> %s' % (n.split('_')[0], 'carrying v=<arbitrary 4-byte signature>' if cfg[0] else 'without data'))
                  for p in ('sasl', 'sasl2')
                  for (n, cfg) in (('success_nodata', (0, 0)), ('success_data', (1, 0)), ('challenge', (1, 1)), ('failure', (0, 2)), ('other', (0, 3)))] +
                 [I('sasl_success_kf', 'h_sasl_manager_kf', (0, 0), unwind=12, known_finding=KF_SUCCESS, bound='as sasl_success_nodata'),
                  I('sasl2_success_kf', 'h_sasl2_manager_kf', (0, 0), unwind=12, known_finding=KF_SUCCESS, bound='as sasl2_success_nodata')]),
    ],
    bounds=[
        'strings have a fixed length per instance (stated per instance) and arbitrary contents; all lengths are small (<= 3 units per field)',
        'digests (hash / HMAC / PBKDF2 outputs) are 4 symbolic bytes',
        'SCRAM server-first: honest shape r=..,s=..,i=.. with arbitrary field contents (scram_exchange) or 3 attributes with arbitrary names and values (scram_refuse_attrs); values contain no ","',
        'managers: one handleElement step from an arbitrary pending state (inductive step; invariant: SCRAM step 3 is reached only through a matching server signature)',
    ],
    assumptions=[
        'crypto = recording oracle: QCryptographicHash::hash, QMessageAuthenticationCode (static and incremental), QPasswordDigestor::deriveKeyPbkdf2 return fresh symbolic bytes, equal for equal (primitive, algorithm, inputs); no other property of the primitives is used (no collision freedom, so "no server holding a different secret accepts" is outside)',
        'base64 is modelled by an injective code whose image avoids "," and "=" (2 letters per byte), except the literal base64("n,,") = "biws" which is kept; decoding text outside the image yields an arbitrary (but per text fixed) result',
        'QByteArray::toInt on ordinary text yields an arbitrary but per text fixed (value, ok); the digit grammar is Qt\'s',
        'UTF-8 codec is the identity on ASCII; user names and passwords are ASCII (SASLprep / normalisation is outside the property)',
        'the client nonce is printable without "," (RFC 5802); it is injected through QXmppSaslDigestMd5::setNonce as the test-suite does',
        'QMap<char,QByteArray> is a class-level model with slots for the keys r,s,i,v (reading any other key is asserted not to happen)',
        'QXmppLoggable/QObject construction without parent, signals go nowhere; QDateTime is an opaque word',
        'managers: QXmppTask/QXmppPromise = assume-guarantee shadow (C13); serializeXml is cut (the bytes sent are not inspected, only counted)',
    ],
    outside=[
        'DIGEST-MD5 (respond, calculateDigest, parseMessage/serializeMessage): no instance registered - the harness h_digest.cpp (rspauth acceptance iff RFC 2831 digest, quoting round trip) reaches no verdict within the quick cap because parseMessage on symbolic text makes every length symbolic; the needed models (QMap<QByteArray,QByteArray>, toHex, trimmed, replace, QString::arg) are in c06_models.c',
        'parseGS2 on messages whose values contain "," (more than the stated number of pieces), server messages longer than the stated field lengths',
        'non-ASCII user names / passwords, SASLprep, channel binding (gs2 header is always "n,,"), real digest lengths (only the dkLen argument = hash length is checked)',
        'contents of the <response/> / <abort/> stanzas written by the managers; FAST token handling; Sasl2 <continue/> tasks',
        'ANONYMOUS, X-FACEBOOK, X-GOOGLE, X-WINDOWS-LIVE mechanisms',
    ],
)
