// C06 - DIGEST-MD5 (RFC 2831): digest computation, rspauth verification, message grammar (quoting / escaping)
// NOT REGISTERED in spec.py (work in progress): with symbolic message text cbmc reaches no verdict within the quick cap; see SPEC['outside'].
#include "c06_common.h"
#include "base/QXmppSasl.cpp"
C06_VTABLE(QXmppSaslClient) C06_VTABLE(QXmppSaslClientDigestMd5)

static QByteArray md5(const QByteArray &d) { return QCryptographicHash::hash(d, QCryptographicHash::Md5); }
static QByteArray cat(std::initializer_list<QByteArray> parts) { QByteArray r; for (const auto &p : parts) r.append(p); return r; }
// RFC 2831 2.1.2.1: response-value = HEX(KD(HEX(H(A1)), nonce ":" nc ":" cnonce ":" qop ":" HEX(H(A2))))
//   A1 = H(user ":" realm ":" passwd) ":" nonce ":" cnonce      A2 = method ":" digest-uri   (method empty for rspauth)
static QByteArray refDigest(const QByteArray &method, const QByteArray &uri, const QByteArray &secret, const QByteArray &nonce, const QByteArray &cnonce, const QByteArray &nc)
{
    QByteArray ha1 = md5(cat({ secret, ":", nonce, ":", cnonce })).toHex();
    QByteArray ha2 = md5(cat({ method, ":", uri })).toHex();
    return md5(cat({ ha1, ":", nonce, ":", nc, ":", cnonce, ":auth:", ha2 })).toHex();
}
static void setupClient(QXmppSaslClientDigestMd5 &c)
{
    c.setHost(QStringLiteral("h")); c.setServiceType(QStringLiteral("xmpp")); c.setUsername(QStringLiteral("u"));
}
// step 2: "rspauth=" X with arbitrary X (8 bytes): accepted iff X is the RFC 2831 response-auth digest (A2 = ":" digest-uri)
extern "C" void h_digest_rspauth()
{
    QXmppSaslDigestMd5::setNonce(vpBytesExact(2));
    QXmppSaslClientDigestMd5 c(nullptr); setupClient(c);
    c.m_step = 2; c.m_secret = vpBytesExact(vp_diglen()); c.m_nonce = vpBytesExact(2);
    QByteArray X = vpBytesExact(2 * vp_diglen()); vp_assume(vpNoByte(X, ',') && vpNoByte(X, '"') && vpNoByte(X, '='));
    QByteArray ch("rspauth="); ch.append(X);
    vp_index_hint_begin(&ch); vp_index_hint('=', 7);
    QByteArray exp = refDigest(QByteArray(), QByteArray("xmpp/h"), c.m_secret, c.m_nonce, c.m_cnonce, c.m_nc);
    auto r = c.QXmppSaslClientDigestMd5::respond(ch);
    vp_assert(r.has_value() == (X == exp), "C06 DIGEST-MD5: final challenge accepted iff rspauth is the expected digest");
    vp_assert(c.m_step == (r ? 3 : 2), "C06 DIGEST-MD5: step advances only on a verified rspauth");
}
// message grammar: a value survives serializeMessage -> parseMessage (quoting and escaping of separators, quotes, backslashes)
extern "C" void h_digest_roundtrip()
{
    QByteArray v = vpBytesExact(vp_cfg(0));
#ifdef KF_digestmd5_trailing_backslash
    vp_assume(v.isEmpty() || v.at(v.size() - 1) != '\\');
#endif
    QMap<QByteArray, QByteArray> m; m[QByteArrayLiteral("k")] = v;
    QByteArray text = QXmppSaslDigestMd5::serializeMessage(m);
    auto back = QXmppSaslDigestMd5::parseMessage(text);
    vp_assert(back.contains(QByteArrayLiteral("k")), "C06 DIGEST-MD5 grammar: a serialised directive is found again by the parser");
    vp_assert(back.value(QByteArrayLiteral("k")) == v, "C06 DIGEST-MD5 grammar: the value survives quoting/escaping and parsing");
}
extern "C" void h_digest_parse_probe()
{
    QByteArray X("abcdefgh"); if (vp_cfg(0)) { X = vpBytesExact(8); vp_assume(vpNoByte(X, ',') && vpNoByte(X, '"') && vpNoByte(X, '=')); }
    QByteArray ch("rspauth="); ch.append(X);
    vp_index_hint_begin(&ch); vp_index_hint('=', 7);
    auto m = QXmppSaslDigestMd5::parseMessage(ch);
    vp_assert(m.value(QByteArrayLiteral("rspauth")) == X, "C06 probe parse");
}
