// C06 - DIGEST-MD5 (RFC 2831): digest computation, rspauth verification, message grammar (quoting / escaping)
#include "c06_common.h"
#include "base/QXmppSasl.cpp"
C06_VTABLE(QXmppSaslClient) C06_VTABLE(QXmppSaslClientDigestMd5)

static QByteArray md5(const QByteArray &d) { return QCryptographicHash::hash(d, QCryptographicHash::Md5); }
static QByteArray cat(std::initializer_list<QByteArray> parts) { QByteArray r; for (const auto &p : parts) r.append(p); return r; }
// RFC 2831 2.1.2.1: response-value = HEX(KD(HEX(H(A1)), nonce ":" nc ":" cnonce ":" qop ":" HEX(H(A2))))
//   A1 = H(user ":" realm ":" passwd) ":" nonce ":" cnonce      A2 = method ":" digest-uri   (method empty for rspauth)
static QByteArray refDigest(const QByteArray &method, const QByteArray &uri, const QByteArray &secret, const QByteArray &nonce, const QByteArray &cnonce, const QByteArray &nc)
{
    QByteArray ha1 = md5(cat({ secret, ":", nonce, ":", cnonce })).toHex();
    QByteArray ha2 = md5(cat({ method, ":", uri })).toHex();
    return md5(cat({ ha1, ":", nonce, ":", nc, ":", cnonce, ":auth:", ha2 })).toHex();
}
extern "C" void h_probe_digest()
{
    QXmppSaslDigestMd5::setNonce(vpBytesExact(2));
    QXmppSaslClientDigestMd5 c(nullptr);
    c.setHost(QStringLiteral("h")); c.setServiceType(QStringLiteral("xmpp")); c.setUsername(QStringLiteral("u"));
    c.m_step = 2; c.m_secret = vpBytesExact(vp_diglen()); c.m_nonce = vpBytesExact(2);
    QByteArray X = vpBytesExact(2 * vp_diglen());
    QByteArray ch("rspauth="); ch.append(X);
    QByteArray exp = refDigest(QByteArray(), QByteArray("xmpp/h"), c.m_secret, c.m_nonce, c.m_cnonce, c.m_nc);
    auto r = c.QXmppSaslClientDigestMd5::respond(ch);
    vp_assert(r.has_value() == (X == exp), "C06 DIGEST-MD5: final challenge accepted iff rspauth is the expected digest");
    QMap<QByteArray, QByteArray> m; m[QByteArrayLiteral("k")] = vpBytesExact(2);
    auto back = QXmppSaslDigestMd5::parseMessage(QXmppSaslDigestMd5::serializeMessage(m));
    vp_assert(back.contains(QByteArrayLiteral("k")), "C06 probe");
}
