// C06 - DIGEST-MD5 message codec (QXmppSaslDigestMd5::parseMessage / serializeMessage) against the grammar of RFC 2831 section 7.1.
// This is the LEMMA half of the assume-guarantee split: dig_resp.cpp / dig_mgr.cpp run the client with the codec cut to
// "parseMessage yields the directive map of the message".
#include "c06_common.h"
#include "base/QXmppSasl.cpp"
using BMap = QMap<QByteArray, QByteArray>;
extern "C" { void vp_dig_at_hint(const QByteArray *m, unsigned mask); void vp_dig_bytes(QByteArray *out, const unsigned char *buf, unsigned len, unsigned cap); unsigned vp_dig_log_len(const BMap *m); }
#define L(x) QByteArrayLiteral(x)

// ---- reference parser, written from RFC 2831 7.1 (which imports the RFC 2616 rules) ---------------------------------------------
//   message        = #( directive )            #rule: elements separated by "," and optional LWS; null elements are allowed
//   directive      = token "=" ( token | quoted-string )        with implied *LWS between words and separators
//   token          = 1*<any CHAR except CTLs or separators>     separators = ( ) < > @ , ; : \ " / [ ] ? = { } SP HT
//   quoted-string  = <"> *( qdtext | quoted-pair ) <">          qdtext = any TEXT except <">, quoted-pair = "\" CHAR
//   value of a quoted-string = its contents with every quoted-pair replaced by its CHAR
// Deliberate choices: LWS = SP / HT (a message with CR or LF outside a quoted string is treated as not conforming: no claim);
// an EMPTY unquoted value ("a=") is accepted as a directive with the empty value; a repeated directive: the last one wins.
static bool isLws(unsigned char c) { return c == ' ' || c == '\t'; }
static bool isTok(unsigned char c)
{
    if (c <= 32 || c >= 127) return false;
    switch (c) { case '(': case ')': case '<': case '>': case '@': case ',': case ';': case ':': case '\\': case '"': case '/': case '[': case ']': case '?': case '=': case '{': case '}': return false; }
    return true;
}
#define RMAXD 3
#define RMAXV 8
struct RefDir { unsigned ks, kl, vl; unsigned char v[RMAXV]; };
struct RefOut {
    bool ok;        // the message conforms to the grammar
    bool e1;        // class E1: a quoted-string whose closing quote follows a backslash (its last element is the quoted-pair \\)
    bool e2;        // class E2: a quoted-pair whose CHAR is neither " nor backslash
    bool e3;        // class E3: LWS after "=" or after a value
    bool e4;        // class E4: a null list element (a comma at the start or directly after another comma)
    bool over;      // more than RMAXD directives
    unsigned nd; RefDir d[RMAXD];
};
enum RState { PRE, KEY, KEYLWS, EQ, TOK, Q, QESC, POSTQ, POST, BAD };
static void refParse(const unsigned char *b, unsigned n, RefOut &o)
{
    o.ok = true; o.e1 = o.e2 = o.e3 = o.e4 = o.over = false; o.nd = 0;
    for (unsigned j = 0; j < RMAXD; j++) { o.d[j].ks = o.d[j].kl = o.d[j].vl = 0; for (unsigned i = 0; i < RMAXV; i++) o.d[j].v[i] = 0; }
    RState st = PRE; unsigned ks = 0, kl = 0, vl = 0; unsigned char v[RMAXV]; for (unsigned i = 0; i < RMAXV; i++) v[i] = 0;
    bool lastEsc = false, fin = false;
    for (unsigned i = 0; i <= n; i++) {
        bool end = i == n; unsigned char c = end ? 0 : b[i]; fin = false;
        switch (st) {
        case PRE: if (end || isLws(c)) { } else if (c == ',') o.e4 = true; else if (isTok(c)) { st = KEY; ks = i; kl = 1; vl = 0; } else st = BAD; break;
        case KEY: if (end) st = BAD; else if (isTok(c)) kl++; else if (isLws(c)) st = KEYLWS; else if (c == '=') st = EQ; else st = BAD; break;
        case KEYLWS: if (end) st = BAD; else if (isLws(c)) { } else if (c == '=') st = EQ; else st = BAD; break;
        case EQ: if (end) fin = true; else if (c == '"') { st = Q; lastEsc = false; } else if (isTok(c)) { st = TOK; v[0] = c; vl = 1; } else if (c == ',') { fin = true; st = PRE; } else if (isLws(c)) o.e3 = true; else st = BAD; break;
        case TOK: if (end) fin = true; else if (isTok(c)) { if (vl < RMAXV) v[vl] = c; vl++; } else if (c == ',') { fin = true; st = PRE; } else if (isLws(c)) { fin = true; o.e3 = true; st = POST; } else st = BAD; break;
        case Q: if (end) st = BAD; else if (c == '"') { if (lastEsc) o.e1 = true; fin = true; st = POSTQ; } else if (c == '\\') st = QESC; else if ((c >= 32 && c != 127) || c == '\t') { if (vl < RMAXV) v[vl] = c; vl++; lastEsc = false; } else st = BAD; break;
        case QESC: if (end || c >= 128) st = BAD; else { if (c != '"' && c != '\\') o.e2 = true; if (vl < RMAXV) v[vl] = c; vl++; lastEsc = c == '\\'; st = Q; } break;
        case POSTQ: if (end) { } else if (c == ',') st = PRE; else if (isLws(c)) { o.e3 = true; st = POST; } else st = BAD; break;
        case POST: if (end || isLws(c)) { } else if (c == ',') st = PRE; else st = BAD; break;
        case BAD: break;
        }
        if (fin) {
            if (o.nd >= RMAXD) o.over = true;
            else { RefDir &d = o.d[o.nd]; d.ks = ks; d.kl = kl; d.vl = vl; for (unsigned q = 0; q < RMAXV; q++) d.v[q] = v[q]; o.nd++; }
            if (end && st != POSTQ) st = PRE;
        }
    }
    if (st == BAD) o.ok = false;
}
static bool sameKey(const unsigned char *b, const RefDir &x, const RefDir &y)
{
    if (x.kl != y.kl) return false;
    for (unsigned i = 0; i < RMAXV; i++) { if (i >= x.kl) break; if (b[x.ks + i] != b[y.ks + i]) return false; }
    return true;
}
// the real parser's result is the directive map the reference computes (same keys, last value of each, nothing else)
static void compareWithRef(const unsigned char *b, unsigned n, const RefOut &o, const BMap &map)
{
    unsigned distinct = 0;
    for (unsigned j = 0; j < RMAXD; j++) {
        if (j >= o.nd) break;
        unsigned last = j;
        for (unsigned q = 0; q < RMAXD; q++) { if (q >= o.nd) break; if (q > j && sameKey(b, o.d[j], o.d[q])) last = q; }
        if (last == j) distinct++;
        QByteArray key; vp_dig_bytes(&key, b + o.d[j].ks, o.d[j].kl, n);
        QByteArray val; vp_dig_bytes(&val, o.d[last].v, o.d[last].vl, n);
        vp_assert(map.contains(key), "C06 DIGEST-MD5 parseMessage: every directive of the message is in the map under its name");
        vp_assert(map.value(key) == val, "C06 DIGEST-MD5 parseMessage: the value is the token / the unquoted, unescaped quoted-string of the (last) directive with that name");
    }
    vp_assert(unsigned(map.size()) == distinct, "C06 DIGEST-MD5 parseMessage: the map holds nothing but the directives of the message");
}
// cfg0 = exact message length (<= 6); cfg1 = classes excluded from the claim (bit0 E1, bit1 E2, bit2 E3, bit3 E4)
extern "C" void h_dig_parse_any()
{
    unsigned n = vp_cfg(0), excl = vp_cfg(1);
    QByteArray m = vpBytesExact(n);
    unsigned char b[RMAXV]; for (unsigned i = 0; i < RMAXV; i++) b[i] = i < n ? (unsigned char)m.at(int(i)) : 0;
    RefOut o; refParse(b, n, o);
    vp_assume(o.ok && !o.over);
    if (excl & 1) vp_assume(!o.e1);
    if (excl & 2) vp_assume(!o.e2);
    if (excl & 4) vp_assume(!o.e3);
    if (excl & 8) vp_assume(!o.e4);
    BMap map = QXmppSaslDigestMd5::parseMessage(m);
    compareWithRef(b, n, o, map);
}

// ---- fixed longer shapes with symbolic value bytes ---------------------------------------------------------------------------------
static bool tokBytes(const QByteArray &v) { for (int i = 0; i < v.size(); i++) if (!isTok((unsigned char)v.at(i))) return false; return true; }
// qdtext other than the two characters that need a quoted-pair (so "," "=" SP and bytes >= 128 are allowed: they must not split the value)
static bool qdBytes(const QByteArray &v) { for (int i = 0; i < v.size(); i++) { unsigned char c = (unsigned char)v.at(i); if (c < 32 || c == 127 || c == '"' || c == '\\') return false; } return true; }
static QByteArray cat(std::initializer_list<QByteArray> parts) { QByteArray r; for (const auto &p : parts) r.append(p); return r; }
// A message built from literal pieces (grammar characters at known positions) and symbolic pieces (assumed free of '=', '"', ','):
// the positions of the grammar characters are registered as an indexOf structure hint (c06_models.c: verified by the model before use).
struct Msg {
    QByteArray m; unsigned n = 0, opaque = 0; char hc[8]; unsigned hp[8];
    void lit(const char *t) { for (; *t; t++) { if (*t == '=' || *t == '"' || *t == ',') { vp_assert(n < 8, "C06 harness: at most 8 grammar characters per hinted message"); hc[n] = *t; hp[n] = unsigned(m.size()); n++; } m.append(*t); } }
    void sym(const QByteArray &v) { for (int i = 0; i < v.size(); i++) opaque |= 1u << unsigned(m.size() + i); m.append(v); }
    // bit0: indexOf structure hint ('=', '"', ',' positions; then symbolic pieces hold none of them); bit1: at() hint (symbolic pieces hold neither '"' nor backslash - true for every shape)
    void hint(unsigned h) { if (h & 2) vp_dig_at_hint(&m, opaque); if (!(h & 1)) return; vp_index_hint_begin(&m); for (unsigned i = 0; i < n; i++) vp_index_hint(hc[i], hp[i]); }
};
static bool noGrammar(const QByteArray &v) { return vpNoByte(v, '=') && vpNoByte(v, '"') && vpNoByte(v, ','); }
// cfg0 = shape, cfg1 = length of each symbolic value piece, cfg2 = hints: bit0 indexOf structure hint (then quoted values hold no '=' / ','), bit1 at() hint
extern "C" void h_dig_parse_shape()
{
    unsigned shape = vp_cfg(0), lv = vp_cfg(1);
    bool hinted = (vp_cfg(2) & 1) != 0;
    QByteArray V = vpBytesExact(lv), W = vpBytesExact(lv); BMap exp; Msg x;
    if (hinted) vp_assume(noGrammar(V) && noGrammar(W));
    switch (shape) {
    case 0: vp_assume(tokBytes(V)); x.lit("ab="); x.sym(V); exp[L("ab")] = V; break;                                                  // a=b
    case 1: vp_assume(qdBytes(V)); x.lit("ab=\""); x.sym(V); x.lit("\""); exp[L("ab")] = V; break;                                    // a="b"  (unhinted: b may hold , = SP)
    case 2: vp_assume(qdBytes(V) && qdBytes(W)); x.lit("a=\""); x.sym(V); x.lit("\\\""); x.sym(W); x.lit("\""); exp[L("a")] = cat({ V, L("\""), W }); break;   // a="b\"c"
    case 3: vp_assume(tokBytes(V) && tokBytes(W)); x.lit("a="); x.sym(V); x.lit(",c="); x.sym(W); exp[L("a")] = V; exp[L("c")] = W; break;      // a=b,c=d
    case 4: vp_assume(tokBytes(V)); x.lit("a="); x.sym(V); x.lit(","); exp[L("a")] = V; break;                                         // trailing comma
    case 5: vp_assume(tokBytes(W)); x.lit("a=,c="); x.sym(W); exp[L("a")] = QByteArray(); exp[L("c")] = W; break;                      // empty value
    case 6: x.lit("a=\"\""); exp[L("a")] = QByteArray(); break;                                                                        // empty quoted value
    case 7: vp_assume(qdBytes(V)); x.lit("a=\""); x.sym(V); x.lit("\\\\\""); exp[L("a")] = cat({ V, L("\\") }); break;                  // a="b\\"   quoted value ending in a backslash (class E1)
    case 8: vp_assume(qdBytes(V) && qdBytes(W)); x.lit("a=\""); x.sym(V); x.lit("\\\\"); x.sym(W); x.lit("\""); exp[L("a")] = cat({ V, L("\\"), W }); break;   // a="b\\c"
    case 9: vp_assume(qdBytes(V) && tokBytes(W)); x.lit(" a =\""); x.sym(V); x.lit("\",\tc="); x.sym(W); exp[L("a")] = V; exp[L("c")] = W; break;          // LWS before a name and before "="
    case 10: vp_assume(tokBytes(V) && tokBytes(W)); x.lit("a="); x.sym(V); x.lit(",a="); x.sym(W); exp[L("a")] = W; break;             // repeated directive: last wins
    case 11: vp_assume(qdBytes(V) && qdBytes(W)); x.lit("a=\""); x.sym(V); x.lit("\\\\\",c=\""); x.sym(W); x.lit("\""); exp[L("a")] = cat({ V, L("\\") }); exp[L("c")] = W; break;   // a="b\\",c="d"  (class E1, followed by another directive)
    case 12: vp_assume(lv >= 1 && tokBytes(V)); x.lit("a=\"\\"); x.sym(V); x.lit("\""); exp[L("a")] = V; break;                      // a="\b"  quoted-pair of an ordinary character (class E2)
    case 13: vp_assume(tokBytes(V) && tokBytes(W)); x.lit("a="); x.sym(V); x.lit(" ,c= "); x.sym(W); exp[L("a")] = V; exp[L("c")] = W; break;  // LWS after a value / after "=" (class E3)
    case 14: vp_assume(tokBytes(V) && tokBytes(W)); x.lit("a="); x.sym(V); x.lit(",,c="); x.sym(W); exp[L("a")] = V; exp[L("c")] = W; break;   // null list element (class E4)
    case 16: vp_assume(qdBytes(V) && tokBytes(W)); x.lit("a=\""); x.sym(V); x.lit("\",c="); x.sym(W); exp[L("a")] = V; exp[L("c")] = W; break;        // a="b",c=d
    case 17: vp_assume(tokBytes(V)); x.lit(" a="); x.sym(V); exp[L("a")] = V; break;                                            // LWS before the name
    default: // the shape of a real challenge, shortened (RFC 2831 section 4)
        vp_assume(qdBytes(V) && tokBytes(W)); x.lit("nonce=\""); x.sym(V); x.lit("\",qop=auth,charset="); x.sym(W);
        exp[L("nonce")] = V; exp[L("qop")] = L("auth"); exp[L("charset")] = W; break;
    }
    x.hint(vp_cfg(2)); const QByteArray &m = x.m;
    unsigned nexp = vp_dig_log_len(&exp);
    BMap map = QXmppSaslDigestMd5::parseMessage(m);
    vp_assert(unsigned(map.size()) == (shape == 10 ? 1 : nexp), "C06 DIGEST-MD5 parseMessage: the map holds exactly the directives of the message");
    static const char *const names[] = { "ab", "a", "c", "realm", "nonce", "qop", "charset" };
    for (const char *nm : names) {
        QByteArray key(nm);
        vp_assert(map.contains(key) == exp.contains(key), "C06 DIGEST-MD5 parseMessage: a directive is in the map iff it is in the message");
        vp_assert(map.value(key) == exp.value(key), "C06 DIGEST-MD5 parseMessage: value = token or unquoted / unescaped quoted-string (RFC 2831 7.1)");
    }
}

// ---- serializeMessage then parseMessage is the identity on maps of <= 2 entries -----------------------------------------------------
// cfg0 = number of entries (0..2), cfg1 / cfg2 = exact value lengths, cfg3 bit0: exclude values ending in a backslash (class E1)
extern "C" void h_dig_roundtrip()
{
    unsigned ne = vp_cfg(0), l1 = vp_cfg(1), l2 = vp_cfg(2), excl = vp_cfg(3);
    QByteArray k1 = vpBytesExact(1), k2 = vpBytesExact(1), v1 = vpBytesExact(l1), v2 = vpBytesExact(l2);
    vp_assume(tokBytes(k1) && tokBytes(k2) && (unsigned char)k1.at(0) < (unsigned char)k2.at(0));   // two distinct names; a map is filled in key order without loss of generality
    if (excl & 1) { vp_assume(l1 == 0 || v1.at(int(l1) - 1) != '\\'); vp_assume(l2 == 0 || v2.at(int(l2) - 1) != '\\'); }
    BMap m; if (ne >= 1) m.insert(k1, v1); if (ne >= 2) m.insert(k2, v2);
    QByteArray text = QXmppSaslDigestMd5::serializeMessage(m);
    BMap back = QXmppSaslDigestMd5::parseMessage(text);
    vp_assert(unsigned(back.size()) == ne, "C06 DIGEST-MD5 codec: parse(serialize(m)) has as many directives as m");
    if (ne >= 1) vp_assert(back.contains(k1) && back.value(k1) == v1, "C06 DIGEST-MD5 codec: the first directive survives quoting / escaping and parsing");
    if (ne >= 2) vp_assert(back.contains(k2) && back.value(k2) == v2, "C06 DIGEST-MD5 codec: the second directive survives quoting / escaping and parsing");
    // what is written conforms to the grammar and means m (so a conforming peer reads the same map)
    if (text.size() <= RMAXV) {
        unsigned char b[RMAXV]; for (unsigned i = 0; i < RMAXV; i++) b[i] = int(i) < text.size() ? (unsigned char)text.at(int(i)) : 0;
        RefOut o; refParse(b, unsigned(text.size()), o);
        vp_assert(o.ok && o.nd == ne, "C06 DIGEST-MD5 serializeMessage: the text conforms to the RFC 2831 7.1 grammar");
    }
}

// RFC 2831 2.1.2: username, realm, nonce, cnonce, digest-uri (and authzid) are written as  name "=" <"> value <">  - ALWAYS quoted;
// nc, qop, response, charset, maxbuf, cipher are tokens. cfg0 = value length.
extern "C" void h_dig_ser_quoted()
{
    QByteArray v = vpBytesExact(vp_cfg(0)); vp_assume(tokBytes(v));
    BMap m; m.insert(L("username"), v);
    QByteArray text = QXmppSaslDigestMd5::serializeMessage(m);
    QByteArray exp = cat({ L("username=\""), v, L("\"") });
    vp_assert(text == exp, "C06 DIGEST-MD5 response text: username-value is written as a quoted-string (RFC 2831 2.1.2: username = \"username\" \"=\" <\"> username-value <\">)");
}
extern "C" void h_dig_parse_probe()
{
    QByteArray m = vpBytesExact(vp_cfg(0));
    BMap map = QXmppSaslDigestMd5::parseMessage(m);
    vp_assert(vp_dig_log_len(&map) <= vp_cfg(0), "C06 probe");
}

// serialize -> parse with the CLASS of every value byte fixed per instance (so that quoting decisions are structure, not data):
// cfg0 = length n (<= 3), cfg1 = classes, base 6, first byte = lowest digit: 0 arbitrary byte that is no separator (symbolic), 1 '"', 2 backslash, 3 ',', 4 SP, 5 '='
// cfg2 bit0: the written text is also read by the reference parser; bit1: skip the real parser (serializer lemma only)
extern "C" void h_dig_roundtrip_cls()
{
    unsigned n = vp_cfg(0), code = vp_cfg(1);
    QByteArray v; bool quoted = false; unsigned cls[4];
    for (unsigned i = 0; i < n; i++) {
        cls[i] = code % 6; code /= 6; if (cls[i]) quoted = true;
        if (cls[i] == 0) { QByteArray p = vpBytesExact(1); vp_assume(tokBytes(p)); v.append(p); }
        else v.append(cls[i] == 1 ? '"' : cls[i] == 2 ? '\\' : cls[i] == 3 ? ',' : cls[i] == 4 ? ' ' : '=');
    }
    BMap m; m.insert(L("k"), v);
    QByteArray text = QXmppSaslDigestMd5::serializeMessage(m);
    if (!(vp_cfg(2) & 2)) {
        // at() hint for the parser (dig_map.c, verified by the model): where the RFC form of the text - k=v, or k="v" with '"' and backslash
        // escaped when v holds a separator - has its arbitrary bytes. A position that does not hold an arbitrary byte is harmless
        // unless it holds '"' or a backslash, which the model asserts it does not.
        unsigned pos = quoted ? 3 : 2, mask = 0;
        for (unsigned i = 0; i < n; i++) { if (cls[i] == 0) mask |= 1u << pos; pos += (cls[i] == 1 || cls[i] == 2) ? 2 : 1; }
        vp_dig_at_hint(&text, mask);
        BMap back = QXmppSaslDigestMd5::parseMessage(text);
        vp_assert(back.size() == 1 && back.contains(L("k")) && back.value(L("k")) == v, "C06 DIGEST-MD5 codec: parse(serialize({k: v})) == {k: v} (quoting and escaping are inverted by the parser)");
        QByteArray none; vp_dig_at_hint(&none, 0);   // hint off: the harness reads the true bytes below
    }
    if (!(vp_cfg(2) & 1)) return;
    unsigned tn = unsigned(text.size()); vp_assert(tn <= RMAXV, "C06 harness: serialised text fits the reference buffer");
    unsigned char b[RMAXV]; for (unsigned i = 0; i < RMAXV; i++) b[i] = i < tn ? (unsigned char)text.at(int(i)) : 0;
    RefOut o; refParse(b, tn, o);
    bool same = o.ok && o.nd == 1 && o.d[0].kl == 1 && b[o.d[0].ks] == 'k' && o.d[0].vl == n;
    for (unsigned i = 0; same && i < n; i++) if (o.d[0].v[i] != (unsigned char)v.at(int(i))) same = false;
    vp_assert(same, "C06 DIGEST-MD5 serializeMessage: the text is a directive list of the RFC 2831 7.1 grammar whose value (unquoted, unescaped) is v");
}
