// C06 - SaslManager / Sasl2Manager::handleElement with a DIGEST-MD5 client pending (single step from an arbitrary in-progress state;
// message codec cut as in dig_resp.cpp): a challenge whose rspauth is wrong or missing fails the login; a third challenge fails it.
#include "c06_common.h"
#include "client/QXmppSaslManager.cpp"
C06_VTABLE(QXmppSaslClient) C06_VTABLE(QXmppSaslClientDigestMd5)
using namespace QXmpp::Private;
using BMap = QMap<QByteArray, QByteArray>;
extern "C" { unsigned vp_serialize_count(); void vp_dig_cut_parse(const BMap *m); unsigned vp_dig_parse_calls(); }
struct Sock : SendDataInterface { bool sendData(const QByteArray &) override { return true; } };
#define S(x) QStringLiteral(x)
#define L(x) QByteArrayLiteral(x)
static QDomElement elem(const QString &tag, const QString &ns) { QDomElement e; vp_dom_new(&e, &tag, &ns); return e; }
static void setText(QDomElement &e, const QByteArray &data) { QString t = QString::fromUtf8(data.toBase64()); vp_dom_set_text(&e, &t); }
static QByteArray md5(const QByteArray &d) { return QCryptographicHash::hash(d, QCryptographicHash::Md5); }
static QByteArray cat(std::initializer_list<QByteArray> parts) { QByteArray r; for (const auto &p : parts) r.append(p); return r; }
// RFC 2831 2.1.3: rspauth = HEX(MD5(HEX(MD5(A1)) ":" nonce ":" nc ":" cnonce ":auth:" HEX(MD5(":" digest-uri)))), A1 = secret ":" nonce ":" cnonce
static QByteArray refRspauth(const QByteArray &secret, const QByteArray &nonce, const QByteArray &cnonce, const QByteArray &uri)
{
    QByteArray a1 = cat({ secret, L(":"), nonce, L(":"), cnonce }), a2 = cat({ L(":"), uri });
    return md5(cat({ md5(a1).toHex(), L(":"), nonce, L(":00000001:"), cnonce, L(":auth:"), md5(a2).toHex() })).toHex();
}
struct Pending { QXmppSaslClientDigestMd5 *c; QByteArray X, expected; BMap in; bool good; };
// cfg0: data of the element: 0 none, 1 directive map { rspauth = 8 arbitrary bytes }, 2 directive map without rspauth
// cfg1: element: 0 success, 1 challenge, 2 failure;  cfg2: step of the pending client (2 = response sent, 3 = rspauth verified)
static void pendingClient(Pending &p)
{
    QXmppSaslDigestMd5::setNonce(QByteArray("cn"));
    p.c = new QXmppSaslClientDigestMd5(nullptr);
    p.c->setHost(S("h")); p.c->setServiceType(S("xmpp")); p.c->setUsername(S("u"));
    p.c->m_step = int(vp_cfg(2)); p.c->m_secret = vpBytesExact(vp_diglen()); p.c->m_nonce = vpBytesExact(2);
    p.expected = refRspauth(p.c->m_secret, p.c->m_nonce, QByteArray("cn"), QByteArray("xmpp/h"));
    if (vp_cfg(0) == 1) { p.X = vpBytesExact(2 * vp_diglen()); p.in[L("rspauth")] = p.X; } else p.in[L("nonce")] = p.c->m_nonce;
    vp_dig_cut_parse(&p.in);
    p.good = vp_cfg(0) == 1 && p.X == p.expected;
    vp_b64_expect_valid(true);
}
template<class Task, class Ok> static void verdicts(const char *, Task &task, HandleElementResult r, bool pendingLeft, Pending &p, Ok isSuccess)
{
    unsigned tag = vp_cfg(1), step = vp_cfg(2), dk = vp_cfg(0);
    bool finished = task.isFinished();
    bool success = finished && isSuccess();
    vp_assert(finished == (r == Finished), "C06 DIGEST-MD5 manager: the task completes exactly when handleElement reports Finished");
    vp_assert(finished == !pendingLeft, "C06 DIGEST-MD5 manager: a finished exchange leaves no pending state");
    if (tag == 1 && step == 2) {
        if (p.good) vp_assert(!finished && r == Accepted && vp_serialize_count() == 1 && p.c->m_step == 3, "C06 DIGEST-MD5 manager: a challenge with the right rspauth is answered and the exchange continues");
        else vp_assert(finished && !success, "C06 DIGEST-MD5 manager: a challenge with a wrong or missing rspauth fails the login");
    }
    if (tag == 1 && step == 3) vp_assert(finished && !success, "C06 DIGEST-MD5 manager: a third challenge fails the login");
    if (tag == 2) vp_assert(finished && !success, "C06 DIGEST-MD5 manager: <failure/> fails the login");
    if (tag == 0 && step == 3) vp_assert(success, "C06 DIGEST-MD5 manager: <success/> after a verified rspauth completes the login");
    // demonstration only (cfg3 = 1): a wrong rspauth carried BY <success/> (RFC 6120 6.3.10 additional data)
    if (vp_cfg(3) && tag == 0 && step == 2 && dk == 1 && !p.good) vp_assert(!success, "C06 DIGEST-MD5 manager: a wrong rspauth carried by <success/> is rejected");
}
extern "C" void h_dig_sasl_manager()
{
    Sock sock; SaslManager mgr(&sock);
    mgr.m_promise = QXmppPromise<SaslManager::AuthResult>();
    auto task = mgr.m_promise->task();
    Pending p; pendingClient(p); mgr.m_saslClient.reset(p.c);
    unsigned tag = vp_cfg(1);
    QDomElement el = elem(tag == 0 ? S("success") : tag == 1 ? S("challenge") : S("failure"), S("urn:ietf:params:xml:ns:xmpp-sasl"));
    if (vp_cfg(0)) setText(el, QByteArray("x"));
    auto r = mgr.handleElement(el);
    verdicts("SASL", task, r, mgr.m_promise.has_value(), p, [&] { return std::holds_alternative<QXmpp::Success>(task.result()); });
}
extern "C" void h_dig_sasl2_manager()
{
    Sock sock; Sasl2Manager mgr(&sock);
    mgr.m_state.emplace();
    auto task = mgr.m_state->p.task();
    Pending p; pendingClient(p); mgr.m_state->sasl.reset(p.c);
    unsigned tag = vp_cfg(1);
    QString ns2 = S("urn:xmpp:sasl:2");
    QDomElement el = elem(tag == 0 ? S("success") : tag == 1 ? S("challenge") : S("failure"), ns2);
    if (tag == 0) {
        if (vp_cfg(0)) { QDomElement ad = elem(S("additional-data"), ns2); setText(ad, QByteArray("x")); vp_dom_append(&el, &ad); }
        QDomElement aid = elem(S("authorization-identifier"), ns2); QString jid = S("u@d"); vp_dom_set_text(&aid, &jid); vp_dom_append(&el, &aid);
    } else if (tag == 2) {
        QDomElement cond = elem(S("not-authorized"), S("urn:ietf:params:xml:ns:xmpp-sasl")); vp_dom_append(&el, &cond);
    } else if (vp_cfg(0)) setText(el, QByteArray("x"));
    auto r = mgr.handleElement(el);
    verdicts("SASL2", task, r, mgr.m_state.has_value(), p, [&] { return std::holds_alternative<Sasl2::Success>(task.result()); });
}
