/* C06: listed BEFORE qt_core.c. The shared qt_core.c model of base64 is a whole-block tag (lost when the encoded text is
   appended into a longer message, which is what SCRAM does) and its toInt() on ordinary text is not functionally consistent.
   Both are replaced for this property by c06_models.c; the shared definitions are renamed out of the way (not edited). */
#define _ZNK10QByteArray8toBase64E6QFlagsINS_12Base64OptionEE qtcore_unused_toBase64_opt
#define _ZNK10QByteArray8toBase64Ev qtcore_unused_toBase64
#define _ZN10QByteArray18fromBase64EncodingERKS_6QFlagsINS_12Base64OptionEE qtcore_unused_fromBase64Encoding_cref
#define _ZN10QByteArray18fromBase64EncodingEOS_6QFlagsINS_12Base64OptionEE qtcore_unused_fromBase64Encoding_rref
#define _ZN10QByteArray10fromBase64ERKS_ qtcore_unused_fromBase64
#define _ZN10QByteArray10fromBase64ERKS_6QFlagsINS_12Base64OptionEE qtcore_unused_fromBase64_opt
#define _ZNK10QByteArray5toIntEPbi qtcore_QByteArray_toInt
#define _ZNK10QByteArray7indexOfEci qtcore_QByteArray_indexOf
