# C10 - losing the connection at any point leaves a consistent client that can reconnect: single inductive steps (see c10.h / h.cpp)
TUS = ['src/client/QXmppConfiguration.cpp', 'src/base/QXmppStreamFeatures.cpp', 'src/base/QXmppBindIq.cpp', 'src/base/QXmppStreamManagement.cpp', 'src/base/Stream.cpp', 'src/base/QXmppUtils.cpp',
       'src/base/QXmppIq.cpp', 'src/base/QXmppStanza.cpp', 'src/base/QXmppSasl.cpp']
MODELS = ['qt_core.c', 'qt_list.c', 'qt_dom.c', 'qt_object.c', 'c10_models.c']
PRE = ('pre-state: ARBITRARY private state of QXmppOutgoingClient (authenticated / session / bind / stream-management / resumption / CSI / carbons flags, '
       'stream id/from/version and resumption id <= 2 units, sequence counters, 0..2 outstanding IQ requests, socket connected or not); fixed per instance: %s; event: ')
Q = ('quick', 'thorough'); T = ('thorough',)
LISTENERS = ['client itself', 'STARTTLS step', 'legacy-auth step (idle)', 'SASL step', 'SASL2 step', 'stream-management step', 'bind step', 'legacy-auth step (auth query pending)']
REQ = ['none', 'resume', 'enable']
# VP_CFG bits (c10.h)
def cfg(L=0, N=0, trynext=False, redirect=False, req=0, session=None, ev=0, idx=None):
    return (L | N << 3 | (32 if trynext else 0) | (64 if redirect else 0) | req << 7 | (512 if session is True else 1024 if session is False else 0)
            | (0 if idx is None else 2048 | idx << 12) | ev << 14)
def fixed(L=0, N=0, trynext=False, redirect=False, req=0, session=None, ev=0, idx=None):
    return 'listener = %s, %d known server address(es)%s, %s%s%s%s' % (
        LISTENERS[L], N, ' (index of the next one %s)' % ('arbitrary' if idx is None else idx), 'next address selected (TryNext), ' if trynext else '', 'see-other-host redirect pending, ' if redirect else '',
        'pending stream-management request: %s, ' % REQ[req], 'session ' + {None: 'arbitrary', True: 'established', False: 'not established'}[session])
def I(name, entry, what, tiers=Q, **c):
    kw = {k: c.pop(k) for k in list(c) if k in ('known_finding', 'timeout_s', 'mem_gb')}
    d = dict(name=name, entry='h_' + entry, unwind=5, timeout_s=300, mem_gb=3, tiers=tiers,
             cdefs={'VP_CFG': cfg(**c), 'VP_ACTIVATE_HOOK': 'vp_c10_on_signal', 'VP_SIGLOG_CAP': 8},
             bound=PRE % fixed(**c) + what)
    d.update(kw); return d
DISC = 'socket disconnected (_q_socketDisconnected)'
SE = 'socketError(any QAbstractSocket::SocketError), socket connected or not'
INST = (
    # mechanism 2: socket-disconnected handler - close session / next address / redirect
    [I('disc_close_client', 'disconnected', DISC, L=0, N=2),
     I('disc_close_sm', 'disconnected', DISC, L=5, req=2),
     I('disc_close_bind', 'disconnected', DISC, L=6, N=1, tiers=T),
     I('disc_close_nonsasl', 'disconnected', DISC, L=7, tiers=T),
     I('disc_close_sasl2', 'disconnected', DISC, L=4, req=1, tiers=T),
     I('disc_next_n2_i1', 'disconnected', DISC, N=2, idx=1, trynext=True, session=False),
     I('disc_next_n3_i0_redirect', 'disconnected', DISC, N=3, idx=0, trynext=True, redirect=True, session=False, L=2),
     I('disc_next_n1_i0', 'disconnected', DISC, N=1, idx=0, trynext=True, session=False, L=6, tiers=T),
     I('disc_next_n2_i0', 'disconnected', DISC, N=2, idx=0, trynext=True, session=False, tiers=T),
     I('disc_next_n3_i1', 'disconnected', DISC, N=3, idx=1, trynext=True, session=False, tiers=T),
     I('disc_next_n3_i2', 'disconnected', DISC, N=3, idx=2, trynext=True, session=False, L=5, req=2, tiers=T),
     I('disc_next_n3_any', 'disconnected', DISC, N=3, trynext=True, session=False, tiers=T, timeout_s=600),
     I('disc_redirect', 'disconnected', DISC, redirect=True),
     I('disc_redirect_n2_sm', 'disconnected', DISC, redirect=True, N=2, L=5, req=1, tiers=T),
     # demonstration of the known finding (only runs while the key is listed in known_findings.txt)
     I('disc_redirect_in_session', 'disconnected', DISC, redirect=True, session=True, known_finding='redirect_keeps_session')]
    # mechanism 1: reset of per-stream state whenever a new stream starts
    + [I('start_client', 'start', 'socket started (handleStart)', L=0, N=1),
       I('start_nonsasl_pending', 'start', 'socket started (handleStart)', L=7),
       I('start_sm_resume', 'start', 'socket started (handleStart)', L=5, req=1),
       I('start_bind', 'start', 'socket started (handleStart)', L=6, req=2),
       I('start_starttls', 'start', 'socket started (handleStart)', L=1, tiers=T),
       I('start_sasl', 'start', 'socket started (handleStart)', L=3, tiers=T),
       I('start_sasl2', 'start', 'socket started (handleStart)', L=4, tiers=T),
       I('start_sm_enable', 'start', 'socket started (handleStart)', L=5, req=2, tiers=T),
       I('start_nonsasl', 'start', 'socket started (handleStart)', L=2, redirect=True, tiers=T)]
    # mechanism 3: the single place that declares the session open
    + [I('open', 'open', 'negotiation finished (openSession), no bind2 result', session=False),
       I('open_bind2', 'open', 'negotiation finished (openSession), bind2 result present', session=False, ev=1, L=5)]
    # the callers of openSession: the session is declared open exactly when nothing is left to negotiate
    + [I('features_b%d_s%d' % (b, m), 'features', 'handleStreamFeatures(f) after authentication, f built through the real setters: no authentication offers, bind %s, stream management %s, session / CSI modes arbitrary' % (['absent', 'offered'][b], ['absent', 'offered'][m]),
         session=False, ev=b | m << 1, tiers=Q if (b, m) in ((0, 0), (0, 1), (1, 1)) else T) for b in (0, 1) for m in (0, 1)]
    + [I('sm_%s_%s%s' % (['enable', 'resume'][r], [['failed', 'enabled', 'other'], ['failed', 'resumed', 'other']][r][a], '_bind' if b else ''), 'sm_answer',
         'real request step (%s; resource binding %s), then handlePacketReceived(%s)' % (['startSmEnable', 'startSmResume'][r], ['not offered', 'offered'][b], ['<failed xmlns=urn:xmpp:sm:3/>', ['<enabled id resume?/>', '<resumed h=<any u32> previd/>'][r], 'one-letter element in urn:xmpp:sm:3'][a]),
         session=False, ev=r | a << 1 | b << 3, tiers=Q if (r, a, b) in ((0, 1, 0), (1, 1, 1), (1, 0, 1), (1, 0, 0)) else T) for r in (0, 1) for a in (0, 1, 2) for b in (0, 1)]
    # local disconnect request, socket error, stream error
    + [I('disconnect_host', 'disconnect_host', 'disconnectFromHost()', L=0),
       I('disconnect_then_disconnected', 'disconnect_then_disconnected', 'disconnectFromHost(), then socket disconnected', L=0),
       I('socket_error_n0', 'socket_error', SE, N=0),
       I('socket_error_n2_i1', 'socket_error', SE, N=2, idx=1),
       I('socket_error_n2_i2', 'socket_error', SE, N=2, idx=2, L=6),
       I('socket_error_n1_i0', 'socket_error', SE, N=1, idx=0, tiers=T),
       I('socket_error_n2_i0', 'socket_error', SE, N=2, idx=0, tiers=T),
       I('socket_error_n3_i2', 'socket_error', SE, N=3, idx=2, L=5, req=1, tiers=T),
       I('socket_error_n3_i3', 'socket_error', SE, N=3, idx=3, tiers=T),
       I('socket_error_n3_any', 'socket_error', SE, N=3, tiers=T, timeout_s=600),
       I('stream_error_redirect', 'stream_error', 'handleStreamError(see-other-host: host <= 2 units, any port; text <= 2 units)', ev=1),
       I('stream_error_condition', 'stream_error', 'handleStreamError(any defined stream error condition; text <= 2 units)', ev=0),
       I('redirect_roundtrip', 'redirect_roundtrip', 'handleStreamError(see-other-host), then socket disconnected', ev=1, session=False, N=1)]
)
SPEC = dict(
    property='C10',
    groups=[
        dict(name='step', harness='h.cpp', tus=TUS, models=MODELS, shadow_task=True,
             loop_bounds={r'^_ZNSt6ranges14__copy_or_move': 110},
             instances=INST),
    ],
    bounds=[],
    assumptions=[],
    outside=[],
)
