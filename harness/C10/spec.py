# C10 - losing the connection at any point leaves a consistent client that can reconnect: single inductive steps (see c10.h / h.cpp)
TUS = ['src/client/QXmppConfiguration.cpp', 'src/base/QXmppPacket.cpp', 'src/base/QXmppStreamFeatures.cpp', 'src/base/QXmppBindIq.cpp', 'src/base/QXmppStreamManagement.cpp', 'src/base/Stream.cpp', 'src/base/QXmppUtils.cpp',
       'src/base/QXmppIq.cpp', 'src/base/QXmppStanza.cpp', 'src/base/QXmppSasl.cpp']
MODELS = ['qt_core.c', 'qt_list.c', 'qt_dom.c', 'qt_object.c', 'c10_models.c']
PRE = ('pre-state: ARBITRARY private state of QXmppOutgoingClient (authenticated / session / bind / stream-management / resumption / CSI / carbons flags, '
       'stream id/from/version and resumption id <= 2 units, sequence counters, 0..2 outstanding IQ requests, socket connected or not); fixed per instance: %s; event: ')
Q = ('quick', 'thorough'); T = ('thorough',)
LISTENERS = ['client itself', 'STARTTLS step', 'legacy-auth step (idle)', 'SASL step', 'SASL2 step', 'stream-management step', 'bind step', 'legacy-auth step (auth query pending)']
REQ = ['none', 'resume', 'enable']
# VP_CFG bits (c10.h)
def cfg(L=0, N=0, trynext=False, redirect=False, req=0, session=None, ev=0, idx=None, noreq=False, onereq=False):
    return (L | N << 3 | (32 if trynext else 0) | (64 if redirect else 0) | req << 7 | (512 if session is True else 1024 if session is False else 0)
            | (0 if idx is None else 2048 | idx << 12) | ev << 14 | (1 << 19 if noreq else 0) | (1 << 20 if onereq else 0))
def fixed(L=0, N=0, trynext=False, redirect=False, req=0, session=None, ev=0, idx=None, noreq=False, onereq=False):
    return 'listener = %s, %d known server address(es)%s, %s%s%s%s' % (
        LISTENERS[L], N, ' (index of the next one %s)' % ('arbitrary' if idx is None else idx), 'next address selected (TryNext), ' if trynext else '', 'see-other-host redirect pending, ' if redirect else '',
        'pending stream-management request: %s, ' % REQ[req], 'session ' + {None: 'arbitrary', True: 'established', False: 'not established'}[session] + (', no outstanding requests' if noreq else '') + (', exactly one outstanding request' if onereq else ''))
def I(name, entry, what, tiers=Q, **c):
    kw = {k: c.pop(k) for k in list(c) if k in ('known_finding', 'timeout_s', 'mem_gb')}
    d = dict(name=name, entry='h_' + entry, unwind=5, timeout_s=300, mem_gb=3, tiers=tiers,
             cdefs={'VP_CFG': cfg(**c), 'VP_ACTIVATE_HOOK': 'vp_c10_on_signal', 'VP_SIGLOG_CAP': 8},
             bound=PRE % fixed(**c) + what)
    d.update(kw); return d
def BI(a, m, r):
    i = I('bind_%s%s%s' % (['result', 'error', 'nobind'][a], '_sm' if m else '', '_nojid' if (a == 0 and not r) else ''), 'bind_answer',
          'real startResourceBinding step (stream management %s), then handlePacketReceived(%s)' % (['not offered', 'offered'][m], ['<iq type=result id=ID><bind><jid>2 arbitrary units, %s</jid></bind></iq>' % ['not a full JID', 'a full JID'][r], '<iq type=error id=ID><bind/></iq>', '<iq type=result id=ID/>'][a]),
          session=False, ev=a | m << 2, noreq=bool(m), tiers=Q if (a, m, r) in ((0, 0, 1), (0, 1, 1), (1, 0, 0)) else T)
    i['cdefs'].update({'C10_RE_MATCHES': r})
    if a == 0 and not r: i['cdefs']['QS_CAP'] = 96; i['model_loop_bound'] = 100      # the error text 'Resource binding failed: ...' is longer than the default string capacity
    return i
DISC = 'socket disconnected (_q_socketDisconnected)'
SE = 'socketError(any QAbstractSocket::SocketError), socket connected or not'
INST = (
    # mechanism 2: socket-disconnected handler - close session / next address / redirect
    [I('disc_close_client', 'disconnected', DISC, L=0, N=2),
     I('disc_close_sm', 'disconnected', DISC, L=5, req=2),
     I('disc_close_bind', 'disconnected', DISC, L=6, N=1, tiers=T),
     I('disc_close_nonsasl', 'disconnected', DISC, L=7, tiers=T),
     I('disc_close_sasl2', 'disconnected', DISC, L=4, req=1, tiers=T),
     I('disc_next_n2_i1', 'disconnected', DISC, N=2, idx=1, trynext=True, session=False),
     I('disc_next_n3_i0_redirect', 'disconnected', DISC, N=3, idx=0, trynext=True, redirect=True, session=False, L=2),
     I('disc_next_n1_i0', 'disconnected', DISC, N=1, idx=0, trynext=True, session=False, L=6, tiers=T),
     I('disc_next_n2_i0', 'disconnected', DISC, N=2, idx=0, trynext=True, session=False, tiers=T),
     I('disc_next_n3_i1', 'disconnected', DISC, N=3, idx=1, trynext=True, session=False, tiers=T),
     I('disc_next_n3_i2', 'disconnected', DISC, N=3, idx=2, trynext=True, session=False, L=5, req=2, tiers=T),
     I('disc_next_n3_any', 'disconnected', DISC, N=3, trynext=True, session=False, tiers=T, timeout_s=600),
     I('disc_redirect', 'disconnected', DISC, redirect=True),
     I('disc_redirect_n2_sm', 'disconnected', DISC, redirect=True, N=2, L=5, req=1, tiers=T),
     # (fixed finding: a redirect that arrives while a session is established used to keep the session flag set)
     I('disc_redirect_in_session', 'disconnected', DISC, redirect=True, session=True, N=1, L=0, tiers=T)]
    # re-entrancy: the completion handler of the cancelled request issues a new request through the real send path while the session closes
    + [I('disc_close_reenter', 'disconnected_reenter', DISC + ' with stream management active but the session NOT resumable; the handler of the cancelled request sends a new IQ (fresh id 2 units, addressee 2 units) via OutgoingIqManager::sendIq / StreamAckManager::send on the unconnected socket', onereq=True, session=True),
       I('disc_redirect_reenter', 'disconnected_reenter', DISC + ' (see-other-host redirect ends an established session) with stream management active but the session NOT resumable; the handler of the cancelled request sends a new IQ via the real send path', onereq=True, session=True, redirect=True)]
    # mechanism 1: reset of per-stream state whenever a new stream starts
    + [I('start_client', 'start', 'socket started (handleStart)', L=0, N=1),
       I('start_nonsasl_pending', 'start', 'socket started (handleStart)', L=7),
       I('start_sm_resume', 'start', 'socket started (handleStart)', L=5, req=1),
       I('start_bind', 'start', 'socket started (handleStart)', L=6, req=2, tiers=T),
       I('start_starttls', 'start', 'socket started (handleStart)', L=1, tiers=T),
       I('start_sasl', 'start', 'socket started (handleStart)', L=3, tiers=T),
       I('start_sasl2', 'start', 'socket started (handleStart)', L=4, tiers=T),
       I('start_sm_enable', 'start', 'socket started (handleStart)', L=5, req=2, tiers=T),
       I('start_nonsasl', 'start', 'socket started (handleStart)', L=2, redirect=True, tiers=T)]
    # mechanism 3: the single place that declares the session open
    + [I('open', 'open', 'negotiation finished (openSession), no bind2 result', session=False),
       I('open_bind2', 'open', 'negotiation finished (openSession), bind2 result present', session=False, ev=1, L=5)]
    # the callers of openSession: the session is declared open exactly when nothing is left to negotiate
    + [I('features_b%d_s%d_r%d' % (b, m, r), 'features', 'handleStreamFeatures(f) after authentication, f built through the real setters: no authentication offers, bind %s, stream management %s, session / CSI modes arbitrary; previous session %s' % (['absent', 'offered'][b], ['absent', 'offered'][m], ['not resumable', 'resumable'][r]),
         session=False, ev=b | m << 1 | r << 2, tiers=Q if (b, m, r) in ((0, 0, 0), (0, 1, 1), (1, 1, 0), (0, 1, 0)) else T) for b in (0, 1) for m in (0, 1) for r in (0, 1)]
    + [I('sm_%s_%s%s' % (['enable', 'resume'][r], [['failed', 'enabled', 'other'], ['failed', 'resumed', 'other']][r][a], '_bind' if b else ''), 'sm_answer',
         'real request step (%s; resource binding %s), then handlePacketReceived(%s)' % (['startSmEnable', 'startSmResume'][r], ['not offered', 'offered'][b], ['<failed xmlns=urn:xmpp:sm:3/>', ['<enabled id resume?/>', '<resumed h=<any u32> previd/>'][r], 'one-letter element in urn:xmpp:sm:3'][a]),
         session=False, ev=r | a << 1 | b << 3, tiers=Q if (r, a, b) in ((0, 1, 0), (1, 1, 1), (1, 0, 1), (1, 0, 0)) else T) for r in (0, 1) for a in (0, 1, 2) for b in (0, 1)]
    + [BI(a, m, r) for a in (0, 1, 2) for m in (0, 1) for r in ((0, 1) if a == 0 else (0,))]
    # local disconnect request, socket error, stream error
    + [I('disconnect_host', 'disconnect_host', 'disconnectFromHost()', L=0),
       I('disconnect_then_disconnected', 'disconnect_then_disconnected', 'disconnectFromHost(), then socket disconnected', L=0),
       I('socket_error_n0', 'socket_error', SE, N=0),
       I('socket_error_n2_i1', 'socket_error', SE, N=2, idx=1),
       I('socket_error_n2_i2', 'socket_error', SE, N=2, idx=2, L=6),
       I('socket_error_n1_i0', 'socket_error', SE, N=1, idx=0, tiers=T),
       I('socket_error_n2_i0', 'socket_error', SE, N=2, idx=0, tiers=T),
       I('socket_error_n3_i2', 'socket_error', SE, N=3, idx=2, L=5, req=1, tiers=T),
       I('socket_error_n3_i3', 'socket_error', SE, N=3, idx=3, tiers=T),
       I('socket_error_n3_any', 'socket_error', SE, N=3, tiers=T, timeout_s=600),
       I('stream_error_redirect', 'stream_error', 'handleStreamError(see-other-host: host <= 2 units, any port; text <= 2 units)', ev=1),
       I('stream_error_condition', 'stream_error', 'handleStreamError(any defined stream error condition; text <= 2 units)', ev=0),
       I('redirect_roundtrip', 'redirect_roundtrip', 'handleStreamError(see-other-host), then socket disconnected', ev=1, session=False, N=1)]
)
SPEC = dict(
    property='C10',
    groups=[
        dict(name='step', harness='h.cpp', tus=TUS, models=MODELS, shadow_task=True,
             loop_bounds={r'^_ZNSt6ranges14__copy_or_move': 110},
             instances=INST),
    ],
    bounds=[
        'single inductive steps: ONE event applied to an ARBITRARY private state of QXmppOutgoingClient / QXmppOutgoingClientPrivate: isAuthenticated, sessionStarted, bindModeAvailable, authenticationMethod, stream id / from / version (<= 2 arbitrary UTF-16 units each), StreamAckManager enabled flag and 32-bit counters, C2sStreamManager {smAvailable, canResume, enabled, streamResumed, smId <= 2 units, pending request none / resume / enable}, carbons and CSI flags, FAST token flag, user / domain / resource <= 2 units, socket connected or not; per instance fixed (case split): which negotiation step listens (all 7 alternatives of the listener variant + a legacy-auth step with a pending query), 0..3 known server addresses (host <= 2 units, any port, TCP or TLS) with the index of the next one, next-address selection (TryNext) and pending see-other-host redirect (host <= 2 units, any port)',
        'outstanding IQ requests: 0..2 pending requests (ids of 1 resp. 2 units, addressees 1..2 units, promises unfinished, nobody attached yet); request table model capacity 3',
        'events: socket disconnected; socket started; openSession; disconnectFromHost; socketError(any QAbstractSocket::SocketError, socket connected or not); handleStreamError(see-other-host | any of the 25 defined conditions, text <= 2 units); two-event compositions: disconnectFromHost + socket disconnected, see-other-host + socket disconnected; callers of openSession: handleStreamFeatures after authentication (bind / stream management offered or not, previous session resumable or not, session / CSI modes arbitrary), the answer to a REAL startSmEnable / startSmResume step (<failed/>, <enabled id<=2 resume?/>, <resumed h=any u32 previd<=2/>, a one-letter element of the sm namespace; binding offered or not) and the answer to a REAL startResourceBinding step (result with a <jid> of 2 arbitrary units that is / is not a full JID, error, result without <bind/>; stream management offered or not)',
        're-entrancy (disc_close_reenter, disc_redirect_reenter): stream management active, session not resumable, exactly one outstanding request whose completion handler issues one new request (fresh id and addressee of 2 units, stanza bytes) through the REAL OutgoingIqManager::sendIq -> StreamAckManager::send -> QXmppPacket path while closeSession is running; afterwards NO request may be outstanding',
        'every step re-establishes what the next one assumes (after socket disconnected: not authenticated, no session; after socket started: per-stream state empty; TryNext only while an address is left and no session exists), so the per-event claims hold along every sequence of these events - i.e. for every cut point of a connection - as long as the stated bounds hold',
        'quick tier = a subset of the case combinations (every mechanism and every branch of _q_socketDisconnected / socketError / handleStreamError at least once); thorough tier = all listed combinations, plus the address index left symbolic (n3_any)',
        'socket write log capacity 4, connect log capacity 2, signal slots 8 (asserted as model limits)',
    ],
    assumptions=[
        'QXmppOutgoingClient and QXmppOutgoingClientPrivate live in typed, unconstructed storage and are built field by field (the real constructor creates sockets, timers and connections); QXmppConfiguration is the REAL class set through its setters; PingManager = two timer addresses (QTimer::stop / start are ghost counters)',
        'representation invariant of the pre-state: nextServerAddressIndex <= serverAddresses.size(); nextAddressState == TryNext only while index < size and no session is established (proved to be preserved by socketError in socket_error_*; between a socket error during start-up and the following disconnect no session is opened); openSession is entered with sessionStarted == false (what the disconnected steps establish for every new connection; the callers covered here are checked to call it at most once)',
        'signals (connected, disconnected, errorOccurred) run through the REAL moc bodies of the build (/repo/_build/.../moc_QXmppOutgoingClient.cpp) into QMetaObject::activate of the shared QObject model; emissions are counted per signal with a snapshot of the SessionBegin / SessionEnd argument; nobody is connected to them (QXmppClient and the PingManager lambdas that stop the keep-alive timers on `disconnected` are outside)',
        'XmppSocket is cut at sendData (ghost log of classification tags: what is serialised is classified by the TYPE of the serialiser - serializeXml<StreamOpen|QXmppBindIq|SmEnable|SmResume|CsiActive|...> overridden), connectToHost(ServerAddress) (ghost log of type / host / port), disconnectFromHost (counter) and isConnected (arbitrary flag; false when the socket reports `disconnected`; a write on an unconnected socket fails, otherwise its result is arbitrary - the contract of the real XmppSocket::sendData); the TLS configuration calls of QXmppOutgoingClientPrivate::connectToHost (QSslConfiguration, setProxy, setPeerVerifyName) are no-ops; QSslSocket::isEncrypted / supportsSsl answer true in the features steps (TLS ordering is C04)',
        'QXmppTask/QXmppPromise are the assume-guarantee shadow (contract established by C13): "completed exactly once" = the shadow asserts no promise is finished twice, and the harness reads the stored result (QXmppError carrying SendError::Disconnected)',
        'std::unordered_map<QString,IqState> is the array-backed class-level model of harness/C07 (vp_iqmap.h); QMap<unsigned,QXmppPacket> (unacknowledged stanzas) is the array-backed class-level model of harness/C09 (capacity 4, elements copied / destroyed by the REAL QXmppPacket copy constructor / destructor), empty in every pre-state - stanza accounting across sessions is C09',
        'QXmpp::Private::enumFromString<QXmppIq::Type,4> (inline template: std::find over the 4-entry type table) is replaced by an equivalent table look-up in c10_models.c: the translated original returns std::optional through an integer with undefined padding, after which the IQ type is not a constant for symbolic execution; QRegularExpression (JID pattern of the bind answer) is over-approximated: the verdict is fixed per instance (both verdicts run), the captures of a match are arbitrary non-empty strings <= 2 units',
        'logging and log-text formatting (QString::arg, StreamErrorElement::streamErrorToString feeding the error text) are identity / empty models; QXmppUtils::generateStanzaUuid returns an id of 2 arbitrary units; QNetworkProxy / QDateTime members are opaque words',
    ],
    outside=[
        'the liveness half of the statement - "a following connection attempt succeeds", three consecutive real connection attempts with every cut point: that is a statement about the socket, the event loop, DNS and timers; what is encoded is that every cut leaves exactly the state from which the next attempt starts its negotiation from scratch (safety), not that the attempt terminates successfully',
        'QXmppOutgoingClient::connectToHost() itself (resume address / explicit host / legacy SSL / DNS SRV look-ups via QDnsLookup) and the reconnect timer policy of QXmppClient (QXmppClient.cpp); the delivery of the socket signals (who calls _q_socketDisconnected / handleStart / socketError and when) is Qt',
        'the keep-alive timers: the PingManager lambdas connected to connected / disconnected (connections are not modelled) and throwKeepAliveError',
        'negotiation steps other than the ones listed: STARTTLS, SASL / SASL2 / FAST / legacy-auth exchanges (C04 - C06; the continuations of SASL success and legacy-auth success that call handleStart / openSession are not run), SASL2 inline resumption / bind2 (onSasl2Success, onBind2Bound); for those only the reset at stream start and at disconnect is covered (their managers as listener alternatives in the pre-state)',
        'non-conforming servers that repeat <stream:features/> after the session was opened (would open a second session), features that offer authentication again after authentication',
        'observation, not asserted: bind2Bound is only consumed by openSession; if a connection is lost between SASL2 success and the following features, and the NEXT connection authenticates without SASL2, its SessionBegin reports bind2Used from the lost connection (handleStart does not clear it)',
        'unacknowledged stanzas kept by StreamAckManager across a connection loss (C09), wrap-around of counters, strings longer than the stated bounds, more than 2 outstanding requests / 3 addresses',
    ],
)
