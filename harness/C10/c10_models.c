/* C10 environment (C side): socket ghost logs (writes classified by serialiser TYPE, connect attempts, disconnect requests,
   connected flag), signal emissions of QXmppOutgoingClient counted per signal in fixed slots (through the REAL moc bodies and
   QMetaObject::activate of qt_object.c, -DVP_ACTIVATE_HOOK=vp_c10_on_signal), QSsl* configuration calls of connectToHost (no-ops),
   timers, logging/formatting.  Included after qt_core.c / qt_list.c / qt_dom.c / qt_object.c. */
#ifdef HAVE_T_struct_QArrayData
#define T_NONE 0u
#define T_STREAM_OPEN 1u
#define T_STARTTLS 2u
#define T_AUTH 3u
#define T_BIND 4u
#define T_STANZA 5u
#define T_SM_RESUME 6u
#define T_SM_ACK 7u
#define T_CSI 8u
#define T_NONZA 9u
#define T_SM_ENABLE 10u
#ifndef VP_CFG
#define VP_CFG 0
#endif
uint32_t vp_c10_cfg(void) { return VP_CFG; }
uint8_t vp_c10_false(void) { return 0; }

/* ---- byte blocks that reach the socket: {QArrayData header, magic, tag} (same idea as harness/C04) --------------------------------- */
struct c10blk { QAD h; uint32_t magic; uint32_t tag; uint8_t data[8]; };
#define C10_MAGIC 0xC10B10C5u
static QAD *c10_blk(uint32_t tag) { struct c10blk *b = malloc(sizeof(struct c10blk)); ASSUME(b != 0);
  REF(&b->h) = 1; b->h.f1 = 1; b->h.f2 = 8; b->h.f3 = offsetof(struct c10blk, data); b->magic = C10_MAGIC; b->tag = tag; b->data[0] = (uint8_t)tag; b->data[1] = 0; return &b->h; }
void vp_c10_tagged(char *out, uint32_t tag) { *(QAD**)out = c10_blk(tag); }

/* ---- socket: XmppSocket::sendData / connectToHost / disconnectFromHost / isConnected --------------------------------------------- */
#define SENT_CAP 4
static uint8_t c10_sock_connected;
static uint32_t sent_n, sent_tag[SENT_CAP];
uint8_t vp_c10_send(char *ba) { QAD *d = *(QAD**)ba; ASSERT(d != SHARED_NULL, "C10 model: empty QByteArray handed to the socket"); ASSUME(d != SHARED_NULL);
  struct c10blk *b = (struct c10blk*)d; ASSERT(b->magic == C10_MAGIC, "C10 model: bytes handed to the socket were not produced by a classified serialiser"); ASSUME(b->magic == C10_MAGIC);
  ASSERT(sent_n < SENT_CAP, "C10 model: socket log capacity"); ASSUME(sent_n < SENT_CAP);
  sent_tag[sent_n] = b->tag; sent_n++; return c10_sock_connected ? vp_bool() : 0; }   /* real: false unless the socket is in ConnectedState, else whether everything was written */
uint32_t vp_c10_sent_n(void) { return sent_n; }
uint32_t vp_c10_sent_tag(uint32_t i) { return i < SENT_CAP ? sent_tag[i] : 0; }
/* calls on the member object d->socket are bound statically to XmppSocket::sendData: same ghost log */
uint8_t _ZN5QXmpp7Private10XmppSocket8sendDataERK10QByteArray(char *self, char *ba) { return vp_c10_send(ba); }
void _ZN5QXmpp7Private10XmppSocketC2EP7QObject(char *self, char *parent) { /* QObject part of the socket is never touched */ }
/* XmppSocket::connectToHost(const ServerAddress &): a connect attempt = ghost log entry {type, host, port}
   (real: QSslSocket::connectToHost / connectToHostEncrypted; the started() signal follows through the event loop) */
#define CONN_CAP 2
struct c10_addr { uint32_t type; uint32_t pad; QAD *host; uint16_t port; };   /* layout of QXmpp::Private::ServerAddress */
static uint32_t conn_n, conn_type[CONN_CAP], conn_port[CONN_CAP]; static QAD *conn_host[CONN_CAP];
void _ZN5QXmpp7Private10XmppSocket13connectToHostERKNS0_13ServerAddressE(char *self, char *addr) { struct c10_addr *a = (struct c10_addr*)addr;
  ASSERT(conn_n < CONN_CAP, "C10 model: connect log capacity"); ASSUME(conn_n < CONN_CAP);
  conn_type[conn_n] = a->type; conn_port[conn_n] = a->port; conn_host[conn_n] = qad_ref(a->host); conn_n++; }
uint32_t vp_c10_conn_n(void) { return conn_n; }
uint32_t vp_c10_conn_type(uint32_t i) { return i < CONN_CAP ? conn_type[i] : 0xffffu; }
uint32_t vp_c10_conn_port(uint32_t i) { return i < CONN_CAP ? conn_port[i] : 0xfffffu; }
void vp_c10_conn_host(char *out, uint32_t i) { ASSUME(i < CONN_CAP && i < conn_n); *(QAD**)out = qad_ref(conn_host[i]); }
/* XmppSocket::disconnectFromHost: closes the stream and the connection (real: "</stream:stream>" + QSslSocket::disconnectFromHost;
   the socket's disconnected() signal follows through the event loop) */
static uint32_t c10_disconnects;
void _ZN5QXmpp7Private10XmppSocket18disconnectFromHostEv(char *self) { c10_disconnects++; }
uint32_t vp_c10_disconnects(void) { return c10_disconnects; }
uint8_t _ZNK5QXmpp7Private10XmppSocket11isConnectedEv(char *self) { return c10_sock_connected; }
void vp_c10_set_sock_connected(uint8_t c) { c10_sock_connected = c; }

/* ---- TLS configuration calls of QXmppOutgoingClientPrivate::connectToHost (libQt5Network): no observable effect for C10 ------------ */
static uint32_t c10_sslcfg_set;
void _ZN17QSslConfiguration20defaultConfigurationEv(char *ret) { *(char**)ret = 0; }
void _ZN17QSslConfigurationC1ERKS_(char *self, char *o) { *(char**)self = 0; }
void _ZN17QSslConfigurationD1Ev(char *self) { }
void _ZN17QSslConfiguration17setCaCertificatesERK5QListI15QSslCertificateE(char *self, char *l) { }
void _ZN17QSslConfiguration23setAllowedNextProtocolsE5QListI10QByteArrayE(char *self, char *l) { }
void _ZN10QSslSocket19setSslConfigurationERK17QSslConfiguration(char *self, char *c) { c10_sslcfg_set++; }
void _ZN15QAbstractSocket8setProxyERK13QNetworkProxy(char *self, char *p) { }
void _ZN10QSslSocket17setPeerVerifyNameERK7QString(char *self, char *n) { }
void _ZN15QSslCertificateD1Ev(char *self) { }
void _ZN15QSslCertificateC1ERKS_(char *self, char *o) { *(char**)self = 0; }
uint32_t vp_c10_sslcfg_set(void) { return c10_sslcfg_set; }
/* QIODevice::errorString of the socket: some text */
void _ZNK9QIODevice11errorStringEv(char *ret, char *self) { *(QAD**)ret = SHARED_NULL; }
uint8_t _ZNK10QSslSocket11isEncryptedEv(char *self) { return 1; }
uint8_t _ZN10QSslSocket11supportsSslEv(void) { return 1; }

/* ---- serializeXml<T> (inline template instantiations, overridden): the produced bytes are the CLASSIFICATION of the serialised type ---- */
void _ZN5QXmpp7Private12serializeXmlINS0_10StreamOpenEEE10QByteArrayRKT_(char *ret, char *pkt) { *(QAD**)ret = c10_blk(T_STREAM_OPEN); }
void _ZN5QXmpp7Private12serializeXmlINS0_15StarttlsRequestEEE10QByteArrayRKT_(char *ret, char *pkt) { *(QAD**)ret = c10_blk(T_STARTTLS); }
void _ZN5QXmpp7Private12serializeXmlI18QXmppNonSASLAuthIqEE10QByteArrayRKT_(char *ret, char *pkt) { *(QAD**)ret = c10_blk(T_AUTH); }
void _ZN5QXmpp7Private12serializeXmlI11QXmppBindIqEE10QByteArrayRKT_(char *ret, char *pkt) { *(QAD**)ret = c10_blk(T_BIND); }
void _ZN5QXmpp7Private12serializeXmlINS0_8SmResumeEEE10QByteArrayRKT_(char *ret, char *pkt) { *(QAD**)ret = c10_blk(T_SM_RESUME); }
void _ZN5QXmpp7Private12serializeXmlINS0_8SmEnableEEE10QByteArrayRKT_(char *ret, char *pkt) { *(QAD**)ret = c10_blk(T_SM_ENABLE); }
void _ZN5QXmpp7Private12serializeXmlINS0_5SmAckEEE10QByteArrayRKT_(char *ret, char *pkt) { *(QAD**)ret = c10_blk(T_SM_ACK); }
void _ZN5QXmpp7Private12serializeXmlINS0_9SmRequestEEE10QByteArrayRKT_(char *ret, char *pkt) { *(QAD**)ret = c10_blk(T_SM_ACK); }
void _ZN5QXmpp7Private12serializeXmlINS0_9CsiActiveEEE10QByteArrayRKT_(char *ret, char *pkt) { *(QAD**)ret = c10_blk(T_CSI); }
void _ZN5QXmpp7Private12serializeXmlINS0_11CsiInactiveEEE10QByteArrayRKT_(char *ret, char *pkt) { *(QAD**)ret = c10_blk(T_CSI); }

/* ---- signals: every QMetaObject::activate (qt_object.c) calls this hook; emissions are counted per local signal index in fixed slots,
   with the emission order stamp and a snapshot of the first argument taken while it is alive --------------------------------------- */
#define C10_NSIG 8
static uint32_t sig_cnt[C10_NSIG], sig_stamp[C10_NSIG], sig_total, sig_last_idx; static char *sig_mo[C10_NSIG], *sig_sender[C10_NSIG]; static uint8_t sig_a[C10_NSIG][4]; static uint32_t sig_w[C10_NSIG];
void vp_c10_on_signal(char *sender, char *mo, uint32_t idx, char **argv) { ASSERT(idx < C10_NSIG, "C10 model: signal index"); ASSUME(idx < C10_NSIG);
  sig_cnt[idx]++; sig_total++; sig_stamp[idx] = sig_total; sig_mo[idx] = mo; sig_sender[idx] = sender; sig_last_idx = idx;
  if (idx == 0) { uint8_t *a = (uint8_t*)argv[1]; sig_a[0][0] = a[0]; sig_a[0][1] = a[1]; sig_a[0][2] = a[2]; sig_a[0][3] = a[3]; sig_w[0] = *(uint32_t*)(argv[1] + 4); }   /* SessionBegin {bool x4, enum} */
  if (idx == 1) { sig_a[1][0] = *(uint8_t*)argv[1]; }                                                                                                                   /* SessionEnd {bool} */
}
uint32_t vp_c10_sig_cnt(uint32_t idx) { return idx < C10_NSIG ? sig_cnt[idx] : 0; }
uint32_t vp_c10_sig_total(void) { return sig_total; }
uint32_t vp_c10_sig_stamp(uint32_t idx) { return idx < C10_NSIG ? sig_stamp[idx] : 0; }
uint32_t vp_c10_sig_last_idx(void) { return sig_last_idx; }
char* vp_c10_sig_mo(uint32_t idx) { return idx < C10_NSIG ? sig_mo[idx] : 0; }
char* vp_c10_sig_sender(uint32_t idx) { return idx < C10_NSIG ? sig_sender[idx] : 0; }
uint8_t vp_c10_sig_arg(uint32_t idx, uint32_t k) { return (idx < C10_NSIG && k < 4) ? sig_a[idx][k] : 0; }
uint32_t vp_c10_sig_word(uint32_t idx) { return idx < C10_NSIG ? sig_w[idx] : 0; }
void vp_c10_reset_logs(void) { sent_n = 0; conn_n = 0; c10_disconnects = 0; c10_sslcfg_set = 0; sig_total = 0;
  for (uint32_t i = 0; i < C10_NSIG; i++) { sig_cnt[i] = 0; sig_stamp[i] = 0; sig_mo[i] = 0; sig_sender[i] = 0; } }

/* ---- Qt value classes that are only default-constructed / copied / destroyed as members (content irrelevant here) -------------------- */
void _ZN13QNetworkProxyC1Ev(char *self) { *(char**)self = 0; }
void _ZN13QNetworkProxyC1ERKS_(char *self, char *o) { *(char**)self = 0; }
void _ZN13QNetworkProxyD1Ev(char *self) { }
void _ZN9QDateTimeC1Ev(char *self) { *(char**)self = 0; }
void _ZN9QDateTimeC1ERKS_(char *self, char *o) { *(char**)self = *(char**)o; }
void _ZN9QDateTimeC1EOS_(char *self, char *o) { *(char**)self = *(char**)o; }
void _ZN9QDateTimeD1Ev(char *self) { }
char* _ZN9QDateTimeaSERKS_(char *self, char *o) { *(char**)self = *(char**)o; return self; }

/* ---- timers (ghost counters), logging, log-message formatting ----------------------------------------------------------------------- */
static uint32_t c10_timer_stops, c10_timer_starts;
void _ZN6QTimer4stopEv(char *self) { c10_timer_stops++; }
void _ZN6QTimer5startEv(char *self) { c10_timer_starts++; }
uint32_t vp_c10_timer_stops(void) { return c10_timer_stops; }
uint32_t vp_c10_timer_starts(void) { return c10_timer_starts; }
void _ZN13QXmppLoggable10logMessageEN11QXmppLogger11MessageTypeERK7QString(char *self, uint32_t type, char *msg) { }
/* StreamErrorElement::streamErrorToString (Stream.cpp): only feeds the text of the reported error / log line */
void _ZN5QXmpp7Private18StreamErrorElement19streamErrorToStringENS_11StreamErrorE(char *ret, uint32_t e) { *(QAD**)ret = SHARED_NULL; }
void _ZN9QtPrivate12argToQStringE11QStringViewmPPKNS_7ArgBaseE(char *ret, uint64_t n, char *p, uint64_t nargs, char *args) { *(QAD**)ret = SHARED_NULL; }
void _ZNK7QString3argERKS_i5QChar(char *ret, char *self, char *a, uint32_t w, uint16_t fill) { *(QAD**)ret = qad_ref(*(QAD**)self); }
/* QXmppUtils::generateStanzaUuid (real: QUuid::createUuid, random): an arbitrary non-empty id */
void _ZN10QXmppUtils18generateStanzaUuidEv(char *ret) { QAD *d = qs_new(2, 2); SD(d)[0] = vp_u16(); SD(d)[1] = vp_u16(); qs_seal(d, 0); *(QAD**)ret = d; }   /* 2 arbitrary units (length known to symex) */
/* QRegularExpression (the JID pattern of BindManager::handleElement): over-approximation - whether the text matches is arbitrary (fixed per instance),
   the three captures of a match are arbitrary non-empty strings (C10 does not depend on the bound address) */
struct c10_match { uint8_t has; };
#ifndef C10_RE_MATCHES
#define C10_RE_MATCHES vp_bool()   /* instances may fix the verdict (-DC10_RE_MATCHES=0|1): keeps the path concrete */
#endif
void _ZN18QRegularExpressionC1ERK7QString6QFlagsINS_13PatternOptionEE(char *self, char *pat, uint32_t opts) { *(char**)self = 0; }
void _ZN18QRegularExpressionD1Ev(char *self) { }
void _ZNK18QRegularExpression5matchERK7QStringiNS_9MatchTypeE6QFlagsINS_11MatchOptionEE(char *ret, char *self, char *subj, uint32_t off, uint32_t mt, uint32_t mo) {
  struct c10_match *m = malloc(sizeof(struct c10_match)); ASSUME(m != 0); m->has = C10_RE_MATCHES; *(struct c10_match**)ret = m; }
uint8_t _ZNK23QRegularExpressionMatch8hasMatchEv(char *self) { return (*(struct c10_match**)self)->has; }
void _ZNK23QRegularExpressionMatch8capturedEi(char *ret, char *self, uint32_t nth) { vp_sym_string_nonempty(ret, 2); }
void _ZN23QRegularExpressionMatchD1Ev(char *self) { }
/* QXmpp::Private::enumFromString<QXmppIq::Type, 4> (inline template of QXmppUtils_p.h: std::find over the table, index as optional<enum>):
   overridden by this equivalent table look-up because the translated original returns the std::optional through an integer with
   undefined padding bytes, after which the IQ type is no constant for symbolic execution any more (every IQ answer would fork) */
#ifdef HAVE_T_class_QStringView
uint64_t _ZN5QXmpp7Private14enumFromStringIN7QXmppIq4TypeELm4EEESt8optionalIT_ERKSt5arrayI11QStringViewXT0_EES8_(char *values, uint64_t n, char *p) {
  struct T_class_QStringView *v = (struct T_class_QStringView*)values;
  if (view_eq(v[0].f0, (uint16_t*)v[0].f1, n, (uint16_t*)p)) return ((uint64_t)1 << 32) | 0;
  if (view_eq(v[1].f0, (uint16_t*)v[1].f1, n, (uint16_t*)p)) return ((uint64_t)1 << 32) | 1;
  if (view_eq(v[2].f0, (uint16_t*)v[2].f1, n, (uint16_t*)p)) return ((uint64_t)1 << 32) | 2;
  if (view_eq(v[3].f0, (uint16_t*)v[3].f1, n, (uint16_t*)p)) return ((uint64_t)1 << 32) | 3;
  return 0; }
#endif
/* index -> one of four concrete addresses (request-table model, see vp_iqmap_impl.h) */
char* vp_pick4(uint32_t i, char *a, char *b, char *c, char *d) { return i == 0 ? a : i == 1 ? b : i == 2 ? c : d; }
void vp_model_assert_cap(uint8_t ok) { ASSERT(ok, "C10 request-table model: capacity (3 entries) exceeded"); ASSUME(ok); }
#endif

/* ---- (copy of harness/C09/models.c) class-level model of QMap<unsigned, QXmppPacket>: ordered array with value semantics (what implicit sharing implements).
   Elements are copied / destroyed with the REAL QXmppPacket copy constructor / destructor. ------------------------------------- */
#ifdef HAVE_T_class_QXmppPacket
typedef struct T_class_QXmppPacket PKT;
#ifndef MCAP
#define MCAP 4
#endif
struct ent { uint32_t key; PKT val; };
struct amap { uint32_t n; struct ent e[MCAP + 1]; };
#define AMP(self) (*(struct amap**)(self))
static struct amap AM_ZERO;
static struct amap *am_new(void) { struct amap *m = malloc(sizeof(struct amap)); ASSUME(m != 0); *m = AM_ZERO; return m; }
static struct amap *AM(char *self) { return AMP(self); }
static void pk_copy(PKT *d, PKT *s) { F_vp_c10_pkt_copy((char*)d, (char*)s); }
static void pk_kill(PKT *p) { F_vp_c10_pkt_destroy((char*)p); }
uint32_t vp_c10_map_n(char *self) { return AM(self)->n; }
uint32_t vp_c10_map_key(char *self, uint32_t i) { ASSERT(i < MCAP, "C10 model: map index"); return AM(self)->e[i].key; }
char* vp_c10_map_val(char *self, uint32_t i) { ASSERT(i < MCAP, "C10 model: map index"); return (char*)&AM(self)->e[i].val; }
void vp_c10_map_set(char *self, uint32_t i, uint32_t key, char *pkt) { ASSERT(i < MCAP, "C10 model: map index"); struct amap *m = AM(self); m->e[i].key = key; pk_copy(&m->e[i].val, (PKT*)pkt); }
void vp_c10_map_setn(char *self, uint32_t n) { ASSERT(n <= MCAP, "C10 model: map size"); AM(self)->n = n; }
void _ZN4QMapIj11QXmppPacketEC2Ev(char *self) { AMP(self) = am_new(); }
void _ZN4QMapIj11QXmppPacketE5clearEv(char *self) { struct amap *m = AM(self); for (uint32_t i = 0; i < MCAP; i++) { if (i >= m->n) break; pk_kill(&m->e[i].val); } m->n = 0; }
void _ZN4QMapIj11QXmppPacketED2Ev(char *self) { if (AMP(self)) { _ZN4QMapIj11QXmppPacketE5clearEv(self); AMP(self) = 0; } }
void _ZN4QMapIj11QXmppPacketEC2ERKS1_(char *self, char *o) { struct amap *m = am_new(), *s = AM(o); AMP(self) = m;
  for (uint32_t i = 0; i < MCAP; i++) { if (i >= s->n) break; m->e[i].key = s->e[i].key; pk_copy(&m->e[i].val, &s->e[i].val); } m->n = s->n; }
void _ZN4QMapIj11QXmppPacketEC2EOS1_(char *self, char *o) { AMP(self) = AMP(o); AMP(o) = am_new(); }
void _ZN4QMapIj11QXmppPacketE4swapERS1_(char *self, char *o) { struct amap *t = AMP(self); AMP(self) = AMP(o); AMP(o) = t; }
char* _ZN4QMapIj11QXmppPacketEaSEOS1_(char *self, char *o) { struct amap *t = AMP(self); AMP(self) = AMP(o); AMP(o) = t; return self; }
char* _ZN4QMapIj11QXmppPacketEaSERKS1_(char *self, char *o) { if (AMP(self) != AMP(o)) { _ZN4QMapIj11QXmppPacketE5clearEv(self); struct amap *m = AM(self), *s = AM(o);
  for (uint32_t i = 0; i < MCAP; i++) { if (i >= s->n) break; m->e[i].key = s->e[i].key; pk_copy(&m->e[i].val, &s->e[i].val); } m->n = s->n; } return self; }
void _ZN4QMapIj11QXmppPacketE6detachEv(char *self) { }
void _ZN4QMapIj11QXmppPacketE13detach_helperEv(char *self) { }
uint8_t _ZNK4QMapIj11QXmppPacketE7isEmptyEv(char *self) { return AM(self)->n == 0; }
uint32_t _ZNK4QMapIj11QXmppPacketE4sizeEv(char *self) { return AM(self)->n; }
char* _ZN4QMapIj11QXmppPacketE5beginEv(char *self) { return (char*)&AM(self)->e[0]; }
char* _ZNK4QMapIj11QXmppPacketE5beginEv(char *self) { return (char*)&AM(self)->e[0]; }
char* _ZNK4QMapIj11QXmppPacketE10constBeginEv(char *self) { return (char*)&AM(self)->e[0]; }
char* _ZN4QMapIj11QXmppPacketE3endEv(char *self) { struct amap *m = AM(self); return (char*)&m->e[m->n]; }
char* _ZNK4QMapIj11QXmppPacketE3endEv(char *self) { struct amap *m = AM(self); return (char*)&m->e[m->n]; }
char* _ZNK4QMapIj11QXmppPacketE8constEndEv(char *self) { struct amap *m = AM(self); return (char*)&m->e[m->n]; }
char* _ZN4QMapIj11QXmppPacketE6insertERKjRKS0_(char *self, char *k, char *v) { struct amap *m = AM(self); uint32_t key = *(uint32_t*)k, pos = 0;
  for (uint32_t i = 0; i < MCAP; i++) { if (i >= m->n) break; if (m->e[i].key < key) pos = i + 1; }
  if (pos < m->n && m->e[pos].key == key) { pk_kill(&m->e[pos].val); pk_copy(&m->e[pos].val, (PKT*)v); return (char*)&m->e[pos]; }
  ASSERT(m->n < MCAP, "C10 model: QMap capacity exceeded");
  for (uint32_t i = MCAP; i > 0; i--) { if (i <= m->n && i > pos) m->e[i] = m->e[i - 1]; }
  m->e[pos].key = key; pk_copy(&m->e[pos].val, (PKT*)v); m->n++; return (char*)&m->e[pos]; }
char* _ZN4QMapIj11QXmppPacketE5eraseENS1_8iteratorE(char *self, char *it) { struct amap *m = AM(self); uint32_t pos = (uint32_t)((struct ent*)it - m->e);
  ASSERT(pos < m->n, "C10 model: QMap::erase(end())"); pk_kill(&m->e[pos].val);
  for (uint32_t i = 0; i < MCAP; i++) { if (i >= pos && i + 1 < m->n) m->e[i] = m->e[i + 1]; } m->n--; return (char*)&m->e[pos]; }
void _ZN4QMapIj11QXmppPacketE8iteratorC2EP8QMapNodeIjS0_E(char *it, char *n) { *(char**)it = n; }
void _ZN4QMapIj11QXmppPacketE14const_iteratorC2EPK8QMapNodeIjS0_E(char *it, char *n) { *(char**)it = n; }
void _ZN4QMapIj11QXmppPacketE14const_iteratorC2ERKNS1_8iteratorE(char *it, char *o) { *(char**)it = *(char**)o; }
char* _ZN4QMapIj11QXmppPacketE8iteratorppEv(char *it) { *(struct ent**)it += 1; return it; }
char* _ZN4QMapIj11QXmppPacketE14const_iteratorppEv(char *it) { *(struct ent**)it += 1; return it; }
char* _ZN4QMapIj11QXmppPacketE8iteratormmEv(char *it) { *(struct ent**)it -= 1; return it; }
char* _ZN4QMapIj11QXmppPacketE14const_iteratormmEv(char *it) { *(struct ent**)it -= 1; return it; }
static struct ent *am_find(struct amap *m, uint32_t key) { for (uint32_t i = 0; i < MCAP; i++) { if (i >= m->n) break; if (m->e[i].key == key) return &m->e[i]; } return &m->e[m->n]; }
char* _ZN4QMapIj11QXmppPacketE4findERKj(char *self, char *k) { return (char*)am_find(AM(self), *(uint32_t*)k); }
char* _ZNK4QMapIj11QXmppPacketE4findERKj(char *self, char *k) { return (char*)am_find(AM(self), *(uint32_t*)k); }
char* _ZNK4QMapIj11QXmppPacketE9constFindERKj(char *self, char *k) { return (char*)am_find(AM(self), *(uint32_t*)k); }
uint8_t _ZNK4QMapIj11QXmppPacketE8containsERKj(char *self, char *k) { struct amap *m = AM(self); return am_find(m, *(uint32_t*)k) != &m->e[m->n]; }
char* _ZNK4QMapIj11QXmppPacketE8iterator3keyEv(char *it) { return (char*)&(*(struct ent**)it)->key; }
char* _ZNK4QMapIj11QXmppPacketE14const_iterator3keyEv(char *it) { return (char*)&(*(struct ent**)it)->key; }
char* _ZNK4QMapIj11QXmppPacketE8iterator5valueEv(char *it) { return (char*)&(*(struct ent**)it)->val; }
char* _ZNK4QMapIj11QXmppPacketE8iteratordeEv(char *it) { return (char*)&(*(struct ent**)it)->val; }
char* _ZNK4QMapIj11QXmppPacketE8iteratorptEv(char *it) { return (char*)&(*(struct ent**)it)->val; }
char* _ZNK4QMapIj11QXmppPacketE14const_iteratordeEv(char *it) { return (char*)&(*(struct ent**)it)->val; }
uint8_t _ZNK4QMapIj11QXmppPacketE8iteratoreqERKS2_(char *a, char *b) { return *(char**)a == *(char**)b; }
uint8_t _ZNK4QMapIj11QXmppPacketE8iteratorneERKS2_(char *a, char *b) { return *(char**)a != *(char**)b; }
uint8_t _ZNK4QMapIj11QXmppPacketE14const_iteratoreqERKS2_(char *a, char *b) { return *(char**)a == *(char**)b; }
uint8_t _ZNK4QMapIj11QXmppPacketE14const_iteratorneERKS2_(char *a, char *b) { return *(char**)a != *(char**)b; }
#endif
