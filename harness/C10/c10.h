// C10 - losing the connection at any point leaves a consistent client that can reconnect.
//
// Structure: single inductive steps of the REAL QXmppOutgoingClient (src/client/QXmppOutgoingClient.cpp, #included so that
// QXmppOutgoingClientPrivate and the file-local managers are visible) from an ARBITRARY private state under ONE event of the
// socket / the remote end (socket disconnected, socket started, socket error, stream error, local disconnect request, negotiation
// finished), plus a few two-event compositions.  What is observed: the private state afterwards, the signals emitted (through the
// real moc bodies, counted per signal), the connect attempts / disconnect requests / writes handed to the socket, and the fate of the
// outstanding IQ requests (request-table model of harness/C07).
//
// Environment (see SPEC['assumptions']): the client and its private object live in typed, unconstructed storage and are built field
// by field (the real constructor creates sockets, timers and DNS look-ups); XmppSocket is cut at sendData / connectToHost /
// disconnectFromHost / isConnected (ghost logs); QXmppTask/QXmppPromise are the shadow; SASL managers are never run.
#pragma once
#include "vp_iqmap.h"          // class-level model of the request table: must precede the qxmpp headers
#include "vp_harness.h"
#include "vp_dom.h"
#include "vp_object.h"
#include <any>
#include <variant>
#include <optional>
#include <memory>
#include <vector>
#include <unordered_map>
#include <functional>
#include <chrono>
#include <QtCore>
#include <QtNetwork>
#include <QtXml>
#define private public
#include "QXmppOutgoingClient.h"
#include "QXmppOutgoingClient_p.h"
#include "QXmppStreamManagement_p.h"
#include "QXmppPacket_p.h"
#include "XmppSocket.h"
#undef private
#include "client/QXmppOutgoingClient.cpp"
#include "vp_iqmap_impl.h"
#include "QXmppConfiguration.h"
#include "QXmppStreamFeatures.h"
#include <new>
// the real moc output of the build (signal bodies, staticMetaObject); generated files stay in /repo/_build (-I/repo/_build/src)
#include "QXmppQt5_autogen/7EM65HM6UG/moc_QXmppOutgoingClient.cpp"

using namespace QXmpp;
using namespace QXmpp::Private;

// classification of what reaches the socket (by the TYPE of the serialiser, see c10_models.c)
enum Tag { T_NONE = 0, T_STREAM_OPEN = 1, T_STARTTLS = 2, T_AUTH = 3, T_BIND = 4, T_STANZA = 5, T_SM_RESUME = 6, T_SM_ACK = 7, T_CSI = 8, T_NONZA = 9, T_SM_ENABLE = 10 };

extern "C" {
void vp_c10_tagged(QByteArray *out, unsigned tag);
bool vp_c10_send(const QByteArray *b);               // socket write: appends the tag to the ghost log, result arbitrary
unsigned vp_c10_sent_n();
unsigned vp_c10_sent_tag(unsigned i);
unsigned vp_c10_conn_n();                            // connect attempts (XmppSocket::connectToHost)
unsigned vp_c10_conn_type(unsigned i);
unsigned vp_c10_conn_port(unsigned i);
void vp_c10_conn_host(QString *out, unsigned i);
unsigned vp_c10_disconnects();                       // XmppSocket::disconnectFromHost calls
void vp_c10_set_sock_connected(bool c);              // what XmppSocket::isConnected answers
unsigned vp_c10_sslcfg_set();
unsigned vp_c10_sig_cnt(unsigned idx);               // emissions of the signal with local index idx
unsigned vp_c10_sig_total();
unsigned vp_c10_sig_stamp(unsigned idx);             // position (1..) of the last emission of idx among all emissions
unsigned vp_c10_sig_last_idx();
const void *vp_c10_sig_mo(unsigned idx);
const void *vp_c10_sig_sender(unsigned idx);
bool vp_c10_sig_arg(unsigned idx, unsigned k);       // k-th bool of the first argument (SessionBegin / SessionEnd)
unsigned vp_c10_sig_word(unsigned idx);
void vp_c10_reset_logs();
unsigned vp_c10_timer_stops();
unsigned vp_c10_timer_starts();
unsigned vp_c10_cfg();                               // case split of the instance (-DVP_CFG on the C side)
bool vp_c10_false();
}

// ---------------------------------------------------------------- cuts written in C++
// the socket: XmppSocket::sendData is virtual (pointer-based calls go through this vtable; calls on the member object are bound
// statically and reach the model of XmppSocket::sendData in c10_models.c - same ghost log)
struct FakeSock final : XmppSocket {
    FakeSock() : XmppSocket(nullptr) { }
    bool sendData(const QByteArray &b) override { return vp_c10_send(&b); }
};
static_assert(sizeof(FakeSock) == sizeof(XmppSocket), "FakeSock can be placed where an XmppSocket lives");
// FAST token manager (QXmppSaslManager.cpp is not linked): only its constructor and tokenChanged() (inline) are needed
namespace QXmpp::Private {
FastTokenManager::FastTokenManager(QXmppConfiguration &config) : config(config) { }
}

// element copy / destroy of the QMap<unsigned,QXmppPacket> model (c10_models.c) = the real QXmppPacket copy constructor / destructor
extern "C" {
void vp_c10_pkt_copy(void *dst, const void *src) { new (dst) QXmppPacket(*static_cast<const QXmppPacket *>(src)); }
void vp_c10_pkt_destroy(void *p) { static_cast<QXmppPacket *>(p)->~QXmppPacket(); }
unsigned vp_c10_map_n(const void *map);
}
static inline void vpC10KeepHooks() { if (vp_c10_false()) { vp_c10_pkt_copy(nullptr, nullptr); vp_c10_pkt_destroy(nullptr); } }   // never true; keeps the hooks in the translated program

// typed but unconstructed storage (a union member is not constructed implicitly): keeps pointers stored by the real code as pointers
template<typename T> union VpTyped { T v; VpTyped() { } ~VpTyped() { } T *p() { return &v; } T *operator->() { return &v; } };
// n arbitrary UTF-16 units, length known to symbolic execution
static QString vpFixString(int n) { QChar b[4]; for (int k = 0; k < n && k < 4; k++) b[k] = QChar(vp_u16()); return QString(b, n); }

// instance configuration bits (cdefs VP_CFG): structural choices are compile-time constants, values stay symbolic
enum {
    CFG_L_SHIFT = 0,        // 3 bits: who listens in the pre-state (index of the listener variant; 7 = NonSASL manager with a pending auth query)
    CFG_N_SHIFT = 3,        // 2 bits: number of server addresses known (0..3)
    CFG_TRYNEXT = 1 << 5,   // pre-state: a socket error during start-up selected the next address (nextAddressState == TryNext)
    CFG_REDIRECT = 1 << 6,  // pre-state: a see-other-host redirect is pending
    CFG_REQ_SHIFT = 7,      // 2 bits: pending request of the stream-management negotiation (0 none, 1 resume, 2 enable)
    CFG_SESSION = 1 << 9,   // pre-state: sessionStarted fixed to true   (CFG_NOSESSION: fixed to false; neither: arbitrary)
    CFG_NOSESSION = 1 << 10,
    CFG_IDX_FIXED = 1 << 11, // index of the next server address fixed by the 2 bits at CFG_IDX_SHIFT (else arbitrary within the invariant)
    CFG_IDX_SHIFT = 12,
    CFG_EV_SHIFT = 14,      // event-specific case bits (5 bits)
    CFG_NOREQ = 1 << 19,    // pre-state without outstanding requests
    CFG_ONEREQ = 1 << 20,   // pre-state with exactly one outstanding request (slot 0)
};
static inline unsigned cfgListener() { return (vp_c10_cfg() >> CFG_L_SHIFT) & 7; }
static inline unsigned cfgNAddr() { return (vp_c10_cfg() >> CFG_N_SHIFT) & 3; }
static inline unsigned cfgReq() { return (vp_c10_cfg() >> CFG_REQ_SHIFT) & 3; }
static inline unsigned cfgEv() { return (vp_c10_cfg() >> CFG_EV_SHIFT) & 31; }

// local signal indices of QXmppOutgoingClient, measured through the real moc bodies (Fx::calibrate)
struct SigIdx { unsigned connected, disconnected, errorOccurred; };

#define C10_NREQ 2   // outstanding IQ requests in the pre-state (each present or not)

struct Fx {
    VpTyped<QXmppOutgoingClientPrivate> priv;
    VpTyped<QXmppOutgoingClient> client;
    alignas(16) char ssl[64];      // stands for the QSslSocket: only its address is used (all calls on it are models)
    alignas(16) char timer[2][32]; // ping / timeout QTimer: only stop() (model: ghost counter) is called on them
    QXmppOutgoingClient *q;
    QXmppOutgoingClientPrivate *d;
    SigIdx sig;
    // snapshot of the pre-state
    bool preAuth, preSession, preCanResume, preEnabledC2s, preResumed, preSmAck, preBind2, preSmAvailable;
    QString preSmId, preStreamId;
    unsigned preIndex, nAddr;
    QString addrHost[3]; unsigned addrPort[3]; unsigned addrType[3];
    QString redirHost; unsigned redirPort;
    // outstanding requests
    VpIqMap *map;
    bool used[VP_MAP_CAP];
    QString key[VP_MAP_CAP], jid[VP_MAP_CAP];
    std::optional<QXmppTask<IqResult>> task[VP_MAP_CAP + 1];

    Fx()
    {
        q = client.p(); d = priv.p();
        vpC10KeepHooks();
        vp_qobject_construct(q, nullptr);
        new (const_cast<std::unique_ptr<QXmppOutgoingClientPrivate> *>(&q->d)) std::unique_ptr<QXmppOutgoingClientPrivate>(d);
        calibrate();
        // --- configuration: the REAL QXmppConfiguration, set through its public setters
        new (&d->config) QXmppConfiguration();
        d->config.setUser(vpSymString(2));
        d->config.setDomain(vpSymString(2));
        d->config.setResource(vpSymString(2));
        // --- socket
        FakeSock *s = new (&d->socket) FakeSock();
        s->m_socket = reinterpret_cast<QSslSocket *>(ssl);
        vp_c10_set_sock_connected(vp_bool());
        new (&d->error) std::optional<QXmppOutgoingClientPrivate::Error>();
        // --- stream layer
        new (&d->streamAckManager) StreamAckManager(d->socket);
        d->streamAckManager.m_enabled = preSmAck = vp_bool();
        d->streamAckManager.m_lastOutgoingSequenceNumber = vp_u32();
        d->streamAckManager.m_lastIncomingSequenceNumber = vp_u32();
        new (&d->iqManager) OutgoingIqManager(q, d->streamAckManager);
        plantRequests();
        // --- addresses: N known addresses (case split), the index of the next one arbitrary within the vector
        nAddr = cfgNAddr();
        new (&d->serverAddresses) std::vector<ServerAddress>();
        d->serverAddresses.reserve(3);
        for (unsigned i = 0; i < 3; i++) {
            if (i < nAddr) {
                addrHost[i] = vpSymString(2); addrPort[i] = vp_u16(); addrType[i] = vp_bool() ? ServerAddress::Tls : ServerAddress::Tcp;
                d->serverAddresses.push_back(ServerAddress { ServerAddress::ConnectionType(addrType[i]), addrHost[i], quint16(addrPort[i]) });
            }
        }
        bool tryNext = (vp_c10_cfg() & CFG_TRYNEXT) != 0;
        preIndex = (vp_c10_cfg() & CFG_IDX_FIXED) ? ((vp_c10_cfg() >> CFG_IDX_SHIFT) & 3) : unsigned(vp_u8());
        // representation invariant: index <= size; TryNext is only ever selected while a further address exists (socketError)
        vp_assume(tryNext ? preIndex < nAddr : preIndex <= nAddr);
        d->nextServerAddressIndex = preIndex;
        d->nextAddressState = tryNext ? QXmppOutgoingClientPrivate::TryNext : QXmppOutgoingClientPrivate::Current;
        // --- stream information: arbitrary
        new (&d->streamId) QString(preStreamId = vpSymString(2));
        new (&d->streamFrom) QString(vpSymString(2));
        new (&d->streamVersion) QString(vpSymString(2));
        new (&d->redirect) std::optional<StreamErrorElement::SeeOtherHost>();
        if (vp_c10_cfg() & CFG_REDIRECT) {
            redirHost = vpSymString(2); redirPort = vp_u16();
            d->redirect = StreamErrorElement::SeeOtherHost { redirHost, quint16(redirPort) };
        }
        // --- authentication & session: arbitrary
        d->isAuthenticated = preAuth = vp_bool();
        d->bindModeAvailable = vp_bool();
        preSession = (vp_c10_cfg() & CFG_SESSION) ? true : (vp_c10_cfg() & CFG_NOSESSION) ? false : vp_bool();
        d->sessionStarted = preSession;
        unsigned am = vp_u8(); vp_assume(am <= 2);
        d->authenticationMethod = am == 0 ? AuthenticationMethod::NonSasl : am == 1 ? AuthenticationMethod::Sasl : AuthenticationMethod::Sasl2;
        new (&d->bind2Bound) std::optional<Bind2Bound>();
        new (&d->fastTokenManager) FastTokenManager(d->config);
        d->fastTokenManager.m_tokenChanged = vp_bool();
        new (&d->c2sStreamManager) C2sStreamManager(q);
        d->c2sStreamManager.m_smAvailable = preSmAvailable = vp_bool();
        d->c2sStreamManager.m_canResume = preCanResume = vp_bool();
        d->c2sStreamManager.m_enabled = preEnabledC2s = vp_bool();
        d->c2sStreamManager.m_streamResumed = preResumed = vp_bool();
        d->c2sStreamManager.m_smId = preSmId = vpSymString(2);
        if (cfgReq() == 1) d->c2sStreamManager.m_request = C2sStreamManager::ResumeRequest();
        else if (cfgReq() == 2) d->c2sStreamManager.m_request = C2sStreamManager::EnableRequest();
        new (&d->carbonManager) CarbonManager();
        d->carbonManager.m_enableViaBind2 = vp_bool();
        d->carbonManager.m_enabled = vp_bool();
        d->carbonManager.m_requested = vp_bool();
        new (&d->csiManager) CsiManager(q);
        d->csiManager.m_state = vp_bool() ? CsiManager::Active : CsiManager::Inactive;
        d->csiManager.m_synced = vp_bool();
        d->csiManager.m_featureAvailable = vp_bool();
        d->csiManager.m_bind2InactiveSet = vp_bool();
        d->pingManager.q = q;
        d->pingManager.pingTimer = reinterpret_cast<QTimer *>(timer[0]);
        d->pingManager.timeoutTimer = reinterpret_cast<QTimer *>(timer[1]);
        d->q = q;
        // --- who listens: whatever negotiation step the connection was in (case split)
        new (&d->listener) decltype(d->listener)(q);
        switch (cfgListener()) {
        case 1: d->listener = StarttlsManager(); break;
        case 2: d->listener = NonSaslAuthManager(&d->socket); break;
        case 3: d->listener = SaslManager(&d->socket); break;
        case 4: d->listener = Sasl2Manager(&d->socket); break;
        case 5: d->listener = &d->c2sStreamManager; break;
        case 6: d->listener = BindManager(&d->socket); break;
        case 7: d->listener = NonSaslAuthManager(&d->socket); std::get<NonSaslAuthManager>(d->listener).m_query = NonSaslAuthManager::AuthQuery(); break;
        default: break;
        }
        vp_c10_reset_logs();
    }
    // signal indices through the real moc code
    void calibrate()
    {
        vp_c10_reset_logs();
        SessionBegin sb {}; SessionEnd se {};
        q->connected(sb); sig.connected = vp_c10_sig_last_idx();
        q->disconnected(se); sig.disconnected = vp_c10_sig_last_idx();
        QXmppOutgoingClient::ConnectionError ce = QAbstractSocket::UnknownSocketError;
        q->errorOccurred(QString(), ce, QXmppClient::SocketError); sig.errorOccurred = vp_c10_sig_last_idx();
        vp_assert(vp_c10_sig_total() == 3 && sig.connected != sig.disconnected && sig.connected != sig.errorOccurred && sig.disconnected != sig.errorOccurred,
                  "C10 connected / disconnected / errorOccurred are distinct signals of the client");
        vp_assert(vp_c10_sig_mo(sig.connected) == &QXmppOutgoingClient::staticMetaObject && vp_c10_sig_sender(sig.disconnected) == q, "C10 signals are emitted by the client object with its own meta object");
        vp_sig_reset();
        vp_c10_reset_logs();
    }
    // arbitrary valid request table (what OutgoingIqManager::start establishes): ids non-empty and distinct, addressee non-empty,
    // promises unfinished; every slot of the model holds constructed objects, `used` decides what exists
    void plantRequests()
    {
        static_assert(sizeof(OutgoingIqManager) == 16 + sizeof(VpIqMap), "layout of OutgoingIqManager: { l, &streamAckManager, m_requests }");
        map = &d->iqManager.m_requests;
        for (int i = 0; i < VP_MAP_CAP; i++) {
            key[i] = vpFixString(i == 0 ? 1 : 2);      // distinct by construction (different lengths) for the two that may exist
            jid[i] = vpSymStringNonEmpty(2);
            new (map->slot(i)) VpIqMap::value_type(key[i], IqState { {}, jid[i] });
            used[i] = (vp_c10_cfg() & CFG_ONEREQ) ? i == 0 : (i < C10_NREQ && !(vp_c10_cfg() & CFG_NOREQ)) ? vp_bool() : false;
            map->t->s[i]->used = used[i];
            task[i].emplace(map->slot(i)->second.interface.task());
        }
        task[VP_MAP_CAP].emplace(map->slot(VP_MAP_CAP)->second.interface.task());
    }
    // ---- observations
    unsigned nConnected() const { return vp_c10_sig_cnt(sig.connected); }
    unsigned nDisconnected() const { return vp_c10_sig_cnt(sig.disconnected); }
    unsigned nError() const { return vp_c10_sig_cnt(sig.errorOccurred); }
    bool listenerIsClient() const { return d->listener.index() == 0 && std::get<0>(d->listener) == q; }
    bool cancelled(int i) const
    {
        if (!task[i]->isFinished() || !task[i]->hasResult()) return false;
        const IqResult &r = task[i]->result();
        auto *e = std::get_if<QXmppError>(&r);
        if (!e) return false;
        auto *se = std::any_cast<SendError>(&e->error);
        return se && *se == SendError::Disconnected;
    }
    bool pendingUntouched(int i) const
    {
        if (task[i]->isFinished()) return false;
        auto it = map->find(key[i]);
        return it != map->end() && it->second.jid == jid[i];
    }
    // every outstanding request is either completed (reported as "disconnected", gone from the table) or retained (pending, in the table)
    void requestsAllCancelled()
    {
        for (int i = 0; i < C10_NREQ; i++)
            vp_assert(!used[i] || (cancelled(i) && !d->iqManager.hasId(key[i])), "C10 every outstanding request is completed (error: disconnected) when the session ends and cannot be resumed");
        vp_assert(map->size() == 0, "C10 no request stays in the table after a session that cannot be resumed");
    }
    void requestsAllRetained()
    {
        for (int i = 0; i < C10_NREQ; i++)
            vp_assert(!used[i] || pendingUntouched(i), "C10 an outstanding request is retained (pending, still in the table, same addressee)");
        vp_assert(map->size() == unsigned(used[0]) + unsigned(used[1]), "C10 the request table holds exactly the retained requests");
    }
    void requestsCancelledIff(bool cancel)
    {
        for (int i = 0; i < C10_NREQ; i++)
            vp_assert(!used[i] || (cancel ? (cancelled(i) && !d->iqManager.hasId(key[i])) : pendingUntouched(i)),
                      "C10 outstanding requests are completed (error: disconnected) unless the session can be resumed, in which case they are retained");
        vp_assert(map->size() == (cancel ? 0u : unsigned(used[0]) + unsigned(used[1])), "C10 request table after the event: empty, or exactly the retained requests");
    }
    // resumption data survives (it is what makes "retained" meaningful)
    void resumeStateKept()
    {
        vp_assert(d->c2sStreamManager.m_canResume == preCanResume && d->c2sStreamManager.m_smId == preSmId, "C10 stream-resumption state (can-resume flag, session id) is kept");
    }
    void noSocketTraffic()
    {
        vp_assert(vp_c10_sent_n() == 0, "C10 nothing is written to the socket by this event");
    }
};
