// C10 step harnesses (see c10.h for the structure, the fixture and the environment)
#include "c10.h"

// what never happens in any of the connection-loss / reconnect steps below
static void neverReportsSession(Fx &fx)
{
    vp_assert(fx.nConnected() == 0, "C10 no session is reported as established by this event");
}
static void addressIs(Fx &fx, unsigned logIdx, unsigned type, const QString &host, unsigned port)
{
    QString h; vp_c10_conn_host(&h, logIdx);
    vp_assert(vp_c10_conn_type(logIdx) == type && vp_c10_conn_port(logIdx) == port && h == host, "C10 the connect attempt goes to the expected address (type, host, port)");
}
static void connectsToKnownAddress(Fx &fx, unsigned idx)
{
    vp_assert(vp_c10_conn_n() == 1, "C10 exactly one connect attempt");
    for (unsigned i = 0; i < 3; i++)
        if (i < fx.nAddr && i == idx) addressIs(fx, 0, fx.addrType[i], fx.addrHost[i], fx.addrPort[i]);
    vp_assert(vp_c10_sslcfg_set() == 1, "C10 the TLS configuration of the socket is set before connecting");
}

// ---- H1: the socket reports "disconnected" -----------------------------------------------------------------------------------------
// three mechanisms (case split by the pre-state): a further address selected by socketError -> connect to it; a pending see-other-host
// redirect -> connect to it; otherwise the session is closed
extern "C" void h_disconnected()
{
    Fx &fx = *new Fx;
    auto *d = fx.d;
    const bool tryNext = (vp_c10_cfg() & CFG_TRYNEXT) != 0, redirect = (vp_c10_cfg() & CFG_REDIRECT) != 0;
    vp_c10_set_sock_connected(false);      // the socket is in UnconnectedState when it reports `disconnected`
    fx.q->_q_socketDisconnected();
    vp_assert(!d->isAuthenticated, "C10 after the socket disconnected the client is not authenticated");
    neverReportsSession(fx);
    vp_assert(fx.nError() == 0, "C10 the disconnect itself reports no error");
    fx.noSocketTraffic();
    vp_assert(vp_c10_disconnects() == 0, "C10 no further disconnect is requested from a socket that just disconnected");
    fx.resumeStateKept();
    if (tryNext) {
        // (pre-state: no session, see SPEC assumptions) a connect attempt to the next known address, and NO `disconnected`
        connectsToKnownAddress(fx, fx.preIndex);
        vp_assert(d->nextServerAddressIndex == fx.preIndex + 1 && d->nextAddressState == QXmppOutgoingClientPrivate::Current, "C10 the next address is consumed exactly once");
        vp_assert(fx.nDisconnected() == 0, "C10 while further addresses are tried the client does not report `disconnected`");
        vp_assert(!d->sessionStarted, "C10 no session exists while addresses are tried");
        vp_assert(d->redirect.has_value() == redirect, "C10 a pending redirect is kept while another address is tried");
        fx.requestsAllRetained();
    } else if (redirect) {
        // a connect attempt to the redirect target; the redirect is consumed
        vp_assert(vp_c10_conn_n() == 1, "C10 exactly one connect attempt");
        addressIs(fx, 0, ServerAddress::Tcp, fx.redirHost, fx.redirPort);
        vp_assert(!d->redirect.has_value(), "C10 a redirect is followed once");
        vp_assert(d->nextServerAddressIndex == fx.preIndex && d->nextAddressState == QXmppOutgoingClientPrivate::Current, "C10 the address list is not consumed by a redirect");
        // the connection to the old host is gone: no session is reported any more; `disconnected` is reported exactly when a session
        // had been reported as established, never during negotiation
        vp_assert(!d->sessionStarted, "C10 after the socket disconnected no session is reported as established (redirect)");
        vp_assert(fx.nDisconnected() == (fx.preSession ? 1u : 0u), "C10 a redirect during negotiation reports no `disconnected`; a redirect that ends an established session reports it exactly once");
        if (fx.preSession) fx.requestsCancelledIff(!fx.preCanResume); else fx.requestsAllRetained();
    } else {
        vp_assert(!d->sessionStarted, "C10 after the socket disconnected no session is reported as established");
        vp_assert(fx.nDisconnected() == 1 && vp_c10_sig_total() == 1, "C10 exactly one `disconnected` emission (and no other signal)");
        vp_assert(vp_c10_sig_arg(fx.sig.disconnected, 0) == fx.preCanResume, "C10 `disconnected` tells whether the session can be resumed");
        vp_assert(vp_c10_conn_n() == 0, "C10 no connect attempt when neither a further address nor a redirect is pending");
        vp_assert(d->nextServerAddressIndex == fx.preIndex && d->nextAddressState == QXmppOutgoingClientPrivate::Current, "C10 address state unchanged");
        vp_assert(!d->streamAckManager.m_enabled, "C10 stream-management accounting is switched off when the session closes");
        fx.requestsCancelledIff(!fx.preCanResume);
    }
}

// ---- H2: the socket reports "started" (TCP/TLS connection established, or stream restart): all per-stream state is reset ---------------
extern "C" void h_start()
{
    Fx &fx = *new Fx;
    auto *d = fx.d;
    fx.q->handleStart();
    vp_assert(d->streamId.isEmpty() && d->streamFrom.isEmpty() && d->streamVersion.isEmpty(), "C10 a new stream starts without stream id / from / version of the previous one");
    vp_assert(fx.listenerIsClient(), "C10 a new stream starts with the client itself listening (pending negotiation steps of the previous stream are dropped)");
    vp_assert(!d->c2sStreamManager.m_streamResumed && !d->c2sStreamManager.m_enabled && d->c2sStreamManager.m_request.index() == 0,
              "C10 a new stream starts with stream management not enabled, not resumed and no pending enable/resume request");
    fx.resumeStateKept();
    vp_assert(vp_c10_sent_n() == 1 && vp_c10_sent_tag(0) == T_STREAM_OPEN, "C10 the stream header is the first and only thing sent when a stream starts");
    vp_assert(vp_c10_sig_total() == 0, "C10 starting a stream emits no signal (no session reported, no disconnect reported)");
    vp_assert(vp_c10_conn_n() == 0 && vp_c10_disconnects() == 0, "C10 starting a stream neither connects nor disconnects");
    vp_assert(d->isAuthenticated == fx.preAuth && d->sessionStarted == fx.preSession, "C10 starting a stream changes neither the authentication nor the session flag");
    fx.requestsAllRetained();
}

// ---- H3: negotiation finished: the single place that declares the session open ----------------------------------------------------------
enum { EV_BIND2 = 1 };
extern "C" void h_open()
{
    Fx &fx = *new Fx;       // instance cfg: CFG_NOSESSION (negotiation invariant: no session has been reported on this connection yet)
    auto *d = fx.d;
    fx.preBind2 = (cfgEv() & EV_BIND2) != 0;
    if (fx.preBind2) d->bind2Bound.emplace();
    bool preCarbonReq = d->carbonManager.m_requested, preCarbon = d->carbonManager.m_enabled;
    fx.q->openSession();
    vp_assert(d->sessionStarted, "C10 the session is established after openSession");
    vp_assert(fx.nConnected() == 1 && fx.nDisconnected() == 0 && fx.nError() == 0 && vp_c10_sig_total() == 1, "C10 `connected` is emitted exactly once (and nothing else)");
    vp_assert(vp_c10_sig_arg(fx.sig.connected, 0) == fx.preEnabledC2s && vp_c10_sig_arg(fx.sig.connected, 1) == fx.preResumed && vp_c10_sig_arg(fx.sig.connected, 2) == fx.preBind2,
              "C10 `connected` reports stream management enabled / stream resumed / bind2 used as negotiated");
    vp_assert(!d->bind2Bound.has_value(), "C10 the bind2 result is consumed by the session it belongs to");
    vp_assert(d->isAuthenticated == fx.preAuth, "C10 opening the session does not change the authentication flag");
    // requests of the previous session: kept only if that session was resumed
    fx.requestsCancelledIff(!fx.preResumed);
    vp_assert(d->carbonManager.m_enabled == (fx.preBind2 ? preCarbonReq : fx.preResumed ? preCarbon : false), "C10 carbons state: kept on resumption, reset on a new session, as requested with bind2");
    vp_assert(vp_c10_conn_n() == 0 && vp_c10_disconnects() == 0, "C10 opening the session neither connects nor disconnects");
    for (unsigned i = 0; i < 4; i++)
        vp_assert(i >= vp_c10_sent_n() || vp_c10_sent_tag(i) == T_CSI, "C10 only a client-state indication may be sent when the session opens");
}

// ---- H4: the application (or a failed negotiation step) asks to disconnect ------------------------------------------------------------
extern "C" void h_disconnect_host()
{
    Fx &fx = *new Fx;
    auto *d = fx.d;
    fx.q->disconnectFromHost();
    vp_assert(!d->c2sStreamManager.m_canResume, "C10 a deliberate disconnect gives up stream resumption");
    vp_assert(vp_c10_disconnects() == 1 && vp_c10_conn_n() == 0, "C10 the socket is asked to disconnect exactly once");
    vp_assert(vp_c10_sig_total() == 0, "C10 `disconnected` is only reported once the socket reports it");
    vp_assert(d->sessionStarted == fx.preSession && d->isAuthenticated == fx.preAuth, "C10 session / authentication flags change when the socket reports the disconnect");
    fx.requestsAllRetained();
}
// ... followed by the socket's report: every outstanding request is completed, whatever the resumption state was
extern "C" void h_disconnect_then_disconnected()
{
    Fx &fx = *new Fx;       // instance cfg: no further address selected, no redirect pending
    auto *d = fx.d;
    fx.q->disconnectFromHost();
    fx.q->_q_socketDisconnected();
    vp_assert(!d->sessionStarted && !d->isAuthenticated, "C10 after a deliberate disconnect the client is neither in a session nor authenticated");
    vp_assert(fx.nDisconnected() == 1 && vp_c10_sig_total() == 1 && !vp_c10_sig_arg(fx.sig.disconnected, 0), "C10 exactly one `disconnected`, marked not resumable");
    fx.requestsAllCancelled();
    vp_assert(vp_c10_conn_n() == 0, "C10 no reconnect by the stream itself after a deliberate disconnect");
}

// ---- H5: the socket reports an error -------------------------------------------------------------------------------------------------
extern "C" void h_socket_error()
{
    Fx &fx = *new Fx;       // instance cfg: nextAddressState == Current
    auto *d = fx.d;
    bool sockConnected = vp_bool(); vp_c10_set_sock_connected(sockConnected);
    int code = int(vp_u8()) - 1; vp_assume(code <= 23);
    fx.q->socketError(QAbstractSocket::SocketError(code));
    const bool more = !fx.preSession && fx.nAddr > fx.preIndex;
    neverReportsSession(fx);
    vp_assert(fx.nDisconnected() == 0, "C10 `disconnected` is only reported once the socket reports it");
    vp_assert(d->sessionStarted == fx.preSession && d->isAuthenticated == fx.preAuth, "C10 session / authentication flags change when the socket reports the disconnect");
    fx.requestsAllRetained();
    fx.noSocketTraffic();
    if (more && !sockConnected) {
        connectsToKnownAddress(fx, fx.preIndex);
        vp_assert(d->nextServerAddressIndex == fx.preIndex + 1 && d->nextAddressState == QXmppOutgoingClientPrivate::Current, "C10 the next address is consumed exactly once");
    } else {
        vp_assert(vp_c10_conn_n() == 0 && d->nextServerAddressIndex == fx.preIndex, "C10 no connect attempt while the socket is still connected or no address is left");
        vp_assert((d->nextAddressState == QXmppOutgoingClientPrivate::TryNext) == more, "C10 the next address is selected exactly when one is left and no session was established");
    }
    vp_assert(fx.nError() == (more ? 0u : 1u), "C10 a socket error is reported exactly when no further address can be tried");
    vp_assert(more || d->error.has_value(), "C10 a reported error is stored");
    // invariant used by h_disconnected
    vp_assert(d->nextAddressState != QXmppOutgoingClientPrivate::TryNext || (!d->sessionStarted && d->nextServerAddressIndex < d->serverAddresses.size()),
              "C10 invariant: a next address is selected only while one exists and no session is established");
}

// ---- H6: <stream:error/> -------------------------------------------------------------------------------------------------------------
enum { EV_SEE_OTHER_HOST = 1 };
static void makeStreamError(StreamErrorElement &e, QString &host, unsigned &port)
{
    if (cfgEv() & EV_SEE_OTHER_HOST) {
        host = vpSymString(2); port = vp_u16();
        e.condition = StreamErrorElement::SeeOtherHost { host, quint16(port) };
    } else {
        unsigned c = vp_u8(); vp_assume(c <= unsigned(StreamError::UnsupportedVersion));
        e.condition = StreamError(c);
    }
    e.text = vpSymString(2);
}
extern "C" void h_stream_error()
{
    Fx &fx = *new Fx;       // instance cfg: no redirect pending
    auto *d = fx.d;
    StreamErrorElement e; QString host; unsigned port = 0;
    makeStreamError(e, host, port);
    fx.q->handleStreamError(e);
    neverReportsSession(fx);
    vp_assert(fx.nDisconnected() == 0, "C10 `disconnected` is only reported once the socket reports it");
    vp_assert(d->sessionStarted == fx.preSession && d->isAuthenticated == fx.preAuth, "C10 session / authentication flags change when the socket reports the disconnect");
    fx.resumeStateKept();
    fx.requestsAllRetained();
    fx.noSocketTraffic();
    if (cfgEv() & EV_SEE_OTHER_HOST) {
        vp_assert(d->redirect.has_value() && d->redirect->host == host && d->redirect->port == port, "C10 the redirect target is remembered");
        vp_assert(vp_c10_disconnects() == 1 && fx.nError() == 0, "C10 a redirect closes the connection without reporting an error");
    } else {
        vp_assert(!d->redirect.has_value(), "C10 only see-other-host sets a redirect");
        vp_assert(fx.nError() == 1 && d->error.has_value(), "C10 any other stream error is reported once and stored");
    }
    vp_assert(vp_c10_conn_n() == 0, "C10 no connect attempt before the socket reported the disconnect");
}
// see-other-host followed by the socket's report: one connect attempt to exactly the announced host
extern "C" void h_redirect_roundtrip()
{
    Fx &fx = *new Fx;       // instance cfg: no session (negotiation), no redirect pending, nothing selected
    auto *d = fx.d;
    StreamErrorElement e; QString host; unsigned port = 0;
    makeStreamError(e, host, port);
    fx.q->handleStreamError(e);
    fx.q->_q_socketDisconnected();
    vp_assert(vp_c10_conn_n() == 1, "C10 exactly one connect attempt");
    addressIs(fx, 0, ServerAddress::Tcp, host, port);
    vp_assert(!d->redirect.has_value() && !d->isAuthenticated && !d->sessionStarted, "C10 redirect consumed; not authenticated, no session");
    vp_assert(vp_c10_sig_total() == 0, "C10 a redirect during negotiation reports neither an error nor `disconnected`");
    fx.resumeStateKept();
    fx.requestsAllRetained();
}

// ---- H7: stream features AFTER authentication: the session is declared open only when nothing is left to negotiate ----------------------
// (conforming server: no authentication offers any more; bind / stream management offered or not by case, CSI / session arbitrary)
enum { EV_BIND = 1, EV_SM = 2, EV_CANRESUME = 4 };   // EV_CANRESUME: the previous session left resumable state
static QXmppStreamFeatures::Mode vpMode()
{
    unsigned m = vp_u8(); vp_assume(m <= 2);
    return m == 0 ? QXmppStreamFeatures::Enabled : m == 1 ? QXmppStreamFeatures::Disabled : QXmppStreamFeatures::Required;
}
static bool sentOnly(unsigned tag)
{
    bool ok = vp_c10_sent_n() >= 1 && vp_c10_sent_tag(0) == tag;
    for (unsigned i = 1; i < 4; i++) ok = ok && (i >= vp_c10_sent_n() || vp_c10_sent_tag(i) == T_CSI);
    return ok;
}
static bool sentNoRequest()
{
    bool ok = true;
    for (unsigned i = 0; i < 4; i++) ok = ok && (i >= vp_c10_sent_n() || vp_c10_sent_tag(i) == T_CSI);
    return ok;
}
extern "C" void h_features()
{
    Fx &fx = *new Fx;       // instance cfg: the client itself listens, no session reported on this connection yet
    auto *d = fx.d;
    d->isAuthenticated = fx.preAuth = true;
    d->c2sStreamManager.m_canResume = fx.preCanResume = (cfgEv() & EV_CANRESUME) != 0;
    QXmppStreamFeatures f;
    f.setBindMode((cfgEv() & EV_BIND) ? (vp_bool() ? QXmppStreamFeatures::Enabled : QXmppStreamFeatures::Required) : QXmppStreamFeatures::Disabled);
    f.setStreamManagementMode((cfgEv() & EV_SM) ? (vp_bool() ? QXmppStreamFeatures::Enabled : QXmppStreamFeatures::Required) : QXmppStreamFeatures::Disabled);
    f.setSessionMode(vpMode());
    f.setClientStateIndicationMode(vpMode());
    fx.q->handleStreamFeatures(f);
    const bool sm = (cfgEv() & EV_SM) != 0, bind = (cfgEv() & EV_BIND) != 0;
    const bool wantResume = sm && !fx.preEnabledC2s && fx.preCanResume, wantEnable = sm && !fx.preEnabledC2s;
    vp_assert(fx.nConnected() <= 1 && d->sessionStarted == (fx.nConnected() == 1), "C10 a session is reported as established at most once, and exactly when it is recorded as started");
    vp_assert(fx.nDisconnected() == 0 && fx.nError() == 0 && vp_c10_disconnects() == 0 && vp_c10_conn_n() == 0, "C10 conforming features neither fail nor disconnect");
    // negotiation goes on (exactly one request of the next step is sent and its manager listens) or it is finished (session opened)
    const bool finished = !wantResume && !bind && !wantEnable;
    vp_assert(d->sessionStarted == finished, "C10 the session is declared open exactly when neither resumption, nor binding, nor enabling stream management is left to do");
    vp_assert(!finished || (sentNoRequest() && fx.listenerIsClient()), "C10 when the session opens no negotiation request is outstanding");
    vp_assert(finished || (wantResume ? (sentOnly(T_SM_RESUME) && d->listener.index() == 5) : bind ? (sentOnly(T_BIND) && d->listener.index() == 6) : (sentOnly(T_SM_ENABLE) && d->listener.index() == 5)),
              "C10 while negotiation is not finished exactly the next request (resume, else bind, else enable) is sent and its step listens");
    if (finished) fx.requestsCancelledIff(!fx.preResumed); else fx.requestsAllRetained();
}

// ---- H8: the answer to the stream-management request (enable / resume) arrives: the session is opened exactly once, after it ----------------
enum { EV_RESUME = 1, EV_ANS_SHIFT = 1, EV_BINDMODE = 8 };   // answer: 0 <failed/>, 1 <enabled/> resp. <resumed/>, 2 some other element; EV_BINDMODE: the features offered resource binding
static QDomElement vpElement(const QString &tag, const QString &ns) { QDomElement e; vp_dom_new(&e, &tag, &ns); return e; }
static void vpAttr(QDomElement &el, const QString &name, const QString &value) { vp_dom_set_attr(&el, &name, &value); }
extern "C" void h_sm_answer()
{
    Fx &fx = *new Fx;       // instance cfg: the client itself listens, no pending request, no session reported on this connection yet
    auto *d = fx.d;
    const bool resume = (cfgEv() & EV_RESUME) != 0; const unsigned ans = (cfgEv() >> EV_ANS_SHIFT) & 3;
    d->isAuthenticated = fx.preAuth = true;
    // stream state as handleStart leaves it (h_start)
    d->c2sStreamManager.m_enabled = fx.preEnabledC2s = false; d->c2sStreamManager.m_streamResumed = fx.preResumed = false;
    d->streamAckManager.m_enabled = false;
    d->bindModeAvailable = (cfgEv() & EV_BINDMODE) != 0;
    // the REAL request step establishes the pending request with its continuation
    if (resume) { d->c2sStreamManager.m_canResume = fx.preCanResume = true; fx.q->startSmResume(); } else fx.q->startSmEnable();
    vp_assert(vp_c10_sent_n() == 1 && vp_c10_sent_tag(0) == (resume ? T_SM_RESUME : T_SM_ENABLE) && d->listener.index() == 5 && vp_c10_sig_total() == 0, "C10 the request step sends its request and reports no session yet");
    vp_c10_reset_logs();
    QDomElement el; bool resumable = false;
    if (ans == 0) el = vpElement(QStringLiteral("failed"), ns_stream_management.toString());
    else if (ans == 1 && resume) { el = vpElement(QStringLiteral("resumed"), ns_stream_management.toString()); vpAttr(el, QStringLiteral("h"), QString::number(vp_u32())); vpAttr(el, QStringLiteral("previd"), vpSymString(2)); }
    else if (ans == 1) { el = vpElement(QStringLiteral("enabled"), ns_stream_management.toString()); vpAttr(el, QStringLiteral("id"), vpSymString(2)); resumable = vp_bool(); if (resumable) vpAttr(el, QStringLiteral("resume"), QStringLiteral("true")); }
    else el = vpElement(vpFixString(1), ns_stream_management.toString());
    fx.q->handlePacketReceived(el);
    vp_assert(fx.nConnected() <= 1 && d->sessionStarted == (fx.nConnected() == 1), "C10 a session is reported as established at most once, and exactly when it is recorded as started");
    vp_assert(fx.nDisconnected() == 0, "C10 `disconnected` is only reported once the socket reports it");
    if (ans == 2) {
        // neither success nor failure: the negotiation is broken off
        vp_assert(!d->sessionStarted && fx.nError() == 1 && vp_c10_disconnects() == 1, "C10 an unexpected answer opens no session: error reported, disconnect requested");
        fx.requestsAllRetained();
    } else if (resume && ans == 1) {
        vp_assert(d->sessionStarted && vp_c10_sig_arg(fx.sig.connected, 1) && vp_c10_sig_arg(fx.sig.connected, 0), "C10 resumed: session opened, reported as resumed with stream management enabled");
        fx.requestsAllRetained();      // the requests of the resumed session are still answered by the server
        vp_assert(fx.listenerIsClient() && fx.nError() == 0 && vp_c10_disconnects() == 0, "C10 after the session opened the client itself listens");
    } else if (resume && d->bindModeAvailable) {
        vp_assert(!d->sessionStarted && sentOnly(T_BIND) && d->listener.index() == 6, "C10 resumption failed and binding is available: binding comes first, no session yet");
        fx.requestsAllRetained();
    } else {
        vp_assert(d->sessionStarted && !vp_c10_sig_arg(fx.sig.connected, 1) && vp_c10_sig_arg(fx.sig.connected, 0) == (ans == 1), "C10 new session opened, not resumed, stream management as answered");
        fx.requestsAllCancelled();     // a new session: nobody will answer the old requests
        vp_assert(fx.listenerIsClient() && fx.nError() == 0 && vp_c10_disconnects() == 0, "C10 after the session opened the client itself listens");
        vp_assert(ans != 1 || (d->c2sStreamManager.m_canResume == resumable && d->streamAckManager.m_enabled), "C10 <enabled/> decides whether the new session can be resumed");
    }
}

// ---- H9: the answer to the resource-binding request (legacy bind) arrives --------------------------------------------------------------
// answer (case): 0 <iq type=result id=ID><bind><jid>TEXT</jid></bind></iq> (whether TEXT is a full JID is the regular expression's
// verdict: arbitrary), 1 <iq type=error id=ID><bind/></iq>, 2 <iq type=result id=ID/> (not a bind answer); EV_SM_OFFERED: features offered sm
enum { EV_SM_OFFERED = 4 };
extern "C" void h_bind_answer()
{
    Fx &fx = *new Fx;       // instance cfg: the client itself listens, no pending request, no session reported on this connection yet
    auto *d = fx.d;
    const unsigned ans = cfgEv() & 3; const bool smOffered = (cfgEv() & EV_SM_OFFERED) != 0;
    d->isAuthenticated = fx.preAuth = true;
    d->c2sStreamManager.m_enabled = fx.preEnabledC2s = false; d->c2sStreamManager.m_streamResumed = fx.preResumed = false;
    d->streamAckManager.m_enabled = false;
    d->c2sStreamManager.m_smAvailable = smOffered;
    // the REAL request step establishes the pending request with its continuation
    fx.q->startResourceBinding();
    vp_assert(vp_c10_sent_n() == 1 && vp_c10_sent_tag(0) == T_BIND && d->listener.index() == 6 && vp_c10_sig_total() == 0, "C10 the bind step sends its request and reports no session yet");
    QString id = std::get<BindManager>(d->listener).m_iqId;
    vp_c10_reset_logs();
    QDomElement el = vpElement(QStringLiteral("iq"), ns_client.toString());
    vpAttr(el, QStringLiteral("id"), id);
    vpAttr(el, QStringLiteral("type"), ans == 1 ? QStringLiteral("error") : QStringLiteral("result"));
    if (ans != 2) {
        QDomElement b = vpElement(QStringLiteral("bind"), ns_bind.toString());
        if (ans == 0) { QDomElement j = vpElement(QStringLiteral("jid"), QString()); QString t = vpFixString(2); vp_dom_set_text(&j, &t); vp_dom_append(&b, &j); }
        vp_dom_append(&el, &b);
    }
    fx.q->handlePacketReceived(el);
    vp_assert(fx.nConnected() <= 1 && d->sessionStarted == (fx.nConnected() == 1), "C10 a session is reported as established at most once, and exactly when it is recorded as started");
    vp_assert(fx.nDisconnected() == 0, "C10 `disconnected` is only reported once the socket reports it");
    const bool gaveUp = fx.nError() == 1 && vp_c10_disconnects() == 1 && !d->sessionStarted;
    const bool goesOn = fx.nError() == 0 && vp_c10_disconnects() == 0 && !d->sessionStarted && sentOnly(T_SM_ENABLE) && d->listener.index() == 5;
    const bool opened = fx.nError() == 0 && vp_c10_disconnects() == 0 && d->sessionStarted && sentNoRequest() && fx.listenerIsClient();
    vp_assert(ans == 0 ? (gaveUp || (smOffered ? goesOn : opened)) : gaveUp,
              "C10 bind answered: the session opens only after a successful bind with nothing left to negotiate; with stream management offered the enable request comes first; any failure gives up (error reported, disconnect requested)");
    if (d->sessionStarted) fx.requestsAllCancelled(); else fx.requestsAllRetained();
}

// ---- H1r: the socket reports "disconnected", the session cannot be resumed, and the completion handler of the cancelled request issues a
// new request (retry-on-error pattern) through the REAL send path (OutgoingIqManager::sendIq -> StreamAckManager::send): that request must
// be completed as well - after a connection loss that cannot be resumed NO request is left outstanding ---------------------------------------
static OutgoingIqManager *g_iqMgr;
static std::optional<QXmppTask<IqResult>> g_retryTask;
static int g_handlerRuns;
static bool g_sawDisconnected;
static QString *g_newId, *g_newTo;
extern "C" void h_disconnected_reenter()
{
    Fx &fx = *new Fx;       // instance cfg: exactly one outstanding request (id of 1 unit); no next address selected; redirect pending or not
    auto *d = fx.d;
    const bool redirect = (vp_c10_cfg() & CFG_REDIRECT) != 0;
    // stream management was active on the lost connection, but the session is not resumable
    d->c2sStreamManager.m_canResume = fx.preCanResume = false;
    d->streamAckManager.m_enabled = fx.preSmAck = true;
    QString newId = vpFixString(2), newTo = vpFixString(2);   // fresh id (2 units; the pending one has 1), non-empty addressee
    g_iqMgr = &d->iqManager; g_newId = &newId; g_newTo = &newTo;
    fx.task[0]->then(nullptr, [](IqResult &&r) {
        g_handlerRuns++;
        if (auto *e = std::get_if<QXmppError>(&r)) {
            auto *se = std::any_cast<SendError>(&e->error);
            g_sawDisconnected = se && *se == SendError::Disconnected;
            QByteArray bytes; vp_c10_tagged(&bytes, T_STANZA);
            g_retryTask.emplace(g_iqMgr->sendIq(QXmppPacket(bytes, true), *g_newId, *g_newTo));
        }
    });
    vp_c10_set_sock_connected(false);      // the socket is in UnconnectedState when it reports `disconnected`: writes fail
    fx.q->_q_socketDisconnected();
    vp_assert(!d->isAuthenticated && !d->sessionStarted, "C10 after the socket disconnected the client is neither authenticated nor in a session");
    vp_assert(fx.nDisconnected() == 1 && fx.nConnected() == 0 && !vp_c10_sig_arg(fx.sig.disconnected, 0), "C10 exactly one `disconnected`, marked not resumable");
    vp_assert(vp_c10_conn_n() == (redirect ? 1u : 0u), "C10 a connect attempt exactly when a redirect is pending");
    vp_assert(g_handlerRuns == 1 && g_sawDisconnected && fx.task[0]->isFinished() && !d->iqManager.hasId(fx.key[0]), "C10 the outstanding request is completed exactly once (error: disconnected)");
    vp_assert(g_retryTask.has_value(), "C10 the completion handler ran with the error and issued its retry");
    if (g_retryTask) {
        vp_assert(g_retryTask->isFinished() && g_retryTask->hasResult() && std::holds_alternative<QXmppError>(g_retryTask->result()),
                  "C10 a request issued while the lost, non-resumable session is being closed is completed with an error as well (it must not stay outstanding)");
        vp_assert(!d->iqManager.hasId(newId), "C10 a request issued while the lost, non-resumable session is being closed does not stay in the request table");
    }
    vp_assert(fx.map->size() == 0, "C10 no request is outstanding after a connection loss that cannot be resumed");
    vp_assert(!d->streamAckManager.m_enabled, "C10 stream-management accounting is switched off when the session closes");
}
