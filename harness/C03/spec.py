COMMON = ['m_pre.c', 'qt_core.c', 'qt_dom.c', 'm_common.c']
def I(name, entry, **kw):
    d = dict(name=name, entry=entry, unwind=8, timeout_s=240, mem_gb=4, cdefs={'C03_MAXBYTES': 4}); d.update(kw); return d
SPEC = dict(
    property='C03',
    groups=[
        dict(name='bytes', harness='h_bytes.cpp', tus=[], models=COMMON + ['m_bytes.c'], cxxdefs={'C03_NBYTES': 4},
             instances=[
                 I('utf8_split', 'h_utf8_split', bound='valid UTF-8 byte string <= 4 bytes, 3 reads at arbitrary byte positions'),
                 I('utf8_boundary', 'h_utf8_boundary', bound='valid UTF-8 byte string <= 4 bytes, 3 reads cut between characters'),
                 I('utf8_split_in_char', 'h_utf8_split_in_char', known_finding='utf8_split_in_char', bound='as utf8_split'),
             ]),
        dict(name='text', harness='h_text.cpp', tus=[], models=COMMON + ['m_text.c'], cxxdefs={'C03_STANZAS': 2},
             instances=[
                 I('text_1read', 'h_text_1', cdefs={'C03_MAXBYTES': 4}, bound='whole stream in one read'),
                 I('text_2reads', 'h_text_2', cdefs={'C03_MAXBYTES': 4}, bound='2 reads'),
             ]),
    ],
    bounds=[], assumptions=[], outside=[],
)
