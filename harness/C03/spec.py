COMMON = ['m_pre.c', 'qt_core.c', 'qt_dom.c', 'm_common.c']
def I(name, entry, **kw):
    d = dict(name=name, entry=entry, unwind=8, timeout_s=240, mem_gb=4, cdefs={'C03_MAXBYTES': 4}); d.update(kw); return d
TD = {'C03_MAXBYTES': 4, 'C03_TCAP': 34}
TB = 'one read of arbitrary length at an arbitrary position of a stream window of [xml-decl] [ws] header [ws] (stanza [ws]){0..2} [close]'
SPEC = dict(
    property='C03',
    groups=[
        dict(name='bytes', harness='h_bytes.cpp', tus=[], models=COMMON + ['m_bytes.c'], cxxdefs={'C03_NBYTES': 4},
             instances=[
                 I('utf8_split', 'h_utf8_split', bound='valid UTF-8 byte string <= 4 bytes, 3 reads at arbitrary byte positions'),
                 I('utf8_boundary', 'h_utf8_boundary', bound='valid UTF-8 byte string <= 4 bytes, 3 reads cut between characters'),
                 I('utf8_split_in_char', 'h_utf8_split_in_char', known_finding='utf8_split_in_char', bound='as utf8_split'),
             ]),
        dict(name='text', harness='h_text.cpp', tus=[], models=COMMON + ['m_text.c'], cxxdefs={'C03_STANZAS': 2},
             instances=[
                 I('step_complete_start', 'h_step_complete_start', cdefs=TD, bound=TB),
                 I('step_complete_mid', 'h_step_complete_mid', cdefs=TD, bound=TB),
                 I('step_partial_start', 'h_step_partial_start', cdefs=TD, bound=TB),
                 I('step_partial_mid', 'h_step_partial_mid', cdefs=TD, bound=TB),
             ]),
        dict(name='restart', harness='h_restart.cpp', tus=[], models=COMMON + ['m_text.c', 'm_restart.c'],
             instances=[
                 I('restart_encrypted', 'h_restart_encrypted', cdefs=TD, bound='arbitrary receiver state: buffered text, cached header <= 3 units, pending bytes <= 3'),
                 I('restart_connected', 'h_restart_connected', cdefs=TD, bound='as restart_encrypted, direct TLS or not'),
             ]),
    ],
    bounds=[], assumptions=[], outside=[],
)
