# C03 - stream framing is independent of how the byte stream is split into reads.  Three groups:
#   bytes   : the REAL readyRead lambda of XmppSocket::setSocket (byte -> text), reached through the real QObject::connect template
#   text    : the REAL XmppSocket::processData as one inductive step over abstract token text (text -> events)
#   restart : the REAL connected/encrypted lambdas leave nothing of the old stream behind
import os, subprocess
COMMON = ['m_pre.c', 'qt_core.c', 'qt_dom.c', 'm_common.c']
def I(name, entry, **kw):
    d = dict(name=name, entry=entry, unwind=8, timeout_s=300, timeout_thorough_s=1500, mem_gb=4, cdefs={'C03_MAXBYTES': 4}); d.update(kw); return d
BB = 'valid UTF-8 byte string B of <= %d bytes (no NUL, no U+FEFF), delivered in 3 reads cut at arbitrary byte positions k1 <= k2 (empty reads included)'
TB = 'one read of arbitrary length at an arbitrary position of a stream window [xml-decl] [ws] header [ws] (stanza [ws]){0..%d} [close]; ids 8 bit, ws in {SP, LF}; every piece cut at every atom boundary'
def text_group(name, nst, tcap, tiers):
    td = {'C03_MAXBYTES': 4, 'C03_TCAP': tcap}
    return dict(name=name, harness='h_text.cpp', tus=[], models=COMMON + ['m_text.c'], cxxdefs={'C03_STANZAS': nst},
                instances=[I('step_%s%s' % (e, '' if nst == 2 else '_%dst' % nst), 'h_step_' + e, cdefs=td, tiers=tiers, bound=TB % nst)
                           for e in ('complete_start', 'complete_mid', 'partial_start', 'partial_mid')])
def bytes_group(name, nbytes, tiers):
    cd = {'C03_MAXBYTES': nbytes}; sfx = '' if nbytes == 4 else '_%db' % nbytes
    return dict(name=name, harness='h_bytes.cpp', tus=[], models=COMMON + ['m_bytes.c'], cxxdefs={'C03_NBYTES': nbytes},
                instances=[
                    I('utf8_split' + sfx, 'h_utf8_split', cdefs=cd, tiers=tiers, bound=BB % nbytes),
                    I('utf8_boundary' + sfx, 'h_utf8_boundary', cdefs=cd, tiers=tiers, bound=(BB % nbytes) + ', cuts between characters only'),
                ] + ([
                    # demonstrations that only run while the corresponding key is listed in /verif/known_findings.txt
                    I('utf8_split_in_char', 'h_utf8_split_in_char', cdefs=cd, tiers=tiers, known_finding='utf8_split_in_char', bound=BB % nbytes),
                    I('utf8_feff', 'h_utf8_feff', cdefs=cd, tiers=tiers, known_finding='feff_at_read_start', bound='as utf8_split, U+FEFF allowed in B'),
                ] if nbytes == 4 else []))
SPEC = dict(
    property='C03',
    groups=[
        bytes_group('bytes', 4, ('quick', 'thorough')),
        bytes_group('bytes6', 6, ('thorough',)),
        text_group('text', 2, 34, ('quick', 'thorough')),
        text_group('text3', 3, 38, ('thorough',)),
        dict(name='restart', harness='h_restart.cpp', tus=[], models=COMMON + ['m_text.c', 'm_restart.c'],
             instances=[
                 I('restart_encrypted', 'h_restart_encrypted', cdefs={'C03_MAXBYTES': 4, 'C03_TCAP': 34}, bound='arbitrary receiver state: buffered text / cached header <= 3 arbitrary units, pending bytes <= 3'),
                 I('restart_connected', 'h_restart_connected', cdefs={'C03_MAXBYTES': 4, 'C03_TCAP': 34}, bound='as restart_encrypted; direct TLS or not'),
             ]),
    ],
    bounds=[
        'byte layer: |B| <= 4 bytes (thorough: 6), 3 reads, any cut positions; 4 bytes = one character of maximal length, so a character split over 3 reads and neighbours before/after a split character are covered',
        'text layer: ONE arbitrary read from an arbitrary receiver state that satisfies the invariant (inductive step => any number of reads, any partition); window of <= 2 stanzas (thorough: 3) plus optional xml declaration, header, whitespace, close tag',
        'text is abstract: a piece (declaration / header / stanza / close tag) is a run of 2-3 atoms (private-use code units), the middle atom carries an 8-bit identity; cuts fall on every atom boundary (2 cut points inside each stanza/header/close, 1 inside the declaration)',
        'model string capacity 34 (38) UTF-16 units, asserted',
    ],
    assumptions=[
        'QString::fromUtf8 = spec-level RFC 3629 decoder with Qt 5.15 error behaviour (one U+FFFD per byte that does not start a well-formed complete sequence; a BOM at the start of ONE call is skipped); validated natively against libQt5Core on 21.4 million byte strings (all strings <= 3 bytes, structured 4-byte strings) by translation_validation',
        'B contains no U+FEFF: Qt\'s stateless decoder drops a BOM at the start of every call, so a U+FEFF that happens to be the first character of a read would be lost (split-dependent, observation reported; instance utf8_feff demonstrates it when listed as known finding feff_at_read_start)',
        'B contains no NUL byte (QString::fromUtf8(QByteArray) stops at the first NUL; NUL is not an XML character)',
        'nothing follows the stream close tag (a valid stream ends there)',
        'QRegularExpression: exactly the two pattern strings of processData are modelled over token text (pattern text is compared; a changed pattern makes the run inconclusive, not green)',
        'QDomDocument::setContent over token text: well-formed <=> [decl] ws* header (ws|stanza)* (close | literal "</stream:stream>") ws* with every piece complete; a proper prefix of a piece is never well-formed (true for the XML the atoms stand for); the literal close tag is recognised as the last 16 units of the text only',
        'the four signals of XmppSocket (moc-generated bodies) are replaced by a ghost event log (kind, element identity, namespace identity); stanzaReceived(null element) = keep-alive notification, not an event',
        'pre-state of the inductive step: m_dataBuffer = the received-but-undelivered text T[0..k), m_streamOpenElement = header text captured earlier (or empty); unreachable states of that shape are included (over-approximation)',
        'QObject::connectImpl records the functor slot object; the harness invokes it through the real QSlotObjectBase::call',
    ],
    outside=[
        'real XML tokenisation and the regex engine: ">" inside an attribute value of the header, CDATA/comments/PIs, "</stream:stream>" inside character data, xml declaration spanning several "?>"',
        'U+FEFF at the start of a read (see assumptions) and NUL bytes',
        'invalid UTF-8 input (replacement characters are not required to be split-independent)',
        'whitespace or anything else after the stream close tag; several stream headers inside one stream without restart',
        'the QSslSocket/QIODevice side: that readyRead is emitted for every arrival and readAll returns all pending bytes (Qt)',
        'dispatch of the events inside QXmppOutgoingClient/QXmppStream (other properties)',
    ],
)

def translation_validation(ctx):
    """the UTF-8 decoder model (c03_utf8.h, the same source the cbmc model includes) against the real QString::fromUtf8"""
    d = os.path.dirname(os.path.abspath(__file__)); exe = os.path.join(ctx['work'], 'tv_utf8')
    inc = ['-I/usr/include/x86_64-linux-gnu/qt5', '-I/usr/include/x86_64-linux-gnu/qt5/QtCore']
    r = ctx['run'](['g++', '-O2', '-std=c++17', '-fPIC'] + inc + ['-I' + d, os.path.join(d, 'tv_utf8.cpp'), '-o', exe, '-lQt5Core'])
    if r.returncode != 0: return dict(ok=False, n=0, detail='validator build failed: ' + r.stderr[-500:])
    r = ctx['run']([exe], timeout=120)
    out = (r.stdout or '').strip().split()
    if r.returncode == 0 and len(out) == 2 and out[0] == 'OK':
        return dict(ok=True, n=int(out[1]), detail='UTF-8 decoder model == QString::fromUtf8 (libQt5Core) on %s byte strings: all strings <= 3 bytes without NUL, structured 4-byte strings, all well-formed 4-byte sequences' % out[1])
    return dict(ok=False, n=0, detail='decoder model disagrees with QString::fromUtf8: ' + (r.stderr or '')[-400:])
