/* Spec-level UTF-8 decoder = the contract model of QString::fromUtf8 used by C03 (pure C, shared by the cbmc model in
   m_common.c and by the native validation against the real libQt5Core, see spec.py translation_validation).
   The includer defines U8_OUT(i, v): store UTF-16 unit v at output index i. */
/* u8_seq: length (1..4) of the well-formed (RFC 3629) sequence starting at p[0] given `avail` bytes; 0 if p[0] does not start
   a well-formed, complete sequence (stray continuation byte, overlong form, surrogate, > U+10FFFF, truncated). */
static uint32_t u8_seq(const uint8_t *p, uint32_t avail, uint32_t *cp) {
  uint8_t b0 = p[0];
  if (b0 < 0x80) { *cp = b0; return 1; }
  if (b0 >= 0xC2 && b0 <= 0xDF) { if (avail < 2 || (p[1] & 0xC0) != 0x80) return 0; *cp = ((uint32_t)(b0 & 0x1F) << 6) | (p[1] & 0x3F); return 2; }
  if (b0 >= 0xE0 && b0 <= 0xEF) { if (avail < 3 || (p[1] & 0xC0) != 0x80 || (p[2] & 0xC0) != 0x80) return 0;
    if (b0 == 0xE0 && p[1] < 0xA0) return 0; if (b0 == 0xED && p[1] >= 0xA0) return 0;
    *cp = ((uint32_t)(b0 & 0x0F) << 12) | ((uint32_t)(p[1] & 0x3F) << 6) | (p[2] & 0x3F); return 3; }
  if (b0 >= 0xF0 && b0 <= 0xF4) { if (avail < 4 || (p[1] & 0xC0) != 0x80 || (p[2] & 0xC0) != 0x80 || (p[3] & 0xC0) != 0x80) return 0;
    if (b0 == 0xF0 && p[1] < 0x90) return 0; if (b0 == 0xF4 && p[1] >= 0x90) return 0;
    *cp = ((uint32_t)(b0 & 0x07) << 18) | ((uint32_t)(p[1] & 0x3F) << 12) | ((uint32_t)(p[2] & 0x3F) << 6) | (p[3] & 0x3F); return 4; }
  return 0; }
/* decoder contract (Qt 5.15 QUtf8::convertToUnicode, stateless): well-formed sequences -> UTF-16; every byte that does not
   start a well-formed complete sequence -> one U+FFFD and decoding resumes at the next byte; a UTF-8 BOM at the very start
   of the input of ONE CALL is skipped. Returns the number of UTF-16 units written. `bound` = constant loop bound >= n. */
#define U8_DECODE_BODY(src, n, bound) \
  uint32_t o = 0, skip = 0; \
  if (n >= 3 && src[0] == 0xEF && src[1] == 0xBB && src[2] == 0xBF) skip = 3; \
  for (uint32_t i = 0; i < bound; i++) { if (i >= n) break; if (skip) { skip--; continue; } \
    uint32_t cp = 0; uint32_t l = u8_seq(src + i, n - i, &cp); \
    if (l == 0) { U8_OUT(o, 0xFFFD); o++; continue; } \
    if (cp >= 0x10000) { U8_OUT(o, (uint16_t)(0xD800 + ((cp - 0x10000) >> 10))); o++; U8_OUT(o, (uint16_t)(0xDC00 + ((cp - 0x10000) & 0x3FF))); o++; } \
    else { U8_OUT(o, (uint16_t)cp); o++; } \
    skip = l - 1; } \
  return o;
