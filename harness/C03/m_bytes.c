/* C03 layer (a): XmppSocket::processData is replaced by "append the decoded text to an accumulator" (the text layer is
   checked separately in group `text`). The accumulator is a flat array (no block sharing, no symbolic pointers). */
#ifdef HAVE_T_struct_QArrayData
#define C03_ACC 24
static uint32_t c03_hint16(const uint16_t *p) { return C03_MAXBYTES; }
static uint16_t c03_acc[C03_ACC]; static uint32_t c03_acc_len, c03_ncalls;
static void vpl_acc_append(const uint16_t *p, uint32_t n, uint32_t hint) { for (uint32_t i = 0; i < hint; i++) { if (i >= n) break; ASSERT(c03_acc_len < C03_ACC, "accumulator capacity"); c03_acc[c03_acc_len++] = p[i]; } }
void _ZN5QXmpp7Private10XmppSocket11processDataERK7QString(char *self, char *data) { QAD *d = *(QAD**)data; vpl_acc_append(qs_chars(d), d->f1, c03_hint16(qs_chars(d))); c03_ncalls++; }
static uint8_t vpl_acc_equals(const uint16_t *p, uint32_t n, uint32_t hint) { if (n != c03_acc_len) return 0; for (uint32_t i = 0; i < hint; i++) { if (i >= n) break; if (c03_acc[i] != p[i]) return 0; } return 1; }
uint8_t vp_c03_accumulated_equals(char *s) { QAD *d = *(QAD**)s; return vpl_acc_equals(qs_chars(d), d->f1, c03_hint16(qs_chars(d))); }
uint32_t vp_c03_process_calls(void) { return c03_ncalls; }
#endif
