/* C03 literal text layer: the searching / slicing members of QString that code inspecting the CHARACTERS of a buffer uses,
   with Qt 5.15's exact argument conventions (negative `from`, null vs empty, clamping), case-sensitive only.
   Every loop has a constant bound (C03_TCAP units of haystack, LIT_NEEDLE_MAX units of needle, both asserted), every result
   string is a fresh block (c03_qs / c03_slice of m_common.c: logarithmic shifter, no symbolic array index).
   Generally useful beyond C03 (needs c03_qs/c03_slice from harness/C03/m_common.c and the renames of lit_pre.c). */
#ifdef HAVE_T_struct_QArrayData
#undef _ZNK7QString3midEii
#undef _ZNK7QString4leftEi
#undef _ZNK7QString5rightEi
#undef _ZNK7QString7indexOfE5QChariN2Qt15CaseSensitivityE
#undef _ZN9QtPrivate8findCharE11QStringView5QCharxN2Qt15CaseSensitivityE
#undef _ZN9QtPrivate10startsWithE11QStringViewS0_N2Qt15CaseSensitivityE
#undef _ZN9QtPrivate8endsWithE11QStringViewS0_N2Qt15CaseSensitivityE
#ifndef LIT_NEEDLE_MAX
#define LIT_NEEDLE_MAX 16
#endif
#define LIT_CS(cs) ASSERT((cs) == 1, "literal QString model: case-insensitive search not modelled")
#define LIT_SZ(n, m) do { ASSERT((n) <= C03_TCAP, "literal QString model: haystack longer than the bound"); ASSERT((m) <= LIT_NEEDLE_MAX, "literal QString model: needle longer than the bound"); } while (0)
/* does nd[0..m) occur at position i of h?  (the caller guarantees i + m <= |h|) */
static uint8_t vpl_lit_match_at(const uint16_t *h, uint32_t i, const uint16_t *nd, uint32_t m) { uint8_t ok = 1; for (uint32_t j = 0; j < LIT_NEEDLE_MAX; j++) { if (j >= m) break; if (h[i + j] != nd[j]) ok = 0; } return ok; }
/* first occurrence at a position >= from / last occurrence at a position <= upto; -1 if none */
static int64_t vpl_lit_first(const uint16_t *h, uint32_t n, const uint16_t *nd, uint32_t m, uint32_t from) { int64_t r = -1;
  for (uint32_t i = 0; i < C03_TCAP; i++) { if (r < 0 && i >= from && i + m <= n && vpl_lit_match_at(h, i, nd, m)) r = i; } return r; }
static int64_t vpl_lit_last(const uint16_t *h, uint32_t n, const uint16_t *nd, uint32_t m, uint32_t upto) { int64_t r = -1;
  for (uint32_t i = 0; i < C03_TCAP; i++) { if (i <= upto && i + m <= n && vpl_lit_match_at(h, i, nd, m)) r = i; } return r; }
static uint32_t vpl_lit_count(const uint16_t *h, uint32_t n, const uint16_t *nd, uint32_t m) { uint32_t c = 0; for (uint32_t i = 0; i < C03_TCAP; i++) { if (i + m <= n && vpl_lit_match_at(h, i, nd, m)) c++; } return c; }
static void vpl_lit_widen(uint16_t *out, const uint8_t *l, uint32_t n) { for (uint32_t j = 0; j < LIT_NEEDLE_MAX; j++) out[j] = j < n ? l[j] : 0; }
/* QtPrivate::findString (qstring.cpp 5.15): from < 0 counts from the end; no match possible if needle does not fit after from */
static int64_t lit_find(const uint16_t *h, uint64_t n, int64_t from, const uint16_t *nd, uint64_t m) { LIT_SZ(n, m);
  if (from < 0) from += (int64_t)n; if ((uint64_t)((int64_t)m + from) > n) return -1; if (m == 0) return from; if (n == 0) return -1;
  ASSERT(from >= 0, "literal QString model: indexOf with from < -size (Qt reads before the buffer)"); ASSUME(from >= 0);
  return vpl_lit_first(h, (uint32_t)n, nd, (uint32_t)m, (uint32_t)from); }
/* qFindChar: from < 0 -> max(from + size, 0) */
static int64_t lit_find_char(const uint16_t *h, uint64_t n, uint16_t c, int64_t from) { LIT_SZ(n, 1); if (from < 0) { from += (int64_t)n; if (from < 0) from = 0; } if ((uint64_t)from >= n) return -1;
  return vpl_lit_first(h, (uint32_t)n, &c, 1, (uint32_t)from); }
/* qLastIndexOf(haystack, QChar, from) */
static int64_t lit_rfind_char(const uint16_t *h, uint64_t n, uint16_t c, int64_t from) { LIT_SZ(n, 1); if (from < 0) from += (int64_t)n; if ((uint64_t)from >= n) return -1;
  return vpl_lit_last(h, (uint32_t)n, &c, 1, (uint32_t)from); }
/* qLastIndexOf(haystack, from, needle) */
static int64_t lit_rfind(const uint16_t *h, uint64_t n, int64_t from, const uint16_t *nd, uint64_t m) { LIT_SZ(n, m); if (m == 1) return lit_rfind_char(h, n, nd[0], from);
  if (from < 0) from += (int64_t)n; if (from == (int64_t)n && m == 0) return from; int64_t delta = (int64_t)n - (int64_t)m; if ((uint64_t)from >= n || delta < 0) return -1; if (from > delta) from = delta;
  return vpl_lit_last(h, (uint32_t)n, nd, (uint32_t)m, (uint32_t)from); }
/* qt_starts_with / qt_ends_with: a null haystack starts with a null needle only ("historical behaviour") */
static uint8_t lit_starts(const uint16_t *h, uint64_t n, int hnull, const uint16_t *nd, uint64_t m, int ndnull) { if (hnull) return ndnull != 0; if (n == 0) return m == 0; if (m > n) return 0; LIT_SZ(n, m); return vpl_lit_match_at(h, 0, nd, (uint32_t)m); }
static uint8_t vpl_lit_ends_at(const uint16_t *h, uint32_t n, const uint16_t *nd, uint32_t m) { uint8_t r = 0; for (uint32_t i = 0; i < C03_TCAP; i++) { if (i + m == n && vpl_lit_match_at(h, i, nd, m)) r = 1; } return r; }
static uint8_t lit_ends(const uint16_t *h, uint64_t n, int hnull, const uint16_t *nd, uint64_t m, int ndnull) { if (hnull) return ndnull != 0; if (n == 0) return m == 0; if (m > n) return 0; LIT_SZ(n, m); if (m == 0) return 1; return vpl_lit_ends_at(h, (uint32_t)n, nd, (uint32_t)m); }
#define LQ(x) QAD *x##d = *(QAD**)x; const uint16_t *x##p = qs_chars(x##d); uint32_t x##n = x##d->f1; int x##null = (x##d == SHARED_NULL)
/* ---- indexOf / lastIndexOf / contains (inline -> indexOf) / count ---- */
uint32_t _ZNK7QString7indexOfERKS_iN2Qt15CaseSensitivityE(char *self, char *s, uint32_t from, uint32_t cs) { LIT_CS(cs); LQ(self); LQ(s); return (uint32_t)lit_find(selfp, selfn, (int32_t)from, sp, sn); }
uint32_t _ZNK7QString7indexOfE13QLatin1StringiN2Qt15CaseSensitivityE(char *self, uint32_t ln, char *l, uint32_t from, uint32_t cs) { LIT_CS(cs); LQ(self); ASSERT(ln <= LIT_NEEDLE_MAX, "literal QString model: needle longer than the bound"); uint16_t w[LIT_NEEDLE_MAX]; vpl_lit_widen(w, (uint8_t*)l, ln); return (uint32_t)lit_find(selfp, selfn, (int32_t)from, w, ln); }
uint32_t _ZNK7QString7indexOfE5QChariN2Qt15CaseSensitivityE(char *self, uint16_t c, uint32_t from, uint32_t cs) { LIT_CS(cs); LQ(self); return (uint32_t)lit_find_char(selfp, selfn, c, (int32_t)from); }
uint64_t _ZN9QtPrivate10findStringE11QStringViewxS0_N2Qt15CaseSensitivityE(uint64_t na, char *a, uint64_t from, uint64_t nb, char *b, uint32_t cs) { LIT_CS(cs); return (uint64_t)lit_find((uint16_t*)a, na, (int64_t)from, (uint16_t*)b, nb); }
uint64_t _ZN9QtPrivate8findCharE11QStringView5QCharxN2Qt15CaseSensitivityE(uint64_t na, char *a, uint16_t c, uint64_t from, uint32_t cs) { LIT_CS(cs); return (uint64_t)lit_find_char((uint16_t*)a, na, c, (int64_t)from); }
uint32_t _ZNK7QString11lastIndexOfERKS_iN2Qt15CaseSensitivityE(char *self, char *s, uint32_t from, uint32_t cs) { LIT_CS(cs); LQ(self); LQ(s); return (uint32_t)lit_rfind(selfp, selfn, (int32_t)from, sp, sn); }
uint32_t _ZNK7QString11lastIndexOfE13QLatin1StringiN2Qt15CaseSensitivityE(char *self, uint32_t ln, char *l, uint32_t from, uint32_t cs) { LIT_CS(cs); LQ(self); ASSERT(ln <= LIT_NEEDLE_MAX, "literal QString model: needle longer than the bound"); uint16_t w[LIT_NEEDLE_MAX]; vpl_lit_widen(w, (uint8_t*)l, ln); return (uint32_t)lit_rfind(selfp, selfn, (int32_t)from, w, ln); }
uint32_t _ZNK7QString11lastIndexOfE5QChariN2Qt15CaseSensitivityE(char *self, uint16_t c, uint32_t from, uint32_t cs) { LIT_CS(cs); LQ(self); return (uint32_t)lit_rfind_char(selfp, selfn, c, (int32_t)from); }
uint64_t _ZN9QtPrivate11lastIndexOfE11QStringViewxS0_N2Qt15CaseSensitivityE(uint64_t na, char *a, uint64_t from, uint64_t nb, char *b, uint32_t cs) { LIT_CS(cs); return (uint64_t)lit_rfind((uint16_t*)a, na, (int64_t)from, (uint16_t*)b, nb); }
uint32_t _ZNK7QString5countE5QCharN2Qt15CaseSensitivityE(char *self, uint16_t c, uint32_t cs) { LIT_CS(cs); LQ(self); LIT_SZ(selfn, 1); return vpl_lit_count(selfp, selfn, &c, 1); }
uint32_t _ZNK7QString5countERKS_N2Qt15CaseSensitivityE(char *self, char *s, uint32_t cs) { LIT_CS(cs); LQ(self); LQ(s); LIT_SZ(selfn, sn); ASSERT(sn > 0, "literal QString model: count of an empty needle"); return vpl_lit_count(selfp, selfn, sp, sn); }
/* ---- startsWith / endsWith ---- */
uint8_t _ZNK7QString10startsWithERKS_N2Qt15CaseSensitivityE(char *self, char *s, uint32_t cs) { LIT_CS(cs); LQ(self); LQ(s); return lit_starts(selfp, selfn, selfnull, sp, sn, snull); }
uint8_t _ZNK7QString10startsWithE13QLatin1StringN2Qt15CaseSensitivityE(char *self, uint32_t ln, char *l, uint32_t cs) { LIT_CS(cs); LQ(self); ASSERT(ln <= LIT_NEEDLE_MAX, "literal QString model: needle longer than the bound"); uint16_t w[LIT_NEEDLE_MAX]; vpl_lit_widen(w, (uint8_t*)l, ln); return lit_starts(selfp, selfn, selfnull, w, ln, l == 0); }
uint8_t _ZNK7QString10startsWithE5QCharN2Qt15CaseSensitivityE(char *self, uint16_t c, uint32_t cs) { LIT_CS(cs); LQ(self); return selfn > 0 && selfp[0] == c; }
uint8_t _ZN9QtPrivate10startsWithE11QStringViewS0_N2Qt15CaseSensitivityE(uint64_t na, char *a, uint64_t nb, char *b, uint32_t cs) { LIT_CS(cs); return lit_starts((uint16_t*)a, na, a == 0, (uint16_t*)b, nb, b == 0); }
uint8_t _ZNK7QString8endsWithERKS_N2Qt15CaseSensitivityE(char *self, char *s, uint32_t cs) { LIT_CS(cs); LQ(self); LQ(s); return lit_ends(selfp, selfn, selfnull, sp, sn, snull); }
uint8_t _ZNK7QString8endsWithE13QLatin1StringN2Qt15CaseSensitivityE(char *self, uint32_t ln, char *l, uint32_t cs) { LIT_CS(cs); LQ(self); ASSERT(ln <= LIT_NEEDLE_MAX, "literal QString model: needle longer than the bound"); uint16_t w[LIT_NEEDLE_MAX]; vpl_lit_widen(w, (uint8_t*)l, ln); return lit_ends(selfp, selfn, selfnull, w, ln, l == 0); }
uint8_t _ZNK7QString8endsWithE5QCharN2Qt15CaseSensitivityE(char *self, uint16_t c, uint32_t cs) { LIT_CS(cs); LQ(self); LIT_SZ(selfn, 1); return selfn > 0 && vpl_lit_ends_at(selfp, selfn, &c, 1); }
uint8_t _ZN9QtPrivate8endsWithE11QStringViewS0_N2Qt15CaseSensitivityE(uint64_t na, char *a, uint64_t nb, char *b, uint32_t cs) { LIT_CS(cs); return lit_ends((uint16_t*)a, na, a == 0, (uint16_t*)b, nb, b == 0); }
/* ---- mid / left / right / remove / chop / truncate: QContainerImplHelper::mid conventions, always a fresh block ---- */
void _ZNK7QString3midEii(char *ret, char *self, uint32_t pos, uint32_t cnt) { LQ(self); int32_t p = (int32_t)pos, len = (int32_t)cnt; int nul; mid_calc((int32_t)selfn, &p, &len, &nul);
  if (nul || (selfnull && len == 0)) { *(QAD**)ret = SHARED_NULL; return; } *(QAD**)ret = c03_slice(selfp, selfn, (uint32_t)p, (uint32_t)(p + len)); }
void _ZNK7QString4leftEi(char *ret, char *self, uint32_t cnt) { LQ(self); if (selfnull) { *(QAD**)ret = SHARED_NULL; return; } if (cnt >= selfn) cnt = selfn; *(QAD**)ret = c03_slice(selfp, selfn, 0, cnt); }
void _ZNK7QString5rightEi(char *ret, char *self, uint32_t cnt) { LQ(self); if (selfnull) { *(QAD**)ret = SHARED_NULL; return; } if (cnt >= selfn) cnt = selfn; *(QAD**)ret = c03_slice(selfp, selfn, selfn - cnt, selfn); }
char* _ZN7QString6removeEii(char *self, uint32_t pos, uint32_t cnt) { LQ(self); int32_t p = (int32_t)pos, len = (int32_t)cnt; if (p < 0) p += (int32_t)selfn; if ((uint32_t)p >= selfn) return self;
  if (len >= (int32_t)selfn - p) { *(QAD**)self = c03_slice(selfp, selfn, 0, (uint32_t)p); return self; } if (len <= 0) return self;
  QAD *tail = c03_slice(selfp, selfn, (uint32_t)(p + len), selfn); *(QAD**)self = c03_qs(selfp, (uint32_t)p, qs_chars(tail), tail->f1); return self; }
void _ZN7QString4chopEi(char *self, uint32_t cnt) { LQ(self); int32_t c = (int32_t)cnt; if (c >= (int32_t)selfn) { *(QAD**)self = SHARED_NULL; return; } if (c > 0) *(QAD**)self = c03_slice(selfp, selfn, 0, selfn - (uint32_t)c); }
void _ZN7QString8truncateEi(char *self, uint32_t pos) { LQ(self); if ((int32_t)pos < (int32_t)selfn) *(QAD**)self = c03_slice(selfp, selfn, 0, (int32_t)pos < 0 ? 0 : pos); }
#endif
