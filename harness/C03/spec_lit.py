# C03 text layer, LITERAL rendering (lit_*): ONE inductive step of the unmodified XmppSocket::processData over a stream text that
# carries the real delimiter characters, with exact models of the QString members that inspect characters (lit_qstring.c) and
# character-level models of the two regular expressions and of QDomDocument::setContent (lit_text.c).
# One cbmc instance per LAYOUT of the stream window (which optional pieces are present, how many stanzas, their shapes): the layout
# is a compile-time constant (-DLIT_LAYOUT/-DLIT_NS/-DLIT_SHS), everything else (identities, whitespace kind, the two cut
# positions of the read) stays symbolic.  lit_sym_*: layout symbolic as well (thorough tier).
LIT_MODELS = ['m_pre.c', 'lit_pre.c', 'qt_core.c', 'qt_dom.c', 'm_common.c', 'lit_qstring.c', 'lit_text.c']
SHAPES = {0: '<N/>', 1: '<N>T</N>', 2: '<N A="T"/>', 3: '<N A="/>"/>', 4: '<N><M/></N>'}
SHLEN = {0: 4, 1: 8, 2: 10, 3: 11, 4: 11}
DECL = "<?xml D?>"; HDR = "<stream:stream A='V'>"; CLOSE = '</stream:stream>'
Q = ('quick', 'thorough'); TH = ('thorough',)
def layout(part, shapes, decl=0, ws0=0, stale=0, wsl=0, close=0, wsa=()):
    """part 1: window starts at the stream start; 2: header received earlier (cached). wsa[k] = whitespace after stanza k"""
    wsa = tuple(wsa) + (0,) * (len(shapes) - len(wsa))
    mask = decl | ws0 << 1 | stale << 2 | wsl << 3 | close << 4
    for k, w in enumerate(wsa): mask |= w << (5 + k)
    shs = 0
    for k, s_ in enumerate(shapes): shs |= s_ << (4 * k)
    head = 9 * decl + ws0 + 21
    body = wsl + sum(SHLEN[s_] + w for s_, w in zip(shapes, wsa)) + 16 * close
    if part == 1: n = head + body; tcap = max(n + 16, 21 * stale + head + 15)
    else: n = body; tcap = head + n + 16
    txt = ''
    if part == 1: txt = ("[stale header cached] " if stale else '') + (DECL if decl else '') + ('ws ' if ws0 else '') + HDR
    else: txt = '{' + (DECL if decl else '') + ('ws ' if ws0 else '') + HDR + ' cached} '
    txt += (' ws ' if wsl else ' ') + ' '.join(SHAPES[s_] + (' ws' if w else '') for s_, w in zip(shapes, wsa)) + (' ' + CLOSE if close else '')
    return dict(cdefs={'C03_MAXBYTES': 4, 'C03_TCAP': tcap + 1, 'QS_CAP': tcap + 1, 'LIT_LAYOUT': mask, 'LIT_NS': len(shapes), 'LIT_SHS': shs, 'LIT_DECL': 1}, tcap=tcap + 1, txt=txt, n=n)
def LI(name, entry, lay, tiers, what, **kw):
    d = dict(name=name, entry=entry, unwind=8, timeout_s=300, timeout_thorough_s=1500, mem_gb=4, tiers=tiers, model_loop_bound=lay['tcap'] + 3, cdefs=lay['cdefs'],
             bound='%s; stream window (%d units, every unit a cut position): %s; names/values/text = one abstract unit each (8-bit identity), ws in {SP, LF}' % (what, lay['n'], lay['txt']))
    d.update(kw); return d
STEP = 'one read T[k..k2) for ANY unit positions k <= k2 from the receiver state "T[0..k) buffered"'
TWO = 'two reads T[0..k1), T[k1..k2): k1 any position inside a final closing tag after its "</" and before its ">", k2 any later piece boundary'
def step(name, lay, tiers): return LI(name, 'h_lit_step_start' if 'cached}' not in lay['txt'] else 'h_lit_step_mid', lay, tiers, STEP)
insts = [
    # header received earlier: T = stanzas / close only
    step('lit_mid_text_attr_close', layout(2, (1, 2), close=1, wsa=(1, 0)), Q),
    step('lit_mid_empty_text', layout(2, (0, 1), close=1), Q),
    step('lit_mid_quoted_nested_ws', layout(2, (3, 4), wsl=1, wsa=(0, 1)), Q),
    step('lit_mid_text_ws', layout(2, (1,), decl=1, ws0=1, wsa=(1,)), Q),
    # window starts at the stream start
    step('lit_start_decl_text_close', layout(1, (1,), decl=1, ws0=1, wsl=1, close=1), Q),
    step('lit_start_stale_attr_ws', layout(1, (2,), ws0=1, stale=1, wsa=(1,)), Q),
    LI('lit_two_reads', 'h_lit_two_reads', layout(2, (1,), wsl=1, wsa=(1,)), Q, TWO),
    LI('lit_two_reads_nested', 'h_lit_two_reads', layout(2, (4,), wsl=1), Q, TWO),
]
# thorough: every ordered pair of stanza shapes after an earlier header (optional pieces alternate deterministically), every shape
# right after the header at the stream start (with / without declaration, stale header), three stanzas, more two-read layouts
for s1 in range(5):
    for s2 in range(5):
        insts.append(step('lit_mid_pair_%d%d' % (s1, s2), layout(2, (s1, s2), decl=(s1 + 2 * s2) % 3 == 0, ws0=(s1 + s2) % 2, wsl=s1 % 2, close=(s1 + s2 + 1) % 2, wsa=(s2 % 2, (s1 + 1) % 2)), TH))
for s1 in range(5):
    insts.append(step('lit_start_shape_%d' % s1, layout(1, (s1,), decl=s1 % 2, ws0=(s1 // 2) % 2, stale=(s1 + 1) % 2, wsl=(s1 + 1) % 2, close=s1 % 2, wsa=(s1 % 2,)), TH))
    insts.append(step('lit_start_shape_%d_b' % s1, layout(1, (s1,), decl=(s1 + 1) % 2, ws0=1, stale=s1 % 2, wsl=s1 % 2, close=(s1 + 1) % 2, wsa=((s1 + 1) % 2,)), TH))
insts += [
    step('lit_start_header_only', layout(1, (), decl=1, ws0=1, wsl=1), TH),
    step('lit_start_header_close', layout(1, (), stale=1, close=1), TH),
    step('lit_mid_close_only', layout(2, (), decl=1, wsl=1, close=1), TH),
    step('lit_mid_three', layout(2, (1, 0, 4), close=1, wsa=(0, 1, 0)), TH),
    step('lit_mid_three_b', layout(2, (2, 3, 1), wsl=1, wsa=(1, 0, 1)), TH),
    LI('lit_two_reads_close', 'h_lit_two_reads', layout(2, (1,), close=1, wsa=(1,)), TH, TWO),
    LI('lit_two_reads_pair', 'h_lit_two_reads', layout(2, (0, 1), close=1, wsa=(0, 1)), TH, TWO),
    LI('lit_two_reads_pair_b', 'h_lit_two_reads', layout(2, (1, 4), decl=1, ws0=1, wsl=1, close=1), TH, TWO),
    LI('lit_two_reads_quoted', 'h_lit_two_reads', layout(2, (3, 1), wsa=(1, 0)), TH, TWO),
]
GROUPS = [dict(name='lit', harness='lit_text.cpp', tus=[], models=LIT_MODELS, cxxdefs={'C03_STANZAS': 3}, instances=insts)]
BOUNDS = [
    'literal text layer (lit_*): ONE arbitrary read from an arbitrary receiver state that satisfies the invariant (inductive step => any number of reads, any partition), per LAYOUT of the stream window; a layout fixes which optional pieces are present ([xml declaration] [ws] header [ws] (stanza [ws]){0..3} [close], or the same without the header when the header was received earlier), the number of stanzas and their shapes; identities (8 bit each), whitespace kind (SP/LF) and BOTH cut positions of the read are symbolic: the read may begin and end at EVERY unit position (inside "</", between "/" and ">", inside a name, inside a quoted attribute value, inside "</stream:stream>", inside "<?xml")',
    'literal rendering: real delimiter characters < / > ? = \' " SP LF at their true positions, the literal names "<?xml", "<stream:stream", "</stream:stream>"; names, attribute names/values and character data are ONE abstract (private-use) unit each; stanza shapes <N/>, <N>T</N>, <N A="T"/>, <N A="/>"/> (delimiters inside a quoted value), <N><M/></N> (nesting)',
    'quick tier: 6 step layouts + 2 two-read layouts (1-2 stanzas); thorough: 25 shape pairs after an earlier header, 10 single shapes at the stream start, header only / close only, 2 three-stanza layouts, 6 two-read layouts (the cut closing tag belongs to the last stanza or is </stream:stream>); model string capacity = longest wrapped document of the layout + 1 (<= 85 units), asserted',
]
ASSUMPTIONS = [
    'lit_*: QDomDocument::setContent(text, namespaceProcessing=true) succeeds iff text is well-formed in the XML subset the renderer can produce: optional XML declaration at offset 0 only, elements with matching nesting (close name compared by its first unit), attributes name="value" with either quote (delimiters inside the quotes are data, "<" is not allowed there), character data, exactly one root, only whitespace outside it; entities, CDATA, comments, other PIs, DOCTYPE make the run inconclusive (model assertion), they are never rendered. Qt\'s XML tokenizer itself is trusted',
    'lit_*: the DOM handed to the signals is the stream element (identity = first unit of its first attribute value) with one child per top-level element (identity = first unit of its name, content = last unit of attribute value / character data / nested name, namespace = the stream element\'s)',
    'lit_*: QRegularExpression: exactly the two pattern strings of processData, implemented on the characters (^(<\\?xml.*\\?>)?\\s*<stream:stream[^>]*> with greedy ".*" that does not cross LF and backtracking over the optional group; </stream:stream>$ with the optional final LF); \\s = ASCII white space (no UCP); a changed pattern makes the run inconclusive',
    'lit_*: QString::indexOf/lastIndexOf/contains/count/startsWith/endsWith (QString, QLatin1String, QChar, QStringView forms), mid/left/right/remove/chop/truncate/resize/insert(0,..)/trimmed/append are modelled with Qt 5.15\'s argument conventions on strings up to the capacity, case-sensitive only (a case-insensitive call makes the run inconclusive); needles <= 16 units',
    'lit_*: pre-state of the step: m_dataBuffer = T[0..k) for any k that is 0 or lies INSIDE a piece (a non-empty buffer never ends between pieces: the progress assertion of the previous step; states with a complete but undelivered buffer were dropped because a harmless change - parse only when the read contains ">" - was reported from such an unreachable state), m_streamOpenElement = header text captured earlier / stale header of a previous stream / empty; unreachable states of that shape are included (over-approximation)',
]
OUTSIDE = [
    'lit_*: layouts not listed (more than 3 stanzas, deeper nesting than two levels, several attributes, names/values/text longer than one unit, whitespace inside tags); ">" inside an attribute value of the STREAM HEADER (the header regex [^>]*> of the real code stops there; listed above under real XML tokenisation); entities, CDATA, comments, processing instructions other than the XML declaration',
]
