// C03 layer (b): text -> events. The REAL XmppSocket::processData (src/base/Stream.cpp) is fed a symbolic token stream cut
// into four reads at arbitrary positions; the emitted signals must be exactly the events of the stream, in order.
#include "base/Stream.cpp"
#include "vp_harness.h"
#include "vp_dom.h"
extern "C" {
void vp_c03_make_stream(QString *text, QString *cachedHeader, unsigned maxStanzas);
void vp_c03_chunk(QString *out, const QString *text, unsigned from, unsigned to);
unsigned vp_c03_events(); unsigned vp_c03_expected(); bool vp_c03_events_are_prefix();
}
#ifndef C03_STANZAS
#define C03_STANZAS 3
#endif
// XmppSocket declares `friend class ::tst_QXmppStream` (its unit test): the harness uses that door to the private members
class tst_QXmppStream {
public:
    static void feed(XmppSocket *s, const QString &chunk) { s->processData(chunk); }
    static void setCachedHeader(XmppSocket *s, const QString &h) { s->m_streamOpenElement = h; }
    static bool bufferEmpty(XmppSocket *s) { return s->m_dataBuffer.isEmpty(); }
};

static void run(unsigned reads)
{
    auto *s = new XmppSocket(nullptr);
    QString text, cached;
    vp_c03_make_stream(&text, &cached, C03_STANZAS);
    tst_QXmppStream::setCachedHeader(s, cached);      // empty unless the header arrived before this part of the stream
    unsigned n = text.size();
    unsigned k[5]; k[0] = 0; k[4] = n;
    k[1] = vp_u32(); k[2] = vp_u32(); k[3] = vp_u32();
    vp_assume(k[1] <= k[2] && k[2] <= k[3] && k[3] <= n);
    if (reads < 4) vp_assume(k[3] == n);
    if (reads < 3) vp_assume(k[2] == n);
    if (reads < 2) vp_assume(k[1] == n);
    for (unsigned i = 0; i < reads; i++) {
        QString chunk; vp_c03_chunk(&chunk, &text, k[i], k[i + 1]);
        tst_QXmppStream::feed(s, chunk);
        vp_assert(vp_c03_events_are_prefix(), "C03 after every read the events emitted so far are the first events of the stream, unaltered and in order");
    }
    vp_assert(vp_c03_events() == vp_c03_expected(), "C03 after the last read every event of the stream has been delivered exactly once");
    vp_assert(tst_QXmppStream::bufferEmpty(s), "C03 nothing of a completely delivered stream is left in the buffer");
}
extern "C" void h_text_1() { run(1); }
extern "C" void h_text_2() { run(2); }
extern "C" void h_text_3() { run(3); }
extern "C" void h_text_4() { run(4); }
