// C03 layer (b): text -> events, as ONE INDUCTIVE STEP of the REAL XmppSocket::processData (src/base/Stream.cpp).
// T is a symbolic token stream (see m_text.c). Invariant I(j,k): everything before position j of T has been delivered
// (events of the pieces ending <= j, exactly once, in order), m_dataBuffer == T[j..k), j is not inside a piece, and
// m_streamOpenElement is the header text captured when the header was consumed. The step feeds an arbitrary next read T[k..k2)
// and must re-establish I(j2,k2) for j2 = k2 - |m_dataBuffer| having emitted exactly the events of the pieces ending in
// (j, j2]; and it must make progress (j2 == k2) whenever k2 is not inside a piece. By induction over the reads this is the
// property for every partition of the stream into any number of reads (including one read, and one unit at a time).
// What precedes position j matters only through the cached header, so the harness takes j = 0 and lets T be the part of the
// stream from there on ("header received earlier" is one of the symbolic shapes of T).
#include "base/Stream.cpp"
#include "vp_harness.h"
#include "vp_dom.h"
extern "C" {
void vp_c03_make_stream(QString *text, unsigned maxStanzas, unsigned part);
unsigned vp_c03_length(); bool vp_c03_boundary(unsigned pos);
void vp_c03_cached_at(QString *out, unsigned j, bool x0); void vp_c03_slice(QString *out, unsigned from, unsigned to);
bool vp_c03_events_are(unsigned j, unsigned j2); unsigned vp_c03_events(); unsigned vp_c03_header_end();
}
#ifndef C03_STANZAS
#define C03_STANZAS 3
#endif
// XmppSocket declares `friend class ::tst_QXmppStream` (its unit test): the harness uses that door to the private members
class tst_QXmppStream {
public:
    static void feed(XmppSocket *s, const QString &chunk) { s->processData(chunk); }
    static QString &cached(XmppSocket *s) { return s->m_streamOpenElement; }
    static QString &buffer(XmppSocket *s) { return s->m_dataBuffer; }
};

// mode 0: any step; 1: steps that end between pieces (progress); 2: steps that end inside a piece
// part 0: any; 1: T starts at the stream start (nothing cached); 2: the header was received earlier (T = stanzas/close only)
static void step(int mode, unsigned part)
{
    auto *s = new XmppSocket(nullptr);
    QString T; vp_c03_make_stream(&T, C03_STANZAS, part);
    unsigned n = vp_c03_length();
    const unsigned j = 0;
    unsigned k = vp_u32(), k2 = vp_u32();
    vp_assume(k <= k2 && k2 <= n);
    bool complete = vp_c03_boundary(k2);
    if (mode == 1) vp_assume(complete);
    if (mode == 2) vp_assume(!complete);
    const bool x0 = false;
    // pre-state I(j,k)
    QString cachedPre; vp_c03_cached_at(&cachedPre, j, x0);
    QString bufPre; vp_c03_slice(&bufPre, j, k);
    tst_QXmppStream::cached(s) = cachedPre;
    tst_QXmppStream::buffer(s) = bufPre;
    // the read
    QString chunk; vp_c03_slice(&chunk, k, k2);
    tst_QXmppStream::feed(s, chunk);
    // post-state
    unsigned left = tst_QXmppStream::buffer(s).size();
    vp_assert(left <= k2 - j, "C03 the buffer never holds more than what was received and not yet delivered");
    vp_assume(left <= k2 - j);
    unsigned j2 = k2 - left;
    QString rest; vp_c03_slice(&rest, j2, k2);
    vp_assert(tst_QXmppStream::buffer(s) == rest, "C03 the buffer is exactly the undelivered tail of the received text");
    vp_assert(vp_c03_boundary(j2), "C03 delivery stops between pieces, never inside one");
    vp_assert(vp_c03_events_are(j, j2), "C03 exactly the events of the consumed pieces are emitted, once each, in stream order, with their content");
    if (complete) vp_assert(j2 == k2, "C03 everything is delivered as soon as the received text ends between pieces");
    unsigned hend = vp_c03_header_end();
    if (hend > j && hend <= j2) {
        QString want; vp_c03_slice(&want, j, hend);
        vp_assert(tst_QXmppStream::cached(s) == want, "C03 the stream header is cached when it is consumed");
    } else {
        vp_assert(tst_QXmppStream::cached(s) == cachedPre, "C03 the cached stream header is kept");
    }
}
extern "C" void h_step_complete_start() { step(1, 1); }
extern "C" void h_step_complete_mid() { step(1, 2); }
extern "C" void h_step_partial_start() { step(2, 1); }
extern "C" void h_step_partial_mid() { step(2, 2); }
