/* C03 environment shared by both layers: spec-level UTF-8 decoder (model of QString::fromUtf8), QObject::connect capture,
   socket reads, QXmppLoggable plumbing. */
#undef _ZN7QString15fromUtf8_helperEPKci
#ifdef HAVE_T_struct_QArrayData
/* stores into model blocks always go through the typed member at a plain index (a store through a derived pointer at a
   symbolic offset makes cbmc treat the whole block as one opaque value) */
#define C03_BD(d) (((struct qb*)(d))->data)
#define C03_SD(d) (((struct qs*)(d))->data)
/* ---- UTF-8 (RFC 3629): spec-level decoder shared with the native validator (c03_utf8.h) ---- */
#ifndef C03_MAXBYTES
#define C03_MAXBYTES 8
#endif
#include "c03_utf8.h"
#define U8_OUT(i, v) C03_SD(dq)[i] = (v)
static uint32_t vpl_u8_decode(QAD *dq, const uint8_t *src, uint32_t n, uint32_t hint) { U8_DECODE_BODY(src, n, hint) }
/* constant loop bounds: the `hint` of a model block without the "empty => 0" shortcut of qt_core.c (a symbolic length would
   turn that into a symbolic bound and every loop would be unrolled to the model loop bound) */
static uint32_t c03_hint8(const uint8_t *p) { return C03_MAXBYTES; }
static uint32_t vpl_c03_strlen(const uint8_t *p) { uint32_t n = 0; for (; n <= C03_MAXBYTES; n++) { if (!p[n]) break; } ASSERT(n <= C03_MAXBYTES, "strlen model: string longer than the bound of this harness"); return n; }
size_t strlen(const char *s) { return vpl_c03_strlen((const uint8_t*)s); }
void _ZN7QString15fromUtf8_helperEPKci(char *ret, char *p, uint32_t n) { if (!p) { *(QAD**)ret = SHARED_NULL; return; } if ((int32_t)n < 0) n = vpl_c03_strlen((uint8_t*)p);
  ASSERT(n <= C03_MAXBYTES, "fromUtf8 model: input longer than the bound of this harness");
  uint32_t h = c03_hint8((uint8_t*)p); if (h > C03_MAXBYTES) h = C03_MAXBYTES; QAD *d = qs_new(0, h); uint32_t o = vpl_u8_decode(d, (uint8_t*)p, n, h); d->f1 = o; *(QAD**)ret = d; }
#undef _ZN10QByteArray6appendERKS_
#undef _ZNK10QByteArray4leftEi
/* [from,to) of b followed by [0,n2) of c as a fresh block */
static void vpl_c03_cat8(QAD *d, const uint8_t *a, uint32_t n1, const uint8_t *c, uint32_t n2) { for (uint32_t i = 0; i <= C03_MAXBYTES; i++) { uint8_t v = 0; if (i < n1) v = a[i]; else if (c && i < n1 + n2) v = c[i - n1]; C03_BD(d)[i] = v; } }
static QAD *c03_cat(QAD *b, uint32_t from, uint32_t to, QAD *c, uint32_t n2) { uint32_t n1 = to - from; ASSERT(n1 + n2 <= C03_MAXBYTES, "QByteArray model: longer than the bound of this harness"); QAD *d = qb_new(0, C03_MAXBYTES); d->f1 = n1 + n2;
  vpl_c03_cat8(d, qb_bytes(b) + from, n1, c ? qb_bytes(c) : 0, n2); return d; }
char* _ZN10QByteArray6appendERKS_(char *self, char *o) { QAD *a = *(QAD**)self, *b = *(QAD**)o; *(QAD**)self = c03_cat(a, 0, a->f1, b, b->f1); return self; }
void _ZNK10QByteArray4leftEi(char *ret, char *self, uint32_t n) { QAD *o = *(QAD**)self; if ((int32_t)n < 0) n = 0; if (n > o->f1) n = o->f1; *(QAD**)ret = c03_cat(o, 0, n, 0, 0); }
char* _ZN10QByteArray6removeEii(char *self, uint32_t pos, uint32_t len) { QAD *o = *(QAD**)self; if ((int32_t)len <= 0 || pos >= o->f1) return self; if (len > o->f1 - pos) len = o->f1 - pos;
  ASSERT(pos == 0 || pos + len == o->f1, "QByteArray::remove model: only a prefix or a suffix"); *(QAD**)self = pos == 0 ? c03_cat(o, len, o->f1, 0, 0) : c03_cat(o, 0, pos, 0, 0); return self; }
/* validity of a whole byte string (harness precondition "B is valid UTF-8"), and "contains U+FEFF" */
static uint8_t vpl_u8_valid(const uint8_t *src, uint32_t n, uint32_t hint, uint8_t *has_feff, uint8_t *has_nul) { uint32_t skip = 0; *has_feff = 0; *has_nul = 0;
  for (uint32_t i = 0; i < hint; i++) { if (i >= n) break; if (skip) { skip--; continue; }
    uint32_t cp = 0; uint32_t l = u8_seq(src + i, n - i, &cp); if (l == 0) return 0; if (cp == 0xFEFF) *has_feff = 1; if (cp == 0) *has_nul = 1; skip = l - 1; }
  return 1; }
uint8_t vp_c03_valid_utf8(char *ba, uint32_t flags) { QAD *d = *(QAD**)ba; uint8_t feff, nul; uint8_t ok = vpl_u8_valid(qb_bytes(d), d->f1, c03_hint8(qb_bytes(d)), &feff, &nul);
  if (!ok || nul) return 0; if ((flags & 1) && feff) return 0; return 1; }
/* is position k of B the start of a character (or the end)? */
uint8_t vp_c03_char_boundary(char *ba, uint32_t k) { QAD *d = *(QAD**)ba; if (k >= d->f1) return 1; return (qb_bytes(d)[k] & 0xC0) != 0x80; }
#endif

#ifdef HAVE_T_struct_QArrayData
#ifndef C03_TCAP
#define C03_TCAP 40            /* longest text any model loop has to look at (asserted) */
#endif
/* ---- flat copies with constant loop bounds (all strings of this harness are <= C03_TCAP units) ---- */
/* Symbolic-offset copies are done with a logarithmic shifter over a flat local array: every array index is a constant, so a
   copy costs ~6*TCAP if-then-elses instead of TCAP reads at a symbolic index (TCAP-way case split each). */
static void vpl_t_load(uint16_t *t, const uint16_t *a, uint32_t n) { for (uint32_t i = 0; i < C03_TCAP; i++) t[i] = i < n ? a[i] : 0; }
#define C03_SHBITS (C03_TCAP >= 64 ? 7 : 6)   /* shift amounts are <= C03_TCAP */
static void vpl_t_shr(uint16_t *t, uint32_t sh) { for (uint32_t k = 0; k < C03_SHBITS; k++) { uint32_t bit = 1u << k; if (sh & bit) { for (uint32_t j = 0; j < C03_TCAP; j++) { uint32_t i = C03_TCAP - 1 - j; t[i] = i >= bit ? t[i - bit] : 0; } } } }
static void vpl_t_shl(uint16_t *t, uint32_t sh) { for (uint32_t k = 0; k < C03_SHBITS; k++) { uint32_t bit = 1u << k; if (sh & bit) { for (uint32_t i = 0; i < C03_TCAP; i++) t[i] = i + bit < C03_TCAP ? t[i + bit] : 0; } } }
static void vpl_t_store(QAD *d, const uint16_t *lo, uint32_t nlo, const uint16_t *hi, uint32_t n) { for (uint32_t i = 0; i < C03_TCAP; i++) C03_SD(d)[i] = i < nlo ? lo[i] : (i < n ? hi[i] : 0); }
/* fresh block = a[0..na) ++ b[0..nb) */
static QAD *c03_qs(const uint16_t *a, uint32_t na, const uint16_t *b, uint32_t nb) { if (!b) nb = 0; ASSERT(na <= C03_TCAP && nb <= C03_TCAP && na + nb <= C03_TCAP && na + nb <= QS_CAP, "text model: string longer than the bound of this harness");
  QAD *d = qs_new(0, C03_TCAP); d->f1 = na + nb; uint16_t ta[C03_TCAP], tb[C03_TCAP]; vpl_t_load(ta, a, na); vpl_t_load(tb, b ? b : a, nb); vpl_t_shr(tb, na); vpl_t_store(d, ta, na, tb, na + nb); return d; }
/* fresh block = a[from..to) */
static QAD *c03_slice(const uint16_t *a, uint32_t n, uint32_t from, uint32_t to) { ASSERT(from <= to && to <= n && n <= C03_TCAP && n <= QS_CAP, "text model: slice within the string");
  QAD *d = qs_new(0, C03_TCAP); d->f1 = to - from; uint16_t ta[C03_TCAP]; vpl_t_load(ta, a, n); vpl_t_shl(ta, from); vpl_t_store(d, ta, to - from, ta, to - from); return d; }
/* ---- QString::append(const QString&): always a fresh block ---- */
#undef _ZN7QString6appendERKS_
#ifndef C03_LIT_TEXT   /* the literal text layer (lit_text.c) brings its own */
char* _ZN7QString6appendERKS_(char *self, char *o) { QAD *a = *(QAD**)self, *b = *(QAD**)o; *(QAD**)self = c03_qs(qs_chars(a), a->f1, qs_chars(b), b->f1); return self; }
#endif
#endif
/* ---- QObject::connect: the functor slot objects are captured and handed back to the harness ---- */
#define C03_MAXCONN 6
static char *c03_slot[C03_MAXCONN]; static char *c03_signal[C03_MAXCONN]; static char *c03_sender[C03_MAXCONN]; static char *c03_recv[C03_MAXCONN]; static uint32_t c03_nconn;
void _ZN7QObject11connectImplEPKS_PPvS1_S3_PN9QtPrivate15QSlotObjectBaseEN2Qt14ConnectionTypeEPKiPK11QMetaObject(char *ret, char *sender, char *signal, char *receiver, char *slotp, char *slotobj, uint32_t type, char *types, char *mo) {
  ASSERT(c03_nconn < C03_MAXCONN, "connect model: too many connections");
  c03_slot[c03_nconn] = slotobj; c03_signal[c03_nconn] = *(char**)signal; c03_sender[c03_nconn] = sender; c03_recv[c03_nconn] = receiver; c03_nconn++;
  *(char**)ret = slotobj; }
void _ZN11QMetaObject10ConnectionD1Ev(char *self) { }
void _ZN11QMetaObject10ConnectionD2Ev(char *self) { }
uint32_t vp_c03_nconn(void) { return c03_nconn; }
char *vp_c03_conn_slot(uint32_t i) { return c03_slot[i]; }
char *vp_c03_conn_signal(uint32_t i) { return c03_signal[i]; }
char *vp_c03_conn_sender(uint32_t i) { return c03_sender[i]; }
char *vp_c03_conn_receiver(uint32_t i) { return c03_recv[i]; }
/* ---- QXmppLoggable / QObject construction: no behaviour of its own ---- */
void _ZN13QXmppLoggableC2EP7QObject(char *self, char *parent) { }
void _ZN13QXmppLoggableD2Ev(char *self) { }
void _ZN13QXmppLoggable10logMessageEN11QXmppLogger11MessageTypeERK7QString(char *self, uint32_t t, char *msg) { }
#ifdef HAVE_T_struct_QArrayData
/* ---- socket reads: the harness queues the chunks, QIODevice::readAll hands them out in order ---- */
#define C03_MAXREADS 4
static QAD *c03_rd[C03_MAXREADS]; static uint32_t c03_nrd, c03_rdpos;
void vp_c03_queue_read(char *ba) { ASSERT(c03_nrd < C03_MAXREADS, "read queue full"); c03_rd[c03_nrd++] = qad_ref(*(QAD**)ba); }
void _ZN9QIODevice7readAllEv(char *ret, char *self) { ASSERT(c03_rdpos < c03_nrd, "readAll: no chunk queued"); ASSUME(c03_rdpos < c03_nrd); *(QAD**)ret = qad_ref(c03_rd[c03_rdpos]); c03_rdpos++; }
uint32_t vp_c03_reads_done(void) { return c03_rdpos; }
/* cut B into three fresh blocks [0,k1) [k1,k2) [k2,n): always new blocks, so every pointer stays concrete */
static QAD *c03_piece(QAD *b, uint32_t from, uint32_t to) { return c03_cat(b, from, to, 0, 0); }
void vp_c03_queue_split(char *ba, uint32_t k1, uint32_t k2) { QAD *b = *(QAD**)ba; ASSERT(k1 <= k2 && k2 <= b->f1, "split positions ordered");
  c03_rd[0] = c03_piece(b, 0, k1); c03_rd[1] = c03_piece(b, k1, k2); c03_rd[2] = c03_piece(b, k2, b->f1); c03_nrd = 3; }
#endif
