/* C03 literal text layer (lit_*): listed BEFORE qt_core.c. The shared slicing/searching members read the source at a symbolic
   offset and share blocks when they can (result pointer depends on a symbolic length); the literal layer replaces them by
   always-fresh, constant-bound versions with Qt 5.15's exact argument conventions (lit_qstring.c). */
#define _ZNK7QString3midEii vp_lit_shared_mid_unused
#define _ZNK7QString4leftEi vp_lit_shared_left_unused
#define _ZNK7QString5rightEi vp_lit_shared_right_unused
#define _ZNK7QString7indexOfE5QChariN2Qt15CaseSensitivityE vp_lit_shared_indexOf_qchar_unused
#define _ZN9QtPrivate8findCharE11QStringView5QCharxN2Qt15CaseSensitivityE vp_lit_shared_findChar_unused
#define _ZN9QtPrivate10startsWithE11QStringViewS0_N2Qt15CaseSensitivityE vp_lit_shared_startsWith_unused
#define _ZN9QtPrivate8endsWithE11QStringViewS0_N2Qt15CaseSensitivityE vp_lit_shared_endsWith_unused
#define _ZN7QString11reallocDataEjb vp_lit_shared_reallocData_unused
#define _ZN7QString6resizeEi vp_lit_shared_resize_unused
#define C03_LIT_TEXT 1
