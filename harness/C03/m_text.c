/* C03 layer (b): environment of the REAL XmppSocket::processData.
   Text is made of abstract tokens (private-use code units) plus ordinary characters (whitespace, the literal
   "</stream:stream>" the real code appends). One "piece" of the stream is a fixed short run of atoms, so a read may end
   inside a piece (at every atom boundary):
     P  = PA PB            XML declaration      "<?xml"  " version='1.0'?>"
     H  = HA Mid HB        stream header        "<stream:stream"  " id='..' xmlns=.."  ">"
     X  = XA Mid XB        one stanza           "<message"  " id='..'><body>..</body>"  "</message>"
     C  = CA CB CC         stream close         "</"  "stream:str"  "eam>"
   Mid = 0xE100 + id carries the content (8-bit identity). A proper prefix of a piece is never well-formed XML and a
   piece is never well-formed without its first atom - exactly what holds for the real text they stand for.
   Models: the two fixed QRegularExpression patterns and QDomDocument::setContent work on these token strings. */
#ifdef HAVE_T_struct_QArrayData
#define U_PA 0xE010
#define U_PB 0xE011
#define U_HA 0xE020
#define U_HB 0xE021
#define U_XA 0xE030
#define U_XB 0xE031
#define U_CA 0xE040
#define U_CB 0xE041
#define U_CC 0xE042
#define IS_MID(u) (((u) & 0xFF00) == 0xE100)
static int c03_is_space(uint16_t u) { return u == 0x20 || (u >= 0x09 && u <= 0x0D) || u == 0x85 || u == 0xA0 || u == 0x1680 || (u >= 0x2000 && u <= 0x200A) || u == 0x2028 || u == 0x2029 || u == 0x202F || u == 0x205F || u == 0x3000; }
static int c03_is_xml_space(uint16_t u) { return u == 0x20 || u == 0x09 || u == 0x0A || u == 0x0D; }
static const uint16_t C03_CLOSE_LIT[16] = { '<','/','s','t','r','e','a','m',':','s','t','r','e','a','m','>' };

/* ---- QString members reached by processData: always-fresh blocks, constant loop bounds (append: see m_common.c) ---- */
char* _ZN7QString6insertEiPK5QChari(char *self, uint32_t i, char *p, uint32_t n) { QAD *a = *(QAD**)self; ASSERT(i == 0, "QString::insert model: only prepend"); if (!p || (int32_t)n <= 0) return self;
  *(QAD**)self = c03_qs((uint16_t*)p, n, qs_chars(a), a->f1); return self; }
char* _ZN7QString6insertEiRKS_(char *self, uint32_t i, char *o) { QAD *b = *(QAD**)o; return _ZN7QString6insertEiPK5QChari(self, i, (char*)qs_chars(b), b->f1); }
static void vpl_t_trim(const uint16_t *p, uint32_t n, uint32_t *from, uint32_t *to) { uint32_t a = 0, b = 0; uint8_t lead = 1;
  for (uint32_t i = 0; i < C03_TCAP; i++) { if (i >= n) break; if (!c03_is_space(p[i])) { lead = 0; b = i + 1; } else if (lead) a = i + 1; }
  if (b < a) b = a; *from = a; *to = b; }
void _ZN7QString14trimmed_helperERKS_(char *ret, char *self) { QAD *a = *(QAD**)self; uint32_t f, t; vpl_t_trim(qs_chars(a), a->f1, &f, &t); *(QAD**)ret = c03_qs(qs_chars(a) + f, t - f, 0, 0); }
void _ZN7QString14trimmed_helperERS_(char *ret, char *self) { _ZN7QString14trimmed_helperERKS_(ret, self); }

/* ---- QRegularExpression: exactly the two patterns of processData ---- */
static const char C03_RE_START[] = "^(<\\?xml.*\\?>)?\\s*<stream:stream[^>]*>";
static const char C03_RE_END[] = "</stream:stream>$";
struct c03_re { uint32_t kind; };
struct c03_match { uint32_t has; QAD *cap0; };
static int vpl_re_is(QAD *pat, const char *lit, uint32_t n) { if (pat->f1 != n) return 0; const uint16_t *p = qs_chars(pat); for (uint32_t i = 0; i < 41; i++) { if (i >= n) break; if (p[i] != (uint8_t)lit[i]) return 0; } return 1; }
void _ZN18QRegularExpressionC1ERK7QString6QFlagsINS_13PatternOptionEE(char *self, char *pat, uint32_t opts) { struct c03_re *r = malloc(sizeof(struct c03_re)); ASSUME(r != 0); QAD *p = *(QAD**)pat;
  r->kind = vpl_re_is(p, C03_RE_START, sizeof(C03_RE_START) - 1) ? 1 : (vpl_re_is(p, C03_RE_END, sizeof(C03_RE_END) - 1) ? 2 : 0);
  ASSERT(r->kind != 0 && opts == 0, "QRegularExpression model: only the two patterns of XmppSocket::processData (no options) are modelled"); *(struct c03_re**)self = r; }
void _ZN18QRegularExpressionD1Ev(char *self) { }
/* ^(<\?xml.*\?>)?\s*<stream:stream[^>]*>  over tokens: [P] ws* HA Mid HB at the very start; capture 0 = the matched prefix */
static uint32_t vpl_re_start(const uint16_t *p, uint32_t n) { uint32_t pos = 0;
  if (n >= 2 && p[0] == U_PA && p[1] == U_PB) pos = 2;
  uint8_t ws = 1; for (uint32_t i = 0; i < C03_TCAP; i++) { if (i >= n) break; if (i < pos) continue; if (ws && (p[i] == 0x20 || (p[i] >= 0x09 && p[i] <= 0x0D))) pos = i + 1; else ws = 0; }
  if (pos + 3 <= n && p[pos] == U_HA && IS_MID(p[pos + 1]) && p[pos + 2] == U_HB) return pos + 3;
  return 0; }
/* </stream:stream>$ : the subject ends with the close tag (token form or the literal), optionally followed by one final newline */
static int vpl_lit_at(const uint16_t *p, uint32_t at) { for (uint32_t k = 0; k < 16; k++) if (p[at + k] != C03_CLOSE_LIT[k]) return 0; return 1; }
static int c03_re_end(const uint16_t *p, uint32_t n) { if (n > 0 && p[n - 1] == 0x0A) n--;
  if (n >= 3 && p[n - 3] == U_CA && p[n - 2] == U_CB && p[n - 1] == U_CC) return 1;
  if (n >= 16 && vpl_lit_at(p, n - 16)) return 1; return 0; }
void _ZNK18QRegularExpression5matchERK7QStringiNS_9MatchTypeE6QFlagsINS_11MatchOptionEE(char *ret, char *self, char *subj, uint32_t off, uint32_t mt, uint32_t mo) {
  struct c03_re *r = *(struct c03_re**)self; QAD *s = *(QAD**)subj; struct c03_match *m = malloc(sizeof(struct c03_match)); ASSUME(m != 0); m->has = 0; m->cap0 = SHARED_NULL;
  ASSERT(off == 0 && mt == 0 && mo == 0, "QRegularExpression::match model: default arguments only"); ASSERT(s->f1 <= C03_TCAP, "text model: subject longer than the bound");
  if (r->kind == 1) { uint32_t e = vpl_re_start(qs_chars(s), s->f1); if (e) { m->has = 1; m->cap0 = c03_qs(qs_chars(s), e, 0, 0); } }
  else { m->has = c03_re_end(qs_chars(s), s->f1); if (m->has) m->cap0 = SHARED_NULL; }
  *(struct c03_match**)ret = m; }
uint8_t _ZNK23QRegularExpressionMatch8hasMatchEv(char *self) { return (*(struct c03_match**)self)->has != 0; }
void _ZNK23QRegularExpressionMatch8capturedEi(char *ret, char *self, uint32_t nth) { struct c03_match *m = *(struct c03_match**)self; ASSERT(nth == 0, "captured(n>0) not modelled"); *(QAD**)ret = m->has ? qad_ref(m->cap0) : SHARED_NULL; }
void _ZN23QRegularExpressionMatchD1Ev(char *self) { }

/* ---- QDomDocument::setContent over token text ----
   well-formed  <=>  [P] ws* H (ws | X)* (C | literal close) ws*   with every piece complete; the DOM is the stream element
   (tag = the header's Mid unit) with one child per stanza (tag = its Mid unit, namespace = the header's). */
void _ZN12QDomDocumentC1Ev(char *self) { DN(self) = 0; }
void _ZN12QDomDocumentD1Ev(char *self) { }
static QAD *c03_unit(uint16_t u) { QAD *d = qs_new(1, 1); C03_SD(d)[0] = u; return d; }
#define C03_MAXCHILD 4
struct c03_doc { uint8_t ok; uint16_t hid; uint32_t nch; uint16_t cid[C03_MAXCHILD]; };
/* token automaton; the literal close tag is recognised as the last 16 units only (that is where the real code puts it; the
   harness never feeds '<' as an ordinary character) */
static struct c03_doc vpl_parse(const uint16_t *p, uint32_t n) { struct c03_doc D; D.ok = 0; D.hid = 0; D.nch = 0; for (uint32_t k = 0; k < C03_MAXCHILD; k++) D.cid[k] = 0;
  uint32_t lit = 0; if (n >= 16 && vpl_lit_at(p, n - 16)) { lit = 1; n -= 16; }
  uint32_t st = 0 /* 0 prolog, 1 inside <stream>, 2 after </stream> */, skip = 0; uint8_t bad = 0;
  for (uint32_t i = 0; i < C03_TCAP; i++) { if (i >= n) break; if (skip) { skip--; continue; } uint16_t u = p[i];
    if (u == U_PA) { if (i == 0 && n >= 2 && p[1] == U_PB) skip = 1; else bad = 1; }
    else if (c03_is_xml_space(u)) { }
    else if (u == U_HA) { if (st == 0 && i + 2 < n && IS_MID(p[i + 1]) && p[i + 2] == U_HB) { D.hid = p[i + 1]; st = 1; skip = 2; } else bad = 1; }
    else if (u == U_XA) { if (st == 1 && i + 2 < n && IS_MID(p[i + 1]) && p[i + 2] == U_XB) { ASSERT(D.nch < C03_MAXCHILD, "setContent model: too many stanzas in one document"); ASSUME(D.nch < C03_MAXCHILD); D.cid[D.nch++] = p[i + 1]; skip = 2; } else bad = 1; }
    else if (u == U_CA) { if (st == 1 && i + 2 < n && p[i + 1] == U_CB && p[i + 2] == U_CC) { st = 2; skip = 2; } else bad = 1; }
    else bad = 1;
    if (bad) break; }
  if (bad) return D;
  if (lit) { if (st != 1) return D; st = 2; }
  D.ok = st == 2; return D; }
static struct dnode *c03_build(struct c03_doc *D) { struct dnode *root = dn_new(); root->tag = c03_unit(D->hid); root->ns = root->tag;
  for (uint32_t k = 0; k < C03_MAXCHILD; k++) { if (k >= D->nch) break; struct dnode *c = dn_new(); c->tag = c03_unit(D->cid[k]); c->ns = root->ns; dn_append(root, c); }
  return root; }
uint8_t _ZN12QDomDocument10setContentERK7QStringbPS0_PiS4_(char *self, char *text, uint8_t nsp, char *err, char *el, char *ec) { QAD *t = *(QAD**)text;
  ASSERT(t->f1 <= C03_TCAP, "text model: document longer than the bound"); ASSERT(nsp == 1, "setContent model: namespace processing expected");
  struct c03_doc D = vpl_parse(qs_chars(t), t->f1); DN(self) = D.ok ? c03_build(&D) : 0; return D.ok; }
void _ZNK12QDomDocument15documentElementEv(char *ret, char *self) { DN(ret) = DN(self); }

/* ---- the four signals of XmppSocket: ghost event log ---- */
#define C03_MAXEV 8
#define EV_STARTED 1
#define EV_STREAM 2
#define EV_STANZA 3
#define EV_CLOSED 4
static uint32_t c03_ev[C03_MAXEV], c03_nev, c03_keepalive;
static void c03_log(uint32_t kind, uint32_t a, uint32_t b) { ASSERT(c03_nev < C03_MAXEV, "event log full"); ASSUME(c03_nev < C03_MAXEV); c03_ev[c03_nev++] = (kind << 24) | ((a & 0xFFF) << 12) | (b & 0xFFF); }
static uint32_t c03_tag(struct dnode *n) { return n && n->tag->f1 == 1 ? qs_chars(n->tag)[0] : 0; }
static uint32_t c03_ns(struct dnode *n) { return n && n->ns->f1 == 1 ? qs_chars(n->ns)[0] : 0; }
void _ZN5QXmpp7Private10XmppSocket7startedEv(char *self) { c03_log(EV_STARTED, 0, 0); }
void _ZN5QXmpp7Private10XmppSocket14streamReceivedERK11QDomElement(char *self, char *el) { c03_log(EV_STREAM, c03_tag(DN(el)), c03_ns(DN(el))); }
void _ZN5QXmpp7Private10XmppSocket14stanzaReceivedERK11QDomElement(char *self, char *el) { if (!DN(el)) { c03_keepalive++; return; } c03_log(EV_STANZA, c03_tag(DN(el)), c03_ns(DN(el))); }
void _ZN5QXmpp7Private10XmppSocket12streamClosedEv(char *self) { c03_log(EV_CLOSED, 0, 0); }

/* ---- harness side: a symbolic stream, its expected events, its chunks ---- */
static uint32_t c03_exp[C03_MAXEV], c03_nexp;
static void c03_expect(uint32_t kind, uint32_t a, uint32_t b) { c03_exp[c03_nexp++] = (kind << 24) | ((a & 0xFFF) << 12) | (b & 0xFFF); }
static uint16_t c03_ws(void) { return vp_bool() ? 0x0A : 0x20; }
#ifndef C03_MAXSTANZAS
#define C03_MAXSTANZAS 3
#endif
/* stream = [P] [ws] H [ws] (X [ws])^n [C]   or, when the header was received earlier (`cached` = what the start pattern
   captured then): [ws] (X [ws])^n [C] */
void vp_c03_make_stream(char *text, char *cached, uint32_t maxst) { uint16_t t[C03_TCAP]; uint32_t n = 0; uint16_t c[8]; uint32_t nc = 0; for (uint32_t i = 0; i < C03_TCAP; i++) t[i] = 0; for (uint32_t i = 0; i < 8; i++) c[i] = 0;
  uint8_t earlier = vp_bool(); uint16_t hid = 0xE100 + vp_u8();
  uint8_t decl = vp_bool(), ws0 = vp_bool(); uint16_t w0 = c03_ws();
  if (earlier) { if (decl) { c[nc++] = U_PA; c[nc++] = U_PB; } if (ws0) c[nc++] = w0; c[nc++] = U_HA; c[nc++] = hid; c[nc++] = U_HB; }
  else { if (decl) { t[n++] = U_PA; t[n++] = U_PB; } if (ws0) t[n++] = w0; t[n++] = U_HA; t[n++] = hid; t[n++] = U_HB; c03_expect(EV_STREAM, hid, hid); }
  if (vp_bool()) t[n++] = c03_ws();
  uint32_t ns = vp_u8(); ASSUME(ns <= maxst && ns <= C03_MAXSTANZAS);
  for (uint32_t k = 0; k < C03_MAXSTANZAS; k++) { if (k >= ns) break; uint16_t id = 0xE100 + vp_u8(); t[n++] = U_XA; t[n++] = id; t[n++] = U_XB; c03_expect(EV_STANZA, id, hid); if (vp_bool()) t[n++] = c03_ws(); }
  if (vp_bool()) { t[n++] = U_CA; t[n++] = U_CB; t[n++] = U_CC; c03_expect(EV_CLOSED, 0, 0); }
  *(QAD**)text = c03_qs(t, n, 0, 0); *(QAD**)cached = nc ? c03_qs(c, nc, 0, 0) : SHARED_NULL; }
void vp_c03_chunk(char *out, char *text, uint32_t from, uint32_t to) { QAD *t = *(QAD**)text; ASSERT(from <= to && to <= t->f1, "chunk positions ordered"); *(QAD**)out = c03_qs(qs_chars(t) + from, to - from, 0, 0); }
uint32_t vp_c03_events(void) { return c03_nev; }
uint32_t vp_c03_expected(void) { return c03_nexp; }
/* every event logged so far equals the expected event at the same position */
uint8_t vp_c03_events_are_prefix(void) { if (c03_nev > c03_nexp) return 0; for (uint32_t i = 0; i < C03_MAXEV; i++) { if (i >= c03_nev) break; if (c03_ev[i] != c03_exp[i]) return 0; } return 1; }
uint8_t vp_c03_buffer_empty(char *s) { return (*(QAD**)s)->f1 == 0; }
#endif
