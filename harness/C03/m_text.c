/* C03 layer (b): environment of the REAL XmppSocket::processData.
   Text is made of abstract tokens (private-use code units) plus ordinary characters (whitespace, the literal
   "</stream:stream>" the real code appends). One "piece" of the stream is a fixed short run of atoms, so a read may end
   inside a piece (at every atom boundary):
     P  = PA PB            XML declaration      "<?xml"  " version='1.0'?>"
     H  = HA Mid HB        stream header        "<stream:stream"  " id='..' xmlns=.."  ">"
     X  = XA Mid XB        one stanza           "<message"  " id='..'><body>..</body>"  "</message>"
     C  = CA CB CC         stream close         "</"  "stream:str"  "eam>"
   Mid = 0xE100 + id carries the content (8-bit identity). A proper prefix of a piece is never well-formed XML and a
   piece is never well-formed without its first atom - exactly what holds for the real text they stand for.
   Models: the two fixed QRegularExpression patterns and QDomDocument::setContent work on these token strings. */
#ifdef HAVE_T_struct_QArrayData
#define U_PA 0xE010
#define U_PB 0xE011
#define U_HA 0xE020
#define U_HB 0xE021
#define U_XA 0xE030
#define U_XB 0xE031
#define U_CA 0xE040
#define U_CB 0xE041
#define U_CC 0xE042
#define IS_MID(u) (((u) & 0xFF00) == 0xE100)
static int c03_is_space(uint16_t u) { return u == 0x20 || (u >= 0x09 && u <= 0x0D) || u == 0x85 || u == 0xA0 || u == 0x1680 || (u >= 0x2000 && u <= 0x200A) || u == 0x2028 || u == 0x2029 || u == 0x202F || u == 0x205F || u == 0x3000; }
static int c03_is_xml_space(uint16_t u) { return u == 0x20 || u == 0x09 || u == 0x0A || u == 0x0D; }
static const uint16_t C03_CLOSE_LIT[16] = { '<','/','s','t','r','e','a','m',':','s','t','r','e','a','m','>' };

/* ---- QString members reached by processData: always-fresh blocks, constant loop bounds (append: see m_common.c) ---- */
char* _ZN7QString6insertEiPK5QChari(char *self, uint32_t i, char *p, uint32_t n) { QAD *a = *(QAD**)self; ASSERT(i == 0, "QString::insert model: only prepend"); if (!p || (int32_t)n <= 0) return self;
  *(QAD**)self = c03_qs((uint16_t*)p, n, qs_chars(a), a->f1); return self; }
char* _ZN7QString6insertEiRKS_(char *self, uint32_t i, char *o) { QAD *b = *(QAD**)o; return _ZN7QString6insertEiPK5QChari(self, i, (char*)qs_chars(b), b->f1); }
static void vpl_t_trim(const uint16_t *p, uint32_t n, uint32_t *from, uint32_t *to) { uint32_t a = 0, b = 0; uint8_t lead = 1;
  for (uint32_t i = 0; i < C03_TCAP; i++) { if (i >= n) break; if (!c03_is_space(p[i])) { lead = 0; b = i + 1; } else if (lead) a = i + 1; }
  if (b < a) b = a; *from = a; *to = b; }
void _ZN7QString14trimmed_helperERKS_(char *ret, char *self) { QAD *a = *(QAD**)self; uint32_t f, t; vpl_t_trim(qs_chars(a), a->f1, &f, &t); *(QAD**)ret = c03_slice(qs_chars(a), a->f1, f, t); }
void _ZN7QString14trimmed_helperERS_(char *ret, char *self) { _ZN7QString14trimmed_helperERKS_(ret, self); }

/* ---- QRegularExpression: exactly the two patterns of processData ---- */
static const char C03_RE_START[] = "^(<\\?xml.*\\?>)?\\s*<stream:stream[^>]*>";
static const char C03_RE_END[] = "</stream:stream>$";
struct c03_re { uint32_t kind; };
struct c03_match { uint32_t has; QAD *cap0; };
static int vpl_re_is(QAD *pat, const char *lit, uint32_t n) { if (pat->f1 != n) return 0; const uint16_t *p = qs_chars(pat); for (uint32_t i = 0; i < 41; i++) { if (i >= n) break; if (p[i] != (uint8_t)lit[i]) return 0; } return 1; }
void _ZN18QRegularExpressionC1ERK7QString6QFlagsINS_13PatternOptionEE(char *self, char *pat, uint32_t opts) { struct c03_re *r = malloc(sizeof(struct c03_re)); ASSUME(r != 0); QAD *p = *(QAD**)pat;
  r->kind = vpl_re_is(p, C03_RE_START, sizeof(C03_RE_START) - 1) ? 1 : (vpl_re_is(p, C03_RE_END, sizeof(C03_RE_END) - 1) ? 2 : 0);
  ASSERT(r->kind != 0 && opts == 0, "QRegularExpression model: only the two patterns of XmppSocket::processData (no options) are modelled"); *(struct c03_re**)self = r; }
void _ZN18QRegularExpressionD1Ev(char *self) { }
/* ^(<\?xml.*\?>)?\s*<stream:stream[^>]*>  over tokens: [P] ws* HA Mid HB at the very start; capture 0 = the matched prefix */
static uint32_t vpl_re_start(const uint16_t *p, uint32_t n) { uint32_t pos = 0;
  if (n >= 2 && p[0] == U_PA && p[1] == U_PB) pos = 2;
  uint8_t ws = 1; for (uint32_t i = 0; i < C03_TCAP; i++) { if (i >= n) break; if (i < pos) continue; if (ws && (p[i] == 0x20 || (p[i] >= 0x09 && p[i] <= 0x0D))) pos = i + 1; else ws = 0; }
  if (pos + 3 <= n && p[pos] == U_HA && IS_MID(p[pos + 1]) && p[pos + 2] == U_HB) return pos + 3;
  return 0; }
/* </stream:stream>$ : the subject ends with the close tag (token form or the literal), optionally followed by one final newline */
static int vpl_lit_const(const uint16_t *p, uint32_t j) { for (uint32_t k = 0; k < 16; k++) if (p[j + k] != C03_CLOSE_LIT[k]) return 0; return 1; }
/* does p[0..n) end with the literal?  (comparisons at constant positions, selected by n) */
static int vpl_lit_at_end(const uint16_t *p, uint32_t n) { int r = 0; for (uint32_t j = 0; j + 16 <= C03_TCAP; j++) { if (j + 16 == n && vpl_lit_const(p, j)) r = 1; } return r; }
static int c03_re_end(const uint16_t *p, uint32_t n) { if (n > 0 && p[n - 1] == 0x0A) n--;
  if (n >= 3 && p[n - 3] == U_CA && p[n - 2] == U_CB && p[n - 1] == U_CC) return 1;
  if (n >= 16 && vpl_lit_at_end(p, n)) return 1; return 0; }
void _ZNK18QRegularExpression5matchERK7QStringiNS_9MatchTypeE6QFlagsINS_11MatchOptionEE(char *ret, char *self, char *subj, uint32_t off, uint32_t mt, uint32_t mo) {
  struct c03_re *r = *(struct c03_re**)self; QAD *s = *(QAD**)subj; struct c03_match *m = malloc(sizeof(struct c03_match)); ASSUME(m != 0); m->has = 0; m->cap0 = SHARED_NULL;
  ASSERT(off == 0 && mt == 0 && mo == 0, "QRegularExpression::match model: default arguments only"); ASSERT(s->f1 <= C03_TCAP, "text model: subject longer than the bound");
  if (r->kind == 1) { uint32_t e = vpl_re_start(qs_chars(s), s->f1); if (e) { m->has = 1; m->cap0 = c03_qs(qs_chars(s), e, 0, 0); } }
  else { m->has = c03_re_end(qs_chars(s), s->f1); if (m->has) m->cap0 = SHARED_NULL; }
  *(struct c03_match**)ret = m; }
uint8_t _ZNK23QRegularExpressionMatch8hasMatchEv(char *self) { return (*(struct c03_match**)self)->has != 0; }
void _ZNK23QRegularExpressionMatch8capturedEi(char *ret, char *self, uint32_t nth) { struct c03_match *m = *(struct c03_match**)self; ASSERT(nth == 0, "captured(n>0) not modelled"); *(QAD**)ret = m->has ? qad_ref(m->cap0) : SHARED_NULL; }
void _ZN23QRegularExpressionMatchD1Ev(char *self) { }

/* ---- QDomDocument::setContent over token text ----
   well-formed  <=>  [P] ws* H (ws | X)* (C | literal close) ws*   with every piece complete; the DOM is the stream element
   (tag = the header's Mid unit) with one child per stanza (tag = its Mid unit, namespace = the header's). */
void _ZN12QDomDocumentC1Ev(char *self) { DN(self) = 0; }
void _ZN12QDomDocumentD1Ev(char *self) { }
static QAD *c03_unit(uint16_t u) { QAD *d = qs_new(1, 1); C03_SD(d)[0] = u; return d; }
#define C03_MAXCHILD 4
struct c03_doc { uint8_t ok; uint16_t hid; uint32_t nch; uint16_t cid[C03_MAXCHILD]; };
/* token automaton; the literal close tag is recognised as the last 16 units only (that is where the real code puts it; the
   harness never feeds '<' as an ordinary character) */
static struct c03_doc vpl_parse(const uint16_t *p, uint32_t n) { struct c03_doc D; D.ok = 0; D.hid = 0; D.nch = 0; for (uint32_t k = 0; k < C03_MAXCHILD; k++) D.cid[k] = 0;
  uint32_t lit = 0; if (n >= 16 && vpl_lit_at_end(p, n)) { lit = 1; n -= 16; }
  uint32_t st = 0 /* 0 prolog, 1 inside <stream>, 2 after </stream> */, skip = 0; uint8_t bad = 0;
  for (uint32_t i = 0; i < C03_TCAP; i++) { if (i >= n) break; if (skip) { skip--; continue; } uint16_t u = p[i];
    if (u == U_PA) { if (i == 0 && n >= 2 && p[1] == U_PB) skip = 1; else bad = 1; }
    else if (c03_is_xml_space(u)) { }
    else if (u == U_HA) { if (st == 0 && i + 2 < n && IS_MID(p[i + 1]) && p[i + 2] == U_HB) { D.hid = p[i + 1]; st = 1; skip = 2; } else bad = 1; }
    else if (u == U_XA) { if (st == 1 && i + 2 < n && IS_MID(p[i + 1]) && p[i + 2] == U_XB) { ASSERT(D.nch < C03_MAXCHILD, "setContent model: too many stanzas in one document"); ASSUME(D.nch < C03_MAXCHILD); D.cid[D.nch++] = p[i + 1]; skip = 2; } else bad = 1; }
    else if (u == U_CA) { if (st == 1 && i + 2 < n && p[i + 1] == U_CB && p[i + 2] == U_CC) { st = 2; skip = 2; } else bad = 1; }
    else bad = 1;
    if (bad) break; }
  if (bad) return D;
  if (lit) { if (st != 1) return D; st = 2; }
  D.ok = st == 2; return D; }
static struct dnode *c03_build(struct c03_doc *D) { struct dnode *root = dn_new(); root->tag = c03_unit(D->hid); root->ns = root->tag;
  for (uint32_t k = 0; k < C03_MAXCHILD; k++) { if (k >= D->nch) break; struct dnode *c = dn_new(); c->tag = c03_unit(D->cid[k]); c->ns = root->ns; dn_append(root, c); }
  return root; }
uint8_t _ZN12QDomDocument10setContentERK7QStringbPS0_PiS4_(char *self, char *text, uint8_t nsp, char *err, char *el, char *ec) { QAD *t = *(QAD**)text;
  ASSERT(t->f1 <= C03_TCAP, "text model: document longer than the bound"); ASSERT(nsp == 1, "setContent model: namespace processing expected");
  struct c03_doc D = vpl_parse(qs_chars(t), t->f1); DN(self) = D.ok ? c03_build(&D) : 0; return D.ok; }
void _ZNK12QDomDocument15documentElementEv(char *ret, char *self) { DN(ret) = DN(self); }

/* ---- the four signals of XmppSocket: ghost event log ---- */
#define C03_MAXEV 8
#define EV_STARTED 1
#define EV_STREAM 2
#define EV_STANZA 3
#define EV_CLOSED 4
static uint32_t c03_ev[C03_MAXEV], c03_nev, c03_keepalive;
static void c03_log(uint32_t kind, uint32_t a, uint32_t b) { ASSERT(c03_nev < C03_MAXEV, "event log full"); ASSUME(c03_nev < C03_MAXEV); c03_ev[c03_nev++] = (kind << 24) | ((a & 0xFFF) << 12) | (b & 0xFFF); }
static uint32_t c03_tag(struct dnode *n) { return n && n->tag->f1 == 1 ? qs_chars(n->tag)[0] : 0; }
static uint32_t c03_ns(struct dnode *n) { return n && n->ns->f1 == 1 ? qs_chars(n->ns)[0] : 0; }
void _ZN5QXmpp7Private10XmppSocket7startedEv(char *self) { c03_log(EV_STARTED, 0, 0); }
void _ZN5QXmpp7Private10XmppSocket14streamReceivedERK11QDomElement(char *self, char *el) { c03_log(EV_STREAM, c03_tag(DN(el)), c03_ns(DN(el))); }
void _ZN5QXmpp7Private10XmppSocket14stanzaReceivedERK11QDomElement(char *self, char *el) { if (!DN(el)) { c03_keepalive++; return; } c03_log(EV_STANZA, c03_tag(DN(el)), c03_ns(DN(el))); }
void _ZN5QXmpp7Private10XmppSocket12streamClosedEv(char *self) { c03_log(EV_CLOSED, 0, 0); }

/* ---- harness side: a symbolic stream, the position/events bookkeeping of the inductive step ---- */
static uint16_t c03_ws(void) { return vp_bool() ? 0x0A : 0x20; }
#ifndef C03_MAXSTANZAS
#define C03_MAXSTANZAS 3
#endif
/* the stream text T and what the specification needs to know about it */
static struct { uint16_t t[C03_TCAP]; uint32_t n; uint8_t earlier, decl, ws0; uint32_t hend /* end of the header piece, 0 = no header in T */;
  uint16_t c[8]; uint32_t nc;                         /* header text cached from an earlier part of the stream */
  uint32_t ev[C03_MAXEV], evend[C03_MAXEV], nev; } S;  /* events of T in order, each with the end position of its piece */
static void c03_piece_event(uint32_t kind, uint32_t a, uint32_t b) { S.ev[S.nev] = (kind << 24) | ((a & 0xFFF) << 12) | (b & 0xFFF); S.evend[S.nev] = S.n; S.nev++; }
/* stream = [P] [ws] H [ws] (X [ws])^n [C]   (optionally with the header of a previous stream still cached)
   or, when the header was received earlier: [ws] (X [ws])^n [C] */
void vp_c03_make_stream(char *text, uint32_t maxst, uint32_t part) { for (uint32_t i = 0; i < C03_TCAP; i++) S.t[i] = 0; for (uint32_t i = 0; i < 8; i++) S.c[i] = 0; for (uint32_t i = 0; i < C03_MAXEV; i++) { S.ev[i] = 0; S.evend[i] = 0; }
  S.n = 0; S.nc = 0; S.nev = 0; S.hend = 0;
  S.earlier = vp_bool(); if (part == 1) ASSUME(!S.earlier); if (part == 2) ASSUME(S.earlier); if (part == 1) S.earlier = 0; if (part == 2) S.earlier = 1; uint16_t hid = 0xE100 + vp_u8(); S.decl = vp_bool(); S.ws0 = vp_bool(); uint16_t w0 = c03_ws();
  if (S.earlier) { if (S.decl) { S.c[S.nc++] = U_PA; S.c[S.nc++] = U_PB; } if (S.ws0) S.c[S.nc++] = w0; S.c[S.nc++] = U_HA; S.c[S.nc++] = hid; S.c[S.nc++] = U_HB; }
  else { /* a header of a previous stream may still be cached (stream restart after SASL: nothing clears it) */
    if (vp_bool()) { S.c[S.nc++] = U_HA; S.c[S.nc++] = 0xE100 + vp_u8(); S.c[S.nc++] = U_HB; }
    if (S.decl) { S.t[S.n++] = U_PA; S.t[S.n++] = U_PB; } if (S.ws0) S.t[S.n++] = w0; S.t[S.n++] = U_HA; S.t[S.n++] = hid; S.t[S.n++] = U_HB; S.hend = S.n; c03_piece_event(EV_STREAM, hid, hid); }
  if (vp_bool()) S.t[S.n++] = c03_ws();
  uint32_t ns = vp_u8(); ASSUME(ns <= maxst && ns <= C03_MAXSTANZAS);
  for (uint32_t k = 0; k < C03_MAXSTANZAS; k++) { if (k >= ns) break; uint16_t id = 0xE100 + vp_u8(); S.t[S.n++] = U_XA; S.t[S.n++] = id; S.t[S.n++] = U_XB; c03_piece_event(EV_STANZA, id, hid); if (vp_bool()) S.t[S.n++] = c03_ws(); }
  if (vp_bool()) { S.t[S.n++] = U_CA; S.t[S.n++] = U_CB; S.t[S.n++] = U_CC; c03_piece_event(EV_CLOSED, 0, 0); }
  *(QAD**)text = c03_qs(S.t, S.n, 0, 0); }
uint32_t vp_c03_length(void) { return S.n; }
/* may the receiver have consumed everything before `pos`?  <=> pos is not inside a piece; [P] [ws] H counts as one piece
   unless only the leading whitespace has been consumed */
uint8_t vp_c03_boundary(uint32_t pos) { if (pos == 0) return 1; if (pos > S.n) return 0; uint16_t u = S.t[pos - 1];
  if (u == U_HB || u == U_XB || u == U_CC) return 1;
  if (u == 0x20 || u == 0x0A) { if (!S.earlier && pos < S.hend) return !S.decl; return 1; }
  return 0; }
/* header text the receiver has cached when everything before `j` is consumed (x0: the leading whitespace was consumed on its own) */
void vp_c03_cached_at(char *out, uint32_t j, uint8_t x0) { if (S.earlier) { *(QAD**)out = c03_qs(S.c, S.nc, 0, 0); return; }
  if (S.hend == 0 || j < S.hend) { *(QAD**)out = S.nc ? c03_qs(S.c, S.nc, 0, 0) : SHARED_NULL; return; }
  uint32_t from = (x0 && S.ws0 && !S.decl) ? 1 : 0; *(QAD**)out = c03_slice(S.t, S.n, from, S.hend); }
void vp_c03_slice(char *out, uint32_t from, uint32_t to) { *(QAD**)out = c03_slice(S.t, S.n, from, to); }
/* the events logged are exactly the events of the pieces that end in (j, j2], in order */
uint8_t vp_c03_events_are(uint32_t j, uint32_t j2) { uint32_t k = 0; uint8_t ok = 1;
  for (uint32_t i = 0; i < C03_MAXEV; i++) { if (i >= S.nev) break; if (S.evend[i] > j && S.evend[i] <= j2) { if (k >= c03_nev || c03_ev[k] != S.ev[i]) ok = 0; k++; } }
  return ok && k == c03_nev; }
uint32_t vp_c03_events(void) { return c03_nev; }
uint32_t vp_c03_header_end(void) { return S.hend; }
#endif
