// native validation of the C03 decoder model against the real QString::fromUtf8 of libQt5Core
#include <QString>
#include <cstdint>
#include <cstdio>
static uint16_t out[16];
#define U8_OUT(i, v) out[i] = (v)
#include "c03_utf8.h"
static uint32_t model_decode(const uint8_t *src, uint32_t n) { U8_DECODE_BODY(src, n, 8) }
static unsigned long long checked = 0;
static bool check(const uint8_t *b, uint32_t n)
{
    uint32_t m = model_decode(b, n);
    QString q = QString::fromUtf8(reinterpret_cast<const char *>(b), int(n));
    checked++;
    bool ok = uint32_t(q.size()) == m;
    for (uint32_t i = 0; ok && i < m; i++) ok = q.at(int(i)).unicode() == out[i];
    if (!ok) { fprintf(stderr, "MISMATCH on"); for (uint32_t i = 0; i < n; i++) fprintf(stderr, " %02X", b[i]); fprintf(stderr, " (model %u units, Qt %d units)\n", m, q.size()); }
    return ok;
}
int main()
{
    uint8_t b[8]; bool ok = true;
    // every byte string (without NUL) of length <= 3
    for (uint32_t n = 0; n <= 3 && ok; n++) {
        unsigned long long total = 1; for (uint32_t i = 0; i < n; i++) total *= 255;
        for (unsigned long long x = 0; x < total && ok; x++) { unsigned long long y = x; for (uint32_t i = 0; i < n; i++) { b[i] = uint8_t(1 + y % 255); y /= 255; } ok = check(b, n); }
    }
    // length 4: every string whose first byte is >= 0xC0 or a continuation byte, with the other three bytes drawn from a set that
    // contains the boundaries of every range the decoder distinguishes; every well-formed 4-byte sequence; BOM followed by a byte
    static const uint8_t K[] = { 0x01, 0x41, 0x7F, 0x80, 0x8F, 0x90, 0x9F, 0xA0, 0xBB, 0xBF, 0xC0, 0xC1, 0xC2, 0xDF, 0xE0, 0xE1, 0xEC, 0xED, 0xEE, 0xEF, 0xF0, 0xF1, 0xF3, 0xF4, 0xF5, 0xF7, 0xF8, 0xFF };
    const unsigned NK = sizeof(K);
    for (unsigned a0 = 0x80; a0 <= 0xFF && ok; a0++) for (unsigned i1 = 0; i1 < NK && ok; i1++) for (unsigned i2 = 0; i2 < NK && ok; i2++) for (unsigned i3 = 0; i3 < NK && ok; i3++) { b[0] = uint8_t(a0); b[1] = K[i1]; b[2] = K[i2]; b[3] = K[i3]; ok = check(b, 4); }
    for (unsigned i0 = 0; i0 < NK && ok; i0++) for (unsigned i1 = 0; i1 < NK && ok; i1++) for (unsigned i2 = 0; i2 < NK && ok; i2++) for (unsigned i3 = 0; i3 < NK && ok; i3++) { b[0] = K[i0]; b[1] = K[i1]; b[2] = K[i2]; b[3] = K[i3]; ok = check(b, 4); }
    for (unsigned a0 = 0xF0; a0 <= 0xF4 && ok; a0++) for (unsigned a1 = 0x80; a1 <= 0xBF && ok; a1++) for (unsigned a2 = 0x80; a2 <= 0xBF && ok; a2++) for (unsigned a3 = 0x80; a3 <= 0xBF && ok; a3++) { b[0] = uint8_t(a0); b[1] = uint8_t(a1); b[2] = uint8_t(a2); b[3] = uint8_t(a3); ok = check(b, 4); }
    for (unsigned a3 = 1; a3 <= 0xFF && ok; a3++) { b[0] = 0xEF; b[1] = 0xBB; b[2] = 0xBF; b[3] = uint8_t(a3); ok = check(b, 4); }
    printf("%s %llu\n", ok ? "OK" : "FAIL", checked);
    return ok ? 0 : 1;
}
