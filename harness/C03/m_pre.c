/* C03: the shared QString model treats UTF-8 as "ASCII only, anything else outside the model". C03 layer (a) is about
   multi-byte sequences, so the shared definition is renamed away here (this file is listed BEFORE qt_core.c) and the
   spec-level decoder of m_common.c takes its place. */
#define _ZN7QString15fromUtf8_helperEPKci vp_c03_shared_fromUtf8_helper_unused
/* QByteArray::append(const QByteArray&) / left(): the shared models share the source block when possible, which makes the
   result pointer depend on a symbolic length; C03's versions always build a fresh block (sharing is unobservable). */
#define _ZN10QByteArray6appendERKS_ vp_c03_shared_qba_append_unused
#define _ZNK10QByteArray4leftEi vp_c03_shared_qba_left_unused
/* QString::append(const QString&): same reason (text layer, m_text.c provides it; the bytes layer keeps a plain copy) */
#define _ZN7QString6appendERKS_ vp_c03_shared_qs_append_unused
