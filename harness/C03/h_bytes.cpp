// C03 layer (a): byte -> text. The REAL readyRead lambda of XmppSocket::setSocket (src/base/Stream.cpp) is reached through the
// functor slot object that the real QObject::connect template hands to QObject::connectImpl (captured by the model).
#include "base/Stream.cpp"
#include "vp_harness.h"
#include "vp_dom.h"
#include <cstring>
extern "C" {
unsigned vp_c03_nconn(); void *vp_c03_conn_slot(unsigned); void *vp_c03_conn_signal(unsigned); void *vp_c03_conn_sender(unsigned); void *vp_c03_conn_receiver(unsigned);
void vp_c03_queue_read(const QByteArray *); unsigned vp_c03_reads_done();
bool vp_c03_valid_utf8(const QByteArray *, unsigned flags); bool vp_c03_char_boundary(const QByteArray *, unsigned k);
bool vp_c03_accumulated_equals(const QString *s); void vp_c03_queue_split(const QByteArray *, unsigned, unsigned);
}
#ifndef C03_NBYTES
#define C03_NBYTES 4
#endif
alignas(16) static char fakeSocket[64];

// the slot object connected to QIODevice::readyRead of the socket, with the XmppSocket as context
static QtPrivate::QSlotObjectBase *readyReadSlot(XmppSocket *s, QSslSocket *sock)
{
    auto mp = &QIODevice::readyRead;
    void *raw[2] = { nullptr, nullptr };
    static_assert(sizeof(mp) == sizeof(raw));
    std::memcpy(raw, &mp, sizeof(mp));
    QtPrivate::QSlotObjectBase *found = nullptr; unsigned hits = 0;
    for (unsigned i = 0; i < 6; i++) {
        if (i >= vp_c03_nconn()) break;
        if (vp_c03_conn_signal(i) == raw[0] && vp_c03_conn_sender(i) == (void *)sock && vp_c03_conn_receiver(i) == (void *)static_cast<QObject *>(s)) {
            found = static_cast<QtPrivate::QSlotObjectBase *>(vp_c03_conn_slot(i)); hits++;
        }
    }
    vp_assert(hits == 1, "C03 setSocket connects exactly one handler to readyRead of the socket");
    vp_assume(hits == 1);
    return found;
}

// B = valid UTF-8, cut into three consecutive reads at arbitrary byte positions k1 <= k2
static void run(bool boundaryOnly, bool allowFeff = false)
{
    auto *s = new XmppSocket(nullptr);
    auto *sock = reinterpret_cast<QSslSocket *>(fakeSocket);
    s->setSocket(sock);
    auto *slot = readyReadSlot(s, sock);

    QByteArray B = vpSymBytes(C03_NBYTES);
    vp_assume(vp_c03_valid_utf8(&B, allowFeff ? 0 : 1)); // well-formed, no NUL, no U+FEFF (see SPEC assumptions)
    unsigned k1 = vp_u32(), k2 = vp_u32();
    vp_assume(k1 <= k2 && k2 <= (unsigned)B.size());
    if (boundaryOnly) vp_assume(vp_c03_char_boundary(&B, k1) && vp_c03_char_boundary(&B, k2));
    vp_c03_queue_split(&B, k1, k2);

    void *args[1] = { nullptr };
    slot->call(s, args); slot->call(s, args); slot->call(s, args);

    vp_assert(vp_c03_reads_done() == 3, "C03 every readyRead consumes the pending socket data");
    QString want = QString::fromUtf8(B.constData(), B.size());
    vp_assert(vp_c03_accumulated_equals(&want), "C03 text handed to processData over all reads equals the decoding of the unsplit byte stream");
}
// any split, including inside a multi-byte character
extern "C" void h_utf8_split() {
#ifdef KF_utf8_split_in_char
    run(true);
#else
    run(false);
#endif
}
// splits that fall between characters only
extern "C" void h_utf8_boundary() { run(true); }
// demonstration of the finding while it is listed as known
extern "C" void h_utf8_split_in_char() { run(false); }
// demonstration of the U+FEFF observation (runs only while listed as known finding feff_at_read_start)
extern "C" void h_utf8_feff() { run(false, true); }
