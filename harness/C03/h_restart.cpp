// C03: a new stream starts from a clean receiver. The REAL `connected` / `encrypted` lambdas of XmppSocket::setSocket
// (src/base/Stream.cpp) are run from an arbitrary receiver state (partial text buffered, header cached, partial UTF-8 sequence
// pending): nothing of the old stream may survive, otherwise the framing of the new stream would depend on where the old one
// was cut.
#include "base/Stream.cpp"
#include "vp_harness.h"
#include "vp_dom.h"
#include <cstring>
extern "C" {
unsigned vp_c03_nconn(); void *vp_c03_conn_slot(unsigned); void *vp_c03_conn_signal(unsigned); void *vp_c03_conn_sender(unsigned); void *vp_c03_conn_receiver(unsigned);
unsigned vp_c03_events(); unsigned vp_c03_event_kind(unsigned);
}
alignas(16) static char fakeSocket[64];
class tst_QXmppStream {
public:
    static QString &cached(XmppSocket *s) { return s->m_streamOpenElement; }
    static QString &buffer(XmppSocket *s) { return s->m_dataBuffer; }
    static QByteArray &pending(XmppSocket *s) { return s->m_undecodedBytes; }
    static bool &directTls(XmppSocket *s) { return s->m_directTls; }
};
template<typename MP> static QtPrivate::QSlotObjectBase *slotFor(MP mp, XmppSocket *s, QSslSocket *sock)
{
    void *raw[2] = { nullptr, nullptr };
    static_assert(sizeof(mp) == sizeof(raw));
    std::memcpy(raw, &mp, sizeof(mp));
    QtPrivate::QSlotObjectBase *found = nullptr; unsigned hits = 0;
    for (unsigned i = 0; i < 6; i++) {
        if (i >= vp_c03_nconn()) break;
        if (vp_c03_conn_signal(i) == raw[0] && vp_c03_conn_sender(i) == (void *)sock && vp_c03_conn_receiver(i) == (void *)static_cast<QObject *>(s)) {
            found = static_cast<QtPrivate::QSlotObjectBase *>(vp_c03_conn_slot(i)); hits++;
        }
    }
    vp_assert(hits == 1, "C03 setSocket connects exactly one handler to the signal");
    vp_assume(hits == 1);
    return found;
}
static XmppSocket *dirtyReceiver(QSslSocket *sock)
{
    auto *s = new XmppSocket(nullptr);
    s->setSocket(sock);
    tst_QXmppStream::buffer(s) = vpSymString(3);
    tst_QXmppStream::cached(s) = vpSymString(3);
    tst_QXmppStream::pending(s) = vpSymBytes(3);
    return s;
}
static void assertClean(XmppSocket *s)
{
    vp_assert(tst_QXmppStream::buffer(s).isEmpty(), "C03 restart: no text of the old stream stays buffered");
    vp_assert(tst_QXmppStream::cached(s).isEmpty(), "C03 restart: the cached header of the old stream is dropped");
    vp_assert(tst_QXmppStream::pending(s).isEmpty(), "C03 restart: no partial UTF-8 sequence of the old stream stays pending");
    vp_assert(vp_c03_events() == 1 && vp_c03_event_kind(0) == 1, "C03 restart: started() is emitted exactly once and nothing else");
}
extern "C" void h_restart_encrypted()
{
    auto *sock = reinterpret_cast<QSslSocket *>(fakeSocket);
    auto *s = dirtyReceiver(sock);
    tst_QXmppStream::directTls(s) = vp_bool();
    void *args[1] = { nullptr };
    slotFor(&QSslSocket::encrypted, s, sock)->call(s, args);
    assertClean(s);
}
extern "C" void h_restart_connected()
{
    auto *sock = reinterpret_cast<QSslSocket *>(fakeSocket);
    auto *s = dirtyReceiver(sock);
    bool direct = vp_bool();
    tst_QXmppStream::directTls(s) = direct;
    QString b0 = tst_QXmppStream::buffer(s), c0 = tst_QXmppStream::cached(s); QByteArray p0 = tst_QXmppStream::pending(s);
    void *args[1] = { nullptr };
    slotFor(&QAbstractSocket::connected, s, sock)->call(s, args);
    if (!direct) assertClean(s);
    else {
        // with direct TLS the stream starts in encrypted(); connected() must not touch the receiver
        vp_assert(vp_c03_events() == 0, "C03 restart: connected() with direct TLS emits nothing");
        vp_assert(tst_QXmppStream::buffer(s) == b0 && tst_QXmppStream::cached(s) == c0 && tst_QXmppStream::pending(s) == p0, "C03 restart: connected() with direct TLS leaves the receiver state alone");
    }
}
