// C03 layer (b), LITERAL rendering: text -> events, as ONE INDUCTIVE STEP of the REAL XmppSocket::processData (src/base/Stream.cpp).
// Same invariant and oracle as h_text.cpp (read its header), but the token stream T is rendered with the real delimiter
// characters (lit_text.c), the next read may be cut at ANY unit position (inside "</", inside a name, between "/" and ">",
// inside a quoted attribute value ...), and every QString member that inspects characters is modelled exactly (lit_qstring.c).
// lit_two_reads: two real calls; the first read ends inside a final closing tag after its "</", the second one completes it.
#include "base/Stream.cpp"
#include "vp_harness.h"
#include "vp_dom.h"
extern "C" {
void vp_lit_make_stream(QString *text, unsigned minStanzas, unsigned maxStanzas, unsigned part);
unsigned vp_lit_length(); bool vp_lit_boundary(unsigned pos); bool vp_lit_in_close_tag(unsigned pos, unsigned *end);
void vp_lit_cached_at(QString *out, unsigned j); void vp_lit_slice(QString *out, unsigned from, unsigned to);
bool vp_lit_events_are(unsigned j, unsigned j2); unsigned vp_lit_events(); unsigned vp_lit_header_end();
}
#ifndef C03_STANZAS
#define C03_STANZAS 3
#endif
// XmppSocket declares `friend class ::tst_QXmppStream` (its unit test): the harness uses that door to the private members
class tst_QXmppStream {
public:
    static void feed(XmppSocket *s, const QString &chunk) { s->processData(chunk); }
    static QString &cached(XmppSocket *s) { return s->m_streamOpenElement; }
    static QString &buffer(XmppSocket *s) { return s->m_dataBuffer; }
};

// mode 0: any step; 1: steps that end between pieces (progress); 2: steps that end inside a piece
// part 1: T starts at the stream start (nothing or a stale header cached); 2: the header was received earlier (T = stanzas/close only)
static void step(int mode, unsigned part)
{
    auto *s = new XmppSocket(nullptr);
    QString T; vp_lit_make_stream(&T, 0, C03_STANZAS, part);
    unsigned n = vp_lit_length();
    const unsigned j = 0;
    unsigned k = vp_u32(), k2 = vp_u32();
    vp_assume(k <= k2 && k2 <= n);
    // strengthened invariant: a non-empty buffer ends inside a piece (whenever the received text ended between pieces the
    // previous step delivered everything - that is the progress assertion below, so the induction carries it)
    vp_assume(k == j || !vp_lit_boundary(k));
    bool complete = vp_lit_boundary(k2);
    if (mode == 1) vp_assume(complete);
    if (mode == 2) vp_assume(!complete);
    // pre-state I(j,k)
    QString cachedPre; vp_lit_cached_at(&cachedPre, j);
    QString bufPre; vp_lit_slice(&bufPre, j, k);
    tst_QXmppStream::cached(s) = cachedPre;
    tst_QXmppStream::buffer(s) = bufPre;
    // the read
    QString chunk; vp_lit_slice(&chunk, k, k2);
    tst_QXmppStream::feed(s, chunk);
    // post-state
    unsigned left = tst_QXmppStream::buffer(s).size();
    vp_assert(left <= k2 - j, "C03 the buffer never holds more than what was received and not yet delivered");
    vp_assume(left <= k2 - j);
    unsigned j2 = k2 - left;
    QString rest; vp_lit_slice(&rest, j2, k2);
    vp_assert(tst_QXmppStream::buffer(s) == rest, "C03 the buffer is exactly the undelivered tail of the received text");
    vp_assert(vp_lit_boundary(j2), "C03 delivery stops between pieces, never inside one");
    vp_assert(vp_lit_events_are(j, j2), "C03 exactly the events of the consumed pieces are emitted, once each, in stream order, with their content");
    if (complete) vp_assert(j2 == k2, "C03 everything is delivered as soon as the received text ends between pieces");
    unsigned hend = vp_lit_header_end();
    if (hend > j && hend <= j2) {
        QString want; vp_lit_slice(&want, j, hend);
        vp_assert(tst_QXmppStream::cached(s) == want, "C03 the stream header is cached when it is consumed");
    } else {
        vp_assert(tst_QXmppStream::cached(s) == cachedPre, "C03 the cached stream header is kept");
    }
}
extern "C" void h_lit_step_start() { step(0, 1); }
extern "C" void h_lit_step_mid() { step(0, 2); }
extern "C" void h_lit_complete_start() { step(1, 1); }
extern "C" void h_lit_complete_mid() { step(1, 2); }
extern "C" void h_lit_partial_start() { step(2, 1); }
extern "C" void h_lit_partial_mid() { step(2, 2); }

// Two real reads from the state "header consumed, buffer empty": T = [ws] stanza{1..n} [ws] [close]; the first read T[0..k1) ends
// inside the final closing tag of a piece (the last stanza's "</N>" or "</stream:stream>") strictly after its "</" and before
// its ">", the second read T[k1..k2) brings the rest of that tag (and possibly more, up to a piece boundary k2).
// After both reads everything up to k2 has been delivered exactly once, in order, and nothing is left in the buffer.
extern "C" void h_lit_two_reads()
{
    auto *s = new XmppSocket(nullptr);
    QString T; vp_lit_make_stream(&T, 1, C03_STANZAS, 2);
    unsigned n = vp_lit_length();
    unsigned k1 = vp_u32(), k2 = vp_u32(), e = 0;
    vp_assume(k1 <= k2 && k2 <= n);
    vp_assume(vp_lit_in_close_tag(k1, &e));
    vp_assume(k2 >= e && vp_lit_boundary(k2));
    QString cachedPre; vp_lit_cached_at(&cachedPre, 0);
    tst_QXmppStream::cached(s) = cachedPre;
    QString r1; vp_lit_slice(&r1, 0, k1);
    tst_QXmppStream::feed(s, r1);
    unsigned left1 = tst_QXmppStream::buffer(s).size();
    vp_assert(left1 <= k1, "C03 the buffer never holds more than what was received and not yet delivered");
    vp_assume(left1 <= k1);
    unsigned j1 = k1 - left1;
    vp_assert(vp_lit_boundary(j1) && vp_lit_events_are(0, j1), "C03 first read: exactly the pieces completed so far are delivered");
    QString r2; vp_lit_slice(&r2, k1, k2);
    tst_QXmppStream::feed(s, r2);
    vp_assert(tst_QXmppStream::buffer(s).isEmpty(), "C03 a read that completes a closing tag cut after its '</' delivers the buffered stanza");
    vp_assert(vp_lit_events_are(0, k2), "C03 after both reads exactly the events of all received pieces were emitted, once each, in order");
    vp_assert(tst_QXmppStream::cached(s) == cachedPre, "C03 the cached stream header is kept");
}
