/* C03 layer (b), LITERAL rendering: environment of the REAL XmppSocket::processData for the lit_* instances.
   Where m_text.c renders a piece of the stream as 2-3 abstract atoms, this file renders it with the real DELIMITER characters
   at their true positions and abstract (private-use, delimiter-free) units only for names, values and text:
     P  = "<?xml" SP D "?>"                                   D  = 0xE010            (stands for version='1.0' ...)
     H  = "<stream:stream" SP A "=" "'" V "'" ">"              A  = 0xE011, V = 0xE100+id (identity of the header)
     X  = "<" N "/>" | "<" N ">" T "</" N ">" | "<" N SP A "=" '"' T '"' "/>" | "<" N SP A "=" '"' "/>" '"' "/>" | "<" N "><" M "/></" N ">"
                                                               N  = 0xE200+id, T = 0xE300+id, M = 0xE400+id
     C  = "</stream:stream>"                                   ws = SP | LF
   so that code which inspects the characters of the buffer (indexOf("</"), endsWith('>'), count('<') ...: lit_qstring.c) gets
   exact answers. The two QRegularExpression patterns of processData and QDomDocument::setContent are implemented over this
   character text: the regexes literally, setContent as a well-formedness scanner for the XML subset that can occur
   (declaration at offset 0, elements, attributes with quoted values - delimiters inside quotes are data -, character data,
   whitespace): tags must nest, close names must match (first unit), exactly one root, nothing but whitespace outside it. */
#ifdef HAVE_T_struct_QArrayData
static int c03_is_space(uint16_t u) { return u == 0x20 || (u >= 0x09 && u <= 0x0D) || u == 0x85 || u == 0xA0 || u == 0x1680 || (u >= 0x2000 && u <= 0x200A) || u == 0x2028 || u == 0x2029 || u == 0x202F || u == 0x205F || u == 0x3000; }
static int lit_xml_space(uint16_t u) { return u == 0x20 || u == 0x09 || u == 0x0A || u == 0x0D; }
static int lit_re_space(uint16_t u) { return u == 0x20 || (u >= 0x09 && u <= 0x0D); }   /* PCRE2 \s without UCP */
static int lit_name_char(uint16_t u) { return !(u == '<' || u == '>' || u == '/' || u == '?' || u == '=' || u == '\'' || u == '"' || u == '!' || u == '&' || lit_xml_space(u)); }
static const uint16_t LIT_CLOSE[16] = { '<','/','s','t','r','e','a','m',':','s','t','r','e','a','m','>' };
static const uint16_t LIT_OPEN[14] = { '<','s','t','r','e','a','m',':','s','t','r','e','a','m' };
static const uint16_t LIT_XML[5] = { '<','?','x','m','l' };

/* ---- provenance: blocks known to hold exactly L.t[from .. from+size) (the slices the harness cuts out of the stream text).
   Appending a slice to the slice that precedes it yields the longer slice of the SAME text: the result is built from L.t without
   the symbolic shift a generic concatenation needs (exactly the same content, see lit_append). Registered blocks are never
   written: every string operation of this layer returns a fresh block, and lit_pre.c/ below make detach (reallocData) and resize
   copy instead of reusing a block in place. ---- */
#define LIT_MAXPROV 8
static struct { QAD *blk; uint32_t from; } lit_prov[LIT_MAXPROV]; static uint32_t lit_nprov;
static void lit_prov_add(QAD *d, uint32_t from) { if (lit_nprov < LIT_MAXPROV) { lit_prov[lit_nprov].blk = d; lit_prov[lit_nprov].from = from; lit_nprov++; } }
static int lit_prov_find(QAD *d) { int r = -1; for (uint32_t i = 0; i < LIT_MAXPROV; i++) if (i < lit_nprov && lit_prov[i].blk == d && r < 0) r = (int)i; return r; }
#undef _ZN7QString11reallocDataEjb
#undef _ZN7QString6resizeEi
void _ZN7QString11reallocDataEjb(char *self, uint32_t alloc, uint8_t grow) { QAD *d = *(QAD**)self; ASSERT(alloc <= QS_CAP + 1 && d->f1 <= C03_TCAP, "QString capacity of the model exceeded"); *(QAD**)self = c03_qs(qs_chars(d), d->f1, 0, 0); }
void _ZN7QString6resizeEi(char *self, uint32_t n) { QAD *d = *(QAD**)self; if ((int32_t)n < 0) n = 0; ASSERT(n <= C03_TCAP && d->f1 <= C03_TCAP, "QString capacity of the model exceeded"); QAD *r = c03_qs(qs_chars(d), n < d->f1 ? n : d->f1, 0, 0); r->f1 = n; *(QAD**)self = r; }

/* ---- QString members reached by processData besides those of lit_qstring.c: always-fresh blocks, constant loop bounds ---- */
char* _ZN7QString6insertEiPK5QChari(char *self, uint32_t i, char *p, uint32_t n) { QAD *a = *(QAD**)self; ASSERT(i == 0, "QString::insert model: only prepend"); if (!p || (int32_t)n <= 0) return self;
  *(QAD**)self = c03_qs((uint16_t*)p, n, qs_chars(a), a->f1); return self; }
char* _ZN7QString6insertEiRKS_(char *self, uint32_t i, char *o) { QAD *b = *(QAD**)o; return _ZN7QString6insertEiPK5QChari(self, i, (char*)qs_chars(b), b->f1); }
static void vpl_lt_trim(const uint16_t *p, uint32_t n, uint32_t *from, uint32_t *to) { uint32_t a = 0, b = 0; uint8_t lead = 1;
  for (uint32_t i = 0; i < C03_TCAP; i++) { if (i >= n) break; if (!c03_is_space(p[i])) { lead = 0; b = i + 1; } else if (lead) a = i + 1; }
  if (b < a) b = a; *from = a; *to = b; }
void _ZN7QString14trimmed_helperERKS_(char *ret, char *self) { QAD *a = *(QAD**)self; uint32_t f, t; ASSERT(a->f1 <= C03_TCAP, "text model: string longer than the bound"); vpl_lt_trim(qs_chars(a), a->f1, &f, &t); *(QAD**)ret = c03_slice(qs_chars(a), a->f1, f, t); }
void _ZN7QString14trimmed_helperERS_(char *ret, char *self) { _ZN7QString14trimmed_helperERKS_(ret, self); }

/* ---- QRegularExpression: exactly the two patterns of processData, implemented on the characters ---- */
static const char LIT_RE_START[] = "^(<\\?xml.*\\?>)?\\s*<stream:stream[^>]*>";
static const char LIT_RE_END[] = "</stream:stream>$";
struct lit_re { uint32_t kind; };
struct lit_match { uint32_t has; QAD *cap0; };
static int vpl_lre_is(QAD *pat, const char *lit, uint32_t n) { if (pat->f1 != n) return 0; const uint16_t *p = qs_chars(pat); for (uint32_t i = 0; i < 41; i++) { if (i >= n) break; if (p[i] != (uint8_t)lit[i]) return 0; } return 1; }
void _ZN18QRegularExpressionC1ERK7QString6QFlagsINS_13PatternOptionEE(char *self, char *pat, uint32_t opts) { struct lit_re *r = malloc(sizeof(struct lit_re)); ASSUME(r != 0); QAD *p = *(QAD**)pat;
  r->kind = vpl_lre_is(p, LIT_RE_START, sizeof(LIT_RE_START) - 1) ? 1 : (vpl_lre_is(p, LIT_RE_END, sizeof(LIT_RE_END) - 1) ? 2 : 0);
  ASSERT(r->kind != 0 && opts == 0, "QRegularExpression model: only the two patterns of XmppSocket::processData (no options) are modelled"); *(struct lit_re**)self = r; }
void _ZN18QRegularExpressionD1Ev(char *self) { }
/* ^(<\?xml.*\?>)?\s*<stream:stream[^>]*>
   hs[i] = end of a match of  \s*<stream:stream[^>]*>  that starts at i (0 = none), computed right to left, every index a constant.
   With the optional group: the subject starts with "<?xml", '.' does not match LF, ".*" is greedy: the LAST "?>" after which hs
   matches wins; without it (or if no such "?>" exists: backtracking drops the group) hs[0]. Returns the end of capture 0. */
static uint8_t vpl_lre_open_at(const uint16_t *p, uint32_t i) { uint8_t ok = 1; for (uint32_t k = 0; k < 14; k++) if (p[i + k] != LIT_OPEN[k]) ok = 0; return ok; }
static uint32_t vpl_lre_start(const uint16_t *p, uint32_t n) { uint32_t hs[C03_TCAP + 3], gt[C03_TCAP + 17];
  for (uint32_t k = 0; k < 17; k++) gt[C03_TCAP + k] = 0; hs[C03_TCAP] = 0; hs[C03_TCAP + 1] = 0; hs[C03_TCAP + 2] = 0;
  for (uint32_t j = 0; j < C03_TCAP; j++) { uint32_t i = C03_TCAP - 1 - j;                       /* gt[i] = 1 + position of the first '>' at or after i (0 = none) */
    gt[i] = (i < n && p[i] == '>') ? i + 1 : gt[i + 1];
    uint32_t h = 0; if (i < n) { if (i + 14 <= n && i + 14 <= C03_TCAP && vpl_lre_open_at(p, i)) h = gt[i + 14]; else if (lit_re_space(p[i])) h = hs[i + 1]; } hs[i] = h; }
  uint8_t xml = n >= 5; for (uint32_t k = 0; k < 5; k++) if (k >= n || p[k] != LIT_XML[k]) xml = 0;
  if (!xml) return hs[0];
  uint32_t best = 0; uint8_t nolf = 1;
  for (uint32_t q = 5; q + 2 <= C03_TCAP; q++) { if (q + 2 > n) break; if (nolf && p[q] == '?' && p[q + 1] == '>' && hs[q + 2]) best = hs[q + 2]; if (p[q] == 0x0A) nolf = 0; }
  return best ? best : hs[0]; }
/* </stream:stream>$ : the subject ends with the close tag, optionally followed by one final LF */
static uint8_t vpl_lre_close_at(const uint16_t *p, uint32_t i) { uint8_t ok = 1; for (uint32_t k = 0; k < 16; k++) if (p[i + k] != LIT_CLOSE[k]) ok = 0; return ok; }
static int vpl_lre_end(const uint16_t *p, uint32_t n) { int r = 0; uint32_t m = (n > 0 && p[n - 1] == 0x0A) ? n - 1 : n;
  for (uint32_t j = 0; j + 16 <= C03_TCAP; j++) { if ((j + 16 == n || j + 16 == m) && vpl_lre_close_at(p, j)) r = 1; } return r; }
void _ZNK18QRegularExpression5matchERK7QStringiNS_9MatchTypeE6QFlagsINS_11MatchOptionEE(char *ret, char *self, char *subj, uint32_t off, uint32_t mt, uint32_t mo) {
  struct lit_re *r = *(struct lit_re**)self; QAD *s = *(QAD**)subj; struct lit_match *m = malloc(sizeof(struct lit_match)); ASSUME(m != 0); m->has = 0; m->cap0 = SHARED_NULL;
  ASSERT(off == 0 && mt == 0 && mo == 0, "QRegularExpression::match model: default arguments only"); ASSERT(s->f1 <= C03_TCAP, "text model: subject longer than the bound");
  if (r->kind == 1) { uint32_t e = vpl_lre_start(qs_chars(s), s->f1); if (e) { m->has = 1; m->cap0 = c03_qs(qs_chars(s), e, 0, 0); } }
  else { m->has = vpl_lre_end(qs_chars(s), s->f1); if (m->has) m->cap0 = c03_qs(LIT_CLOSE, 16, 0, 0); }
  *(struct lit_match**)ret = m; }
uint8_t _ZNK23QRegularExpressionMatch8hasMatchEv(char *self) { return (*(struct lit_match**)self)->has != 0; }
void _ZNK23QRegularExpressionMatch8capturedEi(char *ret, char *self, uint32_t nth) { struct lit_match *m = *(struct lit_match**)self; ASSERT(nth == 0, "captured(n>0) not modelled"); *(QAD**)ret = m->has ? qad_ref(m->cap0) : SHARED_NULL; }
void _ZN23QRegularExpressionMatchD1Ev(char *self) { }

/* ---- QDomDocument::setContent: well-formedness scanner over the characters ---- */
void _ZN12QDomDocumentC1Ev(char *self) { DN(self) = 0; }
void _ZN12QDomDocumentD1Ev(char *self) { }
static QAD *lit_unit(uint16_t u) { QAD *d = qs_new(1, 1); C03_SD(d)[0] = u; return d; }
#define LIT_MAXCHILD 4
struct lit_doc { uint8_t ok; uint16_t hid; uint32_t nch; uint16_t cname[LIT_MAXCHILD], ccont[LIT_MAXCHILD]; };
enum { LS_TEXT, LS_LT, LS_OPEN_NAME, LS_IN_TAG, LS_ATTR_NAME, LS_ATTR_NAME_WS, LS_ATTR_EQ, LS_ATTR_VAL, LS_AFTER_ATTR, LS_EMPTY, LS_CLOSE0, LS_CLOSE_NAME, LS_CLOSE_WS, LS_PI, LS_PI_Q, LS_BAD };
#define LIT_REC(nm, ct) do { if (D.nch >= LIT_MAXCHILD) lim = 1; else { for (uint32_t k_ = 0; k_ < LIT_MAXCHILD; k_++) if (k_ == D.nch) { D.cname[k_] = (nm); D.ccont[k_] = (ct); } D.nch++; } } while (0)
/* identity of an element = first unit of its name; content of a top-level child = the last unit of attribute value / character
   data / nested element name inside it (0 = none); identity of the root = first unit of its first attribute value.
   One pass, one state; the transition is a single conditional expression (few SSA assignments per unit). */
static struct lit_doc vpl_lit_parse(const uint16_t *p, uint32_t n) { struct lit_doc D; D.ok = 0; D.hid = 0; D.nch = 0; for (uint32_t k = 0; k < LIT_MAXCHILD; k++) { D.cname[k] = 0; D.ccont[k] = 0; }
  uint8_t st = LS_TEXT, lim = 0, root_seen = 0, root_done = 0, hid_set = 0; uint32_t depth = 0; uint16_t q = 0, cur = 0, cont = 0, nm0 = 0, nm1 = 0, nm2 = 0, nm3 = 0;
  for (uint32_t i = 0; i < C03_TCAP; i++) { if (i >= n) break; const uint16_t u = p[i];
    const uint8_t lt = u == '<', gt = u == '>', sl = u == '/', qm = u == '?', eq = u == '=', qu = (u == '\'' || u == '"'), amp = u == '&', bang = u == '!', ws = lit_xml_space(u);
    const uint8_t nc = !(lt || gt || sl || qm || eq || qu || amp || bang || ws), endq = u == q;
    const uint8_t nx =
        st == LS_TEXT ? (lt ? LS_LT : ((depth == 0 && !ws && !amp) ? LS_BAD : LS_TEXT))
      : st == LS_LT ? (sl ? LS_CLOSE0 : (qm ? (i == 1 ? LS_PI : LS_BAD) : (nc ? LS_OPEN_NAME : LS_BAD)))
      : st == LS_OPEN_NAME ? (nc ? LS_OPEN_NAME : (ws ? LS_IN_TAG : (sl ? LS_EMPTY : (gt ? LS_TEXT : LS_BAD))))
      : st == LS_IN_TAG ? (ws ? LS_IN_TAG : (sl ? LS_EMPTY : (gt ? LS_TEXT : (nc ? LS_ATTR_NAME : LS_BAD))))
      : st == LS_ATTR_NAME ? (nc ? LS_ATTR_NAME : (eq ? LS_ATTR_EQ : (ws ? LS_ATTR_NAME_WS : LS_BAD)))
      : st == LS_ATTR_NAME_WS ? (ws ? LS_ATTR_NAME_WS : (eq ? LS_ATTR_EQ : LS_BAD))
      : st == LS_ATTR_EQ ? (ws ? LS_ATTR_EQ : (qu ? LS_ATTR_VAL : LS_BAD))
      : st == LS_ATTR_VAL ? (endq ? LS_AFTER_ATTR : (lt ? LS_BAD : LS_ATTR_VAL))
      : st == LS_AFTER_ATTR ? (ws ? LS_IN_TAG : (sl ? LS_EMPTY : (gt ? LS_TEXT : LS_BAD)))
      : st == LS_EMPTY ? (gt ? LS_TEXT : LS_BAD)
      : st == LS_CLOSE0 ? (nc ? LS_CLOSE_NAME : LS_BAD)
      : st == LS_CLOSE_NAME ? (nc ? LS_CLOSE_NAME : (ws ? LS_CLOSE_WS : (gt ? LS_TEXT : LS_BAD)))
      : st == LS_CLOSE_WS ? (ws ? LS_CLOSE_WS : (gt ? LS_TEXT : LS_BAD))
      : st == LS_PI ? (qm ? LS_PI_Q : LS_PI)
      : st == LS_PI_Q ? (gt ? LS_TEXT : (qm ? LS_PI_Q : LS_PI))
      : LS_BAD;
    const uint8_t op = (st == LS_OPEN_NAME || st == LS_IN_TAG || st == LS_AFTER_ATTR) && gt, em = st == LS_EMPTY && gt, cl = (st == LS_CLOSE_NAME || st == LS_CLOSE_WS) && gt;
    const uint8_t val = st == LS_ATTR_VAL && !endq;
    lim = lim || ((st == LS_TEXT || val) && amp) || (st == LS_LT && bang);
    cur = ((st == LS_LT || st == LS_CLOSE0) && nc) ? u : cur;
    q = (st == LS_ATTR_EQ && qu) ? u : q;
    cont = (st == LS_TEXT && lt && depth == 1) ? 0 : (((st == LS_TEXT && !lt && depth >= 2) || (val && depth >= 1)) ? u : cont);
    if (val && depth == 0 && !hid_set) { D.hid = u; hid_set = 1; }
    st = nx;
    if (op || em) {
      if (depth == 0) { if (root_seen) st = LS_BAD; root_seen = 1; nm0 = cur; if (em) root_done = 1; }
      else if (depth == 1) { nm1 = cur; if (em) LIT_REC(cur, cont); }
      else { if (depth == 2) nm2 = cur; else if (depth == 3) nm3 = cur; else lim = 1; cont = cur; }
      if (op) depth++; }
    if (cl) {
      if (depth == 0) st = LS_BAD;
      else { const uint16_t want = depth == 1 ? nm0 : (depth == 2 ? nm1 : (depth == 3 ? nm2 : nm3)); if (cur != want) st = LS_BAD; depth--; if (depth == 0) root_done = 1; if (depth == 1 && st != LS_BAD) LIT_REC(nm1, cont); } } }
  D.ok = st == LS_TEXT && depth == 0 && root_done;
  if (D.ok && n >= 2 && p[0] == '<' && p[1] == '?') { uint8_t x = n >= 6 && p[2] == 'x' && p[3] == 'm' && p[4] == 'l' && lit_xml_space(p[5]); if (!x) lim = 1; }   /* a complete PI at offset 0 that is not the XML declaration */
  ASSERT(!lim, "setContent model: only the XML declaration, elements, attributes, character data (no entities/CDATA/comments/other PIs, depth <= 4, <= 4 stanzas per document) are modelled");
  ASSUME(!lim);
  return D; }
static struct dnode *lit_build(struct lit_doc *D) { struct dnode *root = dn_new(); root->tag = lit_unit(D->hid); root->ns = root->tag;
  for (uint32_t k = 0; k < LIT_MAXCHILD; k++) { if (k >= D->nch) break; struct dnode *c = dn_new(); c->tag = lit_unit(D->cname[k]); c->ns = root->ns; c->text = lit_unit(D->ccont[k]); dn_append(root, c); }
  return root; }
uint8_t _ZN12QDomDocument10setContentERK7QStringbPS0_PiS4_(char *self, char *text, uint8_t nsp, char *err, char *el, char *ec) { QAD *t = *(QAD**)text;
  ASSERT(t->f1 <= C03_TCAP, "text model: document longer than the bound"); ASSERT(nsp == 1, "setContent model: namespace processing expected");
  struct lit_doc D = vpl_lit_parse(qs_chars(t), t->f1); DN(self) = D.ok ? lit_build(&D) : 0; return D.ok; }
void _ZNK12QDomDocument15documentElementEv(char *ret, char *self) { DN(ret) = DN(self); }

/* ---- the four signals of XmppSocket: ghost event log ---- */
#define LIT_MAXEV 8
#define EV_STARTED 1
#define EV_STREAM 2
#define EV_STANZA 3
#define EV_CLOSED 4
struct lit_ev { uint32_t kind, a, b, c; };
static struct lit_ev lit_log[LIT_MAXEV]; static uint32_t lit_nlog, lit_keepalive;
static void lit_logev(uint32_t kind, uint32_t a, uint32_t b, uint32_t c) { ASSERT(lit_nlog < LIT_MAXEV, "event log full"); ASSUME(lit_nlog < LIT_MAXEV);
  for (uint32_t k = 0; k < LIT_MAXEV; k++) if (k == lit_nlog) { lit_log[k].kind = kind; lit_log[k].a = a; lit_log[k].b = b; lit_log[k].c = c; } lit_nlog++; }
static uint32_t lit_u1(QAD *s) { return s->f1 == 1 ? qs_chars(s)[0] : 0; }
void _ZN5QXmpp7Private10XmppSocket7startedEv(char *self) { lit_logev(EV_STARTED, 0, 0, 0); }
void _ZN5QXmpp7Private10XmppSocket14streamReceivedERK11QDomElement(char *self, char *el) { struct dnode *n = DN(el); lit_logev(EV_STREAM, n ? lit_u1(n->tag) : 0, n ? lit_u1(n->ns) : 0, 0); }
void _ZN5QXmpp7Private10XmppSocket14stanzaReceivedERK11QDomElement(char *self, char *el) { struct dnode *n = DN(el); if (!n) { lit_keepalive++; return; } lit_logev(EV_STANZA, lit_u1(n->tag), lit_u1(n->ns), lit_u1(n->text)); }
void _ZN5QXmpp7Private10XmppSocket12streamClosedEv(char *self) { lit_logev(EV_CLOSED, 0, 0, 0); }

/* ---- harness side: a symbolic stream rendered literally, and the bookkeeping of the inductive step ---- */
#ifndef LIT_SHAPES
#define LIT_SHAPES 0x0F        /* bit s set: stanza shape s may occur */
#endif
#ifndef LIT_DECL
#define LIT_DECL 1             /* the XML declaration may occur */
#endif
#define LIT_MAXST 3
#define LIT_CCAP 32
#define LIT_MAXP 12
#define LIT_MAXCL 4
static struct { uint16_t t[C03_TCAP]; uint32_t n; uint8_t earlier, decl, ws0; uint32_t hend;
  uint16_t c[LIT_CCAP]; uint32_t nc;
  struct lit_ev ev[LIT_MAXEV]; uint32_t evend[LIT_MAXEV], nev;
  uint32_t pend[LIT_MAXP], np;                                 /* end positions of all pieces (whitespace units included) */
  uint32_t clfrom[LIT_MAXCL], clto[LIT_MAXCL], clend[LIT_MAXCL], ncl; } L;  /* final closing tags: cut positions after "</" up to before ">" */
static void lit_emit(uint16_t u) { ASSERT(L.n < C03_TCAP, "stream generator: text longer than the bound"); ASSUME(L.n < C03_TCAP); L.t[L.n] = u; L.n++; }
static void lit_cemit(uint16_t u) { ASSERT(L.nc < LIT_CCAP, "stream generator: cached header longer than the bound"); ASSUME(L.nc < LIT_CCAP); L.c[L.nc] = u; L.nc++; }
static void vpl_lit_emit_decl(int cache) { for (uint32_t k = 0; k < 5; k++) { if (cache) lit_cemit(LIT_XML[k]); else lit_emit(LIT_XML[k]); } }
static void vpl_lit_emit_open(int cache) { for (uint32_t k = 0; k < 14; k++) { if (cache) lit_cemit(LIT_OPEN[k]); else lit_emit(LIT_OPEN[k]); } }
static void vpl_lit_emit_close(void) { for (uint32_t k = 0; k < 16; k++) lit_emit(LIT_CLOSE[k]); }
#define LE(cache, u) do { if (cache) lit_cemit(u); else lit_emit(u); } while (0)
static void lit_decl(int cache) { vpl_lit_emit_decl(cache); LE(cache, 0x20); LE(cache, 0xE010); LE(cache, '?'); LE(cache, '>'); }
static void lit_header(int cache, uint16_t hid) { vpl_lit_emit_open(cache); LE(cache, 0x20); LE(cache, 0xE011); LE(cache, '='); LE(cache, '\''); LE(cache, hid); LE(cache, '\''); LE(cache, '>'); }
static void lit_piece_end(void) { ASSERT(L.np < LIT_MAXP, "stream generator: too many pieces"); ASSUME(L.np < LIT_MAXP); L.pend[L.np] = L.n; L.np++; }
static void lit_piece_event(uint32_t kind, uint32_t a, uint32_t b, uint32_t c) { ASSERT(L.nev < LIT_MAXEV, "stream generator: too many events"); ASSUME(L.nev < LIT_MAXEV);
  L.ev[L.nev].kind = kind; L.ev[L.nev].a = a; L.ev[L.nev].b = b; L.ev[L.nev].c = c; L.evend[L.nev] = L.n; L.nev++; lit_piece_end(); }
static void lit_close_tag(uint32_t from) { ASSERT(L.ncl < LIT_MAXCL, "stream generator: too many closing tags"); ASSUME(L.ncl < LIT_MAXCL); L.clfrom[L.ncl] = from; L.clto[L.ncl] = L.n - 1; L.clend[L.ncl] = L.n; L.ncl++; }
/* structural choices of the generator: bit i of LIT_LAYOUT when that is defined (one instance per layout, ids / whitespace kind /
   cut positions stay symbolic), else nondeterministic.  bits: 0 decl, 1 ws0, 2 stale header cached, 3 ws after header / leading ws,
   4 close tag present, 5.. ws after stanza k;  LIT_NS = number of stanzas, LIT_SH(k) = shape of stanza k */
#ifdef LIT_LAYOUT
#define LIT_CHOICE(i) (((LIT_LAYOUT) >> (i)) & 1)
#else
#define LIT_CHOICE(i) vp_bool()
#endif
static uint16_t lit_ws(void) { return vp_bool() ? 0x0A : 0x20; }
static void lit_opt_ws(uint8_t present) { if (present) { lit_emit(lit_ws()); lit_piece_end(); } }
static void lit_stanza(uint32_t sh, uint8_t id, uint8_t id2, uint16_t hid) { uint16_t N = 0xE200 + id, T = 0xE300 + id2, M = 0xE400 + id2; uint16_t cont = 0; uint32_t cf = 0;
  lit_emit('<'); lit_emit(N);
  if (sh == 0) { lit_emit('/'); lit_emit('>'); }
  else if (sh == 1) { lit_emit('>'); lit_emit(T); lit_emit('<'); lit_emit('/'); cf = L.n; lit_emit(N); lit_emit('>'); cont = T; }
  else if (sh == 2) { lit_emit(0x20); lit_emit(0xE011); lit_emit('='); lit_emit('"'); lit_emit(T); lit_emit('"'); lit_emit('/'); lit_emit('>'); cont = T; }
  else if (sh == 3) { lit_emit(0x20); lit_emit(0xE011); lit_emit('='); lit_emit('"'); lit_emit('/'); lit_emit('>'); lit_emit('"'); lit_emit('/'); lit_emit('>'); cont = '>'; }
  else { lit_emit('>'); lit_emit('<'); lit_emit(M); lit_emit('/'); lit_emit('>'); lit_emit('<'); lit_emit('/'); cf = L.n; lit_emit(N); lit_emit('>'); cont = M; }
  if (cf) lit_close_tag(cf);
  lit_piece_event(EV_STANZA, N, hid, cont); }
/* stream = [P] [ws] H [ws] (X [ws])^n [C]   (optionally with the header of a previous stream still cached)
   or, when the header was received earlier (part 2): [ws] (X [ws])^n [C] with [P] [ws] H cached */
void vp_lit_make_stream(char *text, uint32_t minst, uint32_t maxst, uint32_t part) { for (uint32_t i = 0; i < C03_TCAP; i++) L.t[i] = 0; for (uint32_t i = 0; i < LIT_CCAP; i++) L.c[i] = 0;
  for (uint32_t i = 0; i < LIT_MAXEV; i++) { L.ev[i].kind = 0; L.ev[i].a = 0; L.ev[i].b = 0; L.ev[i].c = 0; L.evend[i] = 0; } for (uint32_t i = 0; i < LIT_MAXP; i++) L.pend[i] = 0;
  for (uint32_t i = 0; i < LIT_MAXCL; i++) { L.clfrom[i] = 0; L.clto[i] = 0; L.clend[i] = 0; }
  L.n = 0; L.nc = 0; L.nev = 0; L.hend = 0; L.np = 0; L.ncl = 0;
  L.earlier = part == 2; uint16_t hid = 0xE100 + vp_u8(); L.decl = LIT_DECL ? LIT_CHOICE(0) : 0; L.ws0 = LIT_CHOICE(1); uint16_t w0 = lit_ws();
  if (L.earlier) { if (L.decl) lit_decl(1); if (L.ws0) lit_cemit(w0); lit_header(1, hid); }
  else { /* a header of a previous stream may still be cached (stream restart after SASL: nothing clears it) */
    if (LIT_CHOICE(2)) lit_header(1, 0xE100 + vp_u8());
    if (L.decl) lit_decl(0); if (L.ws0) { lit_emit(w0); if (!L.decl) lit_piece_end(); } lit_header(0, hid); L.hend = L.n; lit_piece_event(EV_STREAM, hid, hid, 0); }
  lit_opt_ws(LIT_CHOICE(3));
#ifdef LIT_NS
  uint32_t ns = LIT_NS; ASSERT(ns >= minst && ns <= maxst && ns <= LIT_MAXST, "stream generator: LIT_NS outside the window of this entry");
#else
  uint32_t ns = vp_u8(); ASSUME(ns >= minst && ns <= maxst && ns <= LIT_MAXST);
#endif
  for (uint32_t k = 0; k < LIT_MAXST; k++) { if (k >= ns) break;
#ifdef LIT_SHS
    uint32_t sh = ((LIT_SHS) >> (4 * k)) & 15;           /* one hex digit per stanza */
#else
    uint32_t sh = vp_u8(); ASSUME(sh < 5 && ((LIT_SHAPES >> sh) & 1));
#endif
    lit_stanza(sh, vp_u8(), vp_u8(), hid); lit_opt_ws(LIT_CHOICE(5 + k)); }
  if (LIT_CHOICE(4)) { uint32_t cf = L.n + 2; vpl_lit_emit_close(); lit_close_tag(cf); lit_piece_event(EV_CLOSED, 0, 0, 0); }
  *(QAD**)text = c03_qs(L.t, L.n, 0, 0); }
uint32_t vp_lit_length(void) { return L.n; }
/* may the receiver have consumed everything before `pos`?  <=> pos is the end of a piece */
uint8_t vp_lit_boundary(uint32_t pos) { uint8_t r = pos == 0; for (uint32_t i = 0; i < LIT_MAXP; i++) { if (i < L.np && L.pend[i] == pos) r = 1; } return r; }
/* is `pos` a cut inside the final closing tag of a piece, after its "</" and before its ">"?  *end = end of that piece */
uint8_t vp_lit_in_close_tag(uint32_t pos, char *end) { uint8_t r = 0; uint32_t e = 0; for (uint32_t i = 0; i < LIT_MAXCL; i++) { if (i < L.ncl && pos >= L.clfrom[i] && pos <= L.clto[i]) { r = 1; e = L.clend[i]; } } *(uint32_t*)end = e; return r; }
/* header text the receiver has cached when everything before `j` is consumed */
void vp_lit_cached_at(char *out, uint32_t j) { if (L.earlier) { *(QAD**)out = c03_qs(L.c, L.nc, 0, 0); return; }
  if (L.hend == 0 || j < L.hend) { *(QAD**)out = L.nc ? c03_qs(L.c, L.nc, 0, 0) : SHARED_NULL; return; }
  *(QAD**)out = c03_slice(L.t, L.n, 0, L.hend); }
static QAD *lit_text_slice(uint32_t from, uint32_t to) { QAD *d = c03_slice(L.t, L.n, from, to); lit_prov_add(d, from); return d; }
char* _ZN7QString6appendERKS_(char *self, char *o) { QAD *a = *(QAD**)self, *b = *(QAD**)o; int ia = lit_prov_find(a), ib = lit_prov_find(b);
  if (ib >= 0 && a->f1 == 0) { *(QAD**)self = lit_text_slice(lit_prov[ib].from, lit_prov[ib].from + b->f1); return self; }
  if (ia >= 0 && ib >= 0 && lit_prov[ia].from + a->f1 == lit_prov[ib].from) { *(QAD**)self = lit_text_slice(lit_prov[ia].from, lit_prov[ib].from + b->f1); return self; }
  *(QAD**)self = c03_qs(qs_chars(a), a->f1, qs_chars(b), b->f1); return self; }
void vp_lit_slice(char *out, uint32_t from, uint32_t to) { *(QAD**)out = lit_text_slice(from, to); }
/* the events logged are exactly the events of the pieces that end in (j, j2], in order, with identity / namespace / content */
uint8_t vp_lit_events_are(uint32_t j, uint32_t j2) { uint32_t k = 0; uint8_t ok = 1;
  for (uint32_t i = 0; i < LIT_MAXEV; i++) { if (i >= L.nev) break; if (L.evend[i] > j && L.evend[i] <= j2) {
      uint8_t same = 0; for (uint32_t m = 0; m < LIT_MAXEV; m++) if (m == k && m < lit_nlog && lit_log[m].kind == L.ev[i].kind && lit_log[m].a == L.ev[i].a && lit_log[m].b == L.ev[i].b && lit_log[m].c == L.ev[i].c) same = 1;
      if (!same) ok = 0; k++; } }
  return ok && k == lit_nlog; }
uint32_t vp_lit_events(void) { return lit_nlog; }
uint32_t vp_lit_header_end(void) { return L.hend; }
#endif
