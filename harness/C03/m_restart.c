/* C03 restart instances: logging/formatting environment of the `connected` lambda (identity / empty models), event accessors */
#ifdef HAVE_T_struct_QArrayData
void _ZN9QtPrivate12argToQStringE11QStringViewmPPKNS_7ArgBaseE(char *ret, uint64_t n, char *p, uint64_t nargs, char *args) { *(QAD**)ret = SHARED_NULL; }
void _ZNK15QAbstractSocket11peerAddressEv(char *ret, char *self) { *(char**)ret = 0; }
void _ZNK12QHostAddress8toStringEv(char *ret, char *self) { *(QAD**)ret = SHARED_NULL; }
void _ZN12QHostAddressD1Ev(char *self) { }
uint16_t _ZNK15QAbstractSocket8peerPortEv(char *self) { return 0; }
void _ZN10QByteArray5clearEv(char *self) { *(QAD**)self = SHARED_NULL; }
uint32_t vp_c03_event_kind(uint32_t i) { return i < c03_nev ? (c03_ev[i] >> 24) : 0; }
uint32_t vp_c03_keepalives(void) { return c03_keepalive; }
#endif
