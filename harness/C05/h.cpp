// C05 - SASL mechanism choice. chooseMechanism() is file-static: include the real translation unit.
#include "client/QXmppSaslManager.cpp"
#include "vp_harness.h"

using namespace QXmpp::Private;
extern "C" { unsigned vp_c05_noff(); unsigned vp_c05_ndis(); }

// ---------------------------------------------------------------------------------------------------------------------
// Name table (constant strings). Written from the property text / the XEPs, not from the implementation:
// family rank (strength): HT token 6 > SCRAM 5 (by hash) > DIGEST-MD5 4 > PLAIN 3 > ANONYMOUS 2; X-* mechanisms are
// unranked (the property does not place them), rank 0 = not a mechanism name the client knows.
// ---------------------------------------------------------------------------------------------------------------------
enum Fam { F_NONE = 0, F_XGOOGLE, F_XLIVE, F_XFACEBOOK, F_ANON, F_PLAIN, F_DIGEST, F_SCRAM, F_HT };
enum { CB_ENDP = 0, CB_UNIQ = 1, CB_EXPR = 2, CB_NONE = 3 };
struct Desc { Fam fam; int hash; int cb; };

#include "table.inc"

// A name is materialised as a QString over harness-owned static storage (one slot per use, so that every data pointer is
// concrete): size and characters are the row of NAME_TAB selected by the symbolic index.
struct Slot { QArrayData hdr; char16_t data[C05_MAXLEN]; };
static Slot slots[VP_NOFF + VP_NDIS + 1] = {};
static QString nameOf(unsigned slot, unsigned i)
{
    Slot &s = slots[slot];
    s.hdr.ref.atomic.storeRelaxed(-1);   // static data, never freed (as QStringLiteral)
    s.hdr.size = NAME_LEN[i]; s.hdr.alloc = 0; s.hdr.capacityReserved = 0; s.hdr.offset = sizeof(QArrayData);
    for (int j = 0; j < C05_MAXLEN; j++) s.data[j] = NAME_TAB[i][j];
    return QString(QStringDataPtr { static_cast<QStringData *>(&s.hdr) });
}


struct Sym {
    unsigned offered[VP_NOFF]; unsigned nOff;
    unsigned disabled[VP_NDIS]; unsigned nDis;
    unsigned preferred; bool hasPreferred;
    bool password, fbToken, fbApp, liveToken, googleToken, hasHt;
    int htHash, htCb;
};

static bool isDisabled(const Sym &s, unsigned name)
{
    for (unsigned k = 0; k < VP_NDIS; k++)
        if (k < s.nDis && s.disabled[k] == name) return true;
    return false;
}
// usable with the stored credentials
static bool usable(const Sym &s, Desc d)
{
    switch (d.fam) {
    case F_HT: return s.hasHt && s.htHash == d.hash && s.htCb == d.cb && d.cb == CB_NONE;
    case F_SCRAM: case F_DIGEST: case F_PLAIN: return s.password;
    case F_ANON: return true;
    case F_XFACEBOOK: return s.fbToken && s.fbApp;
    case F_XLIVE: return s.liveToken;
    case F_XGOOGLE: return s.googleToken;
    default: return false;
    }
}
// offered /\ supported /\ enabled /\ usable
static bool candidate(const Sym &s, unsigned name)
{
    Desc d = descOf(name);
    return d.fam != F_NONE && !isDisabled(s, name) && usable(s, d);
}
static bool offered(const Sym &s, unsigned name)
{
    for (unsigned k = 0; k < VP_NOFF; k++)
        if (k < s.nOff && s.offered[k] == name) return true;
    return false;
}
// strictly stronger under the order of the property statement (only for ranked families)
static bool ranked(Desc d) { return d.fam >= F_ANON; }
static bool stronger(Desc a, Desc b)
{
    if (a.fam != b.fam) return a.fam > b.fam;
    if (a.fam == F_SCRAM) return a.hash > b.hash;
    return false;
}

// meaning of the implementation's result, by alternative type / enumerator name (independent of their numeric order)
static int scramHash(SaslScramMechanism::Algorithm a)
{
    switch (a) {
    case SaslScramMechanism::Sha1: return 0;
    case SaslScramMechanism::Sha256: return 1;
    case SaslScramMechanism::Sha512: return 2;
    case SaslScramMechanism::Sha3_512: return 3;
    }
    return -1;
}
static int ianaHash(IanaHashAlgorithm a)
{
    switch (a) {
    case IanaHashAlgorithm::Sha256: return 0;
    case IanaHashAlgorithm::Sha384: return 1;
    case IanaHashAlgorithm::Sha512: return 2;
    case IanaHashAlgorithm::Sha3_224: return 3;
    case IanaHashAlgorithm::Sha3_256: return 4;
    case IanaHashAlgorithm::Sha3_384: return 5;
    case IanaHashAlgorithm::Sha3_512: return 6;
    }
    return -1;
}
static IanaHashAlgorithm ianaOf(int h)
{
    switch (h) {
    case 0: return IanaHashAlgorithm::Sha256;
    case 1: return IanaHashAlgorithm::Sha384;
    case 2: return IanaHashAlgorithm::Sha512;
    case 3: return IanaHashAlgorithm::Sha3_224;
    case 4: return IanaHashAlgorithm::Sha3_256;
    case 5: return IanaHashAlgorithm::Sha3_384;
    default: return IanaHashAlgorithm::Sha3_512;
    }
}
static int cbCode(SaslHtMechanism::ChannelBindingType t)
{
    switch (t) {
    case SaslHtMechanism::TlsServerEndpoint: return CB_ENDP;
    case SaslHtMechanism::TlsUnique: return CB_UNIQ;
    case SaslHtMechanism::TlsExporter: return CB_EXPR;
    case SaslHtMechanism::None: return CB_NONE;
    }
    return -1;
}
static SaslHtMechanism::ChannelBindingType cbOf(int c)
{
    switch (c) {
    case CB_ENDP: return SaslHtMechanism::TlsServerEndpoint;
    case CB_UNIQ: return SaslHtMechanism::TlsUnique;
    case CB_EXPR: return SaslHtMechanism::TlsExporter;
    default: return SaslHtMechanism::None;
    }
}
static Desc descOfResult(const SaslMechanism &m)
{
    Desc d { F_NONE, 0, 0 };
    if (std::holds_alternative<SaslXGoogleMechanism>(m)) d.fam = F_XGOOGLE;
    else if (std::holds_alternative<SaslXWindowsLiveMechanism>(m)) d.fam = F_XLIVE;
    else if (std::holds_alternative<SaslXFacebookMechanism>(m)) d.fam = F_XFACEBOOK;
    else if (std::holds_alternative<SaslAnonymousMechanism>(m)) d.fam = F_ANON;
    else if (std::holds_alternative<SaslPlainMechanism>(m)) d.fam = F_PLAIN;
    else if (std::holds_alternative<SaslDigestMd5Mechanism>(m)) d.fam = F_DIGEST;
    else if (auto *sc = std::get_if<SaslScramMechanism>(&m)) { d.fam = F_SCRAM; d.hash = scramHash(sc->algorithm); }
    else if (auto *ht = std::get_if<SaslHtMechanism>(&m)) { d.fam = F_HT; d.hash = ianaHash(ht->hashAlgorithm); d.cb = cbCode(ht->channelBindingType); }
    return d;
}
static bool sameDesc(Desc a, Desc b) { return a.fam == b.fam && a.hash == b.hash && a.cb == b.cb; }

static void makeSym(Sym &s)
{
    s.nOff = vp_c05_noff(); vp_assume(s.nOff <= VP_NOFF);      // list lengths are fixed per instance (-DC05_NOFF/-DC05_NDIS on the C side)
    for (unsigned k = 0; k < VP_NOFF; k++) { s.offered[k] = vp_u32(); vp_assume(s.offered[k] < N_NAMES); }
    s.nDis = vp_c05_ndis(); vp_assume(s.nDis <= VP_NDIS);
    for (unsigned k = 0; k < VP_NDIS; k++) { s.disabled[k] = vp_u32(); vp_assume(s.disabled[k] < N_NAMES); }
    s.hasPreferred = vp_bool(); s.preferred = vp_u32(); vp_assume(s.preferred < N_NAMES);
    s.password = vp_bool(); s.fbToken = vp_bool(); s.fbApp = vp_bool(); s.liveToken = vp_bool(); s.googleToken = vp_bool();
    s.hasHt = vp_bool(); s.htHash = int(vp_u32() % 7); s.htCb = int(vp_u32() % 4);
}

static void applyConfig(QXmppConfiguration &config, const Sym &s, bool defaultDisabled)
{
    if (!defaultDisabled) {
        QList<QString> dis;
        for (unsigned k = 0; k < VP_NDIS; k++)
            if (k < s.nDis) dis.append(nameOf(VP_NOFF + k, s.disabled[k]));
        config.setDisabledSaslMechanisms(dis);
    }
    if (s.hasPreferred) config.setSaslAuthMechanism(nameOf(VP_NOFF + VP_NDIS, s.preferred));
    auto &c = config.credentialData();
    const QString secret = QStringLiteral("s3cret");
    if (s.password) c.password = secret;
    if (s.fbToken) c.facebookAccessToken = secret;
    if (s.fbApp) c.facebookAppId = secret;
    if (s.liveToken) c.windowsLiveAccessToken = secret;
    if (s.googleToken) c.googleAccessToken = secret;
    if (s.hasHt) c.htToken = HtToken { SaslHtMechanism { ianaOf(s.htHash), cbOf(s.htCb) }, secret, QDateTime() };
}

static void checkChoice(const Sym &s, const std::optional<SaslMechanism> &res)
{
    bool any = false;
    for (unsigned k = 0; k < VP_NOFF; k++)
        if (k < s.nOff && candidate(s, s.offered[k])) any = true;

    if (!res) {
        vp_assert(!any, "C05 a permitted mechanism is offered but none was chosen");
        return;
    }
    vp_assert(any, "C05 a mechanism was chosen although nothing qualifies (must be mismatch)");
    Desc r = descOfResult(*res);
    // the chosen mechanism is one of the offered names, and that name is permitted
    bool found = false;
    for (unsigned k = 0; k < VP_NOFF; k++)
        if (k < s.nOff && sameDesc(descOf(s.offered[k]), r) && descOf(s.offered[k]).fam != F_NONE) {
            found = true;
            vp_assert(!isDisabled(s, s.offered[k]), "C05 disabled mechanism chosen");
            vp_assert(usable(s, r), "C05 mechanism chosen that is not usable with the stored credentials");
        }
    vp_assert(found, "C05 chosen mechanism was not offered");
    // preferred wins iff it is itself offered and permitted
    bool prefOk = s.hasPreferred && offered(s, s.preferred) && candidate(s, s.preferred);
    if (prefOk) {
        vp_assert(sameDesc(r, descOf(s.preferred)), "C05 preferred mechanism is offered and permitted but was not used");
    } else {
        // strongest: no permitted offered mechanism is strictly stronger (order of the property statement)
        for (unsigned k = 0; k < VP_NOFF; k++)
            if (k < s.nOff && candidate(s, s.offered[k])) {
                Desc o = descOf(s.offered[k]);
                if (ranked(o) && ranked(r)) vp_assert(!stronger(o, r), "C05 a stronger permitted mechanism was offered");
            }
    }
}

// every offer list (<= VP_NOFF names from the table), every disabled list, every preferred name, every credential set
extern "C" void h_choose()
{
    Sym s; makeSym(s);
    QXmppConfiguration config;
    applyConfig(config, s, false);
    QList<QString> off;
    for (unsigned k = 0; k < VP_NOFF; k++)
        if (k < s.nOff) off.append(nameOf(k, s.offered[k]));
    auto [mech, disabledAvailable] = chooseMechanism(config, off);
    checkChoice(s, mech);
}

// default configuration (nothing set by the user except credentials): PLAIN is disabled
extern "C" void h_default_plain()
{
    Sym s; makeSym(s); s.nDis = 0; s.hasPreferred = vp_bool();
    QXmppConfiguration config;
    applyConfig(config, s, true);
    QList<QString> off;
    for (unsigned k = 0; k < VP_NOFF; k++)
        if (k < s.nOff) off.append(nameOf(k, s.offered[k]));
    auto [mech, disabledAvailable] = chooseMechanism(config, off);
    if (mech) vp_assert(!std::holds_alternative<SaslPlainMechanism>(*mech), "C05 PLAIN chosen under the default configuration (PLAIN is disabled by default)");
    s.nDis = 1; s.disabled[0] = IDX_PLAIN;
    checkChoice(s, mech);
}

#ifdef VP_DEBUG_ENTRIES
extern "C" void h_dbg3()
{
    Sym s; makeSym(s);
    QXmppConfiguration config;
    applyConfig(config, s, false);
    auto d = config.disabledSaslMechanisms();
    int c = 0; for (const auto &x : d) c++;
    vp_assert(c == 2, "C05 dbg");
}
extern "C" void h_dbg4()
{
    Sym s; makeSym(s);
    QList<QString> d;
    for (unsigned k = 0; k < VP_NDIS; k++)
        if (k < s.nDis) d.append(nameOf(VP_NOFF + k, s.disabled[k]));
    int c = 0; for (const auto &x : d) c++;
    vp_assert(c == 2, "C05 dbg");
}
extern "C" void h_dbg5()
{
    QList<QString> d;
    for (unsigned k = 0; k < VP_NDIS; k++)
        d.append(nameOf(VP_NOFF + k, 3));
    int c = 0; for (const auto &x : d) c++;
    vp_assert(c == 2, "C05 dbg");
}
extern "C" void h_dbg6()
{
    Sym s; makeSym(s);
    QXmppConfiguration config;
    applyConfig(config, s, false);
    QList<QString> off;
    for (unsigned k = 0; k < VP_NOFF; k++)
        if (k < s.nOff) off.append(nameOf(k, s.offered[k]));
    const auto disabled = config.disabledSaslMechanisms();
    bool r = disabled.contains(off.at(0));
    vp_assert(r == (s.offered[0] == s.disabled[0] || s.offered[0] == s.disabled[1]), "C05 dbg");
}
extern "C" void h_dbg7()
{
    Sym s; makeSym(s);
    QXmppConfiguration config;
    applyConfig(config, s, false);
    QList<QString> off;
    for (unsigned k = 0; k < VP_NOFF; k++)
        if (k < s.nOff) off.append(nameOf(k, s.offered[k]));
    const auto disabled = config.disabledSaslMechanisms();
    QStringList da;
    auto isEnabled = [&](const QString &mechanism) {
        if (disabled.contains(mechanism)) { da.push_back(mechanism); return false; }
        return true; };
    const QList<QString> &coff = off;
    auto v = coff | views::filter(isEnabled);
    int c = 0; for (auto it = v.begin(); it != v.end(); ++it) c++;
    vp_assert(c <= 3, "C05 dbg");
}
extern "C" void h_dbg8()
{
    QStringList da; QString x = QStringLiteral("x");
    if (vp_bool()) da.push_back(x);
    if (vp_bool()) da.push_back(x);
    vp_assert(da.size() <= 2, "C05 dbg");
}
extern "C" void h_dbg9()
{
    QList<QString> off; QString x = QStringLiteral("x");
    off.append(x); off.append(x); off.append(x);
    QStringList da;
    auto isEnabled = [&](const QString &mechanism) {
        if (vp_bool()) { da.push_back(mechanism); return false; }
        return true; };
    const QList<QString> &coff = off;
    auto v = coff | views::filter(isEnabled);
    int c = 0; for (auto it = v.begin(); it != v.end(); ++it) c++;
    vp_assert(c <= 3, "C05 dbg");
}
extern "C" void h_dbg1()
{
    QList<QString> l; l.append(QStringLiteral("a"));
    int c = 0; for (const auto &x : l) c++;
    vp_assert(c == 1, "C05 dbg");
}
extern "C" void h_dbg2()
{
    QXmppConfiguration config;
    QList<QString> l; l.append(QStringLiteral("a"));
    config.setDisabledSaslMechanisms(l);
    auto d = config.disabledSaslMechanisms();
    int c = 0; for (const auto &x : d) c++;
    vp_assert(c == 1, "C05 dbg");
}
#endif
