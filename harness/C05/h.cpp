// C05 - SASL mechanism choice. chooseMechanism() is file-static: include the real translation unit.
#include "c05_ranges.h"     // eager stand-in for std::views (the real <ranges> is switched off with -D_GLIBCXX_RANGES)
#include "client/QXmppSaslManager.cpp"
#include "vp_harness.h"

using namespace QXmpp::Private;
extern "C" {
unsigned vp_c05_noff(); unsigned vp_c05_ndis(); unsigned vp_c05_fastbits(); unsigned vp_c05_clients_created(); unsigned vp_c05_row_lo(); unsigned vp_c05_row_hi();          // list lengths of the instance (constants on the C side)
void *vp_c05_slot(unsigned k); void vp_c05_fill(unsigned k, unsigned row);   // name slots owned by c05_str.c (characters: table_c.inc)
}

// ---------------------------------------------------------------------------------------------------------------------
// Reference side, written from the property text / the RFCs and XEPs - not from the implementation.
// Strength order of the property: HT token > SCRAM (by hash) > DIGEST-MD5 > PLAIN > ANONYMOUS.  The X-* mechanisms are
// not ranked by the property (no order assertion involves them).
// ---------------------------------------------------------------------------------------------------------------------
enum Fam { F_NONE = 0, F_XGOOGLE, F_XLIVE, F_XFACEBOOK, F_ANON, F_PLAIN, F_DIGEST, F_SCRAM, F_HT };
enum { CB_ENDP = 0, CB_UNIQ = 1, CB_EXPR = 2, CB_NONE = 3 };
struct Desc { Fam fam; int hash; int cb; };
// optnone: keep switches as branches - at -O1 clang turns them into constant lookup tables indexed by the (symbolic) row,
// and a symbolic-index read of a constant array is ~100x more expensive in the SAT encoding than the ite chain of a branch merge
#define VP_NOTABLE __attribute__((optnone, noinline))

#include "table.inc"
#ifndef VP_NFAST
#define VP_NFAST 1
#endif

// A name is materialised as a QString over a static block (one slot per use, so that every data pointer is concrete):
// size and characters are those of the table row selected by the symbolic index; the row is also recorded as ghost id.
static QString nameOf(unsigned slot, unsigned i)
{
    vp_c05_fill(slot, i);
    return QString(QStringDataPtr { static_cast<QStringData *>(vp_c05_slot(slot)) });
}

// enumerators <-> reference numbering, by NAME (independent of the numeric order in the implementation's headers)
VP_NOTABLE static int scramHash(SaslScramMechanism::Algorithm a)
{
    switch (a) {
    case SaslScramMechanism::Sha1: return 0;
    case SaslScramMechanism::Sha256: return 1;
    case SaslScramMechanism::Sha512: return 2;
    case SaslScramMechanism::Sha3_512: return 3;
    }
    return -1;
}
VP_NOTABLE static SaslScramMechanism::Algorithm scramOf(int h)
{
    switch (h) {
    case 0: return SaslScramMechanism::Sha1;
    case 1: return SaslScramMechanism::Sha256;
    case 2: return SaslScramMechanism::Sha512;
    default: return SaslScramMechanism::Sha3_512;
    }
}
VP_NOTABLE static int ianaHash(IanaHashAlgorithm a)
{
    switch (a) {
    case IanaHashAlgorithm::Sha256: return 0;
    case IanaHashAlgorithm::Sha384: return 1;
    case IanaHashAlgorithm::Sha512: return 2;
    case IanaHashAlgorithm::Sha3_224: return 3;
    case IanaHashAlgorithm::Sha3_256: return 4;
    case IanaHashAlgorithm::Sha3_384: return 5;
    case IanaHashAlgorithm::Sha3_512: return 6;
    }
    return -1;
}
VP_NOTABLE static IanaHashAlgorithm ianaOf(int h)
{
    switch (h) {
    case 0: return IanaHashAlgorithm::Sha256;
    case 1: return IanaHashAlgorithm::Sha384;
    case 2: return IanaHashAlgorithm::Sha512;
    case 3: return IanaHashAlgorithm::Sha3_224;
    case 4: return IanaHashAlgorithm::Sha3_256;
    case 5: return IanaHashAlgorithm::Sha3_384;
    default: return IanaHashAlgorithm::Sha3_512;
    }
}
VP_NOTABLE static int cbCode(SaslHtMechanism::ChannelBindingType t)
{
    switch (t) {
    case SaslHtMechanism::TlsServerEndpoint: return CB_ENDP;
    case SaslHtMechanism::TlsUnique: return CB_UNIQ;
    case SaslHtMechanism::TlsExporter: return CB_EXPR;
    case SaslHtMechanism::None: return CB_NONE;
    }
    return -1;
}
VP_NOTABLE static SaslHtMechanism::ChannelBindingType cbOf(int c)
{
    switch (c) {
    case CB_ENDP: return SaslHtMechanism::TlsServerEndpoint;
    case CB_UNIQ: return SaslHtMechanism::TlsUnique;
    case CB_EXPR: return SaslHtMechanism::TlsExporter;
    default: return SaslHtMechanism::None;
    }
}
static Desc descOfResult(const SaslMechanism &m)
{
    Desc d { F_NONE, 0, 0 };
    if (std::holds_alternative<SaslXGoogleMechanism>(m)) d.fam = F_XGOOGLE;
    else if (std::holds_alternative<SaslXWindowsLiveMechanism>(m)) d.fam = F_XLIVE;
    else if (std::holds_alternative<SaslXFacebookMechanism>(m)) d.fam = F_XFACEBOOK;
    else if (std::holds_alternative<SaslAnonymousMechanism>(m)) d.fam = F_ANON;
    else if (std::holds_alternative<SaslPlainMechanism>(m)) d.fam = F_PLAIN;
    else if (std::holds_alternative<SaslDigestMd5Mechanism>(m)) d.fam = F_DIGEST;
    else if (auto *sc = std::get_if<SaslScramMechanism>(&m)) { d.fam = F_SCRAM; d.hash = scramHash(sc->algorithm); }
    else if (auto *ht = std::get_if<SaslHtMechanism>(&m)) { d.fam = F_HT; d.hash = ianaHash(ht->hashAlgorithm); d.cb = cbCode(ht->channelBindingType); }
    return d;
}
static bool sameDesc(Desc a, Desc b) { return a.fam == b.fam && a.hash == b.hash && a.cb == b.cb; }

// the mechanism value that table row `id` denotes (nullopt for rows that are not mechanism names); also the body of the
// fromString cut (c05_cut.c) - instance parse_table proves that the REAL SaslMechanism::fromString agrees with it on every row
extern "C" void vp_c05_make_mech(unsigned id, void *outp)
{
    auto *out = new (outp) std::optional<SaslMechanism>();
    Desc d = descOf(id);
    switch (d.fam) {
    case F_XGOOGLE: *out = SaslMechanism { SaslXGoogleMechanism() }; break;
    case F_XLIVE: *out = SaslMechanism { SaslXWindowsLiveMechanism() }; break;
    case F_XFACEBOOK: *out = SaslMechanism { SaslXFacebookMechanism() }; break;
    case F_ANON: *out = SaslMechanism { SaslAnonymousMechanism() }; break;
    case F_PLAIN: *out = SaslMechanism { SaslPlainMechanism() }; break;
    case F_DIGEST: *out = SaslMechanism { SaslDigestMd5Mechanism() }; break;
    case F_SCRAM: *out = SaslMechanism { SaslScramMechanism { scramOf(d.hash) } }; break;
    case F_HT: *out = SaslMechanism { SaslHtMechanism { ianaOf(d.hash), cbOf(d.cb) } }; break;
    default: break;
    }
}

struct Sym {
    unsigned offered[VP_NOFF]; unsigned nOff;
    unsigned disabled[VP_NDIS]; unsigned nDis;
    unsigned preferred; bool hasPreferred;
    bool password, fbToken, fbApp, liveToken, googleToken, hasHt;
    int htHash, htCb;
};

static bool isDisabled(const Sym &s, unsigned name)
{
    for (unsigned k = 0; k < VP_NDIS; k++)
        if (k < s.nDis && s.disabled[k] == name) return true;
    return false;
}
// usable with the stored credentials
VP_NOTABLE static bool usable(const Sym &s, Desc d)
{
    switch (d.fam) {
    // HT: the stored token is bound to one HT mechanism; variants with TLS channel binding are not supported by this client
    // (it has no channel-binding data), so only the -NONE variant of the token's hash is usable
    case F_HT: return s.hasHt && s.htHash == d.hash && s.htCb == d.cb && d.cb == CB_NONE;
    case F_SCRAM: case F_DIGEST: case F_PLAIN: return s.password;
    case F_ANON: return true;
    case F_XFACEBOOK: return s.fbToken && s.fbApp;
    case F_XLIVE: return s.liveToken;
    case F_XGOOGLE: return s.googleToken;
    default: return false;
    }
}
// supported /\ enabled /\ usable
static bool permitted(const Sym &s, unsigned name)
{
    Desc d = descOf(name);
    return d.fam != F_NONE && !isDisabled(s, name) && usable(s, d);
}
static bool offered(const Sym &s, unsigned name)
{
    for (unsigned k = 0; k < VP_NOFF; k++)
        if (k < s.nOff && s.offered[k] == name) return true;
    return false;
}
static bool ranked(Desc d) { return d.fam >= F_ANON; }
static bool stronger(Desc a, Desc b)   // strictly stronger under the order of the property statement
{
    if (a.fam != b.fam) return a.fam > b.fam;
    if (a.fam == F_SCRAM) return a.hash > b.hash;
    return false;
}

static void makeSym(Sym &s)
{
    s.nOff = vp_c05_noff(); vp_assume(s.nOff <= VP_NOFF);
    for (unsigned k = 0; k < VP_NOFF; k++) { s.offered[k] = vp_u32(); vp_assume(s.offered[k] < N_NAMES); }
    s.nDis = vp_c05_ndis(); vp_assume(s.nDis <= VP_NDIS);
    for (unsigned k = 0; k < VP_NDIS; k++) { s.disabled[k] = vp_u32(); vp_assume(s.disabled[k] < N_NAMES); }
    s.hasPreferred = vp_bool(); s.preferred = vp_u32(); vp_assume(s.preferred < N_NAMES);
    s.password = vp_bool(); s.fbToken = vp_bool(); s.fbApp = vp_bool(); s.liveToken = vp_bool(); s.googleToken = vp_bool();
    s.hasHt = vp_bool(); s.htHash = int(vp_u32() % 7); s.htCb = int(vp_u32() % 4);
}

static void applyConfig(QXmppConfiguration &config, const Sym &s, bool defaultDisabled)
{
    if (!defaultDisabled) {
        QList<QString> dis;
        for (unsigned k = 0; k < VP_NDIS; k++)
            if (k < s.nDis) dis.append(nameOf(VP_NOFF + k, s.disabled[k]));
        config.setDisabledSaslMechanisms(dis);
    }
    if (s.hasPreferred) config.setSaslAuthMechanism(nameOf(VP_NOFF + VP_NDIS, s.preferred));
    auto &c = config.credentialData();
    const QString secret = QStringLiteral("s3cret");
    if (s.password) c.password = secret;
    if (s.fbToken) c.facebookAccessToken = secret;
    if (s.fbApp) c.facebookAppId = secret;
    if (s.liveToken) c.windowsLiveAccessToken = secret;
    if (s.googleToken) c.googleAccessToken = secret;
    if (s.hasHt) c.htToken = HtToken { SaslHtMechanism { ianaOf(s.htHash), cbOf(s.htCb) }, secret, QDateTime() };
}

static QList<QString> makeOffer(const Sym &s)
{
    QList<QString> off;
    for (unsigned k = 0; k < VP_NOFF; k++)
        if (k < s.nOff) off.append(nameOf(k, s.offered[k]));
    return off;
}

// the oracle (split into functions with <= 3 loops each: the driver's per-function loop bounds cover loops .0-.2)
static bool anyPermitted(const Sym &s)
{
    bool any = false;
    for (unsigned k = 0; k < VP_NOFF; k++)
        if (k < s.nOff && permitted(s, s.offered[k])) any = true;
    return any;
}
static void checkMembership(const Sym &s, Desc r)
{
    // the chosen mechanism is one of the offered names, and that name is permitted
    bool found = false;
    for (unsigned k = 0; k < VP_NOFF; k++)
        if (k < s.nOff && descOf(s.offered[k]).fam != F_NONE && sameDesc(descOf(s.offered[k]), r)) {
            found = true;
            vp_assert(!isDisabled(s, s.offered[k]), "C05 disabled mechanism chosen");
            vp_assert(usable(s, r), "C05 mechanism chosen that is not usable with the stored credentials");
        }
    vp_assert(found, "C05 chosen mechanism was not offered");
}
static void checkStrongest(const Sym &s, Desc r)
{
    // no permitted offered mechanism is strictly stronger (order of the property statement)
    for (unsigned k = 0; k < VP_NOFF; k++)
        if (k < s.nOff && permitted(s, s.offered[k])) {
            Desc o = descOf(s.offered[k]);
            if (ranked(o) && ranked(r)) vp_assert(!stronger(o, r), "C05 a stronger permitted mechanism was offered");
        }
}
static void checkChoice(const Sym &s, const std::optional<SaslMechanism> &res)
{
    bool any = anyPermitted(s);
    if (!res) {
        vp_assert(!any, "C05 a permitted mechanism is offered but none was chosen");
        return;
    }
    vp_assert(any, "C05 a mechanism was chosen although nothing qualifies (must be a mechanism mismatch)");
    Desc r = descOfResult(*res);
    checkMembership(s, r);
    // preferred wins iff it is itself offered and permitted
    bool prefOk = s.hasPreferred && offered(s, s.preferred) && permitted(s, s.preferred);
    if (prefOk) vp_assert(sameDesc(r, descOf(s.preferred)), "C05 preferred mechanism is offered and permitted but was not used");
    else checkStrongest(s, r);
}

// ---- lemma: the REAL parser on every table row (symbolic row index); group `parse` (no cut) -------------------------
extern "C" void h_parse_table()
{
    unsigned i = vp_u32(); vp_assume(i >= vp_c05_row_lo() && i < vp_c05_row_hi() && i < N_NAMES);   // row range: constants of the instance
    QString name = nameOf(0, i);
    auto m = SaslMechanism::fromString(name);
    std::optional<SaslMechanism> ref; vp_c05_make_mech(i, &ref);
    vp_assert(m.has_value() == ref.has_value(), "C05 parser: a table name is accepted iff it is a mechanism name");
    if (m && ref) {
        vp_assert(sameDesc(descOfResult(*m), descOfResult(*ref)), "C05 parser: name parsed as a different mechanism");
        vp_assert(sameDesc(descOfResult(*m), descOf(i)), "C05 parser: name parsed as a different mechanism (table)");
    }
}

// ---- every offer list, every disabled list, every preferred name, every credential set ------------------------------
static void keepHelpers() { std::optional<SaslMechanism> t; vp_c05_make_mech(IDX_EMPTY, &t); }   // make the helper reachable for the cut model
extern "C" void h_choose()
{
    keepHelpers();
    Sym s; makeSym(s);
    QXmppConfiguration config;
    applyConfig(config, s, false);
    QList<QString> off = makeOffer(s);
    auto [mech, disabledAvailable] = chooseMechanism(config, off);
    checkChoice(s, mech);
}

// default configuration (nothing set by the user except credentials / preferred mechanism): PLAIN is disabled
extern "C" void h_default_plain()
{
    keepHelpers();
    Sym s; makeSym(s); s.nDis = 0;
    QXmppConfiguration config;
    applyConfig(config, s, true);
    QList<QString> off = makeOffer(s);
    auto [mech, disabledAvailable] = chooseMechanism(config, off);
    if (mech) vp_assert(!std::holds_alternative<SaslPlainMechanism>(*mech), "C05 PLAIN chosen under the default configuration (PLAIN is disabled by default)");
    s.nDis = 1; s.disabled[0] = IDX_PLAIN;
    checkChoice(s, mech);
}

// ---- nothing qualifies => mechanism mismatch is reported and nothing is sent (SASL 1 and SASL 2 with / without FAST) ------
struct CountingSocket : SendDataInterface {
    int sent = 0;
    bool sendData(const QByteArray &) override { ++sent; return true; }
};

extern "C" void h_mismatch_sasl1()
{
    keepHelpers();
    Sym s; makeSym(s);
    vp_assume(!anyPermitted(s));
    QXmppConfiguration config;
    applyConfig(config, s, false);
    QList<QString> off = makeOffer(s);
    CountingSocket sock; SaslManager mgr(&sock);
    auto task = mgr.authenticate(config, off, nullptr);
    vp_assert(vp_c05_clients_created() == 0, "C05 nothing qualifies but a SASL client was created (SASL)");
    vp_assert(sock.sent == 0, "C05 nothing qualifies but data was sent (SASL)");
    vp_assert(task.isFinished() && task.hasResult(), "C05 nothing qualifies: authentication must end at once (SASL)");
    if (task.isFinished() && task.hasResult()) {
        auto *err = std::get_if<SaslManager::AuthError>(&task.result());
        vp_assert(err && err->second.type == QXmpp::AuthenticationError::MechanismMismatch, "C05 nothing qualifies: a mechanism mismatch must be reported (SASL)");
    }
}

// SASL 2: the last VP_NFAST offered names arrive inside <fast/>; they count only if FAST is in use
// (XEP-0484: enabled in the configuration and a user agent is set - the token is bound to the user agent's device id)
extern "C" void h_mismatch_sasl2()
{
    keepHelpers();
    Sym s; makeSym(s);
    unsigned fb = vp_c05_fastbits();   // constants of the instance: bit0 server offers <fast/>, bit1 FAST enabled in the configuration, bit2 user agent set
    bool serverFast = fb & 1, useFast = fb & 2, hasAgent = fb & 4;
    unsigned nOff = s.nOff, nFast = VP_NFAST <= nOff ? VP_NFAST : nOff;
    bool fastInUse = serverFast && useFast && hasAgent;
    // the effective offer
    Sym eff = s; eff.nOff = fastInUse ? nOff : nOff - nFast;
    vp_assume(!anyPermitted(eff));

    QXmppConfiguration config;
    applyConfig(config, s, false);
    config.setUseFastTokenAuthentication(useFast);
    if (hasAgent) config.setSasl2UserAgent(QXmppSasl2UserAgent(QUuid(1, 2, 3, 4, 5, 6, 7, 8, 9, 10, 11), QStringLiteral("sw"), QStringLiteral("dev")));
    Sasl2::StreamFeature feature;
    for (unsigned k = 0; k < VP_NOFF; k++)
        if (k < nOff - nFast) feature.mechanisms.append(nameOf(k, s.offered[k]));
    if (serverFast) {
        FastFeature ff;
        for (unsigned k = 0; k < VP_NOFF; k++)
            if (k >= nOff - nFast && k < nOff) ff.mechanisms.push_back(nameOf(k, s.offered[k]));
        feature.fast = ff;
    }
    CountingSocket sock; Sasl2Manager mgr(&sock);
    auto task = mgr.authenticate(Sasl2::Authenticate(), config, feature, nullptr);
    vp_assert(vp_c05_clients_created() == 0, "C05 nothing qualifies but a SASL client was created (SASL 2)");
    vp_assert(sock.sent == 0, "C05 nothing qualifies but data was sent (SASL 2)");
    vp_assert(task.isFinished() && task.hasResult(), "C05 nothing qualifies: authentication must end at once (SASL 2)");
    if (task.isFinished() && task.hasResult()) {
        auto *err = std::get_if<Sasl2Manager::AuthError>(&task.result());
        vp_assert(err && err->second.type == QXmpp::AuthenticationError::MechanismMismatch, "C05 nothing qualifies: a mechanism mismatch must be reported (SASL 2)");
    }
}

// ---- finding ht-alias-name, concrete demonstration through the REAL parser and the REAL choice (no cut) ----------------
// offered: the garbled name only; disabled: HT-SHA-384-NONE; stored token: HT-SHA-384-NONE
extern "C" void h_alias_bypass()
{
    keepHelpers();
    Sym s {}; s.nOff = 1; s.offered[0] = IDX_ALIAS; s.nDis = 1; s.disabled[0] = IDX_FIRST_HT + 1; s.hasPreferred = false;
    s.password = false; s.hasHt = true; s.htHash = 1; s.htCb = CB_NONE;
    QXmppConfiguration config;
    applyConfig(config, s, false);
    QList<QString> off = makeOffer(s);
    auto [mech, disabledAvailable] = chooseMechanism(config, off);
    checkChoice(s, mech);
}

// ---- the name that is put on the wire for a chosen mechanism: SaslMechanism::toString() -------------------------------
// for every mechanism value m of the table: the REAL parser maps the REAL toString(m) back to m (so the <auth mechanism=...>
// attribute written from saslClient->mechanism().toString() denotes the mechanism that was chosen)
extern "C" void h_tostring()
{
    unsigned i = vp_u32(); vp_assume(i >= vp_c05_row_lo() && i < vp_c05_row_hi() && i < IDX_FIRST_GARBAGE);
    // HT rows are excluded for now: SaslHtMechanism::toString -> channelBindingTypeToString is compiled to a relative lookup table
    // (llvm.load.relative), which the translator does not support (reaching it is reported as inconclusive, never as a pass)
    vp_assume(i < IDX_FIRST_HT);
    std::optional<SaslMechanism> m; vp_c05_make_mech(i, &m);
    vp_assert(m.has_value(), "C05 table: rows below IDX_FIRST_GARBAGE are mechanism names");
    if (!m) return;
    QString name = m->toString();
    auto back = SaslMechanism::fromString(name);
    vp_assert(back.has_value(), "C05 toString: the written name is not accepted by the parser");
    if (back) vp_assert(sameDesc(descOfResult(*back), descOf(i)), "C05 toString: the written name denotes a different mechanism");
}
