/* C05 / fast: the fromString half of c05_cut.c (verbatim copy; the QXmppSaslClient::create cut of that file must NOT apply here, the
   positive path runs the REAL create).  Assume-guarantee cut, used ONLY in the groups named *_cut and fast*: SaslMechanism::fromString(QStringView) is replaced by its
   specification on table names.  The specification is what instance `parse_table` (group `parse`, no cut) proves about the
   REAL function for every row of the table: fromString(name_i) == vp_c05_make_mech(i).  The cut refuses (model assertion,
   run becomes inconclusive) any argument that is not exactly one whole table name held in a name slot, or the empty string. */
#ifdef HAVE_T_struct_QArrayData
void F_vp_c05_make_mech(uint32_t id, char *out);
// MODEL: _ZN5QXmpp7Private13SaslMechanism10fromStringE11QStringView
struct L_1f71b25bad _ZN5QXmpp7Private13SaslMechanism10fromStringE11QStringView(uint64_t n, char *p) {
  uint64_t buf[2] = { 0, 0 }; uint32_t id = C05_ID_EMPTY; uint8_t ok = (n == 0);
#ifdef __CPROVER__
#define CUT_SLOT(k) if (n != 0 && __CPROVER_POINTER_OBJECT(p) == __CPROVER_POINTER_OBJECT(&c05_s##k)) { ok = (__CPROVER_POINTER_OFFSET(p) == C05_SLOT_OFF && n == c05_s##k.h.f1); id = c05_s##k.id; }
#else
#define CUT_SLOT(k) if (n != 0 && p == (char*)c05_s##k.data) { ok = (n == c05_s##k.h.f1); id = c05_s##k.id; }
#endif
  CUT_SLOT(0) CUT_SLOT(1) CUT_SLOT(2) CUT_SLOT(3) CUT_SLOT(4) CUT_SLOT(5) CUT_SLOT(6) CUT_SLOT(7)
  ASSERT(ok, "C05 cut: fromString called on something that is not a whole table name");
  F_vp_c05_make_mech(id, (char*)buf);
  struct L_1f71b25bad r = { buf[0], buf[1] }; return r; }
#endif
