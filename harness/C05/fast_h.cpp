// C05 / fast - POSITIVE path of the REAL SaslManager::authenticate and Sasl2Manager::authenticate (incl. the FAST merge):
// the mechanism NAMED in the first element the manager sends (Sasl::Auth.mechanism / Sasl2::Authenticate.mechanism) is the one
// the oracle of h.cpp (written from the property text) allows for the offer the client is given - for SASL 2 the regular
// <mechanism/> list followed by the names inside <fast/> when FAST is in use (server offers <fast/>, FAST enabled in the
// configuration, user agent set: FastTokenManager::isFastEnabled).  Nothing is sent and MechanismMismatch is reported iff the
// oracle says that nothing qualifies.
// The oracle, the name table and the symbolic configuration come from h.cpp (included: one program, one oracle).
#include "h.cpp"

// vtables of the Q_OBJECT classes: their key function metaObject() comes from moc in the real build; defining it (never called)
// emits the vtables so that the virtual calls of the real code (mechanism(), setCredentials(), respond(), destructors) are
// devirtualised by the translator (same device as harness/C06/c06_common.h)
#define FAST_VTABLE(C) const QMetaObject *C::metaObject() const { return nullptr; }
FAST_VTABLE(QXmppSaslClient) FAST_VTABLE(QXmppSaslClientAnonymous) FAST_VTABLE(QXmppSaslClientDigestMd5) FAST_VTABLE(QXmppSaslClientFacebook)
FAST_VTABLE(QXmppSaslClientGoogle) FAST_VTABLE(QXmppSaslClientPlain) FAST_VTABLE(QXmppSaslClientScram) FAST_VTABLE(QXmppSaslClientHt)
FAST_VTABLE(QXmppSaslClientWindowsLive)

extern "C" {
unsigned vp_fast_fixrow(unsigned k); unsigned vp_fast_nreg(); unsigned vp_fast_nfast(); unsigned vp_fast_bits(); unsigned vp_fast_rows(); bool vp_fast_never();   // constants of the instance (fast_env.c)
}

// ---- what the manager sent: filled by the serializeXml<Sasl::Auth> / serializeXml<Sasl2::Authenticate> overrides (fast_env.c) ----
struct Sent {
    unsigned auth1 = 0, auth2 = 0;   // number of <auth/> / <authenticate/> elements serialised
    QString mechanism;               // mechanism attribute of the FIRST one
    bool fast = false, tokenRequest = false, userAgent = false;   // SASL 2: <fast/>, <request-token/>, <user-agent/> in the first one (observations)
};
static Sent *g_sent;
extern "C" void vp_fast_sent_auth(const void *p)
{
    auto *a = static_cast<const Sasl::Auth *>(p);
    if (g_sent->auth1 + g_sent->auth2 == 0) g_sent->mechanism = a->mechanism;
    g_sent->auth1++;
}
extern "C" void vp_fast_sent_auth2(const void *p)
{
    auto *a = static_cast<const Sasl2::Authenticate *>(p);
    if (g_sent->auth1 + g_sent->auth2 == 0) {
        g_sent->mechanism = a->mechanism;
        g_sent->fast = a->fast.has_value(); g_sent->tokenRequest = a->tokenRequest.has_value(); g_sent->userAgent = a->userAgent.has_value();
    }
    g_sent->auth2++;
}
// the row of the name table that an HT mechanism VALUE denotes (enumerators matched by name): body of the SaslHtMechanism::toString cut
extern "C" unsigned vp_fast_ht_row(const void *p)
{
    auto *m = static_cast<const SaslHtMechanism *>(p);
    int cb = cbCode(m->channelBindingType);
    unsigned blk = cb == CB_NONE ? 0 : cb == CB_ENDP ? 1 : cb == CB_UNIQ ? 2 : 3;   // order of the HT blocks in the table (gen_table.py)
    return IDX_FIRST_HT + 7 * blk + unsigned(ianaHash(m->hashAlgorithm));
}
// ---- assume-guarantee cut at chooseMechanism (group fast_cc only; fast_choose_cut.c forwards the file-static function here) ----------
// Contract = the relation that instances choose_o*_d* prove for the REAL chooseMechanism against the oracle of h.cpp, for the
// configuration of the instance and the list IT IS CALLED WITH (rows read back from the name slots): no result iff nothing in that
// list is permitted; otherwise ANY offered, permitted name such that the preferred name wins if it is offered and permitted, and else
// no permitted offered name is strictly stronger.  The returned list of disabled names (log text only) is empty.
extern "C" unsigned vp_fast_slot_id(const void *qstring);   // ghost row id of a name held in a name slot (asserted)
static const Sym *g_cfgSym;
static const void *g_cfgPtr;   // the configuration object the harness handed to authenticate(): the cut refuses any other (model assertion)
extern "C" const void *vp_fast_cfg() { return g_cfgPtr; }
static bool noneStronger(const Sym &s, Desc r)
{
    bool ok = true;
    for (unsigned k = 0; k < VP_NOFF; k++)
        if (k < s.nOff && permitted(s, s.offered[k])) {
            Desc o = descOf(s.offered[k]);
            if (ranked(o) && ranked(r) && stronger(o, r)) ok = false;
        }
    return ok;
}
static void listRows(Sym &loc, const QList<QString> &list)
{
    unsigned n = unsigned(list.size());
    vp_assert(n <= VP_NOFF, "C05 authenticate: chooseMechanism called with more names than were offered in total");
    loc.nOff = n <= VP_NOFF ? n : VP_NOFF;
    for (unsigned k = 0; k < VP_NOFF; k++)
        if (k < loc.nOff) loc.offered[k] = vp_fast_slot_id(&list.at(int(k)));
}
extern "C" void vp_fast_choose(void *ret, const void *, const void *listp)
{
    using Result = std::tuple<std::optional<SaslMechanism>, QStringList>;
    Sym loc = *g_cfgSym;
    listRows(loc, *static_cast<const QList<QString> *>(listp));
    auto *out = new (ret) Result();
    if (!anyPermitted(loc)) return;
    unsigned r = vp_u32(); vp_assume(r < N_NAMES);
    vp_assume(offered(loc, r) && permitted(loc, r));
    bool prefOk = loc.hasPreferred && offered(loc, loc.preferred) && permitted(loc, loc.preferred);
    if (prefOk) vp_assume(sameDesc(descOf(r), descOf(loc.preferred)));
    else vp_assume(noneStronger(loc, descOf(r)));
    vp_c05_make_mech(r, &std::get<0>(*out));
}
static void keepFast()
{
    keepHelpers();
    if (vp_fast_never()) { vp_fast_choose(nullptr, nullptr, nullptr); vp_fast_cfg(); SaslHtMechanism m {}; vp_fast_sent_auth(nullptr); vp_fast_sent_auth2(nullptr); vp_fast_ht_row(&m); }
}

// rows a name may take in this instance (constant of the instance): 0 = the whole 53-row table; 1 = the "core" rows:
// SCRAM x 4, DIGEST-MD5, PLAIN, ANONYMOUS, HT-SHA-256-NONE, HT-SHA-384-NONE, HT-SHA3-512-NONE, HT-SHA-256-ENDP, HT-SHA-256-EXPR,
// and the non-names "", "plain", "HT-SHA-256", "HT-SHA-256-NONEX"
VP_NOTABLE static bool rowAllowed(unsigned set, unsigned r)
{
    if (set == 0) return true;
    switch (r) {
    case 0: case 1: case 2: case 3: case 4: case 5: case 6: case 10: case 11: case 16: case 17: case 31:
    case IDX_FIRST_GARBAGE: case IDX_FIRST_GARBAGE + 1: case IDX_FIRST_GARBAGE + 7: case IDX_FIRST_GARBAGE + 8: return true;
    }
    return false;
}

// like nameOf() of h.cpp, but the characters come from a fill routine that only distinguishes the rows of the instance's row set
// (the per-unit case split over the table is then as deep as the row set, not as the whole table)
extern "C" void vp_fast_fill(unsigned k, unsigned row);
static QString nameOfFast(unsigned slot, unsigned i)
{
    vp_fast_fill(slot, i);
    return QString(QStringDataPtr { static_cast<QStringData *>(vp_c05_slot(slot)) });
}
static void applyConfigFast(QXmppConfiguration &config, const Sym &s)
{
    QList<QString> dis;
    for (unsigned k = 0; k < VP_NDIS; k++)
        if (k < s.nDis) dis.append(nameOfFast(VP_NOFF + k, s.disabled[k]));
    config.setDisabledSaslMechanisms(dis);
    if (s.hasPreferred) config.setSaslAuthMechanism(nameOfFast(VP_NOFF + VP_NDIS, s.preferred));
    auto &c = config.credentialData();
    const QString secret = QStringLiteral("s3cret");
    if (s.password) c.password = secret;
    if (s.fbToken) c.facebookAccessToken = secret;
    if (s.fbApp) c.facebookAppId = secret;
    if (s.liveToken) c.windowsLiveAccessToken = secret;
    if (s.googleToken) c.googleAccessToken = secret;
    if (s.hasHt) c.htToken = HtToken { SaslHtMechanism { ianaOf(s.htHash), cbOf(s.htCb) }, secret, QDateTime() };
}

// symbolic inputs: s.offered = regular names (nReg) followed by the names inside <fast/> (nFast)
static unsigned symRow(unsigned fixSlot, unsigned set)
{
    // a name is either a CONSTANT of the instance (vp_fast_fixrow(slot) < N_NAMES: quick-tier scenarios) or any row of the row set
    unsigned fix = vp_fast_fixrow(fixSlot);
    if (fix < N_NAMES) return fix;
    unsigned r = vp_u32(); vp_assume(r < N_NAMES && rowAllowed(set, r));
    return r;
}
static void makeSymFast(Sym &s, unsigned nReg, unsigned nFast)
{
    unsigned set = vp_fast_rows();
    s.nOff = nReg + nFast; vp_assume(s.nOff <= VP_NOFF);
    for (unsigned k = 0; k < VP_NOFF; k++) s.offered[k] = k < nReg + nFast ? symRow(k < nReg ? k : 3 + (k - nReg), set) : unsigned(IDX_EMPTY);   // fix slots 0-2: regular names, 3-4: FAST names
    s.nDis = vp_c05_ndis(); vp_assume(s.nDis <= VP_NDIS);
    for (unsigned k = 0; k < VP_NDIS; k++) s.disabled[k] = symRow(5 + k, set);
    s.hasPreferred = vp_bool(); s.preferred = symRow(6, set);
    s.password = vp_bool(); s.fbToken = vp_bool(); s.fbApp = vp_bool(); s.liveToken = vp_bool(); s.googleToken = vp_bool();
    s.hasHt = vp_bool(); s.htHash = int(vp_u32() % 7); s.htCb = int(vp_u32() % 4);
    if (set != 0) vp_assume(rowAllowed(set, IDX_FIRST_HT + 7 * (s.htCb == CB_NONE ? 0 : s.htCb == CB_ENDP ? 1 : s.htCb == CB_UNIQ ? 2 : 3) + unsigned(s.htHash)));
}

// the sent name against the oracle of the property text, on the effective offer `eff` (names[k] = the string offered as eff.offered[k])
static void checkSentName(const Sym &eff, const QString *names, const QString &sent)
{
    // the name on the wire is one of the offered names (as strings), and that name is permitted
    bool found = false; Desc r { F_NONE, 0, 0 };
    for (unsigned k = 0; k < VP_NOFF; k++)
        if (k < eff.nOff && names[k] == sent) {
            found = true; r = descOf(eff.offered[k]);
            vp_assert(r.fam != F_NONE, "C05 authenticate: the mechanism named in the request is not a mechanism name");
            vp_assert(!isDisabled(eff, eff.offered[k]), "C05 authenticate: disabled mechanism used");
            vp_assert(usable(eff, r), "C05 authenticate: mechanism used that is not usable with the stored credentials");
        }
    vp_assert(found, "C05 authenticate: the mechanism named in the request was not offered");
    if (!found) return;
    bool prefOk = eff.hasPreferred && offered(eff, eff.preferred) && permitted(eff, eff.preferred);
    if (prefOk) vp_assert(sameDesc(r, descOf(eff.preferred)), "C05 authenticate: preferred mechanism is offered and permitted but was not used");
    else checkStrongest(eff, r);
}

static QXmppLoggable *loggable()
{
    alignas(16) static char raw[sizeof(QXmppLoggable)];   // only the (modelled) logMessage signal and the QObject parent slot ever see it
    return reinterpret_cast<QXmppLoggable *>(raw);
}

// helpers with <= 3 loops each (the driver's per-function loop bounds cover loops .0-.2)
struct Names { QString n[VP_NOFF]; };
static void fillNames(Names &names, const Sym &s, unsigned n)
{
    for (unsigned k = 0; k < VP_NOFF; k++)
        if (k < n) names.n[k] = nameOfFast(k, s.offered[k]);
}
static void buildOffer(QList<QString> &off, const Names &names, unsigned nReg)
{
    for (unsigned k = 0; k < VP_NOFF; k++)
        if (k < nReg) off.append(names.n[k]);
}
static void buildFast(FastFeature &ff, const Names &names, unsigned nReg, unsigned nFast)
{
    for (unsigned k = 0; k < VP_NOFF; k++)
        if (k >= nReg && k < nReg + nFast) ff.mechanisms.push_back(names.n[k]);
}

// ---- SASL (RFC 6120): SaslManager::authenticate -------------------------------------------------------------------------------
extern "C" void h_fast_sasl1()
{
    keepFast();
    unsigned nReg = vp_fast_nreg();
    Sym s; makeSymFast(s, nReg, 0); g_cfgSym = &s;
    QXmppConfiguration config;
    applyConfigFast(config, s); g_cfgPtr = &config;
    Names names; fillNames(names, s, nReg);
    QList<QString> off; buildOffer(off, names, nReg);
    Sent sent; g_sent = &sent;
    CountingSocket sock; SaslManager mgr(&sock);
    auto task = mgr.authenticate(config, off, loggable());
    bool any = anyPermitted(s);
    if (!any) {
        vp_assert(sent.auth1 + sent.auth2 == 0 && sock.sent == 0, "C05 authenticate: nothing qualifies but something was sent (SASL)");
        vp_assert(task.isFinished() && task.hasResult(), "C05 authenticate: nothing qualifies: authentication must end at once (SASL)");
        if (task.isFinished() && task.hasResult()) {
            auto *err = std::get_if<SaslManager::AuthError>(&task.result());
            vp_assert(err && err->second.type == QXmpp::AuthenticationError::MechanismMismatch, "C05 authenticate: nothing qualifies: a mechanism mismatch must be reported (SASL)");
        }
        return;
    }
    vp_assert(sent.auth1 == 1 && sent.auth2 == 0 && sock.sent == 1, "C05 authenticate: a permitted mechanism is offered: exactly one <auth/> is sent (SASL)");
    vp_assert(!task.isFinished(), "C05 authenticate: a permitted mechanism is offered but authentication ended without an exchange (SASL)");
    if (sent.auth1 + sent.auth2 > 0) checkSentName(s, names.n, sent.mechanism);
}

// ---- SASL 2 (XEP-0388) + FAST (XEP-0484): Sasl2Manager::authenticate ------------------------------------------------------------
extern "C" void h_fast_sasl2()
{
    keepFast();
    unsigned nReg = vp_fast_nreg(), nFast = vp_fast_nfast();
    unsigned fb = vp_fast_bits();   // bit0: the server's feature has <fast/>, bit1: FAST enabled in the configuration, bit2: user agent set
    bool serverFast = fb & 1, useFast = fb & 2, hasAgent = fb & 4;
    if (!serverFast) nFast = 0;
    Sym s; makeSymFast(s, nReg, nFast); g_cfgSym = &s;
    // the offer the client works with (XEP-0484: the FAST mechanisms count only if FAST is in use)
    bool fastInUse = serverFast && useFast && hasAgent;
    Sym eff = s; eff.nOff = fastInUse ? nReg + nFast : nReg;

    QXmppConfiguration config;
    applyConfigFast(config, s); g_cfgPtr = &config;
    config.setUseFastTokenAuthentication(useFast);
    if (hasAgent) config.setSasl2UserAgent(QXmppSasl2UserAgent(QUuid(1, 2, 3, 4, 5, 6, 7, 8, 9, 10, 11), QStringLiteral("sw"), QStringLiteral("dev")));
    Names names; fillNames(names, s, nReg + nFast);
    Sasl2::StreamFeature feature;
    buildOffer(feature.mechanisms, names, nReg);
    if (serverFast) {
        FastFeature ff; buildFast(ff, names, nReg, nFast);
        feature.fast = ff;
    }
    Sent sent; g_sent = &sent;
    CountingSocket sock; Sasl2Manager mgr(&sock);
    auto task = mgr.authenticate(Sasl2::Authenticate(), config, feature, loggable());
    bool any = anyPermitted(eff);
    if (!any) {
        vp_assert(sent.auth1 + sent.auth2 == 0 && sock.sent == 0, "C05 authenticate: nothing qualifies but something was sent (SASL 2)");
        vp_assert(task.isFinished() && task.hasResult(), "C05 authenticate: nothing qualifies: authentication must end at once (SASL 2)");
        if (task.isFinished() && task.hasResult()) {
            auto *err = std::get_if<Sasl2Manager::AuthError>(&task.result());
            vp_assert(err && err->second.type == QXmpp::AuthenticationError::MechanismMismatch, "C05 authenticate: nothing qualifies: a mechanism mismatch must be reported (SASL 2)");
        }
        return;
    }
    vp_assert(sent.auth2 == 1 && sent.auth1 == 0 && sock.sent == 1, "C05 authenticate: a permitted mechanism is offered: exactly one <authenticate/> is sent (SASL 2)");
    vp_assert(!task.isFinished(), "C05 authenticate: a permitted mechanism is offered but authentication ended without an exchange (SASL 2)");
    if (sent.auth1 + sent.auth2 > 0) checkSentName(eff, names.n, sent.mechanism);
}
