// C05: stand-in for libstdc++-12 <ranges> views (clang-14 cannot compile them; models/ranges_shim.h is the shared stand-in).
// This variant is *eager*: view | filter(p) | transform(f) ... is a description of the stages; begin() pushes every element of
// the underlying container, in order and with a CONCRETE loop index, through the stages (each predicate / projection runs once
// per element that reaches it) and hands out pointers into a small buffer of the values that came out.  A lazy filter iterator (`while (cur != last && !pred(*cur)) ++cur`) makes the position
// symbolic after the first element, bounded symex then re-explores every nested filter loop up to the unwind bound
// (4*4*4 evaluations of the innermost predicate per outer step for a three-name offer) - measured: no verdict in 15 min.
// Contract kept: the produced sequence = the elements e of the container, in order, for which every filter stage holds on the
// value reaching it, mapped through the transform stages.  Predicates/projections must not depend on how often they run
// (chooseMechanism's isEnabled only *collects* the disabled names for the log text; its result does not depend on it).
#ifndef C05_RANGES_SHIM
#define C05_RANGES_SHIM
#include <iterator>
#include <functional>
#include <type_traits>
#include <utility>
#include <cstddef>
#include <bits/ranges_base.h>
#include <bits/ranges_algo.h>
#ifndef C05_VIEW_CAP
#define C05_VIEW_CAP 6
#endif
extern "C" void vp_assert(bool cond, const char *msg);
namespace std::ranges {
namespace shim {
// Push-style evaluation: stage.feed(sink) calls sink(v) for every value the stage produces, in order; every predicate and
// projection runs exactly once per element that reaches it.
// stage 0: a container with size() and operator[] (QList, std::vector) - the loop index is concrete
template<class R> struct base_view {
    using value_type = std::remove_cvref_t<decltype(std::declval<const R &>()[0])>;
    const R *r;
    template<class Sink> void feed(Sink &&sink) const
    {
        std::size_t n = std::size_t(r->size());
        for (std::size_t k = 0; k < n; ++k) sink((*r)[k]);
    }
};
template<class V, class T> struct eager_buf {   // materialising begin()/end(); only instantiated for the stage the caller iterates
    // one typed buffer per view TYPE (a function-local static): views of one type must not be alive at the same time
    // (true for every pipeline in QXmppSaslManager.cpp: each is a distinct lambda-parameterised type used once per call)
    static T *store() { static T buf[C05_VIEW_CAP] {}; return &buf[0]; }
    mutable std::size_t m = 0;
    mutable bool done = false;
    void run() const
    {
        if (done) return;
        T *buf = store();
        static_cast<const V &>(*this).feed([&](auto &&v) {
            vp_assert(m < C05_VIEW_CAP, "C05 ranges shim: view capacity");
            if (m < C05_VIEW_CAP) buf[m] = v;
            ++m; });
        done = true;
    }
    const T *begin() const { run(); return store(); }
    const T *end() const { run(); return store() + m; }
    bool empty() const { run(); return m == 0; }
};
template<class H, class F> struct filter_view : eager_buf<filter_view<H, F>, typename H::value_type> {
    using value_type = typename H::value_type;
    H h; F f;
    filter_view(H h_, F f_) : h(std::move(h_)), f(std::move(f_)) { }
    template<class Sink> void feed(Sink &&sink) const
    {
        h.feed([&](auto &&v) { if (std::invoke(f, v)) sink(std::forward<decltype(v)>(v)); });
    }
};
template<class H, class F> struct transform_view : eager_buf<transform_view<H, F>, std::remove_cvref_t<std::invoke_result_t<const F &, const typename H::value_type &>>> {
    using value_type = std::remove_cvref_t<std::invoke_result_t<const F &, const typename H::value_type &>>;
    H h; F f;
    transform_view(H h_, F f_) : h(std::move(h_)), f(std::move(f_)) { }
    template<class Sink> void feed(Sink &&sink) const
    {
        h.feed([&](auto &&v) { sink(std::invoke(f, v)); });
    }
};
template<class T> struct is_stage : std::false_type { };
template<class H, class F> struct is_stage<filter_view<H, F>> : std::true_type { };
template<class H, class F> struct is_stage<transform_view<H, F>> : std::true_type { };
template<class R> auto hold(R &&r)
{
    if constexpr (is_stage<std::remove_cvref_t<R>>::value) return std::remove_cvref_t<R>(std::forward<R>(r));
    else { static_assert(std::is_lvalue_reference_v<R>, "C05 ranges shim: a container must be an lvalue"); return base_view<std::remove_cvref_t<R>> { &r }; }
}
template<class F> struct filter_adaptor { F f; };
template<class F> struct transform_adaptor { F f; };
template<class R, class F> auto operator|(R &&r, filter_adaptor<F> a) { return filter_view<decltype(hold(std::forward<R>(r))), F>(hold(std::forward<R>(r)), std::move(a.f)); }
template<class R, class F> auto operator|(R &&r, transform_adaptor<F> a) { return transform_view<decltype(hold(std::forward<R>(r))), F>(hold(std::forward<R>(r)), std::move(a.f)); }
}  // namespace shim
namespace views {
template<class F> auto filter(F f) { return shim::filter_adaptor<F> { std::move(f) }; }
template<class F> auto transform(F f) { return shim::transform_adaptor<F> { std::move(f) }; }
}  // namespace views
}  // namespace std::ranges
namespace std { namespace views = ranges::views; }
#endif
