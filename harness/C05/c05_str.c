/* C05: lean QString boundary for the groups whose strings are all STATIC data: string literals of the real code (QStringLiteral,
   u"..." arrays) and the name slots below (a table row selected by a symbolic index).  Replaces models/qt_core.c in those
   groups: no heap blocks, no abstract numbers, no base64 tags - only what the mechanism choice reaches.  Layout is Qt's:
   QString{d}, d -> QArrayData{ref,size,alloc,offset} followed by the UTF-16 units.  Comparisons are straight-line kernels over
   at most C05_MAXLEN units (longest table name 22; asserted). */
#ifdef HAVE_T_struct_QArrayData
typedef struct T_struct_QArrayData QAD;
#define C05_MAXLEN 24
#define REF(d) ((d)->f0.f0.f0.f0.f0)
#ifdef HAVE_G__ZN10QArrayData11shared_nullE
GT__ZN10QArrayData11shared_nullE G__ZN10QArrayData11shared_nullE = { { { {{{{ (uint32_t)-1 }}}}, 0, 0, 24 }, { {{{{ 0 }}}}, 0, 0, 0 } } };
#endif
static uint16_t *qs_chars(QAD *d) { return (uint16_t*)((char*)d + d->f3); }
static QAD *qad_ref(QAD *d) { if (REF(d) != (uint32_t)-1 && REF(d) != 0) REF(d)++; return d; }
static void qad_deref(QAD *d) { if (REF(d) != (uint32_t)-1 && REF(d) != 0) REF(d)--; }
void _ZN10QArrayData10deallocateEPS_mm(char *d, uint64_t sz, uint64_t al) { ASSERT(0, "C05: string data is static, never deallocated"); }
char* _ZN7QStringaSERKS_(char *self, char *o) { QAD *n = qad_ref(*(QAD**)o); qad_deref(*(QAD**)self); *(QAD**)self = n; return self; }
/* Name slots: the harness materialises a symbolic table name as a QString over one of these static blocks (separate objects:
   header + 24 units, ref = -1 like QStringLiteral) and records the table row in the ghost field `id`. */
struct c05slot { QAD h; uint16_t data[C05_MAXLEN]; uint32_t id; };
#define C05_SLOT_OFF ((uint64_t)offsetof(struct c05slot, data))
#define C05_NSLOT 8
static struct c05slot c05_s0 = { { {{{{{ (uint32_t)-1 }}}}}, 0, 0, C05_SLOT_OFF }, {0}, 0 }; static struct c05slot c05_s1 = { { {{{{{ (uint32_t)-1 }}}}}, 0, 0, C05_SLOT_OFF }, {0}, 0 }; static struct c05slot c05_s2 = { { {{{{{ (uint32_t)-1 }}}}}, 0, 0, C05_SLOT_OFF }, {0}, 0 }; static struct c05slot c05_s3 = { { {{{{{ (uint32_t)-1 }}}}}, 0, 0, C05_SLOT_OFF }, {0}, 0 }; static struct c05slot c05_s4 = { { {{{{{ (uint32_t)-1 }}}}}, 0, 0, C05_SLOT_OFF }, {0}, 0 }; static struct c05slot c05_s5 = { { {{{{{ (uint32_t)-1 }}}}}, 0, 0, C05_SLOT_OFF }, {0}, 0 }; static struct c05slot c05_s6 = { { {{{{{ (uint32_t)-1 }}}}}, 0, 0, C05_SLOT_OFF }, {0}, 0 }; static struct c05slot c05_s7 = { { {{{{{ (uint32_t)-1 }}}}}, 0, 0, C05_SLOT_OFF }, {0}, 0 };
static struct c05slot *c05_slot(uint32_t k) { switch (k) { case 1: return &c05_s1; case 2: return &c05_s2; case 3: return &c05_s3; case 4: return &c05_s4; case 5: return &c05_s5; case 6: return &c05_s6; case 7: return &c05_s7; } return &c05_s0; }
char* vp_c05_slot(uint32_t k) { return (char*)c05_slot(k); }
#include "table_c.inc"
/* harness entry: slot k := table row i (characters, size, ghost id) */
void vp_c05_fill(uint32_t k, uint32_t i) { struct c05slot *s = c05_slot(k); s->h.f1 = c05_fill_row(i, s->data); s->id = i; }
/* Comparison kernels as straight-line expressions (no loop, one symex step each): E(i): unit i is beyond the compared
   length or equal; D(i)/S(i): unit i is within the length and differs / the sign of the difference. */
#define E(i) ((uint32_t)((i) >= n ? 1 : (a[i] == b[i])))
#define D(i) ((i) < n && a[i] != b[i])
#define S(i) (a[i] < b[i] ? -1 : 1)
static int vpl_c05_eq(const uint16_t *a, const uint16_t *b, uint64_t n) { ASSERT(n <= C05_MAXLEN, "C05: string longer than the model bound");
  return (int)(E(0) & E(1) & E(2) & E(3) & E(4) & E(5) & E(6) & E(7) & E(8) & E(9) & E(10) & E(11) & E(12) & E(13) & E(14) & E(15) & E(16) & E(17) & E(18) & E(19) & E(20) & E(21) & E(22) & E(23)); }
static int vpl_c05_cmp(const uint16_t *a, const uint16_t *b, uint64_t n) { ASSERT(n <= C05_MAXLEN, "C05: string longer than the model bound");
  return (D(0) ? S(0) : (D(1) ? S(1) : (D(2) ? S(2) : (D(3) ? S(3) : (D(4) ? S(4) : (D(5) ? S(5) : (D(6) ? S(6) : (D(7) ? S(7) : (D(8) ? S(8) : (D(9) ? S(9) : (D(10) ? S(10) : (D(11) ? S(11) : (D(12) ? S(12) : (D(13) ? S(13) : (D(14) ? S(14) : (D(15) ? S(15) : (D(16) ? S(16) : (D(17) ? S(17) : (D(18) ? S(18) : (D(19) ? S(19) : (D(20) ? S(20) : (D(21) ? S(21) : (D(22) ? S(22) : (D(23) ? S(23) : 0)))))))))))))))))))))))); }
#undef E
#undef D
#undef S
uint8_t _ZN9QtPrivate10startsWithE11QStringViewS0_N2Qt15CaseSensitivityE(uint64_t na, char *a, uint64_t nb, char *b, uint32_t cs) {
  ASSERT(cs == 1, "case-insensitive compare not modelled"); if (nb > na) return 0; if (nb == 0) return 1; return vpl_c05_eq((uint16_t*)a, (uint16_t*)b, nb); }
uint32_t _ZN9QtPrivate14compareStringsE11QStringViewS0_N2Qt15CaseSensitivityE(uint64_t na, char *a, uint64_t nb, char *b, uint32_t cs) {
  ASSERT(cs == 1, "case-insensitive compare not modelled"); uint64_t m = na < nb ? na : nb; int c = m ? vpl_c05_cmp((uint16_t*)a, (uint16_t*)b, m) : 0;
  if (c) return (uint32_t)c; return na == nb ? 0 : (na < nb ? (uint32_t)-1 : 1); }
uint8_t _ZN9QtPrivate12equalStringsE11QStringViewS0_(uint64_t na, char *a, uint64_t nb, char *b) { if (na != nb) return 0; if (na == 0) return 1; return vpl_c05_eq((uint16_t*)a, (uint16_t*)b, na); }
uint8_t _ZeqRK7QStringS1_(char *a, char *b) { QAD *x = *(QAD**)a, *y = *(QAD**)b; if (x->f1 != y->f1) return 0; if (x->f1 == 0) return 1; return vpl_c05_eq(qs_chars(x), qs_chars(y), x->f1); }
/* log / error TEXT only (never inspected by the property): identity / empty models, as for every formatting function (GUIDE) */
void _ZNK7QString3argERKS_i5QChar(char *ret, char *self, char *a, uint32_t w, uint16_t fill) { *(QAD**)ret = qad_ref(*(QAD**)self); }
void _ZN9QtPrivate16QStringList_joinEPK11QStringList11QStringView(char *ret, char *list, uint64_t n, char *sep) { *(QAD**)ret = (QAD*)&G__ZN10QArrayData11shared_nullE; }
#endif
/* libstdc++ glue: std::__find_if<const QString*, _Iter_equals_val<const QString>>(first, last, pred) as used by
   QList<QString>::contains.  The header version computes the trip count as (uintptr_t)last - (uintptr_t)first, which cbmc
   cannot fold (pointer->integer casts), so every contains() would be explored to the unwind bound.  Same contract, written
   with pointer comparison; the predicate is `*it == value`, i.e. operator==(const QString&, const QString&). */
char* _ZSt9__find_ifIPK7QStringN9__gnu_cxx5__ops16_Iter_equals_valIS1_EEET_S7_S7_T0_St26random_access_iterator_tag(char *first, char *last, char *value) {
  for (char *p = first; p != last; p += sizeof(char*)) { if (_ZeqRK7QStringS1_(p, value)) return p; }
  return last; }
