/* C05: lean QString boundary for harness groups whose strings are all *constant literals* (QStringLiteral / u"..." arrays)
   selected by a symbolic index.  Replaces models/qt_core.c in those groups: no heap blocks, no abstract numbers, no
   base64 tags - only what the mechanism choice reaches.  Layout is Qt's: QString{d}, d -> QArrayData{ref,size,alloc,offset}
   followed by the UTF-16 units.  Every loop has the constant bound C05_MAXLEN (longest mechanism name + slack, asserted). */
#ifdef HAVE_T_struct_QArrayData
typedef struct T_struct_QArrayData QAD;
#define C05_MAXLEN 24
#define REF(d) ((d)->f0.f0.f0.f0.f0)
#ifdef HAVE_G__ZN10QArrayData11shared_nullE
GT__ZN10QArrayData11shared_nullE G__ZN10QArrayData11shared_nullE = { { { {{{{ (uint32_t)-1 }}}}, 0, 0, 24 }, { {{{{ 0 }}}}, 0, 0, 0 } } };
#endif
static uint16_t *qs_chars(QAD *d) { return (uint16_t*)((char*)d + d->f3); }
static QAD *qad_ref(QAD *d) { if (REF(d) != (uint32_t)-1 && REF(d) != 0) REF(d)++; return d; }
static void qad_deref(QAD *d) { if (REF(d) != (uint32_t)-1 && REF(d) != 0) REF(d)--; }
void _ZN10QArrayData10deallocateEPS_mm(char *d, uint64_t sz, uint64_t al) { ASSERT(0, "C05: string data is static, never deallocated"); }
char* _ZN7QStringaSERKS_(char *self, char *o) { QAD *n = qad_ref(*(QAD**)o); qad_deref(*(QAD**)self); *(QAD**)self = n; return self; }
/* first n units equal?  n <= C05_MAXLEN */
static int vpl_c05_eq(const uint16_t *a, const uint16_t *b, uint64_t n) { ASSERT(n <= C05_MAXLEN, "C05: string longer than the model bound");
  for (uint32_t i = 0; i < C05_MAXLEN; i++) { if (i >= n) break; if (a[i] != b[i]) return 0; } return 1; }
static int vpl_c05_cmp(const uint16_t *a, const uint16_t *b, uint64_t n) { ASSERT(n <= C05_MAXLEN, "C05: string longer than the model bound");
  for (uint32_t i = 0; i < C05_MAXLEN; i++) { if (i >= n) break; if (a[i] != b[i]) return a[i] < b[i] ? -1 : 1; } return 0; }
uint8_t _ZN9QtPrivate10startsWithE11QStringViewS0_N2Qt15CaseSensitivityE(uint64_t na, char *a, uint64_t nb, char *b, uint32_t cs) {
  ASSERT(cs == 1, "case-insensitive compare not modelled"); if (nb > na) return 0; if (nb == 0) return 1; return vpl_c05_eq((uint16_t*)a, (uint16_t*)b, nb); }
uint32_t _ZN9QtPrivate14compareStringsE11QStringViewS0_N2Qt15CaseSensitivityE(uint64_t na, char *a, uint64_t nb, char *b, uint32_t cs) {
  ASSERT(cs == 1, "case-insensitive compare not modelled"); uint64_t m = na < nb ? na : nb; int c = m ? vpl_c05_cmp((uint16_t*)a, (uint16_t*)b, m) : 0;
  if (c) return (uint32_t)c; return na == nb ? 0 : (na < nb ? (uint32_t)-1 : 1); }
uint8_t _ZN9QtPrivate12equalStringsE11QStringViewS0_(uint64_t na, char *a, uint64_t nb, char *b) { if (na != nb) return 0; if (na == 0) return 1; return vpl_c05_eq((uint16_t*)a, (uint16_t*)b, na); }
uint8_t _ZeqRK7QStringS1_(char *a, char *b) { QAD *x = *(QAD**)a, *y = *(QAD**)b; if (x->f1 != y->f1) return 0; if (x->f1 == 0) return 1; return vpl_c05_eq(qs_chars(x), qs_chars(y), x->f1); }
#endif
/* libstdc++ glue: std::__find_if<const QString*, _Iter_equals_val<const QString>>(first, last, pred) as used by
   QList<QString>::contains.  The header version computes the trip count as (uintptr_t)last - (uintptr_t)first, which cbmc
   cannot fold (pointer->integer casts), so every contains() would be explored to the unwind bound.  Same contract, written
   with pointer comparison; the predicate is `*it == value`, i.e. operator==(const QString&, const QString&). */
char* _ZSt9__find_ifIPK7QStringN9__gnu_cxx5__ops16_Iter_equals_valIS1_EEET_S7_S7_T0_St26random_access_iterator_tag(char *first, char *last, char *value) {
  for (char *p = first; p != last; p += sizeof(char*)) { if (_ZeqRK7QStringS1_(p, value)) return p; }
  return last; }
