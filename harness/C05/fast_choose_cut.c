/* C05 / fast, group fast_cc ONLY: assume-guarantee cut at the file-static chooseMechanism(config, availableMechanisms) of
   QXmppSaslManager.cpp.  The contract (harness: vp_fast_choose) is the relation between (configuration, list, result) that the
   instances choose_o*_d* / default_plain_* prove for the REAL function; it is applied to the list the function is actually
   CALLED with, so that what authenticate() does around the choice (which lists it merges, how often and with what it calls the
   choice, which result it turns into a client and into the mechanism attribute) is what these instances decide.
   The cut does not look at WHICH configuration object it is given (the contract is stated for the configuration of the instance):
   a change that hands a modified configuration to the choice is visible only to the uncut group.
   The uncut composition (real chooseMechanism inside the real authenticate) is group `fast`. */
#ifdef HAVE_T_struct_QArrayData
void F_vp_fast_choose(char *ret, char *cfg, char *list); char *F_vp_fast_cfg(void);
void _ZN5QXmpp7PrivateL15chooseMechanismERK18QXmppConfigurationRK5QListI7QStringE(char *ret, char *cfg, char *list) {
  F_vp_fast_choose(ret, cfg, list); }
#endif
