/* C05 assume-guarantee cut, used ONLY in the groups named *_cut: SaslMechanism::fromString(QStringView) is replaced by its
   specification on table names.  The specification is what instance `parse_table` (group `parse`, no cut) proves about the
   REAL function for every row of the table: fromString(name_i) == vp_c05_make_mech(i).  The cut refuses (model assertion,
   run becomes inconclusive) any argument that is not exactly one whole table name held in a name slot, or the empty string. */
#ifdef HAVE_T_struct_QArrayData
void F_vp_c05_make_mech(uint32_t id, char *out);
// MODEL: _ZN5QXmpp7Private13SaslMechanism10fromStringE11QStringView
struct L_1f71b25bad _ZN5QXmpp7Private13SaslMechanism10fromStringE11QStringView(uint64_t n, char *p) {
  uint64_t buf[2] = { 0, 0 }; uint32_t id = C05_ID_EMPTY; uint8_t ok = (n == 0);
#ifdef __CPROVER__
#define CUT_SLOT(k) if (n != 0 && __CPROVER_POINTER_OBJECT(p) == __CPROVER_POINTER_OBJECT(&c05_s##k)) { ok = (__CPROVER_POINTER_OFFSET(p) == C05_SLOT_OFF && n == c05_s##k.h.f1); id = c05_s##k.id; }
#else
#define CUT_SLOT(k) if (n != 0 && p == (char*)c05_s##k.data) { ok = (n == c05_s##k.h.f1); id = c05_s##k.id; }
#endif
  CUT_SLOT(0) CUT_SLOT(1) CUT_SLOT(2) CUT_SLOT(3) CUT_SLOT(4) CUT_SLOT(5) CUT_SLOT(6) CUT_SLOT(7)
  ASSERT(ok, "C05 cut: fromString called on something that is not a whole table name");
  F_vp_c05_make_mech(id, (char*)buf);
  struct L_1f71b25bad r = { buf[0], buf[1] }; return r; }
/* QXmppSaslClient::create(SaslMechanism, QObject*): in the cut groups no SASL client object is ever needed - the choice
   instances stop at chooseMechanism and the mismatch instances assume that nothing qualifies, so creating a client there is
   already the violation.  The cut counts the calls and hands back "no client" (unique_ptr == nullptr). */
static uint32_t c05_clients_created;
void _ZN15QXmppSaslClient6createEN5QXmpp7Private13SaslMechanismEP7QObject(char *ret, uint64_t m0, uint8_t m1, char *parent) { c05_clients_created++; *(char**)ret = 0; }
uint32_t vp_c05_clients_created(void) { return c05_clients_created; }
#endif
