import os
# C05 / fast: positive path of the real SaslManager::authenticate / Sasl2Manager::authenticate (FAST merge included)
LOOPS = {r'nameOf': 26, r'shim9eager_buf|shim9base_view': 7, r'RK3Sym|R3Sym|^h_|makeOffer|makeSymFast|checkSentName|noneStronger|listRows|symRow|fillNames|buildOffer|buildFast|applyConfigFast|5NamesC|5NamesD': 7,
         r'SaslHtMechanism10fromString': 9, r'__find_uniq_type_in_pack': 10, r'QListI7QStringE13node_destruct': 8, r'QListI7QStringE9node_copy': 8}
Q = ('quick', 'thorough'); T = ('thorough',)
TABLE = 'any row of the 53-name table of harness/C05 (38 mechanism names incl. all 28 HT-<hash>-<cb>, 15 non-names)'
CORE = 'any of 16 core rows (SCRAM x 4, DIGEST-MD5, PLAIN, ANONYMOUS, HT-SHA-256/-384/SHA3-512-NONE, HT-SHA-256-ENDP/-EXPR, "", "plain", "HT-SHA-256", "HT-SHA-256-NONEX")'
BITS = {7: 'server offers <fast/>, FAST enabled, user agent set (FAST in use)', 5: 'server offers <fast/>, FAST disabled in the configuration, user agent set',
        3: 'server offers <fast/>, FAST enabled, NO user agent', 6: 'server does not offer <fast/>, FAST enabled, user agent set', 0: 'no FAST anywhere'}
def I(name, entry, nreg, nfast, bits, ndis, rows, tiers=T, **kw):
    what = ('SaslManager::authenticate: offer of exactly %d names' % nreg) if entry == 'h_fast_sasl1' else \
           ('Sasl2Manager::authenticate: exactly %d regular names + %d names inside <fast/>; %s' % (nreg, nfast if bits & 1 else 0, BITS[bits]))
    d = dict(name=name, entry=entry, unwind=4, timeout_s=400, mem_gb=6, tiers=tiers, model_loop_bound=66, object_bits=12,
             cdefs={'FAST_NREG': nreg, 'FAST_NFAST': nfast, 'FAST_BITS': bits, 'C05_NDIS': ndis, 'FAST_ROWS': rows},
             bound='%s; disabled list of exactly %d name(s); every name (offered, disabled, preferred) %s; preferred none or a name; password / X-token flags present or not; HT token absent or bound to any HT mechanism%s'
                   % (what, ndis, CORE if rows else TABLE, ' of the core rows' if rows else ''))
    fix = kw.pop('fix', {})
    for k, v in fix.items(): d['cdefs']['FAST_FIX%d' % k] = v
    d.update(kw)
    if os.environ.get('FAST_DEBUG'): d['cbmc_flags'] = ['--verbosity', '9']; d['timeout_s'] = int(os.environ['FAST_DEBUG'])
    return d
MODELS = ['c05_str.c', 'c05_list.c', 'models.c', 'fast_env.c']
def group(name, models, instances, noff):
    return dict(name=name, harness='fast_h.cpp', ranges_shim=False, shadow_task=True,
                tus=['src/base/QXmppSasl.cpp', 'src/client/QXmppConfiguration.cpp'],
                models=models, cxxdefs={'VP_NOFF': noff, 'VP_NDIS': 1, '_GLIBCXX_RANGES': 1}, loop_bounds=LOOPS, instances=instances)
GROUPS = [
    # composition: REAL authenticate / initSaslAuthentication / create / client classes / toString around chooseMechanism CUT to the
    # relation that choose_o*_d* prove (fast_choose_cut.c), applied to the list the function is really called with
    group('fast_cc', MODELS + ['fast_choose_cut.c'], [
        I('fastcc_sasl1_r2', 'h_fast_sasl1', 2, 0, 0, 1, 0, tiers=('thorough',)),
        I('fastcc_sasl2_r1_f1', 'h_fast_sasl2', 1, 1, 7, 1, 0, tiers=Q),
        I('fastcc_sasl2_r1_f1_off', 'h_fast_sasl2', 1, 1, 5, 1, 0, tiers=Q),
        I('fastcc_sasl1_r0', 'h_fast_sasl1', 0, 0, 0, 0, 0),
        I('fastcc_sasl1_r3', 'h_fast_sasl1', 3, 0, 0, 1, 0),
        I('fastcc_sasl2_r2_f1', 'h_fast_sasl2', 2, 1, 7, 1, 0),
        I('fastcc_sasl2_r1_f2', 'h_fast_sasl2', 1, 2, 7, 1, 0),
        I('fastcc_sasl2_r0_f2', 'h_fast_sasl2', 0, 2, 7, 0, 0),
        I('fastcc_sasl2_r2_f0', 'h_fast_sasl2', 2, 0, 7, 1, 0),
        I('fastcc_sasl2_r1_f1_noagent', 'h_fast_sasl2', 1, 1, 3, 1, 0),
        I('fastcc_sasl2_r2_nofast', 'h_fast_sasl2', 2, 1, 6, 1, 0),
    ], 3),
    # no cut at the choice: REAL chooseMechanism (ranges stand-in, fromString cut as in choose_cut) inside the REAL authenticate
    group('fast', MODELS + ['fast_cut.c'], [
        I('fast_sasl1_r1', 'h_fast_sasl1', 1, 0, 0, 1, 1),
        I('fast_sasl1_r2', 'h_fast_sasl1', 2, 0, 0, 1, 1, timeout_s=600),
        I('fast_sasl2_r1_f1', 'h_fast_sasl2', 1, 1, 7, 1, 1, timeout_s=600),
        I('fast_sasl2_r1_f1_off', 'h_fast_sasl2', 1, 1, 5, 0, 1, timeout_s=600),
        I('fast_sasl2_r2_f1', 'h_fast_sasl2', 2, 1, 7, 0, 1, timeout_s=900, mem_gb=8),
    ], 3),
]
BOUNDS = [
    'fast*: regular offer of exactly 0-3 names, 0-2 names inside <fast/> (at most 3 names in total), disabled list of exactly 0 or 1 name, preferred none or one name; one instance per shape',
    'fastcc_*: every name is any row of the 53-name table; fast_* (no cut at the choice): every name is one of 16 core rows (SCRAM x 4, DIGEST-MD5, PLAIN, ANONYMOUS, three HT-*-NONE, HT-SHA-256-ENDP, HT-SHA-256-EXPR, four non-names)',
    'fast*: server-offers-fast / FAST-enabled / user-agent-set are constants of the instance (combinations 7, 5, 3, 6)',
]
ASSUMPTIONS = [
    'fast*: the SASL exchange CONTENT is cut (C06): <Client>::respond() of the eight real client classes returns "initial response exists" (empty bytes); generateNonce and QCryptographicHash::hashLength (used by the real constructors) are opaque; QXmppLoggable/QObject construction is a no-op and the logMessage signal goes nowhere',
    'fast*: the element sent is captured by TYPE: the inline instantiations serializeXml<Sasl::Auth> and serializeXml<Sasl2::Authenticate> hand the packet object to the harness, which reads the mechanism member of the first one; the XML text is not built (Auth::toXml / Authenticate::toXml are C01 subjects)',
    'fast*: SaslHtMechanism::toString is replaced by its specification on the name table ("HT-" hash "-" binding of the VALUE, enumerators matched by name) because the real one compiles to llvm.load.relative, which the translator does not support; all other toString() alternatives are the real code',
    'fast*: std::ranges::__copy_or_move over char16_t (initialisation of the function-local static behind every u"..."_s literal) is model code with the same contract',
    'fastcc_*: ASSUME-GUARANTEE CUT at the file-static chooseMechanism(config, list): it returns ANY result in the relation that choose_o*_d* / default_plain_* prove for the real function against the oracle (nothing iff no name of the list is permitted; else an offered permitted name, the preferred one if that is offered and permitted, else one with no strictly stronger permitted offer), evaluated on the list it is really called with (rows read back from the name slots); the second tuple member (names for the log text) is empty. The uncut composition is fast_* (thorough)',
    'fast_*: fromString cut as in group choose_cut (fast_cut.c is a verbatim copy of that half of c05_cut.c); eager ranges stand-in c05_ranges.h',
]
OUTSIDE = [
    'fast*: FastTokenManager::onSasl2Authenticate / onSasl2Success (which HT mechanism a NEW token is requested for, token rotation) - not about the choice; whether the request carries <fast/> or <request-token/> is not asserted (observed: Authenticate.fast is set exactly when the chosen name is in the FAST list and FAST is in use)',
    'fast*: more than 3 offered names in total, more than one disabled name; failure of the initial response (ProcessingError path); the user-agent check (device id null)',
]
