/* C05 local models: value types of libQt5Network/libQt5Core that the configuration object merely carries along.
   None of them is inspected by the mechanism choice; they are opaque 8-byte handles here. */
void _ZN13QNetworkProxyC1Ev(char *self) { *(char**)self = 0; }
void _ZN13QNetworkProxyC1ERKS_(char *self, char *o) { *(char**)self = *(char**)o; }
void _ZN13QNetworkProxyD1Ev(char *self) { }
void _ZN15QSslCertificateC1ERKS_(char *self, char *o) { *(char**)self = *(char**)o; }
void _ZN15QSslCertificateD1Ev(char *self) { }
void _ZN9QDateTimeC1Ev(char *self) { *(char**)self = 0; }
void _ZN9QDateTimeC1ERKS_(char *self, char *o) { *(char**)self = *(char**)o; }
void _ZN9QDateTimeC1EOS_(char *self, char *o) { *(char**)self = *(char**)o; *(char**)o = 0; }
void _ZN9QDateTimeD1Ev(char *self) { }
/* list lengths of an instance (constants, so that list construction stays concrete) */
#ifndef C05_NOFF
#define C05_NOFF 3
#endif
#ifndef C05_NDIS
#define C05_NDIS 2
#endif
uint32_t vp_c05_noff(void) { return C05_NOFF; }
uint32_t vp_c05_ndis(void) { return C05_NDIS; }
