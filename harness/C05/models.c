/* C05 local models: value types of libQt5Network/libQt5Core that the configuration object merely carries along.
   None of them is inspected by the mechanism choice; they are opaque 8-byte handles here. */
void _ZN13QNetworkProxyC1Ev(char *self) { *(char**)self = 0; }
void _ZN13QNetworkProxyC1ERKS_(char *self, char *o) { *(char**)self = *(char**)o; }
void _ZN13QNetworkProxyD1Ev(char *self) { }
void _ZN15QSslCertificateC1ERKS_(char *self, char *o) { *(char**)self = *(char**)o; }
void _ZN15QSslCertificateD1Ev(char *self) { }
void _ZN9QDateTimeC1Ev(char *self) { *(char**)self = 0; }
void _ZN9QDateTimeC1ERKS_(char *self, char *o) { *(char**)self = *(char**)o; }
void _ZN9QDateTimeC1EOS_(char *self, char *o) { *(char**)self = *(char**)o; *(char**)o = 0; }
void _ZN9QDateTimeD1Ev(char *self) { }
/* list lengths of an instance (constants, so that list construction stays concrete) */
#ifndef C05_NOFF
#define C05_NOFF 3
#endif
#ifndef C05_NDIS
#define C05_NDIS 2
#endif
uint32_t vp_c05_noff(void) { return C05_NOFF; }
uint32_t vp_c05_ndis(void) { return C05_NDIS; }
#ifndef C05_FASTBITS
#define C05_FASTBITS 7
#endif
uint32_t vp_c05_fastbits(void) { return C05_FASTBITS; }
#ifndef C05_ROW_LO
#define C05_ROW_LO 0
#define C05_ROW_HI 1000
#endif
uint32_t vp_c05_row_lo(void) { return C05_ROW_LO; }
uint32_t vp_c05_row_hi(void) { return C05_ROW_HI; }
/* libstdc++ glue: std::__new_allocator<SaslMechanism>::allocate(n) (inline, overridden at class level).  The header version
   ends in operator new(n * sizeof(T)) with a symbolic n (the number of mechanisms that survived the filters): cbmc then
   creates an object of symbolic size and every later access goes through the array theory (measured: SAT runs out of 6 GB
   for a ONE-name offer).  Same contract, fixed capacity: a typed block of C05_VEC_CAP elements; n is asserted to fit. */
#ifdef HAVE_T_struct_QXmpp__Private__SaslMechanism
#ifndef C05_VEC_CAP
#define C05_VEC_CAP 6
#endif
char* _ZNSt15__new_allocatorIN5QXmpp7Private13SaslMechanismEE8allocateEmPKv(char *self, uint64_t n, char *hint) {
  ASSERT(n <= C05_VEC_CAP, "C05: std::vector<SaslMechanism> capacity of the model exceeded");
  struct T_struct_QXmpp__Private__SaslMechanism *p = malloc(sizeof(struct T_struct_QXmpp__Private__SaslMechanism) * C05_VEC_CAP); ASSUME(p != 0); return (char*)p; }
/* _Vector_base<SaslMechanism>::_M_allocate(n): the header returns nullptr for n == 0; the destructor then computes
   end_of_storage - start on two null pointers, which is fine in C++ but flagged by cbmc's pointer checks.  Always hand out a block
   (allowed: a vector may own storage while empty). */
char* _ZNSt12_Vector_baseIN5QXmpp7Private13SaslMechanismESaIS2_EE11_M_allocateEm(char *self, uint64_t n) {
  return _ZNSt15__new_allocatorIN5QXmpp7Private13SaslMechanismEE8allocateEmPKv(self, n, 0); }
#endif
