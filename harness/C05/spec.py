import os
LOOPS = {r'nameOf': 26, r'shim5eager': 5, r'RK3Sym|R3Sym|^h_|makeOffer': 5, r'SaslHtMechanism10fromString': 9, r'__find_uniq_type_in_pack': 10,
         r'QListI7QStringE13node_destruct': 8, r'QListI7QStringE9node_copy': 8}
def I(name, entry, **kw):
    d = dict(name=name, entry=entry, unwind=4, timeout_s=300, mem_gb=6, tiers=('quick', 'thorough'), model_loop_bound=26, bound=''); d.update(kw)
    if os.environ.get('C05_DEBUG'): d['cbmc_flags'] = list(d.get('cbmc_flags', [])) + ['--verbosity', '9']; d['timeout_s'] = int(os.environ['C05_DEBUG'])
    return d
def G(name, instances, models, **cxx):
    defs = {'VP_NOFF': 3, 'VP_NDIS': 2, '_GLIBCXX_RANGES': 1}; defs.update(cxx)
    return dict(name=name, harness='h.cpp', ranges_shim=False,
                tus=['src/base/QXmppSasl.cpp', 'src/client/QXmppConfiguration.cpp'],
                models=models, cxxdefs=defs, loop_bounds=LOOPS, instances=instances)
BASE = ['c05_str.c', 'c05_list.c', 'models.c']
def choose(o, d, **kw):
    return I('choose_o%d_d%d' % (o, d), 'h_choose', cdefs={'C05_NOFF': o, 'C05_NDIS': d}, unwind=o + 1,
             bound='offer list of exactly %d names, disabled list of exactly %d names, each any row of the 52-name table' % (o, d), **kw)
SPEC = dict(
    property='C05',
    groups=[
        G('parse', [I('parse_table', 'h_parse_table', unwind=2, bound='every row of the 52-name table')], BASE),
        G('choose_cut', [choose(o, d) for o in (0, 1, 2, 3) for d in (0, 1, 2)]
                        + [I('default_plain_o%d' % o, 'h_default_plain', cdefs={'C05_NOFF': o, 'C05_NDIS': 0}, unwind=o + 1) for o in (1, 2, 3)],
          BASE + ['c05_cut.c']),
        G('dbg', [I('dbg%s' % i, 'h_dbg%s' % i, cdefs={'C05_NOFF': 1, 'C05_NDIS': 2}, unwind=2) for i in 'ABC'], BASE, VP_DEBUG_ENTRIES=1),
        G('dbgcut', [I('dbg%s' % i, 'h_dbg%s' % i, cdefs={'C05_NOFF': 1, 'C05_NDIS': 2}, unwind=2) for i in 'DEFGH'], BASE + ['c05_cut.c'], VP_DEBUG_ENTRIES=1),
    ],
    bounds=[], assumptions=[], outside=[],
)
