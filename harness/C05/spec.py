def I(name, entry, **kw):
    d = dict(name=name, entry=entry, unwind=5, timeout_s=120, mem_gb=6, tiers=('quick', 'thorough'), model_loop_bound=26,
             bound='offers <= 3 names, disabled <= 2 names'); d.update(kw); return d
def G(name, instances, **cxx):
    defs = {'VP_NOFF': 3, 'VP_NDIS': 2, '_GLIBCXX_RANGES': 1}; defs.update(cxx)
    return dict(name=name, harness='h.cpp', ranges_shim=True,
                tus=['src/base/QXmppSasl.cpp', 'src/client/QXmppConfiguration.cpp'],
                models=['c05_str.c', 'qt_list.c', 'models.c'], cxxdefs=defs,
                loop_bounds={r'nameOf': 26, r'SaslHtMechanism10fromString': 9, r'QListI7QStringE13node_destruct': 8, r'QListI7QStringE9node_copy': 8},
                instances=instances)
V9 = dict(cbmc_flags=['--verbosity', '9'], timeout_s=40)
SPEC = dict(
    property='C05',
    groups=[
        G('choose', [I('choose', 'h_choose'), I('default_plain', 'h_default_plain')]),
        G('dbg', [I('dbg%d' % i, 'h_dbg%d' % i, **V9) for i in (6, 7, 8, 9)], VP_DEBUG_ENTRIES=1),
    ],
    bounds=[], assumptions=[], outside=[],
)
