import os
LOOPS = {r'nameOf': 26, r'shim9eager_buf|shim9base_view': 5, r'RK3Sym|R3Sym|^h_|makeOffer': 5, r'SaslHtMechanism10fromString': 9, r'__find_uniq_type_in_pack': 10,
         r'QListI7QStringE13node_destruct': 8, r'QListI7QStringE9node_copy': 8}
TABLE = 'each any row of the 53-name table (38 mechanism names: 4 SCRAM, DIGEST-MD5, PLAIN, ANONYMOUS, 3 X-*, all 28 HT-<hash>-<cb>; 15 garbled/unknown/wrong-case names)'
def I(name, entry, **kw):
    d = dict(name=name, entry=entry, unwind=4, timeout_s=420, mem_gb=6, tiers=('quick', 'thorough'), model_loop_bound=26, bound=''); d.update(kw)
    if os.environ.get('C05_DEBUG'): d['cbmc_flags'] = list(d.get('cbmc_flags', [])) + ['--verbosity', '9']; d['timeout_s'] = int(os.environ['C05_DEBUG'])
    return d
def G(name, instances, models, shadow=False, **cxx):
    defs = {'VP_NOFF': 3, 'VP_NDIS': 2, '_GLIBCXX_RANGES': 1}; defs.update(cxx)
    return dict(name=name, harness='h.cpp', ranges_shim=False, shadow_task=shadow,
                tus=['src/base/QXmppSasl.cpp', 'src/client/QXmppConfiguration.cpp'],
                models=models, cxxdefs=defs, loop_bounds=LOOPS, instances=instances)
BASE = ['c05_str.c', 'c05_list.c', 'models.c']
CUT = BASE + ['c05_cut.c']
Q = ('quick', 'thorough'); T = ('thorough',)
QUICK_CHOOSE = {(0, 0), (1, 2), (3, 2)}
MEM = {0: 2.5, 1: 3.5, 2: 4.5, 3: 5.5}
def od(o, d): return {'C05_NOFF': o, 'C05_NDIS': d}
def choose(o, d):
    return I('choose_o%d_d%d' % (o, d), 'h_choose', cdefs=od(o, d), tiers=Q if (o, d) in QUICK_CHOOSE else T, mem_gb=MEM[o],
             bound='offer list of exactly %d names, disabled list of exactly %d names, preferred name or none, %s; password / 3 X-token flags / HT token with any of the 28 HT mechanisms' % (o, d, TABLE))
SPEC = dict(
    property='C05',
    groups=[
        # lemma on the REAL parser (no cut): SaslMechanism::fromString(name_i) == meaning of row i, symbolic row
        G('parse', [I('parse_table', 'h_parse_table', unwind=2, mem_gb=2.5, bound='every row of the 53-name table (symbolic row index)'),
                    I('parse_alias', 'h_parse_table', unwind=2, mem_gb=2.5, cdefs={'C05_ROW_LO': 52, 'C05_ROW_HI': 53}, bound='row 52 "HT-SHA-256SHA-384-NONE" (regression check of the repaired HT parser)')], BASE),
        # REAL chooseMechanism / isMechanismAvailable / variant order / configuration, fromString cut to the lemma
        G('choose_cut', [choose(o, d) for o in (0, 1, 2, 3) for d in (0, 1, 2)]
                        + [I('default_plain_o%d' % o, 'h_default_plain', cdefs=od(o, 0), mem_gb=MEM[o], tiers=Q if o == 2 else T,
                             bound='default-constructed configuration (disabled = {PLAIN} from the constructor), offer list of exactly %d names' % o) for o in (1, 2, 3)]
                        + [I('mismatch_sasl1_o%d' % o, 'h_mismatch_sasl1', cdefs=od(o, 2), mem_gb=4, tiers=Q if o == 3 else T,
                             bound='SaslManager::authenticate, offer list of exactly %d names, nothing permitted' % o) for o in (0, 2, 3)]
                        + [I('mismatch_sasl2_o%d_f%d' % (o, f), 'h_mismatch_sasl2', cdefs=dict(od(o, 2), C05_FASTBITS=f), object_bits=12, mem_gb=4, tiers=Q if (o, f) == (3, 5) else T,
                             bound='Sasl2Manager::authenticate, %d names of which the last one inside <fast/>, FAST bits %d (1 server offers fast, 2 enabled in config, 4 user agent set), nothing permitted' % (o, f)) for o in (1, 3) for f in (7, 6, 5, 3, 0)],
          CUT, shadow=True),
        G('tostring', [I('tostring', 'h_tostring', unwind=4, mem_gb=4, bound='the 10 non-HT mechanism rows of the table, symbolic row index')], ['qt_core.c', 'qt_list.c', 'models.c']),
        # composition check without the cut: real parser inside the real choice
        G('e2e', [I('e2e_o1_d1', 'h_choose', cdefs=od(1, 1), mem_gb=4, bound='uncut, offer list of exactly 1 name, 1 disabled name'),
                  I('e2e_o2_d2', 'h_choose', cdefs=od(2, 2), tiers=T, mem_gb=6, timeout_s=900, object_bits=12, bound='uncut, offer list of exactly 2 names, 2 disabled names'),
                  I('e2e_o3_d2', 'h_choose', cdefs=od(3, 2), tiers=T, mem_gb=7, timeout_s=1500, object_bits=12, bound='uncut, offer list of exactly 3 names, 2 disabled names'),
                  I('alias_bypass', 'h_alias_bypass', cdefs=od(1, 1), mem_gb=2.5, bound='concrete: offer ["HT-SHA-256SHA-384-NONE"], disabled ["HT-SHA-384-NONE"], token HT-SHA-384-NONE')],
          BASE),
    ],
    bounds=[
        'offer list: exactly 0, 1, 2 or 3 names (one instance per length), every ordering, duplicates allowed',
        'disabled list: exactly 0, 1 or 2 names (one instance per length); quick tier: 2 names with offers of 1-3, 0 names with the empty offer',
        'every name (offered, disabled, preferred) is any row of a 53-row table: 38 mechanism names (SCRAM-SHA-1/-256/-512/SHA3-512, DIGEST-MD5, PLAIN, ANONYMOUS, X-FACEBOOK-PLATFORM, X-MESSENGER-OAUTH2, X-OAUTH2, all 28 HT-<7 hashes>-<NONE|ENDP|UNIQ|EXPR>) and 15 names that are not mechanisms (empty, wrong case, unknown hash, truncated, trailing garbage, "HT-SHA-256SHA-384-NONE")',
        'preferred mechanism: none or any table row',
        'credentials: password present/absent, facebook token and app id, windows-live token, google token each present/absent, HT token absent or bound to any of the 28 HT mechanisms',
        'SASL 2 mismatch instances: the last offered name arrives inside <fast/>; server-offers-fast / FAST enabled / user agent set are constants of the instance (5 of the 8 combinations)',
        'end-to-end (uncut) composition: 1 offered name + 1 disabled name in quick; 2 + 2 and 3 + 2 in thorough',
        'strings are at most 24 UTF-16 units (longest table name 22)',
    ],
    assumptions=[
        'ASSUME-GUARANTEE CUT (groups choose_cut): SaslMechanism::fromString is replaced by its specification on table names (c05_cut.c); the specification is exactly what instance parse_table proves for the REAL function on every table row; the cut refuses any argument that is not one whole table name; instances e2e_* run the real parser inside the real choice WITHOUT the cut (1 offer + 1 disabled in quick; 2+2 and the full bound 3+2 in thorough)',
        'std::views::filter/transform: clang-14 cannot compile libstdc++-12 <ranges>; c05_ranges.h is an EAGER stand-in (each element of the container is pushed once, in order, through the stages; begin()/end() are pointers into a buffer of <= 6 results). Equivalent to the lazy views for the sequence of values as long as predicates do not depend on how often they run (isEnabled only collects names for the log text)',
        'class-level container models (Qt / libstdc++ inline code replaced by contract): QList<QString> default constructor, append, node_destruct (all string data static, asserted); std::__find_if over const QString* (QList::contains); std::allocator<SaslMechanism>::allocate and _Vector_base::_M_allocate with fixed capacity 6 (asserted)',
        'string boundary (c05_str.c): QString::operator=, operator==, QtPrivate::startsWith/compareStrings/equalStrings as straight-line kernels over <= 24 units (asserted); QString::arg / QStringList join (log and error TEXT) are identity / empty',
        'QNetworkProxy, QSslCertificate, QDateTime are opaque 8-byte values (carried by the configuration, never inspected by the choice)',
        'credential CONTENTS are a fixed non-empty literal: the choice only tests emptiness',
        'mismatch instances: QXmppTask/QXmppPromise shadow (contract proven by C13); QXmppSaslClient::create is cut to "count the call, return no client" - creating a client when nothing qualifies is itself reported as a violation; the socket is a harness SendDataInterface that counts sendData calls',
    ],
    outside=[
        'offers longer than 3 names, disabled lists longer than 2, names outside the table (arbitrary strings)',
        'relative order of the X-FACEBOOK-PLATFORM / X-MESSENGER-OAUTH2 / X-OAUTH2 mechanisms against the others: the property statement does not rank them, so only membership (offered, enabled, usable) is asserted when one of them is chosen',
        'SASL 2 / FAST positive path: that a name offered only inside <fast/> is used when FAST is in use and that auth.fast is set (needs the SASL client objects - C06 territory); FAST is covered for the "nothing qualifies" direction only',
        'FastTokenManager::onSasl2Authenticate (which HT mechanism a NEW token is requested for)',
        'SaslHtMechanism::toString (HT names on the wire): channelBindingTypeToString compiles to llvm.load.relative, unsupported by the translator; toString is checked for the 10 non-HT mechanisms (instance tostring)',
        'the text of the log / error messages (disabledAvailable list contents)',
    ],
)
