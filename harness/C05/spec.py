def I(name, entry, **kw):
    d = dict(name=name, entry=entry, unwind=6, timeout_s=120, model_loop_bound=26, mem_gb=6, tiers=('quick', 'thorough'),
             bound='offers <= 3 names, disabled <= 2 names'); d.update(kw); return d
SPEC = dict(
    property='C05',
    groups=[
        dict(name='choose', harness='h.cpp', ranges_shim=True,
             tus=['src/base/QXmppSasl.cpp', 'src/client/QXmppConfiguration.cpp'],
             models=['c05_str.c', 'qt_list.c', 'models.c'], cxxdefs={'VP_NOFF': 3, 'VP_NDIS': 2, '_GLIBCXX_RANGES': 1}, loop_bounds={r'nameOf': 26},
             instances=[I('choose', 'h_choose'), I('default_plain', 'h_default_plain')]),
    ],
    bounds=[], assumptions=[], outside=[],
)
