import os
LOOPS = {r'nameOf': 26, r'shim9eager_buf|shim9base_view': 5, r'RK3Sym|R3Sym|^h_|makeOffer': 5, r'SaslHtMechanism10fromString': 9, r'__find_uniq_type_in_pack': 10,
         r'QListI7QStringE13node_destruct': 8, r'QListI7QStringE9node_copy': 8}
TABLE = 'each any row of the 53-name table (38 mechanism names: 4 SCRAM, DIGEST-MD5, PLAIN, ANONYMOUS, 3 X-*, all 28 HT-<hash>-<cb>; 15 garbled/unknown/wrong-case names)'
def I(name, entry, **kw):
    d = dict(name=name, entry=entry, unwind=4, timeout_s=420, mem_gb=6, tiers=('quick', 'thorough'), model_loop_bound=26, bound=''); d.update(kw)
    if os.environ.get('C05_DEBUG'): d['cbmc_flags'] = list(d.get('cbmc_flags', [])) + ['--verbosity', '9']; d['timeout_s'] = int(os.environ['C05_DEBUG'])
    return d
def G(name, instances, models, shadow=False, **cxx):
    defs = {'VP_NOFF': 3, 'VP_NDIS': 2, '_GLIBCXX_RANGES': 1}; defs.update(cxx)
    return dict(name=name, harness='h.cpp', ranges_shim=False, shadow_task=shadow,
                tus=['src/base/QXmppSasl.cpp', 'src/client/QXmppConfiguration.cpp'],
                models=models, cxxdefs=defs, loop_bounds=LOOPS, instances=instances)
BASE = ['c05_str.c', 'c05_list.c', 'models.c']
CUT = BASE + ['c05_cut.c']
Q = ('quick', 'thorough'); T = ('thorough',)
QUICK_CHOOSE = {(0, 0), (1, 2), (2, 2), (3, 2)}
MEM = {0: 2.5, 1: 4, 2: 5, 3: 6}
def od(o, d): return {'C05_NOFF': o, 'C05_NDIS': d}
def choose(o, d):
    return I('choose_o%d_d%d' % (o, d), 'h_choose', cdefs=od(o, d), tiers=Q if (o, d) in QUICK_CHOOSE else T, mem_gb=MEM[o],
             bound='offer list of exactly %d names, disabled list of exactly %d names, preferred name or none, %s; password / 3 X-token flags / HT token with any of the 28 HT mechanisms' % (o, d, TABLE))
SPEC = dict(
    property='C05',
    groups=[
        # lemma on the REAL parser (no cut): SaslMechanism::fromString(name_i) == meaning of row i, symbolic row
        G('parse', [I('parse_table', 'h_parse_table', unwind=2, mem_gb=2.5, bound='every row of the 53-name table (symbolic row index)'),
                    I('parse_alias', 'h_parse_table', unwind=2, mem_gb=2.5, cdefs={'C05_ROW_LO': 52, 'C05_ROW_HI': 53}, bound='row 52 "HT-SHA-256SHA-384-NONE" (regression check of the repaired HT parser)')], BASE),
        # REAL chooseMechanism / isMechanismAvailable / variant order / configuration, fromString cut to the lemma
        G('choose_cut', [choose(o, d) for o in (0, 1, 2, 3) for d in (0, 1, 2)]
                        + [I('default_plain_o%d' % o, 'h_default_plain', cdefs=od(o, 0), mem_gb=MEM[o], tiers=Q if o == 3 else T,
                             bound='default-constructed configuration (disabled = {PLAIN} from the constructor), offer list of exactly %d names' % o) for o in (1, 2, 3)]
                        + [I('mismatch_sasl1_o%d' % o, 'h_mismatch_sasl1', cdefs=od(o, 2), mem_gb=4, tiers=Q if o == 3 else T,
                             bound='SaslManager::authenticate, offer list of exactly %d names, nothing permitted' % o) for o in (0, 2, 3)]
                        + [I('mismatch_sasl2_o%d_f%d' % (o, f), 'h_mismatch_sasl2', cdefs=dict(od(o, 2), C05_FASTBITS=f), object_bits=12, mem_gb=4, tiers=Q if (o, f) == (3, 7) else T,
                             bound='Sasl2Manager::authenticate, %d names of which the last one inside <fast/>, FAST bits %d (1 server offers fast, 2 enabled in config, 4 user agent set), nothing permitted' % (o, f)) for o in (1, 3) for f in (7, 6, 5, 3, 0)],
          CUT, shadow=True),
        # composition check without the cut: real parser inside the real choice
        G('e2e', [I('e2e_o1_d1', 'h_choose', cdefs=od(1, 1), mem_gb=4, bound='uncut, offer list of exactly 1 name, 1 disabled name'),
                  I('e2e_o2_d2', 'h_choose', cdefs=od(2, 2), tiers=T, mem_gb=14, timeout_s=1500, bound='uncut, offer list of exactly 2 names, 2 disabled names'),
                  I('alias_bypass', 'h_alias_bypass', cdefs=od(1, 1), mem_gb=2.5, bound='concrete: offer ["HT-SHA-256SHA-384-NONE"], disabled ["HT-SHA-384-NONE"], token HT-SHA-384-NONE')],
          BASE),
    ],
    bounds=[], assumptions=[], outside=[],
)
if os.environ.get('C05_DEBUG'):
    SPEC['groups'] += [
        G('dbg', [I('dbg%s' % i, 'h_dbg%s' % i, cdefs=od(1, 2), unwind=2) for i in 'ABC'], BASE, VP_DEBUG_ENTRIES=1),
        G('dbgcut', [I('dbg%s' % i, 'h_dbg%s' % i, cdefs=od(1, 2), unwind=2) for i in 'DEFGH'], CUT, VP_DEBUG_ENTRIES=1)]
