def I(name, entry, **kw):
    d = dict(name=name, entry=entry, unwind=5, timeout_s=120, model_loop_bound=26, mem_gb=6, tiers=('quick', 'thorough'),
             bound='offers <= 3 names, disabled <= 2 names'); d.update(kw); return d
SPEC = dict(
    property='C05',
    groups=[
        dict(name='choose', harness='h.cpp', ranges_shim=True,
             tus=['src/base/QXmppSasl.cpp', 'src/client/QXmppConfiguration.cpp'],
             models=['c05_str.c', 'qt_list.c', 'models.c'], cxxdefs={'VP_NOFF': 3, 'VP_NDIS': 2, '_GLIBCXX_RANGES': 1}, loop_bounds={r'nameOf': 26, r'SaslHtMechanism10fromString': 9},
             instances=[I('choose', 'h_choose'), I('default_plain', 'h_default_plain')]),
        dict(name='dbg', harness='h.cpp', ranges_shim=True, tus=['src/base/QXmppSasl.cpp', 'src/client/QXmppConfiguration.cpp'], models=['c05_str.c', 'qt_list.c', 'models.c'], cxxdefs={'VP_NOFF': 3, 'VP_NDIS': 2, '_GLIBCXX_RANGES': 1, 'VP_DEBUG_ENTRIES': 1}, instances=[I('dbg1', 'h_dbg1', cbmc_flags=['--verbosity', '9']), I('dbg2', 'h_dbg2', cbmc_flags=['--verbosity', '9']), I('dbg6', 'h_dbg6', cbmc_flags=['--verbosity', '9']), I('dbg7', 'h_dbg7', cbmc_flags=['--verbosity', '9']), I('dbg3', 'h_dbg3', cbmc_flags=['--verbosity', '9']), I('dbg4', 'h_dbg4', cbmc_flags=['--verbosity', '9']), I('dbg5', 'h_dbg5', cbmc_flags=['--verbosity', '9'])]),
    ],
    bounds=[], assumptions=[], outside=[],
)
