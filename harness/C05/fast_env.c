/* C05 / fast: environment of the positive-path instances (included after c05_str.c / c05_list.c / models.c / fast_cut.c, one TU).
   - serializeXml<Sasl::Auth> / serializeXml<Sasl2::Authenticate> (inline template instantiations, overridden by TYPE): hand the
     packet object to the harness (which records the mechanism attribute of the first one); the bytes are not built.
   - the SASL exchange CONTENT is C06's subject: <Client>::respond() of the eight client classes is cut to "the initial response
     exists" (empty byte array); generateNonce / QCryptographicHash::hashLength used by the real constructors are opaque.
   - SaslHtMechanism::toString: specification on the name table (the real one is compiled to llvm.load.relative, which the
     translator does not support): "HT-" <hash name> "-" <channel binding> of the VALUE, enumerators matched by name in the harness. */
#ifdef HAVE_T_struct_QArrayData
#define FAST_NULLBA ((QAD*)&G__ZN10QArrayData11shared_nullE)
void F_vp_fast_sent_auth(char *pkt); void F_vp_fast_sent_auth2(char *pkt); uint32_t F_vp_fast_ht_row(char *m);
void _ZN5QXmpp7Private12serializeXmlINS0_4Sasl4AuthEEE10QByteArrayRKT_(char *ret, char *pkt) { F_vp_fast_sent_auth(pkt); *(QAD**)ret = FAST_NULLBA; }
void _ZN5QXmpp7Private12serializeXmlINS0_5Sasl212AuthenticateEEE10QByteArrayRKT_(char *ret, char *pkt) { F_vp_fast_sent_auth2(pkt); *(QAD**)ret = FAST_NULLBA; }
/* std::optional<QByteArray> { QByteArray value; bool engaged; } */
static void fast_first_response(char *ret) { *(QAD**)ret = FAST_NULLBA; *(uint8_t*)(ret + 8) = 1; }
void _ZN24QXmppSaslClientAnonymous7respondERK10QByteArray(char *ret, char *self, char *ch) { fast_first_response(ret); }
void _ZN24QXmppSaslClientDigestMd57respondERK10QByteArray(char *ret, char *self, char *ch) { fast_first_response(ret); }
void _ZN23QXmppSaslClientFacebook7respondERK10QByteArray(char *ret, char *self, char *ch) { fast_first_response(ret); }
void _ZN21QXmppSaslClientGoogle7respondERK10QByteArray(char *ret, char *self, char *ch) { fast_first_response(ret); }
void _ZN20QXmppSaslClientPlain7respondERK10QByteArray(char *ret, char *self, char *ch) { fast_first_response(ret); }
void _ZN20QXmppSaslClientScram7respondERK10QByteArray(char *ret, char *self, char *ch) { fast_first_response(ret); }
void _ZN17QXmppSaslClientHt7respondERK10QByteArray(char *ret, char *self, char *ch) { fast_first_response(ret); }
void _ZN26QXmppSaslClientWindowsLive7respondERK10QByteArray(char *ret, char *self, char *ch) { fast_first_response(ret); }
void _ZL13generateNoncev(char *ret) { *(QAD**)ret = FAST_NULLBA; }
uint32_t _ZN18QCryptographicHash10hashLengthENS_9AlgorithmE(uint32_t a) { return 32; }
/* SaslHtMechanism::toString() const -> name slot 7 (never used by the harness for an input name) */
void _ZNK5QXmpp7Private15SaslHtMechanism8toStringEv(char *ret, char *self) { uint32_t row = F_vp_fast_ht_row(self); vp_fast_fill(7, row); *(QAD**)ret = &c05_s7.h; }
/* ghost row id of a name held in one of the name slots (QString* -> d -> slot) */
uint32_t vp_fast_slot_id(char *qs) { QAD *d = *(QAD**)qs; uint32_t id = C05_ID_EMPTY; uint8_t ok = 0;
#define SLOT_ID(k) if (d == &c05_s##k.h) { ok = 1; id = c05_s##k.id; }
  SLOT_ID(0) SLOT_ID(1) SLOT_ID(2) SLOT_ID(3) SLOT_ID(4) SLOT_ID(5) SLOT_ID(6) SLOT_ID(7)
  ASSERT(ok, "C05 fast: chooseMechanism cut called with a name that is not held in a name slot"); return id; }
/* libstdc++ glue: std::ranges::__copy_or_move<false, const char16_t*, const char16_t*, char16_t*> - the unit copy that initialises the
   function-local static of every u"..."_s literal on first use (StringLiterals.h).  Same contract, as model code. */
// MODEL: _ZNSt6ranges14__copy_or_moveILb0EPKDsS2_PDsEENSt13__conditionalIXT_EE4typeINS_13in_out_resultIT0_T2_EESA_EES8_T1_S9_
struct L_b7a61b3af2 _ZNSt6ranges14__copy_or_moveILb0EPKDsS2_PDsEENSt13__conditionalIXT_EE4typeINS_13in_out_resultIT0_T2_EESA_EES8_T1_S9_(char *first, char *last, char *result) {
  uint16_t *f = (uint16_t*)first, *r = (uint16_t*)result; uint64_t n = (uint64_t)((uint16_t*)last - f); ASSERT(n <= 64, "C05 fast: literal longer than 64 units");
  for (uint64_t i = 0; i < 64; i++) { if (i >= n) break; r[i] = f[i]; }
  struct L_b7a61b3af2 out = { last, (char*)(r + n) }; return out; }
/* QObject / QXmppLoggable boundary: parent recorded nowhere, signals go nowhere (as harness/C06) */
void _ZN13QXmppLoggableC2EP7QObject(char *self, char *parent) { *(char**)(self + 8) = 0; }
void _ZN13QXmppLoggable10logMessageEN11QXmppLogger11MessageTypeERK7QString(char *self, uint32_t t, char *msg) { }
void _ZN7QObjectD2Ev(char *self) { }
char* _ZN10QByteArrayaSERKS_(char *self, char *o) { QAD *n = qad_ref(*(QAD**)o); qad_deref(*(QAD**)self); *(QAD**)self = n; return self; }
char* _ZN9QDateTimeaSERKS_(char *self, char *o) { *(char**)self = *(char**)o; return self; }
uint8_t _ZNK5QUuid6isNullEv(char *self) { for (uint32_t k = 0; k < 16; k++) { if (self[k]) return 0; } return 1; }
#endif
/* constants of the instance */
#ifndef FAST_ROWS
#define FAST_ROWS 0
#endif
#ifdef HAVE_T_struct_QArrayData
/* slot k := table row i.  FAST_ROWS 1: only the rows of the core row set are distinguished (the harness assumes that every row is in the set) */
#define FR(r) case r: n = c05_fill_row(r, s->data); break;
void vp_fast_fill(uint32_t k, uint32_t i) { struct c05slot *s = c05_slot(k); uint32_t n = 0;
#if FAST_ROWS == 1
  switch (i) { FR(0) FR(1) FR(2) FR(3) FR(4) FR(5) FR(6) FR(10) FR(11) FR(16) FR(17) FR(31) FR(38) FR(39) FR(45) FR(46) default: n = c05_fill_row(i, s->data); }
#else
  n = c05_fill_row(i, s->data);
#endif
  s->h.f1 = n; s->id = i; }
#endif
#ifndef FAST_NREG
#define FAST_NREG 1
#endif
#ifndef FAST_NFAST
#define FAST_NFAST 1
#endif
#ifndef FAST_BITS
#define FAST_BITS 7
#endif
#ifndef FAST_ROWS
#define FAST_ROWS 0
#endif
/* names that are constants of the instance: -DFAST_FIX<slot>=<row>; slots 0-2 regular offer, 3-4 names inside <fast/>, 5 disabled, 6 preferred; 255 = symbolic */
#ifndef FAST_FIX0
#define FAST_FIX0 255
#endif
#ifndef FAST_FIX1
#define FAST_FIX1 255
#endif
#ifndef FAST_FIX2
#define FAST_FIX2 255
#endif
#ifndef FAST_FIX3
#define FAST_FIX3 255
#endif
#ifndef FAST_FIX4
#define FAST_FIX4 255
#endif
#ifndef FAST_FIX5
#define FAST_FIX5 255
#endif
#ifndef FAST_FIX6
#define FAST_FIX6 255
#endif
uint32_t vp_fast_fixrow(uint32_t k) { return k == 0 ? FAST_FIX0 : k == 1 ? FAST_FIX1 : k == 2 ? FAST_FIX2 : k == 3 ? FAST_FIX3 : k == 4 ? FAST_FIX4 : k == 5 ? FAST_FIX5 : k == 6 ? FAST_FIX6 : 255; }
uint32_t vp_fast_nreg(void) { return FAST_NREG; }
uint32_t vp_fast_nfast(void) { return FAST_NFAST; }
uint32_t vp_fast_bits(void) { return FAST_BITS; }
uint32_t vp_fast_rows(void) { return FAST_ROWS; }
uint8_t vp_fast_never(void) { return 0; }
