/* C05 copy of models/qt_list.c (libQt5Core boundary: QListData) with one addition: QList<QString>'s default constructor owns an empty block right
   away (see the end of the file), so that chooseMechanism's disabledAvailable.push_back under a symbolic condition only
   moves `end` instead of switching the block pointer.
   Blocks have a fixed capacity LIST_CAP and always keep begin == 0. */
#ifdef HAVE_T_struct_QListData__Data
#ifndef LIST_CAP
#define LIST_CAP 6
#endif
typedef struct T_struct_QListData__Data QLD;   /* { RefCount ref; int alloc, begin, end; void *array[1]; } */
struct ld { uint32_t ref, alloc, begin, end; char *array[LIST_CAP]; };
#ifdef HAVE_G__ZN9QListData11shared_nullE
GT__ZN9QListData11shared_nullE G__ZN9QListData11shared_nullE = { {{{{ (uint32_t)-1 }}}}, 0, 0, 0, {{0}} };
#endif
#define LD(self) (*(struct ld**)(self))
static struct ld *ld_new(uint32_t n) { struct ld *t = malloc(sizeof(struct ld)); ASSUME(t != 0); ASSERT(n <= LIST_CAP, "QList capacity of the model exceeded"); t->ref = 1; t->alloc = LIST_CAP; t->begin = 0; t->end = n;
#ifdef HAVE_G__ZN10QArrayData11shared_nullE
  /* unused slots hold an empty string: loop iterations that symex explores past `end` (infeasible, but not foldable once the
     iterator is an ite) then read a concrete empty QString instead of an unconstrained pointer */
  for (uint32_t k = 0; k < LIST_CAP; k++) t->array[k] = (char*)&G__ZN10QArrayData11shared_nullE;
#endif
  return t; }
void _ZN9QListData7disposeEPNS_4DataE(char *d) { /* blocks are never recycled */ }
void _ZN9QListData7disposeEv(char *self) { }
char* _ZN9QListData6detachEi(char *self, uint32_t alloc) { struct ld *x = LD(self); uint32_t n = x->end - x->begin; struct ld *t = ld_new(alloc ? n : 0); LD(self) = t; return (char*)x; }
char* _ZN9QListData11detach_growEPii(char *self, char *idx, uint32_t num) { struct ld *x = LD(self); uint32_t l = x->end - x->begin; int32_t i = *(int32_t*)idx;
  if (i < 0) *(int32_t*)idx = 0; else if ((uint32_t)i > l) *(int32_t*)idx = (int32_t)l; struct ld *t = ld_new(l + num); LD(self) = t; return (char*)x; }
void _ZN9QListData12realloc_growEi(char *self, uint32_t n) { struct ld *x = LD(self); ASSERT(x->end + n <= LIST_CAP, "QList capacity of the model exceeded"); }
void _ZN9QListData7reallocEi(char *self, uint32_t n) { ASSERT(n <= LIST_CAP, "QList capacity of the model exceeded"); }
char* _ZN9QListData6appendEi(char *self, uint32_t n) { struct ld *d = LD(self); ASSERT(d->ref == 1, "QListData::append on shared data"); uint32_t e = d->end; ASSERT(e + n <= LIST_CAP, "QList capacity of the model exceeded"); d->end = e + n; return (char*)&d->array[e]; }
char* _ZN9QListData6appendEv(char *self) { return _ZN9QListData6appendEi(self, 1); }
char* _ZN9QListData6appendERKS_(char *self, char *o) { struct ld *l = LD(o); return _ZN9QListData6appendEi(self, l->end - l->begin); }
static void vpl_ld_shift_right(struct ld *d, uint32_t from) { for (uint32_t k = LIST_CAP - 1; k > 0; k--) { if (k > from && k <= d->end) d->array[k] = d->array[k - 1]; } }
static void vpl_ld_shift_left(struct ld *d, uint32_t from, uint32_t n) { for (uint32_t k = 0; k < LIST_CAP; k++) { if (k >= from && k + n < d->end) d->array[k] = d->array[k + n]; } }
char* _ZN9QListData6insertEi(char *self, uint32_t i) { struct ld *d = LD(self); ASSERT(d->ref == 1, "QListData::insert on shared data"); if ((int32_t)i <= 0) i = 0; if (i >= d->end) return _ZN9QListData6appendEv(self);
  ASSERT(d->end < LIST_CAP, "QList capacity of the model exceeded"); vpl_ld_shift_right(d, i); d->end++; return (char*)&d->array[i]; }
char* _ZN9QListData7prependEv(char *self) { return _ZN9QListData6insertEi(self, 0); }
void _ZN9QListData6removeEi(char *self, uint32_t i) { struct ld *d = LD(self); ASSERT(d->ref == 1 && i < d->end, "QListData::remove"); vpl_ld_shift_left(d, i, 1); d->end--; }
void _ZN9QListData6removeEii(char *self, uint32_t i, uint32_t n) { struct ld *d = LD(self); ASSERT(d->ref == 1 && i + n <= d->end, "QListData::remove"); vpl_ld_shift_left(d, i, n); d->end -= n; }
char* _ZN9QListData5eraseEPPv(char *self, char *xi) { struct ld *d = LD(self); uint32_t i = (uint32_t)((char**)xi - d->array); _ZN9QListData6removeEi(self, i); return (char*)&d->array[i]; }
/* Class-level override (inline member, -fno-inline): QList<QString>'s default constructor eagerly owns an empty block instead of
   pointing at QListData::shared_null.  Observable behaviour is the same (empty, unshared list); a later push_back under a
   symbolic condition then only moves `end` instead of switching the block pointer. */
void _ZN5QListI7QStringEC2Ev(char *self) { LD(self) = ld_new(0); }
/* Class-level model of QList<QString>::append(const QString&) (push_back forwards to it).  The header version copies the new
   node as a 64-bit integer (`*n = copy` on a union Node): stored at a symbolic index into the `void *array[]` of the block
   that is a pointer-in-integer store which makes cbmc re-encode the whole block byte-wise (ref/begin/end stop folding and every
   later append explores the detach path).  Contract kept: detach if shared (copy elements, share their string data),
   then store a new reference to t's data at index `end`. */
void _ZN5QListI7QStringE6appendERKS0_(char *self, char *t) { struct ld *d = LD(self);
  if (d->ref != 1) { struct ld *n = ld_new(0); n->end = d->end - d->begin; ASSERT(n->end <= LIST_CAP, "QList capacity of the model exceeded");
    for (uint32_t k = 0; k < LIST_CAP; k++) { if (k >= n->end) break; n->array[k] = d->array[d->begin + k]; qad_ref(*(QAD**)&n->array[k]); }
    if (d->ref != (uint32_t)-1 && d->ref != 0) d->ref--; LD(self) = n; d = n; }
  QAD *sd = qad_ref(*(QAD**)t); uint32_t e = d->end; ASSERT(e < LIST_CAP, "QList capacity of the model exceeded"); d->end = e + 1; d->array[e] = (char*)sd; }
/* Class-level model of QList<QString>::node_destruct(from, to) (destroys the strings of a block that is being freed).  The
   header version walks back from `to` and runs ~QString on every node; when the list length is symbolic every one of those
   is a conditional reference-count store through a pointer that may denote any string of the harness (measured: 17 of 18 M
   clauses of a one-name instance).  In this harness every string block is static (ref == -1, never counted, never freed);
   that is asserted for each destroyed node, and then destroying it is a no-op. */
void _ZN5QListI7QStringE13node_destructEPNS1_4NodeES3_(char *self, char *from, char *to) {
  for (uint32_t k = 0; k < LIST_CAP; k++) { char **n = (char**)from + k; if ((char*)n >= to) break;
    ASSERT(REF(*(QAD**)n) == (uint32_t)-1, "C05: QList<QString> element with counted string data destroyed (only static strings are modelled)"); } }
#endif
