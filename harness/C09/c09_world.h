// C09 - common part of the step harnesses: environment hooks, fake socket, symbolic pre-state ("World") and the post-condition
// helpers.  See h.cpp for the description of the representation invariant.
#pragma once
#include <QDomElement>
#include <QMap>
#include <QByteArray>
#include <QString>
#include <optional>
#include <variant>
#include <new>
#include "QXmppSendResult.h"
#define private public
#include "QXmppStreamManagement_p.h"
#include "QXmppPacket_p.h"
#undef private
#include "XmppSocket.h"
#include "QXmppConstants_p.h"
#include "vp_harness.h"
#include "vp_dom.h"

using namespace QXmpp;
using namespace QXmpp::Private;

#ifndef VP_NMAX
#define VP_NMAX 3
#endif
#define NEWID 7u
#define SEQ_BOUND 0x7fffffffu
#ifndef VP_SENT_CAP
#define VP_SENT_CAP 8   // capacity of the socket log (models.c: SENT_CAP)
#endif
enum { K_PACKET = 1, K_ACK = 2, K_REQ = 3, K_OTHER = 4, K_RESUME = 5, K_ENABLE = 6 };

extern "C" {
void vp_c09_payload(QByteArray *out, unsigned id);        // payload block carrying the ghost id `id`
unsigned vp_c09_payload_id(const QByteArray *b);          // ghost id of a payload block
bool vp_c09_send(const QByteArray *b);                    // socket write: appended to the ghost log, result nondeterministic
unsigned vp_c09_sent_n();                                 // ghost log of socket writes
unsigned vp_c09_sent_kind(unsigned i);                    // K_PACKET (val = ghost id) | K_ACK (val = h) | K_REQ | K_RESUME (val = h) | K_ENABLE | K_OTHER
unsigned vp_c09_sent_val(unsigned i);
bool vp_c09_sent_ok(unsigned i);                          // what the socket answered to write i
unsigned vp_c09_map_n(const void *map);                   // class-level QMap<uint,QXmppPacket> model: ordered array
unsigned vp_c09_map_key(const void *map, unsigned i);
QXmppPacket *vp_c09_map_val(const void *map, unsigned i);
void vp_c09_map_set(void *map, unsigned i, unsigned key, const QXmppPacket *pkt);   // pre-state construction: entry i := (key, copy of pkt)
void vp_c09_map_setn(void *map, unsigned n);
bool vp_c09_false();
unsigned vp_c09_nfix();
unsigned vp_c09_sendfix();
}
#ifdef VP_C09_HOOKS
extern "C" {
// element copy/destroy of the container model = the real QXmppPacket copy constructor / destructor
void vp_c09_pkt_copy(void *dst, const void *src) { new (dst) QXmppPacket(*static_cast<const QXmppPacket *>(src)); }
void vp_c09_pkt_destroy(void *p) { static_cast<QXmppPacket *>(p)->~QXmppPacket(); }
// serializeXml<SmAck>/<SmRequest> are overridden by models (models.c) that run the REAL toXml into the writer tree model; these
// hooks make the real toXml functions part of the translated program without any function pointer in between
void vp_c09_toxml_ack(const QXmpp::Private::SmAck *a, QXmlStreamWriter *w) { a->toXml(w); }
void vp_c09_toxml_req(const QXmpp::Private::SmRequest *r, QXmlStreamWriter *w) { r->toXml(w); }
void vp_c09_toxml_resume(const QXmpp::Private::SmResume *r, QXmlStreamWriter *w) { r->toXml(w); }
void vp_c09_toxml_enable(const QXmpp::Private::SmEnable *r, QXmlStreamWriter *w) { r->toXml(w); }
}
static inline void vpC09KeepHooks()
{
    if (vp_c09_false()) {   // never true; keeps the hooks of the models in the translated program
        vp_c09_pkt_copy(nullptr, nullptr); vp_c09_pkt_destroy(nullptr); vp_c09_toxml_ack(nullptr, nullptr); vp_c09_toxml_req(nullptr, nullptr);
        vp_c09_toxml_resume(nullptr, nullptr); vp_c09_toxml_enable(nullptr, nullptr);
    }
}
#endif

// the socket: XmppSocket::sendData is virtual; everything else of the socket is never touched by the code under test
struct FakeSock final : XmppSocket {
    FakeSock() : XmppSocket(nullptr) { }
    bool sendData(const QByteArray &b) override { return vp_c09_send(&b); }
};
static_assert(sizeof(FakeSock) == sizeof(XmppSocket), "FakeSock can be placed where an XmppSocket lives");

enum Rep { R_NONE = 0, R_ACKED = 1, R_SENT = 2, R_ERROR = 3 };
using Task = QXmppTask<SendResult>;
static Rep report(Task &t)
{
    if (!t.isFinished()) return R_NONE;
    const SendResult &r = t.result();
    if (auto *s = std::get_if<SendSuccess>(&r)) return s->acknowledged ? R_ACKED : R_SENT;
    return R_ERROR;
}

struct World {
    VpRaw<FakeSock> sockbuf;
    VpRaw<StreamAckManager> mgrbuf;
    StreamAckManager *m;
    unsigned n, lastOut, lastIn, first; bool enabled;
    std::optional<Task> t[VP_NMAX];
    // enabledMode: 0 off, 1 on, 2 symbolic.  sockAt/mgrAt: where the socket / manager objects live (default: own buffers)
    World(int enabledMode, void *sockAt = nullptr, void *mgrAt = nullptr)
    {
        vpC09KeepHooks();
        FakeSock *s = new (sockAt ? sockAt : sockbuf.b) FakeSock();
        m = new (mgrAt ? mgrAt : mgrbuf.b) StreamAckManager(*s);
        unsigned nfix = vp_c09_nfix();                     // case split by instance (-DVP_NFIX=k on the C side), else symbolic
        n = nfix <= VP_NMAX ? nfix : vp_u32(); lastOut = vp_u32(); lastIn = vp_u32();
        enabled = enabledMode == 2 ? vp_bool() : enabledMode == 1;
        vp_assume(n <= VP_NMAX && lastOut >= n && lastOut < SEQ_BOUND && lastIn < SEQ_BOUND);
        first = lastOut - n + 1;
        m->m_enabled = enabled; m->m_lastOutgoingSequenceNumber = lastOut; m->m_lastIncomingSequenceNumber = lastIn;
        for (unsigned i = 0; i < VP_NMAX; i++) {
            if (i < n) {
                QXmppPromise<SendResult> p;
                t[i].emplace(p.task());
                QByteArray payload; vp_c09_payload(&payload, i);
                QXmppPacket pkt(payload, true, std::move(p));
                vp_c09_map_set(&m->m_unacknowledgedStanzas, i, first + i, &pkt);   // entry i of the ordered store (concrete position)
            }
        }
        vp_c09_map_setn(&m->m_unacknowledgedStanzas, n);
    }
    const void *map() const { return &m->m_unacknowledgedStanzas; }
    // post-condition: map = n2 entries, entry j has key firstKey+j and is pre-state packet firstId+j; INV holds again
    void checkMap(unsigned n2, unsigned firstKey, unsigned firstId, unsigned lastOut2)
    {
        vp_assert(vp_c09_map_n(map()) == n2, "C09 unacknowledged store holds exactly the stanzas not yet covered");
        for (unsigned j = 0; j < VP_NMAX; j++) {
            if (j < n2) {
                vp_assert(vp_c09_map_key(map(), j) == firstKey + j, "C09 stored stanzas keep consecutive sequence numbers in original order");
                QByteArray d = vp_c09_map_val(map(), j)->data();
                vp_assert(vp_c09_payload_id(&d) == firstId + j, "C09 stored stanzas are the uncovered ones in original order");
            }
        }
        vp_assert(m->m_lastOutgoingSequenceNumber == lastOut2, "C09 outgoing sequence number");
        vp_assert(n2 == 0 || firstKey + n2 - 1 == lastOut2, "C09 invariant: newest stored key equals the outgoing sequence number");
        vp_assert(n2 <= lastOut2, "C09 invariant: no more stored stanzas than were numbered");
    }
    // reports of pre-state packets: the first k are reported with `repFirst`, the others not at all (stored => unreported)
    void checkReports(unsigned k, Rep repFirst)
    {
        for (unsigned i = 0; i < VP_NMAX; i++) {
            if (i < n) {
                Rep r = report(*t[i]);
                vp_assert(r == (i < k ? repFirst : R_NONE), "C09 a stanza is reported exactly when covered by the handled-count (acknowledged) or dropped (error), otherwise not at all");
            }
        }
    }
    void checkUnchangedCounters(bool en)
    {
        vp_assert(m->m_enabled == en, "C09 stream-management activity flag");
        vp_assert(m->m_lastIncomingSequenceNumber == lastIn, "C09 inbound handled-count unchanged by this event");
    }
    // socket log entries from position `from` on: no stanza is (re)transmitted; every <a/> carries the handled-count `count`
    void checkLog(unsigned from, unsigned count)
    {
        unsigned total = vp_c09_sent_n();
        for (unsigned j = 0; j < VP_SENT_CAP; j++) {
            if (j >= from && j < total) {
                vp_assert(vp_c09_sent_kind(j) != K_PACKET, "C09 no stanza is transmitted (again) by this event beyond the expected ones");
                vp_assert(vp_c09_sent_kind(j) != K_ACK || vp_c09_sent_val(j) == count, "C09 reported handled-count equals the number of stanzas received");
            }
        }
    }
    // the socket log starts with exactly the last cnt pre-state packets (ascending); nothing that follows is a stanza
    void checkResent(unsigned cnt, unsigned count)
    {
        vp_assert(vp_c09_sent_n() >= cnt, "C09 every remaining stanza is transmitted again");
        for (unsigned j = 0; j < VP_NMAX; j++) {
            if (j < cnt) {
                vp_assert(vp_c09_sent_kind(j) == K_PACKET && vp_c09_sent_val(j) == (n - cnt) + j, "C09 resend of exactly the uncovered stanzas in original order, oldest first, before anything else");
            }
        }
        checkLog(cnt, count);
    }
    // number of pre-state entries with key <= h (keys are first .. first+n-1)
    unsigned covered(unsigned h) const
    {
        unsigned k = 0;
        for (unsigned i = 0; i < VP_NMAX; i++) if (i < n && first + i <= h) k = i + 1;
        return k;
    }
};

static inline QDomElement vpElement(const QString &tag, const QString &ns)
{
    QDomElement e; vp_dom_new(&e, &tag, &ns); return e;
}
