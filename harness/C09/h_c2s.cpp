// C09 - the layer that decides "resume keeps the numbering / new session renumbers": REAL C2sStreamManager
// (QXmppOutgoingClient.cpp) on top of the REAL StreamAckManager, from the same arbitrary valid pre-state as h.cpp.
// The QXmppOutgoingClient / QXmppOutgoingClientPrivate objects are raw storage in which only the members the code under test
// touches are alive: d (unique_ptr), d->socket (FakeSock), d->streamAckManager, and the C2sStreamManager itself.
#define VP_C09_HOOKS 1
#include "c09_world.h"
#define private public
#include "QXmppOutgoingClient.h"
#include "QXmppOutgoingClient_p.h"
#undef private
#include <memory>

struct C2sWorld {
    VpRaw<QXmppOutgoingClient> qbuf;
    VpRaw<QXmppOutgoingClientPrivate> dbuf;
    QXmppOutgoingClient *q;
    QXmppOutgoingClientPrivate *d;
    World w;
    C2sStreamManager c2s;
    C2sWorld(int enabledMode)
        : q(qbuf.p()), d(dbuf.p()), w(enabledMode, &dbuf.p()->socket, &dbuf.p()->streamAckManager), c2s(qbuf.p())
    {
        new (const_cast<std::unique_ptr<QXmppOutgoingClientPrivate> *>(&q->d)) std::unique_ptr<QXmppOutgoingClientPrivate>(d);
    }
};

// ---- resume accepted: <resumed h=H previd=.../> answers a pending resume request ------------------------------------------------
extern "C" void h_c2s_resumed()
{
    C2sWorld &c = *new C2sWorld(2);
    World &w = c.w;
    unsigned h = vp_u32();
    c.c2s.m_request = C2sStreamManager::ResumeRequest();
    c.c2s.m_canResume = true; c.c2s.m_enabled = false;
    QDomElement el = vpElement(QStringLiteral("resumed"), ns_stream_management.toString());
    QString hs = QString::number(h), hn = QStringLiteral("h"), pn = QStringLiteral("previd"), pv = vpSymString(2);
    vp_dom_set_attr(&el, &hn, &hs); vp_dom_set_attr(&el, &pn, &pv);
    c.c2s.handleElement(el);
    unsigned k = w.covered(h);
    w.checkReports(k, R_ACKED);                          // acknowledged <=> covered by the h of <resumed/>
    w.checkMap(w.n - k, w.first + k, k, w.lastOut);      // numbering continues on the resumed session
    w.checkUnchangedCounters(true);                      // inbound count continues as well
    w.checkResent(w.n - k, w.lastIn);                    // exactly the uncovered stanzas, in order; covered ones never resent
}
// ---- resume failed: nothing is reported or resent yet; the stanzas wait for the new session ------------------------------------
extern "C" void h_c2s_resume_failed()
{
    C2sWorld &c = *new C2sWorld(2);
    World &w = c.w;
    c.c2s.m_request = C2sStreamManager::ResumeRequest();
    c.c2s.m_canResume = true; c.c2s.m_enabled = false;
    QDomElement el = vpElement(QStringLiteral("failed"), ns_stream_management.toString());
    c.c2s.handleElement(el);
    w.checkReports(0, R_NONE);
    w.checkMap(w.n, w.first, 0, w.lastOut);
    w.checkUnchangedCounters(w.enabled);
    w.checkLog(0, w.lastIn);
}
// ---- new session, stream management enabled again: <enabled/> answers a pending enable request ---------------------------------
extern "C" void h_c2s_enabled()
{
    C2sWorld &c = *new C2sWorld(2);
    World &w = c.w;
    c.c2s.m_request = C2sStreamManager::EnableRequest();
    c.c2s.m_enabled = false;
    QDomElement el = vpElement(QStringLiteral("enabled"), ns_stream_management.toString());
    QString idn = QStringLiteral("id"), idv = vpSymString(2), rn = QStringLiteral("resume"), rv = QStringLiteral("true");
    vp_dom_set_attr(&el, &idn, &idv);
    bool resumable = vp_bool();
    if (resumable) vp_dom_set_attr(&el, &rn, &rv);
    c.c2s.handleElement(el);
    w.checkReports(0, R_NONE);
    w.checkMap(w.n, 1, 0, w.n);                          // renumbered 1..n in the original order
    vp_assert(w.m->m_enabled, "C09 stream management active after <enabled/>");
    vp_assert(w.m->m_lastIncomingSequenceNumber == 0, "C09 inbound handled-count restarts on a new session");
    w.checkResent(w.n, 0);
}
// ---- the client asks for resumption: <resume h=lastIn previd=id/> carries the count of stanzas received ------------------------
extern "C" void h_c2s_request_resume()
{
    C2sWorld &c = *new C2sWorld(2);
    World &w = c.w;
    c.c2s.m_smId = vpSymString(2); c.c2s.m_canResume = true; c.c2s.m_smAvailable = true;
    auto task = c.c2s.requestResume();
    vp_assert(vp_c09_sent_n() >= 1 && vp_c09_sent_kind(0) == K_RESUME, "C09 resume request is a <resume/>");
    vp_assert(vp_c09_sent_val(0) == w.lastIn, "C09 handled-count reported on resume equals the number of stanzas received");
    w.checkLog(1, w.lastIn);
    w.checkReports(0, R_NONE);
    w.checkMap(w.n, w.first, 0, w.lastOut);
    w.checkUnchangedCounters(w.enabled);
}
