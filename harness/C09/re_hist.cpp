// C09 - histories: K consecutive events (VP_K, default 2), each chosen nondeterministically from the alphabet
//   0 send a stanza | 1 <a h=H/> | 2 <r/> | 3 inbound <message/> | 4 resumption with h=H (setAcknowledgedSequenceNumber(H); enableStreamManagement(false))
// from the arbitrary valid pre-state of the single steps (c09_world.h), against a sequential reference machine written from the property text.
#define VP_C09_HOOKS 1
#include "c09_world.h"
#ifndef VP_K
#define VP_K 2
#endif
#define RMAX (VP_NMAX + VP_K)
enum { S_STORED = 0, S_ACKED = 1, S_SENT = 2, S_ERROR = 3 };
struct Ref {
    unsigned key[RMAX], id[RMAX]; int st[RMAX]; unsigned cnt;
    unsigned lastOut, lastIn; bool enabled;
};
static QDomElement smElement(const QString &tag, bool withH, unsigned h)
{
    QDomElement a = vpElement(tag, ns_stream_management.toString());
    if (withH) { QString hs = QString::number(h), hn = QStringLiteral("h"); vp_dom_set_attr(&a, &hn, &hs); }
    return a;
}
// socket log [from, total) of one event: own packet first (send) resp. exactly the stored stanzas in reference order first (resumption), nothing
// else that is a stanza; every <a/> carries the inbound count
static void histLog(const Ref &r, unsigned from, bool ownPkt, unsigned ownId, unsigned expectPkts, unsigned firstPktIdx)
{
    unsigned total = vp_c09_sent_n();
    if (ownPkt) vp_assert(total > from && vp_c09_sent_kind(from) == K_PACKET && vp_c09_sent_val(from) == ownId, "C09 the packet itself is written");
    vp_assert(total >= from + expectPkts, "C09 every remaining stanza is transmitted again");
    unsigned nextStored = firstPktIdx;
    for (unsigned q = 0; q < VP_SENT_CAP; q++) {
        if (q >= from && q < total) {
            unsigned idx = q - from, kind = vp_c09_sent_kind(q), val = vp_c09_sent_val(q);
            if (ownPkt) { vp_assert((kind == K_PACKET) == (idx == 0), "C09 no stanza is transmitted (again) by this event beyond the expected ones"); }
            else if (idx < expectPkts) {
                vp_assert(kind == K_PACKET && nextStored < RMAX && val == r.id[nextStored], "C09 resend of exactly the uncovered stanzas in original order, oldest first, before anything else; covered ones never resent");
                unsigned nx = RMAX;
                for (unsigned i = RMAX; i > 0; i--) if (i - 1 > nextStored && i - 1 < r.cnt && r.st[i - 1] == S_STORED) nx = i - 1;
                nextStored = nx;
            } else vp_assert(kind != K_PACKET, "C09 no stanza is transmitted (again) by this event beyond the expected ones");
            vp_assert(kind != K_ACK || val == r.lastIn, "C09 reported handled-count equals the number of stanzas received");
        }
    }
}
extern "C" void h_re_hist()
{
    World &w = *new World(2);
    Ref r; r.cnt = w.n; r.lastOut = w.lastOut; r.lastIn = w.lastIn; r.enabled = w.enabled;
    for (unsigned i = 0; i < RMAX; i++) { r.key[i] = w.first + i; r.id[i] = i; r.st[i] = S_STORED; }
    std::optional<Task> nt[VP_K];
    for (unsigned step = 0; step < VP_K; step++) {
        unsigned op = vp_u8(); vp_assume(op < 5);
        unsigned h = vp_u32();
        unsigned from = vp_c09_sent_n();
        unsigned expectPkts = 0, firstPktIdx = 0; bool ownPkt = false;
        if (op == 0) {
            QXmppPromise<SendResult> p;
            QByteArray payload; vp_c09_payload(&payload, NEWID + step);
            nt[step].emplace(w.m->send(QXmppPacket(payload, true, std::move(p))));
            bool ok = vp_c09_sent_ok(from);
            unsigned c = r.cnt;
            if (c < RMAX) {
                r.id[c] = NEWID + step;
                if (r.enabled) { r.key[c] = ++r.lastOut; r.st[c] = S_STORED; } else { r.key[c] = 0; r.st[c] = ok ? S_SENT : S_ERROR; }
                r.cnt = c + 1;
            }
            ownPkt = true;
        } else if (op == 1) {
            w.m->handleStanza(smElement(QStringLiteral("a"), true, h));
            if (r.enabled) for (unsigned i = 0; i < RMAX; i++) if (i < r.cnt && r.st[i] == S_STORED && r.key[i] <= h) r.st[i] = S_ACKED;
        } else if (op == 2) {
            w.m->handleStanza(smElement(QStringLiteral("r"), false, 0));
        } else if (op == 3) {
            w.m->handleStanza(vpElement(QStringLiteral("message"), ns_client.toString()));
            r.lastIn++;
        } else {
            w.m->setAcknowledgedSequenceNumber(h);
            w.m->enableStreamManagement(false);
            for (unsigned i = 0; i < RMAX; i++) if (i < r.cnt && r.st[i] == S_STORED && r.key[i] <= h) r.st[i] = S_ACKED;
            r.enabled = true;
            for (unsigned i = 0; i < RMAX; i++) if (i < r.cnt && r.st[i] == S_STORED) { if (expectPkts == 0) firstPktIdx = i; expectPkts++; }
        }
        histLog(r, from, ownPkt, NEWID + step, expectPkts, firstPktIdx);
        unsigned total = vp_c09_sent_n();
        if (op == 2 && r.enabled) vp_assert(total > from && vp_c09_sent_kind(from) == K_ACK, "C09 with stream management active <r/> is answered with <a/>");
    }
    // final state against the reference
    unsigned stored = 0;
    for (unsigned i = 0; i < RMAX; i++) {
        if (i < r.cnt) {
            Rep rp = i < w.n ? report(*w.t[i]) : R_NONE;
            if (i >= w.n) { for (unsigned s = 0; s < VP_K; s++) if (nt[s] && r.id[i] == NEWID + s) rp = report(*nt[s]); }
            Rep want = r.st[i] == S_STORED ? R_NONE : r.st[i] == S_ACKED ? R_ACKED : r.st[i] == S_SENT ? R_SENT : R_ERROR;
            vp_assert(rp == want, "C09 along a history a stanza is reported acknowledged exactly when a handled-count covered it, never twice; unstored packets are reported at once");
            if (r.st[i] == S_STORED) {
                vp_assert(vp_c09_map_key(w.map(), stored) == r.key[i], "C09 stored stanzas keep their sequence numbers in original order");
                QByteArray d = vp_c09_map_val(w.map(), stored)->data();
                vp_assert(vp_c09_payload_id(&d) == r.id[i], "C09 stored stanzas are the uncovered ones in original order");
                stored++;
            }
        }
    }
    vp_assert(vp_c09_map_n(w.map()) == stored, "C09 unacknowledged store holds exactly the stanzas not yet covered");
    vp_assert(w.m->m_lastOutgoingSequenceNumber == r.lastOut && w.m->m_lastIncomingSequenceNumber == r.lastIn && w.m->m_enabled == r.enabled, "C09 counters and activity flag follow the reference along a history");
}
