// C09 - composed runs that cross a session boundary, from the same arbitrary valid pre-state as h.cpp (stream management active).
// Purpose: state that a code change ADDS to StreamAckManager is not part of the symbolic pre-state of the single steps (it starts at
// its default); these runs let such state be built up by one session and then observe the next session / the resumption.
//   <a h=H1/> (arbitrary H1)  ->  connection loss  ->  new session, stream management enabled again (the r remaining stanzas are
//   renumbered 1..r and resent)  ->  optionally one new stanza (number r+1)  ->  ending A: <a h=H2/> (arbitrary H2)
//                                                                              ending B: resumed with h=H2 (setAck + enable(false))
// Reference: after the new session, a stanza is acknowledged <=> its RENUMBERED key <= H2; the store keeps exactly the others in
// order; ending B transmits exactly those again, oldest first, and nothing else that is a stanza.
#define VP_C09_HOOKS 1
#include "c09_world.h"

static QDomElement ackElement(unsigned h)
{
    QDomElement a = vpElement(QStringLiteral("a"), ns_stream_management.toString());
    QString hs = QString::number(h), hn = QStringLiteral("h");
    vp_dom_set_attr(&a, &hn, &hs);
    return a;
}

// log entries [from, total): the first cnt are stanzas (keep old ones with ids firstId.., then the new one), nothing after them is
static void checkLastLog(unsigned from, unsigned cnt, unsigned keep, unsigned firstId)
{
    unsigned total = vp_c09_sent_n();
    vp_assert(total >= from + cnt, "C09 every remaining stanza is transmitted again");
    for (unsigned j = 0; j < VP_SENT_CAP; j++) {
        if (j >= from && j < total) {
            unsigned idx = j - from;
            unsigned kind = vp_c09_sent_kind(j), val = vp_c09_sent_val(j);
            bool expectPkt = idx < cnt;
            unsigned expectId = idx < keep ? firstId + idx : NEWID;
            vp_assert((kind == K_PACKET) == expectPkt && (!expectPkt || val == expectId), "C09 resend of exactly the uncovered stanzas in original order, oldest first, before anything else; covered ones never resent");
        }
    }
}

static void crossSession(int ending)
{
    World &w = *new World(1);
    unsigned h1 = vp_u32(), h2 = vp_u32();
    // session 1: the server acks with an arbitrary H1
    w.m->handleStanza(ackElement(h1));
    unsigned k1 = w.covered(h1), r = w.n - k1;
    // connection loss, then a new session on which stream management is enabled again
    w.m->onSessionClosed();
    w.m->enableStreamManagement(true);
    unsigned sf = vp_c09_sendfix();                      // case split by instance (-DVP_SENDFIX=0|1 on the C side), else symbolic
    bool doSend = sf <= 1 ? sf == 1 : vp_bool();
    std::optional<Task> mine;
    if (doSend) {
        QXmppPromise<SendResult> p;
        QByteArray payload; vp_c09_payload(&payload, NEWID);
        mine.emplace(w.m->send(QXmppPacket(payload, true, std::move(p))));
    }
    unsigned from = vp_c09_sent_n();
    if (ending == 0) {
        w.m->handleStanza(ackElement(h2));
    } else {
        w.m->setAcknowledgedSequenceNumber(h2);
        w.m->enableStreamManagement(false);
    }
    // reference: renumbered keys are 1..r (pre-state packet k1+j has key j+1), the new stanza has key r+1
    unsigned k2 = 0;
    for (unsigned j = 0; j < VP_NMAX; j++) if (j < r && j + 1 <= h2) k2 = j + 1;
    bool newKept = doSend && !(r + 1 <= h2);
    for (unsigned i = 0; i < VP_NMAX; i++) {
        if (i < w.n) {
            Rep rp = report(*w.t[i]);
            vp_assert(rp == ((i < k1 || i - k1 < k2) ? R_ACKED : R_NONE), "C09 across a new session a stanza is acknowledged exactly when the handled-count covers its (renumbered) key");
        }
    }
    if (doSend) vp_assert(report(*mine) == (newKept ? R_NONE : R_ACKED), "C09 the stanza sent on the new session is acknowledged exactly when the handled-count covers its number");
    unsigned keep = r - k2;
    vp_assert(vp_c09_map_n(w.map()) == keep + (newKept ? 1u : 0u), "C09 unacknowledged store holds exactly the stanzas not yet covered");
    for (unsigned j = 0; j < VP_NMAX; j++) {
        if (j < keep) {
            vp_assert(vp_c09_map_key(w.map(), j) == k2 + 1 + j, "C09 stored stanzas keep consecutive sequence numbers in original order");
            QByteArray d = vp_c09_map_val(w.map(), j)->data();
            vp_assert(vp_c09_payload_id(&d) == k1 + k2 + j, "C09 stored stanzas are the uncovered ones in original order");
        }
    }
    if (newKept) {
        vp_assert(vp_c09_map_key(w.map(), keep) == r + 1, "C09 sent stanza gets the next sequence number");
        QByteArray d = vp_c09_map_val(w.map(), keep)->data();
        vp_assert(vp_c09_payload_id(&d) == NEWID, "C09 the stored stanza is the one sent");
    }
    vp_assert(w.m->m_lastOutgoingSequenceNumber == r + (doSend ? 1u : 0u), "C09 outgoing sequence number");
    vp_assert(w.m->m_lastIncomingSequenceNumber == 0, "C09 inbound handled-count restarts on a new session");
    vp_assert(w.m->m_enabled, "C09 stream management active after enable");
    // socket log of the last event
    unsigned cnt = ending == 0 ? 0 : keep + (newKept ? 1u : 0u);
    checkLastLog(from, cnt, keep, k1 + k2);
}
extern "C" void h_ack_newsession_ack() { crossSession(0); }
extern "C" void h_ack_newsession_resume() { crossSession(1); }
