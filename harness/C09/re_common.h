// C09 - re-entrancy: the completion handler (task continuation) of ONE stored stanza sends a NEW stanza through the REAL
// StreamAckManager::send while the manager is in the middle of an event (ack processing, resumption, cache reset).
// reportFinished() runs continuations synchronously, so the unacknowledged store is modified while the manager iterates over it.
//
// Pre-state: World (c09_world.h): n <= VP_NMAX stored stanzas with keys first..lastOut, ghost ids 0..n-1; stanza j (any j < n) carries the
// re-entrant continuation.  The new stanza has ghost id NEWID; under active stream management it is stored under lastOut+1.
// Reference for the NEW stanza (from the property text):
//   - it is reported "acknowledged" ONLY IF the handled-count of the event covers lastOut+1 (only-if: the statement does not demand
//     that one event also consumes a stanza that was sent while the event was being processed);
//   - it is reported at most once (task shadow) and it is either still stored & unreported, or reported & not stored;
//   - while stored it takes part in the next retransmission, after all older stanzas.
// The old stanzas follow the oracle of the plain steps; the continuation of a stanza that is NOT covered must not run at all.
#pragma once
#define VP_C09_HOOKS 1
#include "c09_world.h"

extern "C" unsigned vp_re_jfix();     // re_models.c: -DRE_JFIX=j fixes the position of the continuation (case split), else symbolic

static StreamAckManager *g_mgr;
static std::optional<Task> g_new;     // task of the stanza sent by the continuation
static int g_runs;                    // how often the continuation ran
static Rep g_rep;                     // what it was told
static bool g_enabledAtRun;           // was stream management active when it ran
static unsigned g_logAtRun;           // length of the socket log when it ran

static inline Rep classify(const SendResult &r)
{
    if (auto *s = std::get_if<SendSuccess>(&r)) return s->acknowledged ? R_ACKED : R_SENT;
    return R_ERROR;
}

struct ReWorld {
    World &w;
    unsigned j;
    ReWorld(World &w_) : w(w_)
    {
        g_mgr = w.m;
        unsigned jf = vp_re_jfix();
        j = jf < VP_NMAX ? jf : vp_u32();
        vp_assume(j < w.n);
        auto cont = [](SendResult &&r) {
            g_runs++;
            g_rep = classify(r);
            g_enabledAtRun = g_mgr->m_enabled;
            g_logAtRun = vp_c09_sent_n();
            QXmppPromise<SendResult> p;
            QByteArray payload; vp_c09_payload(&payload, NEWID);
            g_new.emplace(g_mgr->send(QXmppPacket(payload, true, std::move(p))));
        };
        for (unsigned i = 0; i < VP_NMAX; i++) if (i == j) w.t[i]->then(nullptr, cont);
    }
    bool ran() const { return g_runs != 0; }
    // the first k pre-state stanzas are reported with `rep` exactly once, the others not at all; the continuation ran <=> j < k
    void checkReports(unsigned k, Rep rep)
    {
        vp_assert(g_runs == (j < k ? 1 : 0), "C09 the completion handler of a stanza runs exactly once when the stanza is covered (dropped), and not at all before");
        for (unsigned i = 0; i < VP_NMAX; i++) {
            if (i < w.n) {
                if (i == j) {
                    vp_assert(w.t[i]->isFinished() == (i < k) && (!(i < k) || g_rep == rep), "C09 a stanza is reported exactly when covered by the handled-count (acknowledged) or dropped (error), otherwise not at all");
                } else {
                    Rep r = report(*w.t[i]);
                    vp_assert(r == (i < k ? rep : R_NONE), "C09 a stanza is reported exactly when covered by the handled-count (acknowledged) or dropped (error), otherwise not at all");
                }
            }
        }
        vp_assert(g_new.has_value() == ran(), "C09 harness: the handler sent its stanza");
    }
    // the new stanza after an event that carried the handled-count h (hasH) or none; returns whether it is (still) stored
    bool checkNew(bool hasH, unsigned h, bool dropEvent = false)
    {
        if (!ran()) return false;
        Rep r = report(*g_new);
        vp_assert(g_logAtRun < VP_SENT_CAP && vp_c09_sent_n() > g_logAtRun && vp_c09_sent_kind(g_logAtRun) == K_PACKET && vp_c09_sent_val(g_logAtRun) == NEWID, "C09 the packet itself is written");
        if (g_enabledAtRun) {
            bool coveredNew = hasH && w.lastOut + 1 <= h;
            if (dropEvent) vp_assert(r == R_NONE || r == R_ERROR, "C09 a stanza sent while the pending stanzas are being failed is never reported as acknowledged");
            else vp_assert(r == R_NONE || (r == R_ACKED && coveredNew), "C09 a stanza sent while an acknowledgement is being processed is reported acknowledged only if the handled-count covers its number");
            return r == R_NONE;
        }
        bool ok = vp_c09_sent_ok(g_logAtRun);
        vp_assert(r == (ok ? R_SENT : R_ERROR), "C09 an unstored packet is reported immediately, never as acknowledged");
        return false;
    }
    // store = the old stanzas k..n-1 in order, then the new one if newStored
    void checkStore(unsigned k, bool newStored)
    {
        unsigned keep = w.n - k;
        bool numbered = ran() && g_enabledAtRun;
        unsigned have = vp_c09_map_n(w.map());
        vp_assert(have == keep + (newStored ? 1u : 0u), "C09 unacknowledged store holds exactly the stanzas not yet covered");
        if (have != keep + (newStored ? 1u : 0u)) return;   // (the entries below do not exist then)
        for (unsigned i = 0; i < VP_NMAX; i++) {
            if (i < keep) {
                vp_assert(vp_c09_map_key(w.map(), i) == w.first + k + i, "C09 stored stanzas keep consecutive sequence numbers in original order");
                QByteArray d = vp_c09_map_val(w.map(), i)->data();
                vp_assert(vp_c09_payload_id(&d) == k + i, "C09 stored stanzas are the uncovered ones in original order");
            }
        }
        if (newStored) {
            vp_assert(vp_c09_map_key(w.map(), keep) == w.lastOut + 1, "C09 sent stanza gets the next sequence number");
            QByteArray d = vp_c09_map_val(w.map(), keep)->data();
            vp_assert(vp_c09_payload_id(&d) == NEWID, "C09 the stored stanza is the one sent");
        }
        vp_assert(w.m->m_lastOutgoingSequenceNumber == w.lastOut + (numbered ? 1u : 0u), "C09 outgoing sequence number");
        vp_assert(vp_c09_map_n(w.map()) == 0 || w.m->m_lastOutgoingSequenceNumber == vp_c09_map_key(w.map(), vp_c09_map_n(w.map()) - 1), "C09 invariant: newest stored key equals the outgoing sequence number");
    }
    // socket log [from, total): exactly the old stanzas k..n-1 in order, then the new one if newStored; nothing else that is a stanza;
    // every <a/> carries the inbound count
    void checkResend(unsigned from, unsigned k, bool newStored)
    {
        unsigned keep = w.n - k, cnt = keep + (newStored ? 1u : 0u), total = vp_c09_sent_n();
        vp_assert(total >= from + cnt, "C09 every remaining stanza is transmitted again");
        for (unsigned q = 0; q < VP_SENT_CAP; q++) {
            if (q >= from && q < total) {
                unsigned idx = q - from, kind = vp_c09_sent_kind(q), val = vp_c09_sent_val(q);
                bool expectPkt = idx < cnt;
                unsigned expectId = idx < keep ? k + idx : NEWID;
                vp_assert((kind == K_PACKET) == expectPkt && (!expectPkt || val == expectId), "C09 resend of exactly the uncovered stanzas in original order, oldest first, before anything else; covered ones never resent");
                vp_assert(kind != K_ACK || val == w.lastIn, "C09 reported handled-count equals the number of stanzas received");
            }
        }
    }
    // socket log [from, total) contains no stanza except the first transmission of the new one (at g_logAtRun)
    void checkNoOtherStanza(unsigned from)
    {
        unsigned total = vp_c09_sent_n();
        for (unsigned q = 0; q < VP_SENT_CAP; q++) {
            if (q >= from && q < total) {
                vp_assert(vp_c09_sent_kind(q) != K_PACKET || (ran() && q == g_logAtRun), "C09 no stanza is transmitted (again) by this event beyond the expected ones");
                vp_assert(vp_c09_sent_kind(q) != K_ACK || vp_c09_sent_val(q) == w.lastIn, "C09 reported handled-count equals the number of stanzas received");
            }
        }
    }
};
