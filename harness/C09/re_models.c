/* C09 re-entrancy instances: case split on the position of the re-entrant continuation (-DRE_JFIX=j), else symbolic */
#ifndef RE_JFIX
#define RE_JFIX 0xffffffffu
#endif
uint32_t vp_re_jfix(void) { return RE_JFIX; }
