# C09 - re-entrancy (a completion handler sends a new stanza while the manager processes an event): re_h.cpp / re_common.h
SM = ['src/base/QXmppStreamManagement.cpp', 'src/base/QXmppPacket.cpp']
MODELS = ['qt_core.c', 'qt_list.c', 'qt_dom.c', 'models.c', 're_models.c']
LB = {r'ReWorld': 10, r'World8checkLog': 10}
def RB(nmax, ev):
    return ('pre-state: 1..%d unacknowledged stanzas with consecutive keys ending at lastOut (< 2^31), lastIn arbitrary; the completion handler of ONE of them (any position) '
            'sends one new stanza through the real StreamAckManager::send; event: %s; socket results arbitrary' % (nmax, ev))
def RI(e, nmax, ev, tiers=('quick', 'thorough'), **kw):
    d = dict(name=e, entry='h_' + e.split('__')[0], unwind=nmax + 4, timeout_s=240, mem_gb=4, tiers=tiers, bound=RB(nmax, ev), cdefs={'MCAP': nmax + 1})
    d.update(kw); return d
EVENTS = [
    ('re_ack', '<a h=H/> with any 32-bit H under active stream management, then connection loss and resumption with the same H'),
    ('re_setack', 'setAcknowledgedSequenceNumber(H), any H, stream management active or not'),
    ('re_resume', 'resumption: setAcknowledgedSequenceNumber(H); enableStreamManagement(false), any H, stream management active or not before'),
    ('re_reset_cache', 'resetCache() (twice)'),
]
C2S_EV = '<resumed h=H previd=../> (any H, previd <= 2 units) through the real C2sStreamManager::handleElement, stream management active or not before'
def c2s_cases(nmax, quick):
    out = []
    for n in range(1, nmax + 1):
        for j in range(n):
            q = (n, j) in quick
            out.append(RI('re_c2s_resumed__n%dj%d' % (n, j), nmax, C2S_EV + '; case: %d stored stanzas, handler on stanza %d' % (n, j), tiers=('quick', 'thorough') if q else ('thorough',),
                          cdefs={'MCAP': nmax + 1, 'RE_JFIX': j, 'VP_NFIX': n, 'MAP_APPEND_ONLY': 1}))
    return out
def cases(nmax, ns=None, tiers=('quick', 'thorough')):
    out = []
    for e, ev in EVENTS:
        for n in (ns or range(1, nmax + 1)):
            for j in range(n):
                out.append(RI('%s__n%dj%d' % (e, n, j), nmax, ev + '; case: %d stored stanzas, handler on stanza %d' % (n, j), tiers=tiers,
                              cdefs={'MCAP': nmax + 1, 'RE_JFIX': j, 'VP_NFIX': n, 'MAP_APPEND_ONLY': 1}))
    return out
HB = ('pre-state: <= %d unacknowledged stanzas (consecutive keys ending at lastOut < 2^31), enabled / lastIn arbitrary; then %d consecutive events, each any of '
      '{send a stanza, <a h=H/>, <r/>, inbound <message/>, resumption with h=H}, every H any 32-bit value, socket results arbitrary')
def hist(nmax, k, tiers, **kw):
    cap = 2 * (nmax + k) + 4
    d = dict(name='re_hist_k%dn%d' % (k, nmax), entry='h_re_hist', unwind=nmax + k + 3, timeout_s=600, timeout_thorough_s=900, mem_gb=10, object_bits=12, tiers=tiers, bound=HB % (nmax, k),
             cdefs={'MCAP': nmax + k, 'SENT_CAP': cap})
    d.update(kw)
    return dict(name='re_hist_k%dn%d' % (k, nmax), harness='re_hist.cpp', tus=SM, models=MODELS, shadow_task=True, cxxdefs={'VP_NMAX': nmax, 'VP_K': k, 'VP_SENT_CAP': cap},
                loop_bounds={r'histLog': cap + 2}, instances=[d])
GROUPS = [
    hist(2, 2, ('thorough',)), hist(3, 2, ('thorough',)),
    dict(name='re4', harness='re_h.cpp', tus=SM, models=MODELS, shadow_task=True, cxxdefs={'VP_NMAX': 4}, loop_bounds=LB,
         instances=cases(4, ns=[4], tiers=('thorough',))),
    dict(name='re_c2s', harness='re_c2s.cpp', tus=SM + ['src/client/QXmppOutgoingClient.cpp', 'src/base/QXmppUtils.cpp'], models=MODELS, shadow_task=True,
         cxxdefs={'VP_NMAX': 3}, loop_bounds=LB, instances=c2s_cases(3, {(3, 0), (3, 2), (1, 0)})),
    dict(name='re', harness='re_h.cpp', tus=SM, models=MODELS, shadow_task=True, cxxdefs={'VP_NMAX': 3}, loop_bounds=LB,
         instances=cases(3) + [
             RI('re_session_closed', 3, 'onSessionClosed()'),
             RI('re_resume_order', 3, 'as re_resume (case: 2 stored stanzas, handler on the first), plus: retransmission precedes newer traffic and every stanza written is numbered', tiers=('quick', 'thorough'), known_finding='resume_handler_sends_before_retransmission',
                cdefs={'MCAP': 4, 'RE_JFIX': 0, 'VP_NFIX': 2, 'MAP_APPEND_ONLY': 1}),
         ]),
]

BOUNDS = [
    're-entrancy (re_*): exactly ONE stored stanza (any position j) carries a completion handler, and that handler sends exactly ONE new stanza through the real StreamAckManager::send; case split over (n stored stanzas, j): quick n <= 3, thorough also n = 4; through <resumed/> (re_c2s_resumed_*) n <= 3',
    're-entrancy instances run the QMap model with -DMAP_APPEND_ONLY=1: an insert of a key that is not above all stored keys is a model limit (inconclusive) there, not a verdict',
    'histories (re_hist_k2n2, thorough): 2 consecutive events from {send a stanza, <a h/>, <r/>, inbound <message/>, resumption with h} from an arbitrary valid pre-state with n <= 2 stored stanzas',
]
ASSUMPTIONS = [
    'class-level QMap<unsigned,QXmppPacket> model (models.c): iterators are slot addresses with Qt node semantics - stable under insert and under erase of OTHER elements, end() is a fixed sentinel past every element including later inserted ones; copies are deep at copy time, so Qt\'s rule "a detach caused by a pending copy invalidates iterators" is NOT modelled',
    'a completion handler runs synchronously inside QXmppPromise::finish (task shadow, contract of C13) with the context object alive',
]
OUTSIDE = [
    'handlers that send more than one stanza, handlers on more than one stored stanza, and handlers that re-enter with anything but send (e.g. resetCache from inside a handler)',
    're-entrancy during enableStreamManagement: it reports nothing, so no handler can run inside it',
    'KNOWN FINDING resume_handler_sends_before_retransmission (instance re_resume_order demonstrates it while listed): on <resumed h/>, C2sStreamManager::onResumed runs setAcknowledgedSequenceNumber(h) while StreamAckManager::m_enabled is still false (closeSession -> onSessionClosed cleared it) and only then enableStreamManagement(false); a stanza sent by the completion handler of a stanza acknowledged by that h is therefore written BEFORE the retransmission of the older uncovered stanzas and outside the stream-management numbering (reported SendSuccess{acknowledged=false}, never stored, m_lastOutgoingSequenceNumber unchanged, although the server counts it on the resumed session)',
]
