// C09 - stream management accounting.
// Single inductive steps of the REAL StreamAckManager (QXmppStreamManagement.cpp) over the REAL QXmppPacket from an arbitrary
// valid pre-state, one event per entry point, each compared with a reference transition written from the property text.
//
// Representation invariant INV(n, lastOut) of a pre-state (asserted again as post-condition of every step):
//   the unacknowledged map holds n <= VP_NMAX entries with the consecutive keys lastOut-n+1 .. lastOut (oldest first),
//   n <= lastOut, and no stored packet has been reported yet.  enabled, lastIn are arbitrary.
// Packets are identified by a ghost id carried by their payload block (pre-state packets: 0..n-1, a newly sent one: NEWID).
#define VP_C09_HOOKS 1
#include "c09_world.h"

// ---- base case of the induction: a freshly constructed manager satisfies INV(0, 0), stream management inactive, nothing counted ----
extern "C" void h_initial()
{
    vpC09KeepHooks();
    VpRaw<FakeSock> *sb = new VpRaw<FakeSock>;
    FakeSock *s = new (sb->b) FakeSock();
    StreamAckManager *m = new StreamAckManager(*s);
    vp_assert(vp_c09_map_n(&m->m_unacknowledgedStanzas) == 0, "C09 initially nothing is stored");
    vp_assert(m->m_lastOutgoingSequenceNumber == 0 && m->m_lastIncomingSequenceNumber == 0, "C09 initially nothing is numbered or counted");
    vp_assert(!m->m_enabled, "C09 initially stream management is not active");
    vp_assert(vp_c09_sent_n() == 0, "C09 construction transmits nothing");
}
// ---- event: <a h=H/> from the server while stream management is active; H arbitrary (stale, exact, beyond) -------------------
extern "C" void h_ack_enabled()
{
    World &w = *new World(1);   // never destroyed: the step ends here
    unsigned h = vp_u32();
    QDomElement a = vpElement(QStringLiteral("a"), ns_stream_management.toString());
    QString hs = QString::number(h), hn = QStringLiteral("h");
    vp_dom_set_attr(&a, &hn, &hs);
    w.m->handleStanza(a);
    unsigned k = w.covered(h);
    w.checkReports(k, R_ACKED);                         // acknowledged <=> key <= h
    w.checkMap(w.n - k, w.first + k, k, w.lastOut);
    w.checkUnchangedCounters(true);
    w.checkLog(0, w.lastIn);                            // an ack makes the client transmit no stanza
}
// ---- <a h=H/> while stream management is not active: nothing may be reported as acknowledged beyond H ------------------------
extern "C" void h_ack_disabled()
{
    World &w = *new World(0);   // never destroyed: the step ends here
    unsigned h = vp_u32();
    QDomElement a = vpElement(QStringLiteral("a"), ns_stream_management.toString());
    QString hs = QString::number(h), hn = QStringLiteral("h");
    vp_dom_set_attr(&a, &hn, &hs);
    w.m->handleStanza(a);
    unsigned k = w.covered(h);
    // safety half only (the statement speaks about active stream management): reported => covered, and then dropped from the store
    unsigned gone = 0;
    for (unsigned i = 0; i < VP_NMAX; i++) {
        if (i < w.n) {
            Rep r = report(*w.t[i]);
            vp_assert(r == R_NONE || (r == R_ACKED && i < k), "C09 acknowledged only if covered by the handled-count");
            if (r != R_NONE) { vp_assert(i == gone, "C09 reports follow the sending order"); gone = i + 1; }
        }
    }
    w.checkMap(w.n - gone, w.first + gone, gone, w.lastOut);
    w.checkUnchangedCounters(false);
    w.checkLog(0, w.lastIn);                            // an ack makes the client transmit no stanza
}
// ---- resume accepted with h: what C2sStreamManager::onResumed does (setAcknowledgedSequenceNumber(h); enableStreamManagement(false))
extern "C" void h_setack()
{
    World &w = *new World(2);   // never destroyed: the step ends here
    unsigned h = vp_u32();
    w.m->setAcknowledgedSequenceNumber(h);
    unsigned k = w.covered(h);
    w.checkReports(k, R_ACKED);
    w.checkMap(w.n - k, w.first + k, k, w.lastOut);
    w.checkUnchangedCounters(w.enabled);
    w.checkLog(0, w.lastIn);
}
extern "C" void h_resume()
{
    World &w = *new World(2);   // never destroyed: the step ends here
    unsigned h = vp_u32();
    w.m->setAcknowledgedSequenceNumber(h);
    w.m->enableStreamManagement(false);
    unsigned k = w.covered(h);
    w.checkReports(k, R_ACKED);
    w.checkMap(w.n - k, w.first + k, k, w.lastOut);     // numbering continues on a resumed session
    w.checkUnchangedCounters(true);                      // inbound count continues as well
    w.checkResent(w.n - k, w.lastIn);                    // exactly the uncovered ones, in order; covered ones never resent
}
// ---- event: stream management enabled on the same numbering (resumed session), no ack information ---------------------------
extern "C" void h_enable_keep()
{
    World &w = *new World(2);   // never destroyed: the step ends here
    w.m->enableStreamManagement(false);
    w.checkReports(0, R_NONE);
    w.checkMap(w.n, w.first, 0, w.lastOut);
    w.checkUnchangedCounters(true);
    w.checkResent(w.n, w.lastIn);
}
// ---- event: stream management enabled on a NEW session (resume failed / not attempted): renumber from 1, counts restart -----
extern "C" void h_enable_reset()
{
    World &w = *new World(2);   // never destroyed: the step ends here
    w.m->enableStreamManagement(true);
    w.checkReports(0, R_NONE);
    w.checkMap(w.n, 1, 0, w.n);                          // keys 1..n in the original order, outgoing number = n
    vp_assert(w.m->m_enabled, "C09 stream management active after enable");
    vp_assert(w.m->m_lastIncomingSequenceNumber == 0, "C09 inbound handled-count restarts on a new session");
    w.checkResent(w.n, 0);
}
// ---- event: <r/> from the server: answered with <a h=lastIn/> --------------------------------------------------------------
extern "C" void h_request()
{
    World &w = *new World(2);   // never destroyed: the step ends here
    QDomElement r = vpElement(QStringLiteral("r"), ns_stream_management.toString());
    w.m->handleStanza(r);
    if (w.enabled) {
        bool answered = false;
        for (unsigned j = 0; j < VP_SENT_CAP; j++) if (j < vp_c09_sent_n() && vp_c09_sent_kind(j) == K_ACK) answered = true;
        vp_assert(answered, "C09 with stream management active <r/> is answered with <a/>");
    }
    w.checkLog(0, w.lastIn);                            // every <a/> carries the number of stanzas received; no stanza is written
    w.checkReports(0, R_NONE);
    w.checkMap(w.n, w.first, 0, w.lastOut);
    w.checkUnchangedCounters(w.enabled);
}
// ---- event: any other inbound top-level element: counted iff message / presence / iq -----------------------------------------
extern "C" void h_inbound()
{
    World &w = *new World(2);   // never destroyed: the step ends here
    QString tag = vpSymString(8);
    unsigned nsSel = vp_u32() % 3;
    QString ns = nsSel == 0 ? ns_client.toString() : nsSel == 1 ? ns_stream_management.toString() : vpSymString(2);
    bool isSm = ns == ns_stream_management;
    vp_assume(!(isSm && (tag == u"a" || tag == u"r")));   // those two are the events h_ack_* / h_request
    QDomElement e = vpElement(tag, ns);
    w.m->handleStanza(e);
    bool stanza = tag == u"message" || tag == u"presence" || tag == u"iq";
    vp_assert(w.m->m_lastIncomingSequenceNumber == w.lastIn + (stanza ? 1u : 0u), "C09 handled-count counts exactly message, presence and iq");
    vp_assert(w.m->m_enabled == w.enabled, "C09 stream-management activity flag");
    w.checkLog(0, w.lastIn + (stanza ? 1u : 0u));
    w.checkReports(0, R_NONE);
    w.checkMap(w.n, w.first, 0, w.lastOut);
}
// ---- event: the application sends a packet (stanza or nonza; stream management active or not; write succeeds or fails) ------
static void sendStep(int mode)
{
    World &w = *new World(2);   // never destroyed: the step ends here
    bool isStanza = vp_bool();
    QXmppPromise<SendResult> p;
    Task mine = p.task();
    QByteArray payload; vp_c09_payload(&payload, NEWID);
    QXmppPacket pkt(payload, isStanza, std::move(p));
    std::optional<Task> ret;
    if (mode == 0) { ret.emplace(w.m->send(std::move(pkt))); }
    else { w.m->sendPacketCompat(std::move(pkt)); }
    bool store = w.enabled && isStanza;
    vp_assert(vp_c09_sent_n() >= 1 && vp_c09_sent_kind(0) == K_PACKET && vp_c09_sent_val(0) == NEWID, "C09 the packet itself is written");
    w.checkLog(1, w.lastIn);                            // ... once, and no older stanza is transmitted again by a send
    bool ok = vp_c09_sent_ok(0);
    Rep r = report(mine);
    if (store) {
        vp_assert(r == R_NONE, "C09 a stanza sent under stream management is not reported before it is acked");
        vp_assert(vp_c09_map_n(w.map()) == w.n + 1, "C09 sent stanza is stored");
        vp_assert(vp_c09_map_key(w.map(), w.n) == w.lastOut + 1, "C09 sent stanza gets the next sequence number");
        QByteArray d = vp_c09_map_val(w.map(), w.n)->data();
        vp_assert(vp_c09_payload_id(&d) == NEWID, "C09 the stored stanza is the one sent");
        vp_assert(w.m->m_lastOutgoingSequenceNumber == w.lastOut + 1, "C09 outgoing sequence number advances by one");
        // older entries untouched
        for (unsigned j = 0; j < VP_NMAX; j++) {
            if (j < w.n) {
                vp_assert(vp_c09_map_key(w.map(), j) == w.first + j, "C09 older stored stanzas keep their numbers");
                QByteArray dj = vp_c09_map_val(w.map(), j)->data();
                vp_assert(vp_c09_payload_id(&dj) == j, "C09 older stored stanzas keep their order");
            }
        }
    } else {
        vp_assert(r == (ok ? R_SENT : R_ERROR), "C09 an unstored packet is reported immediately, never as acknowledged");
        w.checkMap(w.n, w.first, 0, w.lastOut);
    }
    if (mode == 0) vp_assert(report(*ret) == r, "C09 send() returns the packet's own report");
    w.checkReports(0, R_NONE);
    w.checkUnchangedCounters(w.enabled);
}
extern "C" void h_send() { sendStep(0); }
extern "C" void h_send_compat() { sendStep(1); }
// ---- event: connection loss --------------------------------------------------------------------------------------------------
extern "C" void h_session_closed()
{
    World &w = *new World(2);   // never destroyed: the step ends here
    w.m->onSessionClosed();
    w.checkReports(0, R_NONE);                           // unacked stanzas are kept for a later resume / new session
    w.checkMap(w.n, w.first, 0, w.lastOut);
    w.checkUnchangedCounters(false);
    w.checkLog(0, w.lastIn);
}
// ---- event: the client gives up the session (disconnect / destruction): everything pending fails, exactly once --------------
extern "C" void h_reset_cache()
{
    World &w = *new World(2);   // never destroyed: the step ends here
    w.m->resetCache();
    w.checkReports(w.n, R_ERROR);                        // reported, but never as acknowledged
    w.checkMap(0, w.first, 0, w.lastOut);
    w.checkUnchangedCounters(w.enabled);
    w.checkLog(0, w.lastIn);
    w.m->resetCache();                                   // a second call finds nothing to report (no report fires twice)
    w.checkReports(w.n, R_ERROR);
}
// ---- two consecutive events (composition check of two steps; thorough tier only): send a stanza under stream management, then
//      the server acks with an arbitrary h: the new stanza is acknowledged iff lastOut+1 <= h, older ones as in h_ack_enabled ---------
extern "C" void h_send_then_ack()
{
    World &w = *new World(1);
    QXmppPromise<SendResult> p;
    QByteArray payload; vp_c09_payload(&payload, NEWID);
    Task mine = w.m->send(QXmppPacket(payload, true, std::move(p)));
    vp_assert(report(mine) == R_NONE, "C09 a stanza sent under stream management is not reported before it is acked");
    unsigned h = vp_u32();
    w.m->setAcknowledgedSequenceNumber(h);
    unsigned k = w.covered(h);
    bool newCovered = w.lastOut + 1 <= h;
    w.checkReports(k, R_ACKED);
    vp_assert(report(mine) == (newCovered ? R_ACKED : R_NONE), "C09 the new stanza is acknowledged exactly when the handled-count covers its number");
    vp_assert(vp_c09_map_n(w.map()) == (w.n - k) + (newCovered ? 0u : 1u), "C09 unacknowledged store holds exactly the stanzas not yet covered");
    vp_assert(!newCovered || k == w.n, "C09 acknowledgement is cumulative");
}
// ---- three consecutive events (thorough tier only): connection loss; a stanza sent while stream management is not active (reported at
//      once, never stored, never resent); new session with stream management: exactly the old unacked stanzas are resent, renumbered ----
extern "C" void h_close_send_enable()
{
    World &w = *new World(1);
    w.m->onSessionClosed();
    QXmppPromise<SendResult> p;
    QByteArray payload; vp_c09_payload(&payload, NEWID);
    Task mine = w.m->send(QXmppPacket(payload, true, std::move(p)));
    bool ok = vp_c09_sent_ok(0);
    vp_assert(report(mine) == (ok ? R_SENT : R_ERROR), "C09 an unstored packet is reported immediately, never as acknowledged");
    unsigned before = vp_c09_sent_n();
    vp_assert(before >= 1 && vp_c09_sent_kind(0) == K_PACKET && vp_c09_sent_val(0) == NEWID, "C09 the packet itself is written");
    w.m->enableStreamManagement(true);
    w.checkReports(0, R_NONE);
    w.checkMap(w.n, 1, 0, w.n);
    unsigned total = vp_c09_sent_n();
    vp_assert(total >= before + w.n, "C09 every remaining stanza is transmitted again");
    for (unsigned j = 0; j < VP_SENT_CAP; j++) {
        if (j >= before && j < total) {
            if (j < before + w.n) vp_assert(vp_c09_sent_kind(j) == K_PACKET && vp_c09_sent_val(j) == j - before, "C09 resend of exactly the uncovered stanzas in original order, oldest first, before anything else");
            else vp_assert(vp_c09_sent_kind(j) != K_PACKET, "C09 no stanza is transmitted (again) by this event beyond the expected ones");
        }
    }
}
