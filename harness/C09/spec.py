# C09 - stream management accounting: single inductive steps (see h.cpp / h_c2s.cpp / c09_world.h)
def bound(nmax):
    return ('pre-state: <= %d unacknowledged stanzas with consecutive keys ending at lastOut, lastOut and lastIn < 2^31, enabled arbitrary '
            '(unless the event fixes it), h / element names / socket results arbitrary; exactly one event' % nmax)
def I(e, nmax, tiers, **kw):
    d = dict(name=e + ('' if 'quick' in tiers else '_n%d' % nmax), entry='h_' + e, unwind=nmax + 3, timeout_s=240, mem_gb=4 if nmax <= 4 else 8, tiers=tiers,
             bound=bound(nmax), cdefs={'MCAP': nmax + 1})
    d.update(kw); return d
STEPS = ['initial', 'ack_enabled', 'ack_disabled', 'setack', 'resume', 'enable_keep', 'enable_reset', 'request', 'inbound', 'send', 'send_compat', 'session_closed', 'reset_cache']
C2S = ['resumed', 'resume_failed', 'enabled', 'request_resume']
SM = ['src/base/QXmppStreamManagement.cpp', 'src/base/QXmppPacket.cpp']
MODELS = ['qt_core.c', 'qt_dom.c', 'models.c']
LB = {r'World8checkLog': 10, r'^h_request$': 10, r'^h_close_send_enable$': 10}   # harness loops over the socket log (capacity 8)
def groups(nmax, tiers, sfx):
    return [
        dict(name='step' + sfx, harness='h.cpp', tus=SM, models=MODELS, shadow_task=True, cxxdefs={'VP_NMAX': nmax}, loop_bounds=LB,
             instances=[I(e, nmax, tiers) for e in STEPS] + ([I(e, nmax, ('thorough',), timeout_s=200, timeout_thorough_s=600, mem_gb=8) for e in ['send_then_ack', 'close_send_enable']] if 'quick' in tiers else [])),
        dict(name='c2s' + sfx, harness='h_c2s.cpp', tus=SM + ['src/client/QXmppOutgoingClient.cpp', 'src/base/QXmppUtils.cpp'], models=MODELS, shadow_task=True,
             cxxdefs={'VP_NMAX': nmax}, loop_bounds=LB, instances=[I('c2s_' + e, nmax, tiers) for e in C2S]),
    ]
SESS = ['ack_newsession_ack', 'ack_newsession_resume']
def sess(nmax, tiers, sfx):
    cap = 2 * nmax + 6   # socket log: resend on the new session + <r/>, one send + <r/>, resend on resumption + <r/>
    return [dict(name='sess' + sfx, harness='h_sess.cpp', tus=SM, models=MODELS, shadow_task=True, cxxdefs={'VP_NMAX': nmax, 'VP_SENT_CAP': cap},
                 loop_bounds={r'checkLastLog': cap + 2},
                 instances=[I(e, nmax, tiers, cdefs={'MCAP': nmax + 1, 'SENT_CAP': cap}, mem_gb=6, timeout_thorough_s=900,
                              bound='pre-state as in the steps with n <= %d and stream management active; events: <a h=H1/>, connection loss, enable on a new session, optionally one send, then <a h=H2/> resp. resumed(h=H2); H1, H2 arbitrary' % nmax) for e in SESS])]
SPEC = dict(
    property='C09',
    groups=groups(4, ('quick', 'thorough'), '') + sess(3, ('quick', 'thorough'), '') + sess(4, ('thorough',), '4') + groups(6, ('thorough',), '6'),
    bounds=[
        'one event per instance, applied to an ARBITRARY pre-state satisfying the representation invariant INV: the unacknowledged store holds n <= 4 (quick) / n <= 6 (thorough groups *6) stanzas with consecutive keys lastOut-n+1..lastOut, n <= lastOut, none of them reported yet; enabled flag arbitrary; lastOut, lastIn < 2^31',
        'every step asserts INV again for its post-state and h_initial proves INV for a fresh manager, so by induction the per-event claims hold along every event sequence that never has more than 4 (6) unacknowledged stanzas pending',
        'ack / resumed handled-count h: any 32-bit value (stale, exact, beyond); inbound element: tag of <= 8 arbitrary UTF-16 units, namespace jabber:client | urn:xmpp:sm:3 | <= 2 arbitrary units; every socket write succeeds or fails nondeterministically; previd / id strings <= 2 arbitrary units',
        'composed runs crossing a session boundary (ack_newsession_ack / ack_newsession_resume; quick n <= 3, thorough also n <= 4): <a h=H1/>, connection loss, stream management enabled on a new session (renumbering), optionally one send, then <a h=H2/> resp. resumed(h=H2), H1 and H2 arbitrary - they let state that a code change adds to the manager be built up by one session and observed in the next',
        'thorough only: two / three consecutive events composed in one run (send_then_ack, close_send_enable)',
        'socket log capacity 8 writes (2n+6 in the composed session runs), QMap model capacity n+1 entries (both asserted as model limits)',
    ],
    assumptions=[
        'QXmppTask/QXmppPromise are the assume-guarantee shadow (models/shadow/task_shadow.h; its contract is established for the real classes by C13); the shadow itself asserts that no promise is finished twice = "no report fires twice"',
        'QMap<unsigned,QXmppPacket> is a class-level model (ordered array with value semantics, elements copied/destroyed by the REAL QXmppPacket copy constructor/destructor) installed over the inline QMap members; QXmppPacket itself (QXmppPacket.cpp) is real',
        'ShadowRef<SendResult>::release of the task shadow is modelled as "decrement, never free": dropping the last reference only reclaims memory and is not observable by C09 (halves cost); no memory-leak check is claimed',
        'packet payloads are opaque one-byte blocks carrying a ghost id; XmppSocket::sendData is a ghost log with a nondeterministic result (FakeSock subclass in the harness, XmppSocket constructor modelled empty)',
        'serializeXml<SmAck|SmRequest|SmResume|SmEnable> run the REAL toXml into the writer tree model and the document is classified structurally (<a h=N/>, <r/>, <resume h=N previd/>, <enable/>); Qt text encoding and number formatting/parsing are trusted (abstract number strings)',
        'c2s group: QXmppOutgoingClient / QXmppOutgoingClientPrivate are raw storage in which only d, d->socket and d->streamAckManager are alive; QXmppLoggable::logMessage is empty; conditionFromString (error condition inside <failed/>) returns an arbitrary value',
    ],
    outside=[
        'wrap-around of the 32-bit counters at 2^32 (XEP-0198 wraps, the code does not): pre-states are limited to counters < 2^31',
        'more than 4 (6) unacknowledged stanzas pending at once; general event histories beyond the inductive argument and the two composed runs of the thorough tier',
        'the namespace of inbound message/presence/iq elements is not distinguished (the reference counts by tag name, as the property text does)',
        'ack requests <r/> sent by the client, ping timers, and whether <r/> is answered while stream management is inactive are mechanisms outside the statement: no assertion depends on them',
        'C2sStreamManager: the SASL2 / Bind2 inline variants (onSasl2Success, onBind2Bound) call the same onResumed/onEnabled and are not run separately; the location attribute of <enabled/> (setResumeAddress, QUrl) is left empty',
        'who calls onSessionClosed / resetCache / enableStreamManagement in QXmppOutgoingClient (connection-loss handling) belongs to C10',
    ],
)
