NMAX = 3
BOUND = 'pre-state: <= %d unacknowledged stanzas with consecutive keys ending at lastOut, lastOut and lastIn < 2^31, enabled arbitrary; one event' % NMAX
def I(e, **kw):
    d = dict(name=e, entry='h_' + e, unwind=6, timeout_s=240, mem_gb=4, tiers=('quick', 'thorough'), bound=BOUND)
    d.update(kw); return d
STEPS = ['ack_enabled', 'ack_disabled', 'setack', 'resume', 'enable_keep', 'enable_reset', 'request', 'inbound', 'send', 'send_compat', 'session_closed', 'reset_cache']
C2S = ['resumed', 'resume_failed', 'enabled', 'request_resume']
SPEC = dict(
    property='C09',
    groups=[
        dict(name='step', harness='h.cpp', tus=['src/base/QXmppStreamManagement.cpp', 'src/base/QXmppPacket.cpp'],
             models=['qt_core.c', 'qt_dom.c', 'models.c'], shadow_task=True, cxxdefs={'VP_NMAX': NMAX},
             instances=[I(e) for e in STEPS]),
        dict(name='c2s', harness='h_c2s.cpp', tus=['src/base/QXmppStreamManagement.cpp', 'src/base/QXmppPacket.cpp', 'src/client/QXmppOutgoingClient.cpp', 'src/base/QXmppUtils.cpp'],
             models=['qt_core.c', 'qt_dom.c', 'models.c'], shadow_task=True, cxxdefs={'VP_NMAX': NMAX},
             instances=[I('c2s_' + e) for e in C2S]),
    ],
    bounds=[], assumptions=[], outside=[],
)
